(* C08_Wire.v — wire glue for C08 (no proofs; exercised by the correspondence).

   input  = [mode; expTime; cleanupInt; nk] ++ op records of width 5
            (table in harness/c08.go, kept in step)
     mode 0  time-free stream: no operation gets near a deadline; the model
             runs on a synthetic clock (1001, 1002, …) and the observation
             carries no clock value at all
     mode 1  timed stream (no janitor): the observation starts with one clock
             record [before; after; deadline] per operation (+1 for the final
             observation) measured by the harness (absolute UnixNano values, so
             that the model's int64 arithmetic on now + d is the code's;
             deadline = the stored deadline read through the verif hook after a
             storing call); the model is run at instants taken from those records
     mode 2  janitor stream: as mode 1, plus Await records
               [lastSeenStored; firstSeenAbsent; machineTooSlow]
             (-1 = never); see [await_op]
     range records (codes 14-17) stand for n consecutive keys k0 .. k0+n-1 with
             the values [rng_val vpat i]: 14 is ONE MapToCache call with an
             n-entry map, 15/16/17 are n Set/Update/Delete calls (each with its
             own result and, in modes 1 and 2, its own clock record)
   values  = codes: 0 is the empty string, c > 0 a distinct non-empty string;
             so V := Z and rejects := (=? 0)
   output  = [clock records (modes 1,2)] ++ main ++ enc_zs kinds
     main  = per-op results (errors collapsed to [1;1]) ++ final observation
     kinds = the error enum of every error of main, in order (only [agree]
             compares them; the property text does not distinguish errors)

   A timed case is DISCARDED as undecidable (agree = holds = true; the harness
   re-runs it up to six times first, then drops it and counts it) when
     - a stored deadline lies inside the [before, after] bracket of a call:
       wall-clock bracketing cannot decide on which side of the deadline the
       call read the clock (also when the clock stepped backwards);
     - an Await gave up after the deadline but before deadline + 2 intervals +
       slack, or the janitor was late while the harness's reference ticker was
       late too (machine too slow);
     - (janitor stream) the entry a call stored had expired and been purged
       before the harness could read its deadline.
   Nothing the harness can legitimately produce makes the walk fail
   ([w_ok] = false) on a correct implementation. *)

From Gogu Require Import Base C08_Model.
Local Open Scope Z_scope.

Definition rej (v : Z) : bool := v =? 0.
Definition zc := cache Z.

Inductive wop :=
| WOp (o : op Z)
| WSleep (ns : Z)
| WAwait (k maxw : Z)
| WBad.

Definition mk_map (v0 v1 v2 : Z) : list (Z * Z) :=
  (if v0 <? 0 then [] else [(0, v0)]) ++
  (if v1 <? 0 then [] else [(1, v1)]) ++
  (if v2 <? 0 then [] else [(2, v2)]).

(* values of a range record: vpat > 0: the distinct accepted values vpat + i;
   vpat <= 0: every fifth value is the rejected one *)
Definition rng_val (vpat i : Z) : Z :=
  if vpat >? 0 then vpat + i else if i mod 5 =? 2 then 0 else 100 + i.

Fixpoint zseq (start : Z) (n : nat) : list Z :=
  match n with O => [] | S n' => start :: zseq (start + 1) n' end.

Definition rng_len (n : Z) : nat := Z.to_nat (Z.min (Z.max n 0) 4096).

Definition decode_op (r : list Z) : wop :=
  match r with
  | [code; a; b; c; d] =>
      match code with
      | 1 => WOp (OSet Z a b c)
      | 2 => WOp (OSetDefault Z a b)
      | 3 => WOp (OUpdate Z a b c)
      | 4 => WOp (OGet a)
      | 5 => WOp (ODelete a)
      | 6 => WOp ODeleteExpired
      | 7 => WOp OFlush
      | 8 => WOp OList
      | 9 => WOp OCount
      | 10 => WOp (OMapToCache Z (mk_map a b c) d)
      | 11 => WOp (OIsExpired a)
      | 12 => WSleep a
      | 13 => WAwait a b
      | 14 => WOp (OMapToCache Z (map (fun i => (a + i, rng_val c i)) (zseq 0 (rng_len b))) d)
      | _ => WBad
      end
  | _ => WBad
  end.

Definition decode_ops (r : list Z) : list wop :=
  match r with
  | [code; a; b; c; d] =>
      match code with
      | 15 => map (fun i => WOp (OSet Z (a + i) (rng_val c i) d)) (zseq 0 (rng_len b))
      | 16 => map (fun i => WOp (OUpdate Z (a + i) (rng_val c i) d)) (zseq 0 (rng_len b))
      | 17 => map (fun i => WOp (ODelete (a + i))) (zseq 0 (rng_len b))
      | _ => [decode_op r]
      end
  | _ => [WBad]
  end.

(* List is printed sorted by key (Go's map order is not an observable) *)
Fixpoint ins_kv (e : Z * Z) (l : list (Z * Z)) : list (Z * Z) :=
  match l with
  | [] => [e]
  | x :: l' => if fst e <=? fst x then e :: l else x :: ins_kv e l'
  end.
Definition sort_kv (l : list (Z * Z)) : list (Z * Z) := fold_right ins_kv [] l.

(* result ↦ (main tokens, error kinds) *)
Definition enc_err (e : option Z) : list Z * list Z :=
  match e with None => ([0], []) | Some k => ([1; 1], [k]) end.

Definition enc_out (x : out Z) : list Z * list Z :=
  match x with
  | RErr e => enc_err e
  | RGet (Some it, _) => ([0; object it], [])
  | RGet (None, Some k) => ([1; 1], [k])
  | RGet (None, None) => ([1; 1], [0])
  | RList l =>
      (Z.of_nat (length l) ::
       flat_map (fun e => [fst e; snd e]) (sort_kv (map (fun e => (fst e, object (snd e))) l)), [])
  | RCount n => ([n], [])
  | RBool b => (enc_bool b, [])
  | RUnit => ([], [])
  end.

Definition upto (n : nat) : list Z := zseq 0 n.

(* the end-of-case observation: Count, List, then Get and IsExpired of every
   key of the pool; in the janitor stream only the Gets (whether an expired
   entry is still stored depends on when the ticker fired) *)
Definition final_obs (mode : Z) (c : zc) (nk : nat) (now : Z) : list (out Z) :=
  (if mode =? 2 then [] else [RCount (count c); RList (list_ c)]) ++
  flat_map (fun k => RGet (get c k now) ::
                     (if mode =? 2 then [] else [RBool (is_expired c k now)])) (upto nk).

(* walker state *)
Record wst := mkW {
  w_c : zc;
  w_main : list (list Z);    (* reversed chunks *)
  w_kinds : list (list Z);   (* reversed chunks *)
  w_clk : list (list Z);     (* reversed clock records actually used *)
  w_amb : bool;              (* a deadline fell inside a bracket: discard *)
  w_ok : bool;               (* internal consistency checks *)
  w_last : Z;                (* latest instant seen *)
  w_rest : list Z            (* measured clock words still to consume *)
}.

(* janitor stream: whether Get finds an expired entry still stored ("expired")
   or already purged ("not found") depends on when the ticker fired *)
Definition jan_kind (mode k : Z) : Z := if (mode =? 2) && (k =? E_EXPIRED) then E_NOTFOUND else k.

Definition emit (mode : Z) (s : wst) (xs : list (out Z)) : wst :=
  let e := map enc_out xs in
  mkW (w_c s) (flat_map fst e :: w_main s) (map (jan_kind mode) (flat_map snd e) :: w_kinds s)
      (w_clk s) (w_amb s) (w_ok s) (w_last s) (w_rest s).

(* the key and duration argument of an operation that stores at most one entry *)
Definition store_key (o : op Z) : option (Z * Z) :=
  match o with
  | OSet _ k _ d => Some (k, d)
  | OSetDefault _ k _ => Some (k, 0)
  | OUpdate _ k _ d => Some (k, d)
  | OMapToCache _ [(k, _)] d => Some (k, d)
  | _ => None
  end.

Definition multi_map (o : op Z) : bool :=
  match o with
  | OMapToCache _ (_ :: _ :: _) _ => true
  | _ => false
  end.

Definition exp_at (c : zc) (k : Z) : Z :=
  match al_get k (items c) with Some it => expiration it | None => -2 end.

Definition in_bracket (c : zc) (b a : Z) : bool :=
  existsb (fun e => let x := expiration (snd e) in (x >? 0) && (b <=? x) && (x <=? a)) (items c).

Definition slack : Z := 20000000.

(* next clock record: measured (given = true) or to be synthesised *)
Definition pop3 (s : wst) : option (Z * Z * Z) * list Z :=
  match w_rest s with
  | x :: y :: z :: r => (Some (x, y, z), r)
  | _ => (None, [])
  end.

Definition set_c (s : wst) (c : zc) : wst :=
  mkW c (w_main s) (w_kinds s) (w_clk s) (w_amb s) (w_ok s) (w_last s) (w_rest s).

Definition timed_op (mode : Z) (given : bool) (s : wst) (o : op Z) : wst :=
  let c := w_c s in
  let '(rec, rest) := pop3 s in
  let okrec := negb given || is_some rec in
  let '(b, a, eg) := match rec with Some r => r | None => (0, 0, 0) end in
  let b := if given then b else w_last s + 1 in
  let a := if given then a else b in
  let mono := (w_last s <=? b) && (b <=? a) in
  let amb := in_bracket c b a || negb mono in
  (* first run at [b] to learn whether a positive deadline gets stored *)
  let '(c1, x1) := step Z rej c o b in
  let '(now, e_used, chk, gone_early) :=
    match store_key o with
    | Some (k, d) =>
        let ex := exp_of c d b in
        let stored := match x1 with RErr None => true | _ => false end in
        if stored && (ex >? 0) then
          if given && (mode =? 2) && (eg =? -2) then
            (* janitor stream: the harness reads the stored deadline AFTER the
               call; on a slow machine the entry can have expired and been
               purged by then (-2 = absent): the instant of the store cannot be
               recovered, the case is undecidable *)
            (b, eg, true, true)
          else
          let e := if given then eg else ex in
          let now := e - (ex - b) in
          (now, e, (b <=? now) && (now <=? a), false)
        else
          let m := exp_at c1 k in
          let e := if given then eg else m in
          (b, e, (mode =? 2) || ((e <=? 0) && (m <=? 0)) || (e =? m), false)
    | None =>
        (* a MapToCache with several entries makes several Sets, each reading
           the clock: decidable from one bracket only when no deadline is
           stored (then the instants matter only for the liveness tests, which
           [amb] covers) *)
        (b, 0, negb (multi_map o) || (match o with OMapToCache _ _ d => exp_of c d b <=? 0 | _ => false end), false)
    end in
  let '(c2, x2) := step Z rej c o now in
  let s' := mkW c2 (w_main s) (w_kinds s) ([b; a; e_used] :: w_clk s)
                (w_amb s || amb || gone_early) (w_ok s && okrec && chk) (Z.max (w_last s) a) rest in
  emit mode s' [x2].

(* Await k: the harness polls (through the hook) until key k is no longer
   stored or until it gives up, and reports
     tl  the last instant at which it SAW the key stored   (-1: never saw it)
     tg  the first instant at which it saw the key absent  (-1: gave up)
     slow  1 when a reference ticker of the same period, run by the harness
           next to the cache's, was itself delayed by more than slack/2 during
           the case: the machine was too loaded to blame the janitor
   The janitor is late — the only thing judged about WHEN it runs — iff the key,
   stored with the positive deadline ex, was still SEEN stored after
   ex + 2*cleanupInt + slack.  When the key is first looked at after that
   bound and found absent (tl = -1) nothing can be said against the janitor.
   Late on a machine that was too slow: undecidable, the case is discarded. *)
Definition await_op (given : bool) (s : wst) (k maxw : Z) : wst :=
  let c := w_c s in
  let '(rec, rest) := pop3 s in
  let okrec := negb given || is_some rec in
  let ci := cleanupInt c in
  let ex := exp_at c k in
  (* synthesised record: an expiring entry is seen gone just after its deadline *)
  let syn := if ex >? 0 then ((if w_last s <=? ex then ex else -1), Z.max (w_last s) ex + 1, 0)
             else if ex =? -2 then (-1, w_last s + 1, 0)
             else (w_last s + maxw, -1, 0) in
  let '(tl, tg, slow) := match rec with Some r => if given then r else syn | None => syn end in
  let late := (ex >? 0) && (tl >? ex + 2 * ci + slack) in
  let lamb := late && (slow =? 1) in
  if tg >=? 0 then
    (* seen absent at tg: some firing of the ticker at an instant <= tg removed
       it — which a tick may do only to an entry past its deadline at tg *)
    let c' := tick c tg in
    let gone := negb (is_some (al_get k (items c'))) in
    mkW c' (w_main s) (w_kinds s) ([tl; tg; slow] :: w_clk s) (w_amb s || lamb)
        (w_ok s && okrec && gone && negb late && (tl <? tg)) (Z.max (w_last s) tg) rest
  else
    (* still stored when the harness gave up at tl *)
    let '(amb, ok) :=
      if ex >? 0 then
        (if late then (lamb, false)                          (* outlived deadline + 2 intervals + slack *)
         else if tl <=? ex then (false, true)                (* gave up before the deadline: rightly stored *)
         else (true, true))                                  (* gave up too early to decide *)
      else if ex =? -2 then (false, false)                   (* the model has no such key: it cannot be seen stored *)
      else (false, true) in
    mkW c (w_main s) (w_kinds s) ([tl; tg; slow] :: w_clk s) (w_amb s || amb)
        (w_ok s && okrec && ok) (Z.max (w_last s) tl) rest.

Definition walk_op (mode : Z) (given : bool) (s : wst) (w : wop) : wst :=
  match w with
  | WOp o =>
      if mode =? 0 then
        let now := w_last s + 1 in
        let '(c', x) := step Z rej (w_c s) o now in
        emit mode (mkW c' (w_main s) (w_kinds s) (w_clk s) (w_amb s) (w_ok s) now (w_rest s)) [x]
      else timed_op mode given s o
  | WSleep ns =>
      if mode =? 0 then mkW (w_c s) (w_main s) (w_kinds s) (w_clk s) (w_amb s) false (w_last s) (w_rest s)
      else if given then s
      else mkW (w_c s) (w_main s) (w_kinds s) (w_clk s) (w_amb s) (w_ok s) (w_last s + Z.max ns 0) (w_rest s)
  | WAwait k maxw =>
      if mode =? 2 then await_op given s k maxw
      else mkW (w_c s) (w_main s) (w_kinds s) (w_clk s) (w_amb s) false (w_last s) (w_rest s)
  | WBad => mkW (w_c s) (w_main s) (w_kinds s) (w_clk s) (w_amb s) false (w_last s) (w_rest s)
  end.

Definition walk_final (mode : Z) (given : bool) (nk : nat) (s : wst) : wst :=
  if mode =? 0 then emit mode s (final_obs mode (w_c s) nk (w_last s + 1))
  else
    let '(rec, rest) := pop3 s in
    let okrec := negb given || is_some rec in
    let '(b, a, _) := match rec with Some r => r | None => (0, 0, 0) end in
    let b := if given then b else w_last s + 1 in
    let a := if given then a else b in
    let mono := (w_last s <=? b) && (b <=? a) in
    let amb := in_bracket (w_c s) b a || negb mono in
    emit mode (mkW (w_c s) (w_main s) (w_kinds s) ([b; a; 0] :: w_clk s) (w_amb s || amb)
              (w_ok s && okrec) a rest)
         (final_obs mode (w_c s) nk b).

Record wres := mkR { r_clk : list Z; r_main : list Z; r_kinds : list Z; r_amb : bool; r_ok : bool }.

(* number of clock records a case carries: one per non-Sleep op, one final *)
Definition is_sleep (w : wop) : bool := match w with WSleep _ => true | _ => false end.

Definition walk (w : list Z) (clk : option (list Z)) : option wres :=
  match w with
  | mode :: e :: ci :: nk :: ops =>
      if (0 <=? mode) && (mode <=? 2) && (0 <=? nk) && (nk <=? 4096) &&
         (Nat.eqb (Nat.modulo (length ops) 5) 0) then
        let wops := flat_map decode_ops (chunks 5 ops) in
        let given := is_some clk in
        let s0 := mkW (new e ci) [] [] [] false true 1000 (match clk with Some l => l | None => [] end) in
        let s1 := fold_left (walk_op mode given) wops s0 in
        let s2 := walk_final mode given (Z.to_nat nk) s1 in
        Some (mkR (concat (rev (w_clk s2))) (concat (rev (w_main s2))) (concat (rev (w_kinds s2)))
                  (w_amb s2) (w_ok s2 && match w_rest s2 with [] => true | _ => false end))
      else None
  | _ => None
  end.

Definition nrec (w : list Z) : nat :=
  match w with
  | mode :: _ :: _ :: _ :: ops =>
      if mode =? 0 then O
      else S (length (filter (fun w => negb (is_sleep w)) (flat_map decode_ops (chunks 5 ops))))
  | _ => O
  end.

Definition c08_run (w : list Z) : list Z :=
  match walk w None with
  | Some r => if r_ok r then r_clk r ++ r_main r ++ enc_zs (r_kinds r) else wire_error
  | None => wire_error
  end.

(* split an observation into its clock section and the rest, re-run the model
   at the measured instants *)
Definition judge (w obs : list Z) : option (wres * list Z) :=
  let n := (3 * nrec w)%nat in
  if Nat.ltb (length obs) n then None
  else
    match walk w (Some (firstn n obs)) with
    | Some r => Some (r, skipn n obs)
    | None => None
    end.

Definition c08_agree (w obs : list Z) : bool :=
  match judge w obs with
  | Some (r, rest) => r_amb r || (r_ok r && zlist_eqb rest (r_main r ++ enc_zs (r_kinds r)))
  | None => false
  end.

(* The model refines the reference machine (C08_Props.C08_refines_spec) and the
   property determines every result in [main] (values, error yes/no, counts,
   listed entries, IsExpired) — so the property holds on an observation iff its
   [main] part is the model's; the error kinds are not part of the property. *)
Definition c08_holds (w obs : list Z) : bool :=
  match judge w obs with
  | Some (r, rest) =>
      r_amb r || (r_ok r && zlist_eqb (firstn (length (r_main r)) rest) (r_main r)
                  && Nat.leb (length (r_main r)) (length rest))
  | None => false
  end.
