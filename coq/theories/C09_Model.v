(* C09_Model.v — trie.Trie (ternary search tree over the bytes of the key),
   transcribed statement by statement from /repo/trie/trie.go as of commit
   7fb0178 (line numbers below are those of that file), i.e. AFTER the repairs
   of defects #22, #23 and #24 of DESIGN §7:

     #22  Get:      if x == nil || err != nil || !x.isValid { return v, false }
                    (was: without the isValid test, so every node on the path
                    of a stored key — e.g. "ab" after Put("abc") — was reported
                    as a stored key, and Put, which counts with Contains,
                    under-counted afterwards)
     #23  collect:  prefix + K([]byte{n.c})
                    (was: prefix + K(n.c), an integer-to-string conversion, i.e.
                    the UTF-8 encoding of the code point n.c: two bytes for
                    every byte >= 0x80)
     #24  Put:      t.mu.Lock(); defer t.mu.Unlock()
                    if !t.contains(key) { t.n++ }; t.root = t.root.put(t, key, val, 0, true)
                    (was: counting through the exported Contains in a critical
                    section of its own, so that two concurrent Puts of one new
                    key counted it twice.)  The membership test is now the
                    unexported helper [contains] (trie.go:100-107), which reads
                    the node directly; it is transcribed as [contains_locked]
                    below and is a different function from the exported
                    Contains (trie.go:76-83), which still goes through Get.
                    Sequentially both compute the same boolean
                    (C09_Proofs.contains_locked_eq).

   Keys are byte strings, [list Z] with one Z (0..255) per byte; nothing below
   depends on the range.  Values are any type V.  Pointers are only built
   downward (n.left = n.left.put(..)), so the tree is a Gallina inductive.  The
   Item.key field of a node is written by newNode and never read: not modelled.
   [n] is the separate counter of the Go struct, updated exactly where the Go
   code updates it.  The result queue (queue.Queue, FIFO) handed to New is
   cleared at the start of Keys/StartsWith, filled by Enqueue and drained by the
   caller: modelled as the list of enqueued keys in order (the harness puts the
   drained keys back after every call, so a missing Clear would show).  Locks: C01/C02.
   No proofs in this file.

   The second half is the SPECIFICATION: an association list sorted by the
   bytewise-lexicographic order of the keys. *)

From Gogu Require Import Base.

Definition key := list Z.

Section Model.
  Context {V : Type}.

  (* node{Item{key,val}, left, mid, right, c, isValid}; nil = Leaf *)
  Inductive tst : Type :=
  | Leaf
  | Node (c : Z) (valid : bool) (val : V) (l m r : tst).

  (* what put builds when it walks off the tree: at every remaining position d
       n = newNode(key, val); n.c = key[d]           (isValid false, val = val)
     then, c == n.c, either descends into n.mid (nil again) or, at the last
     byte, sets n.isValid = true; n.val = val *)
  Fixpoint chain (k : key) (val : V) : tst :=
    match k with
    | [] => Leaf
    | c :: k' => Node c (match k' with [] => true | _ => false end) val Leaf (chain k' val) Leaf
    end.

  (* trie.go:109-127  func (n *node) put(t, key, val, d, isValid);
     [c] is key[d], [rest] is key[d+1:]  (so d < len(key)-1 iff rest <> []).
     The only caller (Put, trie.go:97) passes isValid = true, so the last branch
     is  n.isValid = true; n.val = val.  The nil receiver case (trie.go:111-114)
     allocates the node and falls through to the comparison with c == n.c:
     that is [chain]. *)
  Fixpoint put (n : tst) (c : Z) (rest : key) (val : V) : tst :=
    match n with
    | Leaf => chain (c :: rest) val
    | Node nc valid v l m r =>
        if c <? nc then Node nc valid v (put l c rest val) m r
        else if nc <? c then Node nc valid v l m (put r c rest val)
        else match rest with
             | c' :: rest' => Node nc valid v l (put m c' rest' val) r
             | [] => Node nc true val l m r
             end
    end.

  (* trie.go:146-163  func (n *node) get(key, d), returning (node, error) — the node
     reached by the whole key, [None] for (nil, ErrorNotFound).  (The inner
     len(key) == 0 test, trie.go:150-152, is unreachable: all three callers —
     Get, contains, StartsWith — test for the empty key first.) *)
  Fixpoint get_node (n : tst) (c : Z) (rest : key) : option tst :=
    match n with
    | Leaf => None
    | Node nc valid v l m r =>
        if c <? nc then get_node l c rest
        else if nc <? c then get_node r c rest
        else match rest with
             | c' :: rest' => get_node m c' rest'
             | [] => Some n
             end
    end.

  (* trie.go:131-144  Get, repaired (#22): len(key) == 0 -> (zero, false);
     (x.val, true) only for a terminal node *)
  Definition get (root : tst) (k : key) : option V :=
    match k with
    | [] => None
    | c :: rest =>
        match get_node root c rest with
        | Some (Node _ true v _ _ _) => Some v
        | _ => None
        end
    end.

  (* trie.go:76-83  the exported Contains:
       if len(key) == 0 { return false }; _, ok := t.Get(key); return ok *)
  Definition contains (root : tst) (k : key) : bool :=
    match k with
    | [] => false
    | _ => match get root k with Some _ => true | None => false end
    end.

  (* trie.go:100-107  the unexported helper Put calls with the lock held:
       if len(key) == 0 { return false }
       x, err := t.root.get(key, 0)
       return x != nil && err == nil && x.isValid *)
  Definition contains_locked (root : tst) (k : key) : bool :=
    match k with
    | [] => false
    | c :: rest =>
        match get_node root c rest with
        | Some (Node _ valid _ _ _ _) => valid
        | _ => false
        end
    end.

  (* trie.go:175-191  the loop of LongestPrefix: [q] is query[i:], the result is [length];
     length is moved only at a node with isValid set (trie.go:186-188) *)
  Fixpoint lp_loop (x : tst) (q : key) (i length : nat) : nat :=
    match x with
    | Leaf => length
    | Node nc valid _ l m r =>
        match q with
        | [] => length
        | c :: q' =>
            if c <? nc then lp_loop l q i length
            else if nc <? c then lp_loop r q i length
            else lp_loop m q' (S i) (if valid then S i else length)
        end
    end.

  Definition EmptyArg : Z := 1.            (* the fmt.Errorf of an empty query / prefix *)

  (* trie.go:166-193  LongestPrefix: error for the empty query, else query[:length] *)
  Definition longest_prefix (root : tst) (query : key) : res key :=
    match query with
    | [] => Err EmptyArg
    | _ => Ok (firstn (lp_loop root query 0 0) query)
    end.

  (* trie.go:230-242  collect, repaired (#23): in-order, appending the raw byte *)
  Fixpoint collect (n : tst) (prefix : key) : list key :=
    match n with
    | Leaf => []
    | Node c valid _ l m r =>
        collect l prefix
        ++ (if valid then [prefix ++ [c]] else [])
        ++ collect m (prefix ++ [c])
        ++ collect r prefix
    end.

  (* trie.go:219-228  Keys: t.q.Clear(), then collect from the root with the empty
     prefix; the result is the drained queue (the error is always nil) *)
  Definition keys (root : tst) : list key := collect root [].

  (* trie.go:196-216  StartsWith: (error?, drained queue); t.q.Clear() comes first,
     so the queue handed back with the error of an empty prefix is empty *)
  Definition starts_with (root : tst) (prefix : key) : bool * list key :=
    match prefix with
    | [] => (true, [])
    | c :: rest =>
        match get_node root c rest with
        | Some (Node _ valid _ _ m _) =>
            (false, (if valid then [prefix] else []) ++ collect m prefix)
        | _ => (false, [])
        end
    end.

  (* ---------- the struct and its exported methods ---------- *)

  Record trie : Type := { root : tst; n : Z }.
  Definition empty : trie := {| root := Leaf; n := 0 |}.        (* New(q) *)

  Inductive op : Type :=
  | Put (k : key) (v : V)
  | Get (k : key)
  | Contains (k : key)
  | Size
  | Keys
  | StartsWith (p : key)
  | LongestPrefix (q : key).

  Inductive out : Type :=
  | ODone
  | OPanic
  | OGet (r : option V)
  | OBool (b : bool)
  | OSize (z : Z)
  | OKeys (ks : list key)
  | OStarts (err : bool) (ks : list key)
  | OLongest (r : res key).

  Definition step (t : trie) (o : op) : trie * out :=
    match o with
    | Put k v =>                                              (* trie.go:87-98, one critical section *)
        let n' := if contains_locked (root t) k then n t else n t + 1 in   (* if !t.contains(key) { t.n++ } *)
        match k with
        | [] => ({| root := root t; n := n' |}, OPanic)       (* put reads key[0]: index out of range, after t.n++;
                                                                 the deferred Unlock runs (outside the property's domain) *)
        | c :: rest => ({| root := put (root t) c rest v; n := n' |}, ODone)   (* t.root = t.root.put(t, key, val, 0, true) *)
        end
    | Get k => (t, OGet (get (root t) k))                     (* trie.go:131-144 *)
    | Contains k => (t, OBool (contains (root t) k))          (* trie.go:77-83 *)
    | Size => (t, OSize (n t))                                (* trie.go:69-74 *)
    | Keys => (t, OKeys (keys (root t)))
    | StartsWith p => (t, let '(e, ks) := starts_with (root t) p in OStarts e ks)
    | LongestPrefix q => (t, OLongest (longest_prefix (root t) q))
    end.

  Fixpoint run (ops : list op) (t : trie) : trie * list out :=
    match ops with
    | [] => (t, [])
    | o :: ops' =>
        let '(t1, x) := step t o in
        let '(t2, xs) := run ops' t1 in
        (t2, x :: xs)
    end.

  Definition state_after (ops : list op) : trie := fst (run ops empty).
  Definition outs (ops : list op) : list out := snd (run ops empty).

  (* ================= specification ================= *)

  (* bytewise lexicographic order (Go's < on strings) *)
  Fixpoint lex_ltb (a b : key) : bool :=
    match a, b with
    | _, [] => false
    | [], _ :: _ => true
    | x :: a', y :: b' => if x <? y then true else if y <? x then false else lex_ltb a' b'
    end.

  Fixpoint key_eqb (a b : key) : bool :=
    match a, b with
    | [], [] => true
    | x :: a', y :: b' => (x =? y) && key_eqb a' b'
    | _, _ => false
    end.

  (* p is a prefix of k *)
  Fixpoint prefixb (p k : key) : bool :=
    match p, k with
    | [], _ => true
    | x :: p', y :: k' => (x =? y) && prefixb p' k'
    | _ :: _, [] => false
    end.

  Definition smap := list (key * V).       (* sorted by lex_ltb on the keys *)

  Fixpoint s_get (k : key) (m : smap) : option V :=
    match m with
    | [] => None
    | (k', v') :: m' => if key_eqb k k' then Some v' else s_get k m'
    end.

  Fixpoint s_put (k : key) (v : V) (m : smap) : smap :=
    match m with
    | [] => [(k, v)]
    | (k', v') :: m' =>
        if key_eqb k k' then (k, v) :: m'
        else if lex_ltb k k' then (k, v) :: (k', v') :: m'
        else (k', v') :: s_put k v m'
    end.

  (* the longest stored key that is a prefix of q; [] if there is none *)
  Definition s_longest (q : key) (m : smap) : key :=
    fold_left (fun best kv =>
                 if prefixb (fst kv) q && (length best <? length (fst kv))%nat then fst kv else best)
              m [].

  Definition s_step (m : smap) (o : op) : smap * out :=
    match o with
    | Put k v => (s_put k v m, ODone)
    | Get k => (m, OGet (s_get k m))
    | Contains k => (m, OBool (match s_get k m with Some _ => true | None => false end))
    | Size => (m, OSize (Z.of_nat (length m)))
    | Keys => (m, OKeys (map fst m))
    | StartsWith p =>
        (m, match p with
            | [] => OStarts true []
            | _ => OStarts false (filter (prefixb p) (map fst m))
            end)
    | LongestPrefix q =>
        (m, OLongest (match q with [] => Err EmptyArg | _ => Ok (s_longest q m) end))
    end.

  Fixpoint run_spec (ops : list op) (m : smap) : smap * list out :=
    match ops with
    | [] => (m, [])
    | o :: ops' =>
        let '(m1, x) := s_step m o in
        let '(m2, xs) := run_spec ops' m1 in
        (m2, x :: xs)
    end.

  Definition outs_spec (ops : list op) : list out := snd (run_spec ops []).

  (* the domain of the property: every Put has a non-empty key *)
  Definition put_nonempty (o : op) : Prop :=
    match o with Put [] _ => False | _ => True end.

End Model.

Arguments Leaf {V}.
Arguments ODone {V}.
Arguments OPanic {V}.
Arguments OBool {V} b.
Arguments OSize {V} z.
Arguments OKeys {V} ks.
Arguments OStarts {V} err ks.
Arguments OLongest {V} r.
Arguments Get {V} k.
Arguments Contains {V} k.
Arguments Size {V}.
Arguments Keys {V}.
Arguments StartsWith {V} p.
Arguments LongestPrefix {V} q.
Arguments empty {V}.
