(* C09_Proofs.v — lemmas for C09.  Method:
   (A) Get after Put: pure path-following, holds for every tree;
   (B) the search-order invariant [ordered] (sibling bytes left < node < right) is kept by Put;
   (C) under [ordered], collect yields exactly the keys Get finds, strictly
       increasing in the bytewise-lexicographic order;
   (D) a strictly increasing list is determined by its members, so Keys and
       StartsWith coincide with the sorted reference list without any list surgery;
   (E) LongestPrefix remembers the deepest terminal node on the query path;
   (F) simulation of the reference machine over all histories. *)

From Gogu Require Import Base C09_Model.
From Coq Require Import Sorted Permutation.

Ltac zcmp :=
  repeat match goal with
         | |- context [?a <? ?b] => destruct (Z.ltb_spec a b)
         | |- context [?a =? ?b] => destruct (Z.eqb_spec a b)
         end; try lia.

(* ---------- keys: equality, prefix, lexicographic order ---------- *)

Definition lex_lt (a b : key) : Prop := lex_ltb a b = true.

Lemma key_eqb_eq a b : key_eqb a b = true <-> a = b.
Proof.
  revert b. induction a as [|x a IH]; intros [|y b]; cbn; split; try discriminate; try reflexivity.
  - intros H. apply andb_prop in H as [H1 H2]. apply Z.eqb_eq in H1. apply IH in H2. congruence.
  - intros [= -> ->]. rewrite Z.eqb_refl. now apply IH.
Qed.

Lemma key_eqb_refl a : key_eqb a a = true.
Proof. now apply key_eqb_eq. Qed.

Lemma key_eqb_neq a b : a <> b -> key_eqb a b = false.
Proof. intros H. destruct (key_eqb a b) eqn:E; [apply key_eqb_eq in E; contradiction | reflexivity]. Qed.

Lemma prefixb_iff p k : prefixb p k = true <-> exists s, k = p ++ s.
Proof.
  revert k. induction p as [|x p IH]; intros k; cbn.
  - split; [intros _; exists k; reflexivity | reflexivity].
  - destruct k as [|y k]; [split; [discriminate | intros (s & H); discriminate]|].
    rewrite andb_true_iff, Z.eqb_eq, IH. split.
    + intros (-> & s & ->). exists s. reflexivity.
    + intros (s & [= -> ->]). split; [reflexivity | exists s; reflexivity].
Qed.

Lemma lex_irrefl a : lex_ltb a a = false.
Proof. induction a as [|x a IH]; cbn; [reflexivity|]. now rewrite Z.ltb_irrefl. Qed.

Lemma lex_trans a : forall b c, lex_lt a b -> lex_lt b c -> lex_lt a c.
Proof.
  unfold lex_lt. induction a as [|x a IH]; intros [|y b] [|z c]; cbn; try discriminate; try reflexivity.
  zcmp; try discriminate; try reflexivity. subst. apply IH.
Qed.

Lemma lex_total a : forall b, lex_ltb a b = false -> lex_ltb b a = false -> a = b.
Proof.
  induction a as [|x a IH]; intros [|y b]; cbn; try discriminate; try reflexivity.
  zcmp; try discriminate. intros H1 H2. assert (x = y) by lia. subst. f_equal. now apply IH.
Qed.

Lemma lex_asym a b : lex_lt a b -> lex_ltb b a = false.
Proof.
  intros H. destruct (lex_ltb b a) eqn:E; [|reflexivity].
  pose proof (lex_trans _ _ _ H E) as H1. unfold lex_lt in H1. rewrite lex_irrefl in H1. discriminate.
Qed.

Lemma lex_app p a b : lex_ltb (p ++ a) (p ++ b) = lex_ltb a b.
Proof.
  induction p as [|x p IH]; cbn; [reflexivity|]. rewrite Z.ltb_irrefl. exact IH.
Qed.

Lemma lex_cons_lt x y a b : x < y -> lex_ltb (x :: a) (y :: b) = true.
Proof. intros H. cbn. zcmp. Qed.

Lemma lex_nil_cons x a : lex_ltb [] (x :: a) = true.
Proof. reflexivity. Qed.

(* ---------- strictly increasing lists ---------- *)

Section Sorted.
  Context {A : Type}.
  Variable R : A -> A -> Prop.
  Hypothesis R_irrefl : forall a, ~ R a a.
  Hypothesis R_trans : forall a b c, R a b -> R b c -> R a c.

  Lemma ss_app (l1 l2 : list A) :
    StronglySorted R (l1 ++ l2) <->
    StronglySorted R l1 /\ StronglySorted R l2 /\ (forall a b, In a l1 -> In b l2 -> R a b).
  Proof.
    induction l1 as [|x l1 IH]; cbn.
    - split; [intros H; repeat split; [constructor | exact H | intros a b []] | intros (_ & H & _); exact H].
    - split.
      + intros H. inversion H as [|? ? Hs Hf]; subst. apply IH in Hs as (H1 & H2 & H3).
        rewrite Forall_app in Hf. destruct Hf as [Hf1 Hf2]. repeat split.
        * constructor; assumption.
        * assumption.
        * intros a b [<- | Ha] Hb; [rewrite Forall_forall in Hf2; apply Hf2, Hb | apply H3; assumption].
      + intros (H1 & H2 & H3). inversion H1 as [|? ? Hs Hf]; subst. constructor.
        * apply IH. repeat split; [assumption | assumption | intros a b Ha Hb; apply H3; [right|]; assumption].
        * rewrite Forall_app. split; [assumption|]. rewrite Forall_forall. intros b Hb.
          apply H3; [left; reflexivity | assumption].
  Qed.

  Lemma ss_cons a (l : list A) :
    StronglySorted R (a :: l) <-> StronglySorted R l /\ (forall b, In b l -> R a b).
  Proof.
    split.
    - intros H. inversion H as [|? ? Hs Hf]; subst. split; [assumption|]. now rewrite Forall_forall in Hf.
    - intros [H1 H2]. constructor; [assumption|]. now rewrite Forall_forall.
  Qed.

  Lemma ss_nodup (l : list A) : StronglySorted R l -> NoDup l.
  Proof.
    induction l as [|a l IH]; intros H; [constructor|]. apply ss_cons in H as [H1 H2].
    constructor; [|apply IH, H1]. intros Hin. apply (R_irrefl a), H2, Hin.
  Qed.

  Lemma ss_filter (f : A -> bool) (l : list A) : StronglySorted R l -> StronglySorted R (filter f l).
  Proof.
    induction l as [|a l IH]; cbn; intros H; [constructor|]. apply ss_cons in H as [H1 H2].
    destruct (f a); [|apply IH, H1]. apply ss_cons. split; [apply IH, H1|].
    intros b Hb. apply filter_In in Hb as [Hb _]. apply H2, Hb.
  Qed.

  (* a strictly increasing list is determined by its members *)
  Lemma ss_unique (l1 : list A) : forall l2,
    StronglySorted R l1 -> StronglySorted R l2 -> (forall x, In x l1 <-> In x l2) -> l1 = l2.
  Proof.
    induction l1 as [|a l1 IH]; intros [|b l2] H1 H2 Hm.
    - reflexivity.
    - exfalso. apply (proj2 (Hm b)). left. reflexivity.
    - exfalso. apply (proj1 (Hm a)). left. reflexivity.
    - apply ss_cons in H1 as [H1 Ha]. apply ss_cons in H2 as [H2 Hb].
      assert (a = b) as ->.
      { destruct (proj1 (Hm a) (or_introl eq_refl)) as [E | Ea]; [symmetry; exact E|].
        destruct (proj2 (Hm b) (or_introl eq_refl)) as [E | Eb]; [exact E|].
        exfalso. apply (R_irrefl a). eapply R_trans; [apply Ha, Eb | apply Hb, Ea]. }
      f_equal. apply IH; [assumption | assumption|]. intros x. split; intros Hx.
      + destruct (proj1 (Hm x) (or_intror Hx)) as [E | E]; [|exact E].
        subst x. exfalso. apply (R_irrefl b), Ha, Hx.
      + destruct (proj2 (Hm x) (or_intror Hx)) as [E | E]; [|exact E].
        subst x. exfalso. apply (R_irrefl b), Hb, Hx.
  Qed.
End Sorted.

Lemma lex_lt_irrefl a : ~ lex_lt a a.
Proof. unfold lex_lt. rewrite lex_irrefl. discriminate. Qed.

Definition ksorted (l : list key) : Prop := StronglySorted lex_lt l.

Lemma ksorted_unique l1 l2 :
  ksorted l1 -> ksorted l2 -> (forall x, In x l1 <-> In x l2) -> l1 = l2.
Proof. apply (ss_unique lex_lt lex_lt_irrefl lex_trans). Qed.

(* the search-order invariant of the ternary tree *)
Fixpoint all_sib {V : Type} (P : Z -> Prop) (t : @tst V) : Prop :=
  match t with
  | Leaf => True
  | Node c _ _ l _ r => P c /\ all_sib P l /\ all_sib P r
  end.

Fixpoint ordered {V : Type} (t : @tst V) : Prop :=
  match t with
  | Leaf => True
  | Node c _ _ l m r =>
      ordered l /\ ordered m /\ ordered r /\
      all_sib (fun x => x < c) l /\ all_sib (fun x => c < x) r
  end.

(* the latest value put under a key, read off the history *)
Definition latest {V : Type} (k : key) (ops : list (@op V)) : option V :=
  fold_left (fun acc o => match o with Put k' v => if key_eqb k k' then Some v else acc | _ => acc end)
            ops None.

Definition was_put {V : Type} (k : key) (ops : list (@op V)) : Prop := exists v, In (Put k v) ops.

Section Proofs.
  Context {V : Type}.
  Notation tst := (@tst V).
  Notation op := (@op V).
  Notation out := (@out V).
  Notation smap := (@smap V).
  Notation trie := (@trie V).

  (* ---------- (A) Get after Put ---------- *)

  (* Get on the non-empty key c :: rest *)
  Definition look (t : tst) (c : Z) (rest : key) : option V :=
    match get_node t c rest with
    | Some (Node _ true v _ _ _) => Some v
    | _ => None
    end.

  Lemma get_cons (t : tst) c rest : get t (c :: rest) = look t c rest.
  Proof. reflexivity. Qed.

  Lemma look_node nc valid nv (l m r : tst) c rest :
    look (Node nc valid nv l m r) c rest =
    if c <? nc then look l c rest
    else if nc <? c then look r c rest
    else match rest with
         | c' :: rest' => look m c' rest'
         | [] => if valid then Some nv else None
         end.
  Proof.
    unfold look. cbn [get_node]. destruct (c <? nc); [reflexivity|]. destruct (nc <? c); [reflexivity|].
    destruct rest; [destruct valid|]; reflexivity.
  Qed.

  Lemma look_leaf c rest : look (@Leaf V) c rest = None.
  Proof. reflexivity. Qed.

  Lemma look_chain rest : forall c (v : V) c' rest',
    look (chain (c :: rest) v) c' rest' = if (c' =? c) && key_eqb rest' rest then Some v else None.
  Proof.
    induction rest as [|x rest IH]; intros c v c' rest'.
    - cbn [chain]. rewrite look_node. zcmp; cbn [andb]; try reflexivity.
      destruct rest'; reflexivity.
    - change (chain (c :: x :: rest) v) with (Node c false v Leaf (chain (x :: rest) v) Leaf).
      rewrite look_node. zcmp; cbn [andb]; try reflexivity.
      destruct rest' as [|y rest']; [reflexivity|]. rewrite IH. reflexivity.
  Qed.

  Lemma look_put (t : tst) : forall c rest (v : V) c' rest',
    look (put t c rest v) c' rest' =
    if (c' =? c) && key_eqb rest' rest then Some v else look t c' rest'.
  Proof.
    induction t as [|nc valid nv l IHl m IHm r IHr]; intros c rest v c' rest'.
    - cbn [put]. rewrite look_chain, look_leaf. reflexivity.
    - cbn [put]. destruct (Z.ltb_spec c nc) as [Hlt | Hge].
      + rewrite !look_node. destruct (Z.ltb_spec c' nc).
        * apply IHl.
        * assert (c' =? c = false) as -> by (apply Z.eqb_neq; lia). reflexivity.
      + destruct (Z.ltb_spec nc c) as [Hgt | Hle].
        * rewrite !look_node. destruct (Z.ltb_spec c' nc).
          -- assert (c' =? c = false) as -> by (apply Z.eqb_neq; lia). reflexivity.
          -- destruct (Z.ltb_spec nc c'); [apply IHr|].
             assert (c' =? c = false) as -> by (apply Z.eqb_neq; lia). reflexivity.
        * assert (c = nc) by lia. subst nc. destruct rest as [|c2 rest2].
          -- rewrite !look_node. destruct (Z.ltb_spec c' c).
             ++ assert (c' =? c = false) as -> by (apply Z.eqb_neq; lia). reflexivity.
             ++ destruct (Z.ltb_spec c c').
                ** assert (c' =? c = false) as -> by (apply Z.eqb_neq; lia). reflexivity.
                ** assert (c' =? c = true) as -> by (apply Z.eqb_eq; lia). cbn [andb].
                   destruct rest'; reflexivity.
          -- rewrite !look_node. destruct (Z.ltb_spec c' c).
             ++ assert (c' =? c = false) as -> by (apply Z.eqb_neq; lia). reflexivity.
             ++ destruct (Z.ltb_spec c c').
                ** assert (c' =? c = false) as -> by (apply Z.eqb_neq; lia). reflexivity.
                ** assert (c' =? c = true) as -> by (apply Z.eqb_eq; lia). cbn [andb].
                   destruct rest' as [|c3 rest3]; [reflexivity|]. rewrite IHm. reflexivity.
  Qed.

  Lemma get_put (t : tst) c rest (v : V) k' :
    get (put t c rest v) k' = if key_eqb k' (c :: rest) then Some v else get t k'.
  Proof.
    destruct k' as [|c' rest']; [reflexivity|]. rewrite !get_cons, look_put. reflexivity.
  Qed.

  (* ---------- (B) the search-order invariant ---------- *)

  Lemma all_sib_impl (P Q : Z -> Prop) (t : tst) :
    (forall x, P x -> Q x) -> all_sib P t -> all_sib Q t.
  Proof.
    intros HPQ. induction t as [|nc valid nv l IHl m _ r IHr]; cbn; [trivial|].
    intros (H1 & H2 & H3). auto.
  Qed.

  Lemma all_sib_chain (P : Z -> Prop) c rest (v : V) : P c -> all_sib P (chain (c :: rest) v).
  Proof. intros H. cbn. auto. Qed.

  Lemma ordered_chain k (v : V) : ordered (chain k v).
  Proof. induction k as [|c k IH]; cbn; auto. Qed.

  Lemma all_sib_put (P : Z -> Prop) (t : tst) c rest (v : V) :
    P c -> all_sib P t -> all_sib P (put t c rest v).
  Proof.
    intros Hc. induction t as [|nc valid nv l IHl m _ r IHr]; intros Ht.
    - cbn [put]. apply all_sib_chain, Hc.
    - cbn [put]. cbn in Ht. destruct Ht as (H1 & H2 & H3).
      destruct (c <? nc); [cbn; auto|]. destruct (nc <? c); [cbn; auto|].
      destruct rest; cbn; auto.
  Qed.

  Lemma ordered_put (t : tst) : forall c rest (v : V), ordered t -> ordered (put t c rest v).
  Proof.
    induction t as [|nc valid nv l IHl m IHm r IHr]; intros c rest v Ht.
    - cbn [put]. apply ordered_chain.
    - cbn [put]. cbn in Ht. destruct Ht as (H1 & H2 & H3 & H4 & H5).
      destruct (Z.ltb_spec c nc).
      + cbn. repeat split; auto. apply all_sib_put; assumption.
      + destruct (Z.ltb_spec nc c).
        * cbn. repeat split; auto. apply all_sib_put; assumption.
        * destruct rest; cbn; repeat split; auto.
  Qed.

  Lemma look_all_sib (P : Z -> Prop) (t : tst) c rest :
    all_sib P t -> look t c rest <> None -> P c.
  Proof.
    induction t as [|nc valid nv l IHl m _ r IHr]; intros Ht; [rewrite look_leaf; congruence|].
    cbn in Ht. destruct Ht as (H1 & H2 & H3). rewrite look_node.
    destruct (Z.ltb_spec c nc); [apply IHl, H2|]. destruct (Z.ltb_spec nc c); [apply IHr, H3|].
    intros _. assert (c = nc) by lia. now subst.
  Qed.

  (* ---------- (C) collect ---------- *)

  Lemma all_sib_true (t : tst) : all_sib (fun _ => True) t.
  Proof. induction t as [|? ? ? ? IH1 ? _ ? IH2]; cbn; auto. Qed.

  Lemma collect_shape (t : tst) : forall (P : Z -> Prop) p k,
    all_sib P t -> In k (collect t p) -> exists c rest, k = p ++ c :: rest /\ P c.
  Proof.
    induction t as [|nc valid nv l IHl m IHm r IHr]; intros P p k Ht; cbn [collect]; [intros []|].
    cbn in Ht. destruct Ht as (H1 & H2 & H3). rewrite !in_app_iff. intros [H | [H | [H | H]]].
    - apply (IHl P p k H2 H).
    - destruct valid; [|destruct H]. destruct H as [<- | []]. exists nc, []. auto.
    - destruct (IHm (fun _ => True) (p ++ [nc]) k (all_sib_true m) H) as (c & rest & E & _).
      exists nc, (c :: rest). split; [|exact H1]. rewrite E, <- app_assoc. reflexivity.
    - apply (IHr P p k H3 H).
  Qed.

  Lemma collect_in (t : tst) : forall p k,
    ordered t ->
    (In k (collect t p) <-> exists c rest, k = p ++ c :: rest /\ look t c rest <> None).
  Proof.
    induction t as [|nc valid nv l IHl m IHm r IHr]; intros p k Ht.
    - cbn [collect]. split; [intros [] | intros (c & rest & _ & H); rewrite look_leaf in H; congruence].
    - cbn in Ht. destruct Ht as (Hl & Hm & Hr & Hsl & Hsr). cbn [collect]. rewrite !in_app_iff.
      rewrite (IHl p k Hl), (IHm (p ++ [nc]) k Hm), (IHr p k Hr). split.
      + intros [H | [H | [H | H]]].
        * destruct H as (c & rest & E & H). exists c, rest. split; [exact E|].
          pose proof (look_all_sib _ l c rest Hsl H) as Hc. cbn in Hc.
          rewrite look_node. destruct (Z.ltb_spec c nc); [exact H | lia].
        * destruct valid; [|destruct H]. destruct H as [<- | []]. exists nc, []. split; [reflexivity|].
          rewrite look_node, Z.ltb_irrefl. discriminate.
        * destruct H as (c & rest & E & H). exists nc, (c :: rest). split; [rewrite E, <- app_assoc; reflexivity|].
          rewrite look_node, Z.ltb_irrefl. exact H.
        * destruct H as (c & rest & E & H). exists c, rest. split; [exact E|].
          pose proof (look_all_sib _ r c rest Hsr H) as Hc. cbn in Hc.
          rewrite look_node. destruct (Z.ltb_spec c nc); [lia|]. destruct (Z.ltb_spec nc c); [exact H | lia].
      + intros (c & rest & E & H). rewrite look_node in H.
        destruct (Z.ltb_spec c nc); [left; exists c, rest; auto|].
        destruct (Z.ltb_spec nc c); [right; right; right; exists c, rest; auto|].
        assert (c = nc) by lia. subst c. destruct rest as [|c' rest'].
        * right. left. destruct valid; [left; symmetry; exact E | congruence].
        * right. right. left. exists c', rest'. split; [rewrite E, <- app_assoc; reflexivity | exact H].
  Qed.

  Lemma collect_sorted (t : tst) : forall p, ordered t -> ksorted (collect t p).
  Proof.
    unfold ksorted.
    induction t as [|nc valid nv l IHl m IHm r IHr]; intros p Ht; cbn [collect]; [constructor|].
    cbn in Ht. destruct Ht as (Hl & Hm & Hr & Hsl & Hsr).
    assert (Hmid : forall k, In k ((if valid then [p ++ [nc]] else []) ++ collect m (p ++ [nc])) ->
                             exists s, k = p ++ nc :: s).
    { intros k Hk. apply in_app_iff in Hk as [Hk | Hk].
      - destruct valid; [|destruct Hk]. destruct Hk as [<- | []]. exists []. reflexivity.
      - destruct (collect_shape m (fun _ => True) (p ++ [nc]) k (all_sib_true m) Hk) as (c & rest & E & _).
        exists (c :: rest). rewrite E, <- app_assoc. reflexivity. }
    apply (ss_app lex_lt). repeat split.
    - apply IHl, Hl.
    - rewrite app_assoc. apply (ss_app lex_lt). repeat split.
      + apply (ss_app lex_lt). repeat split.
        * destruct valid; repeat constructor.
        * apply IHm, Hm.
        * intros a b Ha Hb. destruct valid; [|destruct Ha]. destruct Ha as [<- | []].
          destruct (collect_shape m (fun _ => True) (p ++ [nc]) b (all_sib_true m) Hb) as (c & rest & E & _).
          subst b. unfold lex_lt. rewrite <- (app_nil_r (p ++ [nc])) at 1. now rewrite lex_app.
      + apply IHr, Hr.
      + intros a b Ha Hb. destruct (Hmid a Ha) as (s & ->).
        destruct (collect_shape r _ p b Hsr Hb) as (c & rest & -> & Hc). cbn in Hc.
        unfold lex_lt. rewrite lex_app. apply lex_cons_lt, Hc.
    - intros a b Ha Hb. destruct (collect_shape l _ p a Hsl Ha) as (c & rest & -> & Hc). cbn in Hc.
      rewrite app_assoc in Hb. apply in_app_iff in Hb as [Hb | Hb].
      + destruct (Hmid b Hb) as (s & ->). unfold lex_lt. rewrite lex_app. apply lex_cons_lt, Hc.
      + destruct (collect_shape r _ p b Hsr Hb) as (c2 & rest2 & -> & Hc2). cbn in Hc2.
        unfold lex_lt. rewrite lex_app. apply lex_cons_lt. lia.
  Qed.

  (* Keys: exactly the keys Get finds, strictly increasing *)
  Lemma keys_in (t : tst) k : ordered t -> (In k (keys t) <-> get t k <> None).
  Proof.
    intros Ht. unfold keys. rewrite (collect_in t [] k Ht). split.
    - intros (c & rest & -> & H). exact H.
    - destruct k as [|c rest]; [cbn; congruence|]. intros H. exists c, rest. auto.
  Qed.

  Lemma keys_sorted (t : tst) : ordered t -> ksorted (keys t).
  Proof. apply collect_sorted. Qed.

  (* ---------- (D) StartsWith ---------- *)

  Lemma get_node_ordered (t : tst) : forall c rest x,
    ordered t -> get_node t c rest = Some x -> ordered x.
  Proof.
    induction t as [|nc valid nv l IHl m IHm r IHr]; intros c rest x Ht; cbn [get_node]; [discriminate|].
    pose proof Ht as Ht'. cbn in Ht. destruct Ht as (Hl & Hm & Hr & _ & _).
    destruct (c <? nc); [apply IHl, Hl|]. destruct (nc <? c); [apply IHr, Hr|].
    destruct rest as [|c' rest']; [intros [= <-]; exact Ht' | apply IHm, Hm].
  Qed.

  Lemma look_app_some (t : tst) : forall c rest nc valid nv l m r,
    get_node t c rest = Some (Node nc valid nv l m r) ->
    look t c rest = (if valid then Some nv else None) /\
    forall c2 rest2, look t c (rest ++ c2 :: rest2) = look m c2 rest2.
  Proof.
    induction t as [|nc0 valid0 nv0 l0 IHl m0 IHm r0 IHr]; intros c rest nc valid nv l m r; cbn [get_node]; [discriminate|].
    intros H. rewrite look_node.
    destruct (Z.ltb_spec c nc0).
    { destruct (IHl _ _ _ _ _ _ _ _ H) as [E1 E2]. split; [exact E1|].
      intros c2 rest2. rewrite look_node. destruct (Z.ltb_spec c nc0); [apply E2 | lia]. }
    destruct (Z.ltb_spec nc0 c).
    { destruct (IHr _ _ _ _ _ _ _ _ H) as [E1 E2]. split; [exact E1|].
      intros c2 rest2. rewrite look_node. destruct (Z.ltb_spec c nc0); [lia|].
      destruct (Z.ltb_spec nc0 c); [apply E2 | lia]. }
    destruct rest as [|c' rest'].
    - injection H as -> -> -> -> -> ->. split; [reflexivity|]. intros c2 rest2. cbn [app].
      rewrite look_node. destruct (Z.ltb_spec c nc); [lia|]. destruct (Z.ltb_spec nc c); [lia | reflexivity].
    - destruct (IHm _ _ _ _ _ _ _ _ H) as [E1 E2]. split; [exact E1|].
      intros c2 rest2. cbn [app]. rewrite look_node. destruct (Z.ltb_spec c nc0); [lia|].
      destruct (Z.ltb_spec nc0 c); [lia | apply E2].
  Qed.

  Lemma look_app_none (t : tst) : forall c rest,
    get_node t c rest = None -> forall s, look t c (rest ++ s) = None.
  Proof.
    induction t as [|nc0 valid0 nv0 l0 IHl m0 IHm r0 IHr]; intros c rest; cbn [get_node]; [reflexivity|].
    intros H s. rewrite look_node. destruct (Z.ltb_spec c nc0); [apply IHl, H|].
    destruct (Z.ltb_spec nc0 c); [apply IHr, H|].
    destruct rest as [|c' rest']; [discriminate|]. cbn [app]. apply IHm, H.
  Qed.

  Lemma get_node_not_leaf (t : tst) : forall c rest, get_node t c rest <> Some Leaf.
  Proof.
    induction t as [|nc0 valid0 nv0 l0 IHl m0 IHm r0 IHr]; intros c rest; cbn [get_node]; [discriminate|].
    destruct (c <? nc0); [apply IHl|]. destruct (nc0 <? c); [apply IHr|].
    destruct rest; [discriminate | apply IHm].
  Qed.

  Lemma starts_with_spec (t : tst) (p : key) :
    ordered t -> p <> [] -> starts_with t p = (false, filter (prefixb p) (keys t)).
  Proof.
    intros Ht Hp. destruct p as [|c rest]; [contradiction|]. clear Hp. cbn [starts_with].
    pose proof (keys_sorted t Ht) as Hks.
    destruct (get_node t c rest) as [[|nc valid nv l m r]|] eqn:G.
    - exfalso. exact (get_node_not_leaf t c rest G).
    - f_equal. pose proof (get_node_ordered t c rest _ Ht G) as Hx. cbn in Hx. destruct Hx as (_ & Hm & _).
      destruct (look_app_some t c rest _ _ _ _ _ _ G) as [E1 E2].
      apply ksorted_unique.
      + apply (ss_app lex_lt). repeat split.
        * destruct valid; repeat constructor.
        * apply collect_sorted, Hm.
        * intros a b Ha Hb. destruct valid; [|destruct Ha]. destruct Ha as [<- | []].
          destruct (collect_shape m (fun _ => True) _ b (all_sib_true m) Hb) as (c2 & rest2 & -> & _).
          unfold lex_lt. rewrite <- (app_nil_r (c :: rest)) at 1. now rewrite lex_app.
      + apply (ss_filter lex_lt), Hks.
      + intros k. rewrite in_app_iff, filter_In, (keys_in t k Ht), prefixb_iff, (collect_in m _ k Hm). split.
        * intros [H | (c2 & rest2 & -> & H)].
          -- destruct valid; [|destruct H]. destruct H as [<- | []]. split; [|exists []; now rewrite app_nil_r].
             rewrite get_cons, E1. discriminate.
          -- split; [|eexists; reflexivity]. cbn [app]. rewrite get_cons, E2. exact H.
        * intros [H (s & ->)]. cbn [app] in H. rewrite get_cons in H. destruct s as [|c2 rest2].
          -- left. rewrite app_nil_r in *. rewrite E1 in H. destruct valid; [left; reflexivity | congruence].
          -- right. exists c2, rest2. split; [reflexivity|]. now rewrite E2 in H.
    - f_equal. symmetry. apply ksorted_unique; [apply (ss_filter lex_lt), Hks | constructor|].
      intros k. rewrite filter_In, (keys_in t k Ht), prefixb_iff. split; [|intros []].
      intros [H (s & ->)]. cbn [app] in H. rewrite get_cons, (look_app_none t c rest G) in H. congruence.
  Qed.

  (* ---------- (E) LongestPrefix ---------- *)

  Lemma prefixb_cons_inv k c q :
    prefixb k (c :: q) = true -> k <> [] -> exists k', k = c :: k' /\ prefixb k' q = true.
  Proof.
    destruct k as [|x k']; [contradiction|]. cbn. intros H _. apply andb_prop in H as [H1 H2].
    apply Z.eqb_eq in H1. subst x. exists k'. auto.
  Qed.

  Lemma lp_loop_spec (t : tst) : forall q i len,
    (lp_loop t q i len = len /\ forall k, k <> [] -> prefixb k q = true -> get t k = None) \/
    (exists k, k <> [] /\ prefixb k q = true /\ lp_loop t q i len = (i + length k)%nat /\
               get t k <> None /\
               forall k', prefixb k' q = true -> (length k < length k')%nat -> get t k' = None).
  Proof.
    induction t as [|nc valid nv l IHl m IHm r IHr]; intros q i len.
    - left. split; [reflexivity|]. intros [|c k] Hk _; [contradiction | reflexivity].
    - destruct q as [|c q'].
      + left. split; [reflexivity|]. intros [|x k] Hk H; [contradiction | discriminate].
      + cbn [lp_loop]. destruct (Z.ltb_spec c nc) as [Hlt | Hge].
        { assert (Hg : forall k, k <> [] -> prefixb k (c :: q') = true -> get (Node nc valid nv l m r) k = get l k).
          { intros k Hk Hp. destruct (prefixb_cons_inv k c q' Hp Hk) as (k' & -> & _).
            rewrite !get_cons, look_node. destruct (Z.ltb_spec c nc); [reflexivity | lia]. }
          destruct (IHl (c :: q') i len) as [[E1 E2] | (k & Hk & Hp & E1 & E2 & E3)].
          - left. split; [exact E1|]. intros k Hk Hp. rewrite (Hg k Hk Hp). apply E2; assumption.
          - right. exists k. repeat split; try assumption.
            + rewrite (Hg k Hk Hp). exact E2.
            + intros k' Hp' Hl'. rewrite (Hg k' ltac:(destruct k'; [cbn in Hl'; lia | discriminate]) Hp').
              apply E3; assumption. }
        destruct (Z.ltb_spec nc c) as [Hgt | Hle].
        { assert (Hg : forall k, k <> [] -> prefixb k (c :: q') = true -> get (Node nc valid nv l m r) k = get r k).
          { intros k Hk Hp. destruct (prefixb_cons_inv k c q' Hp Hk) as (k' & -> & _).
            rewrite !get_cons, look_node. destruct (Z.ltb_spec c nc); [lia|].
            destruct (Z.ltb_spec nc c); [reflexivity | lia]. }
          destruct (IHr (c :: q') i len) as [[E1 E2] | (k & Hk & Hp & E1 & E2 & E3)].
          - left. split; [exact E1|]. intros k Hk Hp. rewrite (Hg k Hk Hp). apply E2; assumption.
          - right. exists k. repeat split; try assumption.
            + rewrite (Hg k Hk Hp). exact E2.
            + intros k' Hp' Hl'. rewrite (Hg k' ltac:(destruct k'; [cbn in Hl'; lia | discriminate]) Hp').
              apply E3; assumption. }
        assert (c = nc) by lia. subst nc.
        assert (Hg : forall k', get (Node c valid nv l m r) (c :: k') =
                                match k' with [] => if valid then Some nv else None | _ => get m k' end).
        { intros k'. rewrite get_cons, look_node, Z.ltb_irrefl. destruct k'; reflexivity. }
        destruct (IHm q' (S i) (if valid then S i else len)) as [[E1 E2] | (k & Hk & Hp & E1 & E2 & E3)].
        * destruct valid.
          -- right. exists [c]. repeat split.
             ++ discriminate.
             ++ cbn. now rewrite Z.eqb_refl.
             ++ rewrite E1. cbn. lia.
             ++ rewrite Hg. discriminate.
             ++ intros k' Hp' Hl'. destruct (prefixb_cons_inv k' c q' Hp') as (k2 & -> & Hp2).
                { destruct k'; [cbn in Hl'; lia | discriminate]. }
                rewrite Hg. destruct k2 as [|x k2]; [cbn in Hl'; lia|]. apply E2; [discriminate | exact Hp2].
          -- left. split; [exact E1|]. intros k Hk Hp. destruct (prefixb_cons_inv k c q' Hp Hk) as (k2 & -> & Hp2).
             rewrite Hg. destruct k2 as [|x k2]; [reflexivity|]. apply E2; [discriminate | exact Hp2].
        * right. exists (c :: k). repeat split.
          -- discriminate.
          -- cbn. now rewrite Z.eqb_refl.
          -- rewrite E1. cbn. lia.
          -- rewrite Hg. destruct k; [contradiction | exact E2].
          -- intros k' Hp' Hl'. destruct (prefixb_cons_inv k' c q' Hp') as (k2 & -> & Hp2).
             { destruct k'; [cbn in Hl'; lia | discriminate]. }
             rewrite Hg. cbn in Hl'. destruct k2 as [|x k2]; [cbn in Hl'; lia|]. apply E3; [exact Hp2 | cbn [length] in *; lia].
  Qed.

  Lemma prefixb_firstn k : forall q, prefixb k q = true -> firstn (length k) q = k.
  Proof.
    induction k as [|x k IH]; intros q; [reflexivity|]. destruct q as [|y q]; cbn; [discriminate|].
    intros H. apply andb_prop in H as [H1 H2]. apply Z.eqb_eq in H1. subst y. f_equal. apply IH, H2.
  Qed.

  Lemma prefixb_nil q : prefixb [] q = true.
  Proof. reflexivity. Qed.

  (* the result of LongestPrefix: a prefix of the query, stored unless empty,
     and no stored prefix of the query is longer *)
  Definition is_longest (stored : key -> Prop) (q r : key) : Prop :=
    prefixb r q = true /\ (r = [] \/ stored r) /\
    (forall k, stored k -> prefixb k q = true -> (length k <= length r)%nat).

  Lemma longest_prefix_spec (t : tst) (q : key) :
    q <> [] ->
    exists r, longest_prefix t q = Ok r /\ is_longest (fun k => get t k <> None) q r.
  Proof.
    intros Hq. destruct q as [|c q']; [contradiction|]. cbn [longest_prefix].
    eexists. split; [reflexivity|].
    destruct (lp_loop_spec t (c :: q') 0 0) as [[E1 E2] | (k & Hk & Hp & E1 & E2 & E3)]; rewrite E1.
    - cbn [firstn]. repeat split; [left; reflexivity|].
      intros k Hs Hp. destruct k as [|x k]; [cbn; lia|]. exfalso. apply Hs, E2; [discriminate | exact Hp].
    - cbn [Nat.add]. rewrite (prefixb_firstn k _ Hp). repeat split; [exact Hp | right; exact E2|].
      intros k' Hs Hp'. destruct (Nat.le_gt_cases (length k') (length k)) as [Hle | Hgt]; [exact Hle|].
      exfalso. apply Hs, E3; assumption.
  Qed.

  Lemma is_longest_unique (stored : key -> Prop) q r1 r2 :
    ~ stored [] -> is_longest stored q r1 -> is_longest stored q r2 -> r1 = r2.
  Proof.
    intros Hn (P1 & S1 & M1) (P2 & S2 & M2).
    assert (L : length r1 = length r2).
    { destruct S1 as [-> | S1], S2 as [-> | S2]; [reflexivity | | |].
      - specialize (M1 _ S2 P2). cbn in *. lia.
      - specialize (M2 _ S1 P1). cbn in *. lia.
      - specialize (M1 _ S2 P2). specialize (M2 _ S1 P1). lia. }
    rewrite <- (prefixb_firstn r1 q P1), <- (prefixb_firstn r2 q P2), L. reflexivity.
  Qed.

  (* ---------- (F) the reference machine ---------- *)

  Definition ssorted (m : smap) : Prop := ksorted (map fst m).

  Lemma s_get_put k v (m : smap) k' :
    s_get k' (s_put k v m) = if key_eqb k' k then Some v else s_get k' m.
  Proof.
    induction m as [|[k2 v2] m IH]; cbn.
    - destruct (key_eqb k' k); reflexivity.
    - destruct (key_eqb k k2) eqn:E.
      + apply key_eqb_eq in E. subst k2. cbn. destruct (key_eqb k' k); reflexivity.
      + destruct (lex_ltb k k2); cbn.
        * destruct (key_eqb k' k); reflexivity.
        * destruct (key_eqb k' k2) eqn:E2; [|exact IH].
          apply key_eqb_eq in E2. subst k2. destruct (key_eqb k' k) eqn:E3; [|reflexivity].
          apply key_eqb_eq in E3. subst k'. rewrite key_eqb_refl in E. discriminate.
  Qed.

  Lemma s_put_keys k v (m : smap) x : In x (map fst (s_put k v m)) -> x = k \/ In x (map fst m).
  Proof.
    induction m as [|[k2 v2] m IH]; cbn.
    - intros [<- | []]. left. reflexivity.
    - destruct (key_eqb k k2) eqn:E.
      + apply key_eqb_eq in E. subst k2. cbn. tauto.
      + destruct (lex_ltb k k2); cbn; [intuition auto|].
        intros [<- | H]; [right; left; reflexivity|]. apply IH in H. tauto.
  Qed.

  Lemma s_put_sorted k v (m : smap) : ssorted m -> ssorted (s_put k v m).
  Proof.
    unfold ssorted, ksorted. induction m as [|[k2 v2] m IH]; cbn; intros Hs.
    - repeat constructor.
    - apply (ss_cons lex_lt) in Hs as [Hs Hlt]. destruct (key_eqb k k2) eqn:E.
      + apply key_eqb_eq in E. subst k2. cbn. apply (ss_cons lex_lt). auto.
      + destruct (lex_ltb k k2) eqn:C; cbn.
        * apply (ss_cons lex_lt). split; [apply (ss_cons lex_lt); auto|].
          intros b [<- | Hb]; [exact C | eapply lex_trans; [exact C | apply Hlt, Hb]].
        * apply (ss_cons lex_lt). split; [apply IH, Hs|]. intros b Hb.
          apply s_put_keys in Hb as [-> | Hb]; [|apply Hlt, Hb].
          unfold lex_lt. destruct (lex_ltb k2 k) eqn:C2; [reflexivity|].
          pose proof (lex_total _ _ C C2) as ->. rewrite key_eqb_refl in E. discriminate.
  Qed.

  Lemma s_get_in (m : smap) k : In k (map fst m) <-> s_get k m <> None.
  Proof.
    induction m as [|[k2 v2] m IH]; cbn; [split; [intros [] | congruence]|].
    destruct (key_eqb k k2) eqn:E.
    - apply key_eqb_eq in E. subst k2. split; [discriminate | auto].
    - rewrite IH. split; [intros [-> | H]; [rewrite key_eqb_refl in E; discriminate | exact H] | auto].
  Qed.

  Lemma s_put_length k v (m : smap) :
    ssorted m ->
    length (s_put k v m) = (length m + match s_get k m with Some _ => 0 | None => 1 end)%nat.
  Proof.
    unfold ssorted, ksorted. induction m as [|[k2 v2] m IH]; cbn; intros Hs; [reflexivity|].
    apply (ss_cons lex_lt) in Hs as [Hs Hlt]. destruct (key_eqb k k2) eqn:E; cbn; [lia|].
    destruct (lex_ltb k k2) eqn:C; cbn.
    - destruct (s_get k m) eqn:G; [|lia]. exfalso.
      assert (Hin : In k (map fst m)) by (apply s_get_in; congruence).
      apply (lex_lt_irrefl k). eapply lex_trans; [exact C | apply Hlt, Hin].
    - rewrite (IH Hs). destruct (s_get k m); lia.
  Qed.

  Lemma s_longest_spec q (m : smap) :
    is_longest (fun k => k <> [] /\ In k (map fst m)) q (s_longest q m).
  Proof.
    unfold s_longest.
    assert (G : forall (m : smap) best, prefixb best q = true ->
              let r := fold_left (fun best kv =>
                         if prefixb (fst kv) q && (length best <? length (fst kv))%nat then fst kv else best) m best in
              prefixb r q = true /\ (r = best \/ (r <> [] /\ In r (map fst m))) /\ (length best <= length r)%nat /\
              (forall k, In k (map fst m) -> prefixb k q = true -> (length k <= length r)%nat)).
    { clear m. induction m as [|[k2 v2] m IH]; intros best Hb; cbn [fold_left map fst].
      - repeat split; [exact Hb | left; reflexivity | lia | intros k []].
      - destruct (prefixb k2 q && (length best <? length k2)%nat) eqn:C.
        + apply andb_prop in C as [C1 C2]. apply Nat.ltb_lt in C2.
          destruct (IH k2 C1) as (R1 & R2 & R3 & R4). repeat split.
          * exact R1.
          * right. destruct R2 as [-> | [R2 R2']]; [|split; [exact R2 | right; exact R2']].
            split; [destruct k2; [cbn in C2; lia | discriminate] | left; reflexivity].
          * lia.
          * intros k [<- | Hk] Hp; [exact R3 | apply R4; assumption].
        + destruct (IH best Hb) as (R1 & R2 & R3 & R4). repeat split.
          * exact R1.
          * destruct R2 as [-> | [R2 R2']]; [left; reflexivity | right; split; [exact R2 | right; exact R2']].
          * exact R3.
          * intros k [<- | Hk] Hp; [|apply R4; assumption].
            rewrite Hp in C. cbn in C. apply Nat.ltb_ge in C. lia. }
    destruct (G m [] eq_refl) as (R1 & R2 & _ & R4). repeat split.
    - exact R1.
    - destruct R2 as [-> | R2]; [left; reflexivity | right; exact R2].
    - intros k [_ Hk] Hp. apply R4; assumption.
  Qed.

  (* --- simulation --- *)

  Definition R (t : trie) (m : smap) : Prop :=
    ordered (root t) /\ ssorted m /\ (forall k, get (root t) k = s_get k m) /\
    n t = Z.of_nat (length m).

  Lemma R_keys (t : trie) (m : smap) : R t m -> keys (root t) = map fst m.
  Proof.
    intros (Ho & Hs & Hg & _). apply ksorted_unique; [apply keys_sorted, Ho | exact Hs|].
    intros k. rewrite (keys_in _ k Ho), s_get_in, Hg. reflexivity.
  Qed.

  Lemma R_contains (t : trie) (m : smap) k :
    R t m -> contains (root t) k = match s_get k m with Some _ => true | None => false end.
  Proof.
    intros (_ & _ & Hg & _). unfold contains. destruct k as [|c rest].
    - rewrite <- Hg. reflexivity.
    - now rewrite Hg.
  Qed.

  (* the unexported helper of Put and the exported Contains agree (sequentially) *)
  Lemma contains_locked_eq (r : tst) k : contains_locked r k = contains r k.
  Proof.
    destruct k as [|c rest]; [reflexivity|]. unfold contains_locked, contains, get.
    destruct (get_node r c rest) as [[|nc [|] v l m r']|]; reflexivity.
  Qed.

  Lemma step_sim (t : trie) (m : smap) (o : op) :
    put_nonempty o -> R t m ->
    R (fst (step t o)) (fst (s_step m o)) /\ snd (step t o) = snd (s_step m o).
  Proof.
    intros Hne HR. pose proof HR as (Ho & Hs & Hg & Hn).
    destruct o as [k v | k | k | | | p | q]; cbn [step s_step fst snd]; try (split; [exact HR|]).
    - destruct k as [|c rest]; [destruct Hne|]. cbn [fst snd]. split; [|reflexivity].
      unfold R. cbn [root n]. repeat split.
      + apply ordered_put, Ho.
      + apply s_put_sorted, Hs.
      + intros k'. rewrite get_put, s_get_put, Hg. reflexivity.
      + rewrite contains_locked_eq, (R_contains t m _ HR), (s_put_length _ _ _ Hs). destruct (s_get (c :: rest) m); lia.
    - now rewrite Hg.
    - now rewrite (R_contains t m k HR).
    - now rewrite Hn.
    - now rewrite (R_keys t m HR).
    - destruct p as [|c rest]; [reflexivity|].
      rewrite (starts_with_spec (root t) (c :: rest) Ho ltac:(discriminate)), (R_keys t m HR). reflexivity.
    - destruct q as [|c rest]; [reflexivity|].
      destruct (longest_prefix_spec (root t) (c :: rest) ltac:(discriminate)) as (r & E & Hl).
      rewrite E. do 2 f_equal.
      apply (is_longest_unique (fun k => get (root t) k <> None) (c :: rest)); [cbn; congruence | exact Hl|].
      destruct (s_longest_spec (c :: rest) m) as (P1 & P2 & P3). repeat split.
      + exact P1.
      + destruct P2 as [-> | [_ P2]]; [left; reflexivity | right]. rewrite Hg. apply s_get_in, P2.
      + intros k Hk Hp. apply P3; [|exact Hp]. split; [destruct k; [cbn in Hk; congruence | discriminate]|].
        apply s_get_in. now rewrite <- Hg.
  Qed.

  Lemma run_sim (ops : list op) : forall (t : trie) (m : smap),
    Forall put_nonempty ops -> R t m ->
    R (fst (run ops t)) (fst (run_spec ops m)) /\ snd (run ops t) = snd (run_spec ops m).
  Proof.
    induction ops as [|o ops IH]; intros t m Hne HR; cbn [run run_spec]; [split; [exact HR | reflexivity]|].
    inversion Hne as [|? ? Ho Hne']; subst.
    destruct (step_sim t m o Ho HR) as [HR1 Hout].
    destruct (step t o) as [t1 x]. destruct (s_step m o) as [m1 y]. cbn [fst snd] in *.
    destruct (IH t1 m1 Hne' HR1) as [HR2 Houts].
    destruct (run ops t1) as [t2 xs]. destruct (run_spec ops m1) as [m2 ys]. cbn [fst snd] in *.
    split; [exact HR2 | congruence].
  Qed.

  Lemma R_init : R empty [].
  Proof.
    unfold R. split; [exact I|]. split; [constructor|]. split; [|reflexivity].
    intros [|c rest]; reflexivity.
  Qed.

  (* --- the reference state after a history, in terms of the history --- *)

  Definition M (ops : list op) : smap := fst (run_spec ops []).

  Lemma run_spec_app (ops1 : list op) : forall ops2 (m : smap),
    fst (run_spec (ops1 ++ ops2) m) = fst (run_spec ops2 (fst (run_spec ops1 m))).
  Proof.
    induction ops1 as [|o ops1 IH]; intros ops2 m; cbn [app run_spec]; [reflexivity|].
    destruct (s_step m o) as [m1 x]. specialize (IH ops2 m1).
    destruct (run_spec (ops1 ++ ops2) m1). destruct (run_spec ops1 m1). cbn [fst] in *. exact IH.
  Qed.

  Lemma M_snoc (ops : list op) (o : op) : M (ops ++ [o]) = fst (s_step (M ops) o).
  Proof.
    unfold M. rewrite run_spec_app. cbn [run_spec]. destruct (s_step (fst (run_spec ops [])) o). reflexivity.
  Qed.

  Lemma M_latest (ops : list op) k : s_get k (M ops) = latest k ops.
  Proof.
    induction ops as [|o ops IH] using rev_ind; [reflexivity|].
    rewrite M_snoc. unfold latest. rewrite fold_left_app. cbn [fold_left]. fold (latest k ops).
    destruct o as [k' v | | | | | |]; cbn [s_step fst]; try exact IH.
    rewrite s_get_put, IH. reflexivity.
  Qed.

  Lemma latest_was_put (ops : list op) k : latest k ops <> None <-> was_put k ops.
  Proof.
    unfold was_put. induction ops as [|o ops IH] using rev_ind.
    - cbn. split; [congruence | intros (v & [])].
    - unfold latest. rewrite fold_left_app. cbn [fold_left]. fold (latest k ops).
      destruct o as [k' v | | | | | |];
        try (rewrite IH; split; intros (v0 & H); exists v0;
             [apply in_or_app; left; exact H | apply in_app_or in H as [H | [H | []]]; [exact H | discriminate]]).
      destruct (key_eqb k k') eqn:E.
      + apply key_eqb_eq in E. subst k'. split; [|discriminate]. intros _. exists v. apply in_or_app. right. left. reflexivity.
      + rewrite IH. split; intros (v0 & H); exists v0.
        * apply in_or_app. left. exact H.
        * apply in_app_or in H as [H | [H | []]]; [exact H|]. injection H as -> ->. rewrite key_eqb_refl in E. discriminate.
  Qed.

  (* ---------- the statements used by C09_Props ---------- *)

  Section History.
    Variable ops : list op.
    Hypothesis Hne : Forall put_nonempty ops.

    Lemma state_R : R (state_after ops) (M ops).
    Proof. apply (run_sim ops empty [] Hne R_init). Qed.

    Lemma refines_map : outs ops = outs_spec ops.
    Proof. apply (run_sim ops empty [] Hne R_init). Qed.

    Lemma ordered_invariant : ordered (root (state_after ops)).
    Proof. apply state_R. Qed.

    Lemma get_is_latest k : get (root (state_after ops)) k = latest k ops.
    Proof. destruct state_R as (_ & _ & Hg & _). now rewrite Hg, M_latest. Qed.

    Lemma contains_iff_put k : contains (root (state_after ops)) k = true <-> was_put k ops.
    Proof.
      rewrite (R_contains _ _ k state_R), M_latest, <- latest_was_put.
      destruct (latest k ops); split; congruence.
    Qed.

    Lemma keys_sorted_complete :
      let ks := keys (root (state_after ops)) in
      StronglySorted lex_lt ks /\ NoDup ks /\ (forall k, In k ks <-> was_put k ops).
    Proof.
      cbn zeta. pose proof ordered_invariant as Ho. repeat split.
      - apply keys_sorted, Ho.
      - apply (ss_nodup lex_lt lex_lt_irrefl), keys_sorted, Ho.
      - intros H. apply latest_was_put. rewrite <- get_is_latest. now apply keys_in.
      - intros H. apply keys_in; [exact Ho|]. rewrite get_is_latest. now apply latest_was_put.
    Qed.

    Lemma size_is_distinct_keys (ks : list key) :
      NoDup ks -> (forall k, In k ks <-> was_put k ops) ->
      n (state_after ops) = Z.of_nat (length ks).
    Proof.
      intros Hnd Hks. destruct state_R as (_ & _ & _ & Hn). rewrite Hn. f_equal.
      rewrite <- (map_length fst (M ops)), <- (R_keys _ _ state_R).
      destruct keys_sorted_complete as (_ & Hnd' & Hin).
      apply Permutation_length, NoDup_Permutation; [exact Hnd' | exact Hnd|].
      intros k. rewrite Hin, Hks. reflexivity.
    Qed.

    Lemma never_panics : ~ In OPanic (outs ops).
    Proof.
      rewrite refines_map. unfold outs_spec. generalize (@nil (key * V)). clear Hne.
      induction ops as [|o ops' IH]; intros m; cbn [run_spec]; [intros []|].
      assert (Ho : snd (s_step m o) <> OPanic).
      { destruct o as [k v | | | | | p | q]; cbn [s_step snd]; try discriminate. destruct p; discriminate. }
      specialize (IH (fst (s_step m o))).
      assert (E : forall (p : smap * list out) (y : out),
                 snd (let '(m2, xs) := p in (m2, y :: xs)) = y :: snd p) by (intros [? ?] ?; reflexivity).
      destruct (s_step m o) as [m1 y]. cbn [fst snd] in *. rewrite E.
      intros [H | H]; [apply Ho; exact H | apply IH, H].
    Qed.
    Lemma stored_iff_put k : get (root (state_after ops)) k <> None <-> was_put k ops.
    Proof. rewrite get_is_latest. apply latest_was_put. Qed.

    Lemma longest_prefix_history q :
      q <> [] ->
      exists r, longest_prefix (root (state_after ops)) q = Ok r /\
                is_longest (fun k => was_put k ops) q r.
    Proof.
      intros Hq. destruct (longest_prefix_spec (root (state_after ops)) q Hq) as (r & E & P1 & P2 & P3).
      exists r. split; [exact E|]. repeat split.
      - exact P1.
      - destruct P2 as [-> | P2]; [left; reflexivity | right; apply stored_iff_put, P2].
      - intros k Hk Hp. apply P3; [apply stored_iff_put, Hk | exact Hp].
    Qed.

    Lemma starts_with_history p :
      p <> [] ->
      starts_with (root (state_after ops)) p =
      (false, filter (prefixb p) (keys (root (state_after ops)))).
    Proof. intros Hp. apply starts_with_spec; [apply ordered_invariant | exact Hp]. Qed.
  End History.

End Proofs.

(* lex_ltb is the bytewise lexicographic order: a proper prefix comes first,
   otherwise the first differing byte decides *)
Lemma lex_ltb_spec a : forall b,
  lex_ltb a b = true <->
  (exists s, s <> [] /\ b = a ++ s) \/
  (exists p x y a' b', a = p ++ x :: a' /\ b = p ++ y :: b' /\ x < y).
Proof.
  induction a as [|x a IH]; intros [|y b]; cbn [lex_ltb].
  - split; [discriminate|].
    intros [(s & Hs & E) | (p & x & y & a' & b' & E & _)]; [destruct s; [contradiction | discriminate] | destruct p; discriminate].
  - split; [intros _; left; exists (y :: b); split; [discriminate | reflexivity] | reflexivity].
  - split; [discriminate|].
    intros [(s & _ & E) | (p & x0 & y0 & a' & b' & _ & E & _)]; [discriminate | destruct p; discriminate].
  - destruct (Z.ltb_spec x y) as [Hlt | Hge].
    + split; [intros _ | reflexivity]. right. exists [], x, y, a, b. auto.
    + destruct (Z.ltb_spec y x) as [Hgt | Hle].
      * split; [discriminate|].
        intros [(s & _ & E) | (p & x0 & y0 & a' & b' & E1 & E2 & Hxy)].
        -- cbn in E. inversion E. lia.
        -- destruct p as [|z p]; cbn in E1, E2; inversion E1; inversion E2; subst; lia.
      * assert (x = y) by lia. subst y. rewrite IH. split.
        -- intros [(s & Hs & ->) | (p & x0 & y0 & a' & b' & -> & -> & Hxy)].
           ++ left. exists s. auto.
           ++ right. exists (x :: p), x0, y0, a', b'. auto.
        -- intros [(s & Hs & E) | (p & x0 & y0 & a' & b' & E1 & E2 & Hxy)].
           ++ cbn in E. inversion E. subst b. left. exists s. auto.
           ++ destruct p as [|z p]; cbn in E1, E2.
              ** inversion E1. inversion E2. subst. lia.
              ** inversion E1. inversion E2. subst. right. exists p, x0, y0, a', b'. auto.
Qed.
