(* C09_Props.v — property C09 (the trie behaves as a string-keyed map with exact
   prefix queries), stated over the model of C09_Model.v (trie.go as of /repo
   commit 7fb0178: after the repairs #22 Get/isValid, #23 collect/raw bytes and
   #24 Put counting, inserting and testing membership under one lock).  Only statements here; each is
   closed by [exact] of a lemma of C09_Proofs.v and followed by Print Assumptions.

   Every theorem is for every value type V, keys that are arbitrary lists of
   integers (so in particular arbitrary byte strings — no ASCII assumption),
   and EVERY history whose Puts have non-empty keys ([Forall put_nonempty ops],
   the domain the property names) — nothing is bounded.

   Vocabulary:  was_put k ops   := exists v, In (Put k v) ops
                latest k ops    := the value of the last Put of k in ops (None if none)
                prefixb p k     = true  <->  exists s, k = p ++ s        (C09_prefixb_iff)
                lex_lt a b      := lex_ltb a b = true, the bytewise lexicographic order (C09_lex_ltb_is_lexicographic)

   Reading guide (clauses of the statement -> theorems)
     Get/Contains report exactly the keys put, latest value     C09_get_is_latest, C09_contains_iff_put,
       (a proper prefix / an extension is not reported)          C09_prefix_or_extension_not_reported,
                                                                 one-step laws C09_get_put_same / _other (every tree)
     Size = number of distinct keys                              C09_size_is_distinct_keys  (Put counts with the
                                                                 unexported helper: C09_put_membership_test_is_contains)
     Keys: every stored key once, unaltered, byte-lex order      C09_keys_sorted_complete
     StartsWith(p): the stored keys beginning with p, in order   C09_starts_with_spec
     LongestPrefix(q): longest stored prefix of q, empty if none C09_longest_prefix_spec
     empty key: absent; empty prefix/query: error; no change     C09_empty_arguments
     all together, as a refinement of a sorted association list  C09_refines_map
     search-order invariant                                      C09_ordered_invariant
     no panic on the domain                                      C09_never_panics *)

From Gogu Require Import Base C09_Model C09_Proofs.
From Coq Require Import Sorted.
Local Open Scope Z_scope.

(* ---------- vocabulary ---------- *)

Theorem C09_prefixb_iff : forall p k : key, prefixb p k = true <-> exists s, k = p ++ s.
Proof. exact prefixb_iff. Qed.
Print Assumptions C09_prefixb_iff.

Theorem C09_lex_ltb_is_lexicographic : forall a b : key,
  lex_ltb a b = true <->
  (exists s, s <> [] /\ b = a ++ s) \/
  (exists p x y a' b', a = p ++ x :: a' /\ b = p ++ y :: b' /\ x < y).
Proof. exact lex_ltb_spec. Qed.
Print Assumptions C09_lex_ltb_is_lexicographic.

(* ---------- the invariant ---------- *)

Theorem C09_ordered_invariant :
  forall (V : Type) (ops : list (@op V)), Forall put_nonempty ops ->
  ordered (root (state_after ops)).
Proof. intros V. exact ordered_invariant. Qed.
Print Assumptions C09_ordered_invariant.

(* ---------- Get after Put, on EVERY tree (no invariant needed) ---------- *)

Theorem C09_get_put_same :
  forall (V : Type) (t : @tst V) c rest v, get (put t c rest v) (c :: rest) = Some v.
Proof. intros V t c rest v. rewrite get_put. now rewrite key_eqb_refl. Qed.
Print Assumptions C09_get_put_same.

Theorem C09_get_put_other :
  forall (V : Type) (t : @tst V) c rest v k, k <> c :: rest -> get (put t c rest v) k = get t k.
Proof. intros V t c rest v k H. rewrite get_put. now rewrite (key_eqb_neq _ _ H). Qed.
Print Assumptions C09_get_put_other.

(* ---------- over all histories ---------- *)

(* Get returns the latest value put under exactly that key, absent otherwise *)
Theorem C09_get_is_latest :
  forall (V : Type) (ops : list (@op V)), Forall put_nonempty ops ->
  forall k, get (root (state_after ops)) k = latest k ops.
Proof. intros V. exact get_is_latest. Qed.
Print Assumptions C09_get_is_latest.

Theorem C09_contains_iff_put :
  forall (V : Type) (ops : list (@op V)), Forall put_nonempty ops ->
  forall k, contains (root (state_after ops)) k = true <-> was_put k ops.
Proof. intros V. exact contains_iff_put. Qed.
Print Assumptions C09_contains_iff_put.

(* in particular a proper prefix or an extension of a stored key is not
   reported unless it was itself put *)
Theorem C09_prefix_or_extension_not_reported :
  forall (V : Type) (ops : list (@op V)), Forall put_nonempty ops ->
  forall k, ~ was_put k ops ->
  get (root (state_after ops)) k = None /\ contains (root (state_after ops)) k = false.
Proof.
  intros V ops Hne k Hk. split.
  - destruct (get (root (state_after ops)) k) eqn:G; [|reflexivity].
    exfalso. apply Hk, (stored_iff_put ops Hne k). congruence.
  - destruct (contains (root (state_after ops)) k) eqn:C; [|reflexivity].
    exfalso. apply Hk, (contains_iff_put ops Hne k), C.
Qed.
Print Assumptions C09_prefix_or_extension_not_reported.

(* Size: for any duplicate-free enumeration ks of the keys that were put *)
Theorem C09_size_is_distinct_keys :
  forall (V : Type) (ops : list (@op V)), Forall put_nonempty ops ->
  forall ks : list key, NoDup ks -> (forall k, In k ks <-> was_put k ops) ->
  n (state_after ops) = Z.of_nat (length ks).
Proof. intros V. exact size_is_distinct_keys. Qed.
Print Assumptions C09_size_is_distinct_keys.

(* the membership test Put now makes under its own lock (the unexported
   t.contains, which reads the node) answers exactly as the exported Contains
   (which goes through Get) — on every tree, every key *)
Theorem C09_put_membership_test_is_contains :
  forall (V : Type) (t : @tst V) (k : key), contains_locked t k = contains t k.
Proof. intros V. exact contains_locked_eq. Qed.
Print Assumptions C09_put_membership_test_is_contains.

(* Keys: strictly increasing bytewise-lexicographically (hence each once), and
   exactly the keys that were put — as the very byte lists that were put *)
Theorem C09_keys_sorted_complete :
  forall (V : Type) (ops : list (@op V)), Forall put_nonempty ops ->
  let ks := keys (root (state_after ops)) in
  StronglySorted lex_lt ks /\ NoDup ks /\ (forall k, In k ks <-> was_put k ops).
Proof. intros V. exact keys_sorted_complete. Qed.
Print Assumptions C09_keys_sorted_complete.

(* StartsWith(p), p non-empty: no error, and the queue holds exactly the
   sub-sequence of Keys() that begin with p *)
Theorem C09_starts_with_spec :
  forall (V : Type) (ops : list (@op V)), Forall put_nonempty ops ->
  forall p : key, p <> [] ->
  starts_with (root (state_after ops)) p =
  (false, filter (prefixb p) (keys (root (state_after ops)))).
Proof. intros V. exact starts_with_history. Qed.
Print Assumptions C09_starts_with_spec.

(* LongestPrefix(q), q non-empty: the result r is a prefix of q, was put unless
   it is empty, and no key that was put and is a prefix of q is longer — so r
   is THE longest stored prefix, and it is empty only if there is none *)
Theorem C09_longest_prefix_spec :
  forall (V : Type) (ops : list (@op V)), Forall put_nonempty ops ->
  forall q : key, q <> [] ->
  exists r, longest_prefix (root (state_after ops)) q = Ok r /\
            prefixb r q = true /\
            (r = [] \/ was_put r ops) /\
            (forall k, was_put k ops -> prefixb k q = true -> (length k <= length r)%nat).
Proof. intros V. exact longest_prefix_history. Qed.
Print Assumptions C09_longest_prefix_spec.

(* empty arguments: absent / rejected, on every trie; and no operation other
   than Put changes the trie *)
Theorem C09_empty_arguments :
  forall (V : Type) (t : @trie V),
  get (root t) [] = None /\ contains (root t) [] = false /\
  starts_with (root t) [] = (true, []) /\ longest_prefix (root t) [] = Err EmptyArg /\
  (forall o, match o with Put _ _ => False | _ => True end -> fst (step t o) = t).
Proof.
  intros V t. repeat split. intros o Ho. destruct o; [destruct Ho | | | | | |]; reflexivity.
Qed.
Print Assumptions C09_empty_arguments.

(* the whole behaviour: every output of every history is the output of the
   association list kept sorted by the bytewise-lexicographic order *)
Theorem C09_refines_map :
  forall (V : Type) (ops : list (@op V)), Forall put_nonempty ops ->
  outs ops = outs_spec ops.
Proof. intros V. exact refines_map. Qed.
Print Assumptions C09_refines_map.

Theorem C09_never_panics :
  forall (V : Type) (ops : list (@op V)), Forall put_nonempty ops -> ~ In OPanic (outs ops).
Proof. intros V. exact never_panics. Qed.
Print Assumptions C09_never_panics.

(* ---------- non-vacuity: a history inside the domain with nested keys, a
   byte >= 0x80, an overwrite, a lookup of an unstored prefix ---------- *)
Example history_example :
  let ops := [Put [97; 98; 99] 1; Get [97; 98]; Put [97; 98] 2; Put [195; 169] 3; Put [97; 98; 99] 4;
              Size; Keys; StartsWith [97; 98]; LongestPrefix [97; 98; 100]; LongestPrefix [98];
              Contains [195]; Get [97; 98; 99]] in
  Forall put_nonempty ops /\
  outs ops =
    [ODone; OGet None; ODone; ODone; ODone; OSize 3;
     OKeys [[97; 98]; [97; 98; 99]; [195; 169]];
     OStarts false [[97; 98]; [97; 98; 99]];
     OLongest (Ok [97; 98]); OLongest (Ok []); OBool false; OGet (Some 4)].
Proof. split; [repeat constructor | vm_compute; reflexivity]. Qed.
