(* C09_Wire.v — wire glue for C09 (no proofs; exercised by the correspondence).

   input    = concat [op; len; b1 .. blen; val]      (key/prefix/query as a length-prefixed byte list;
              op: 0 Put key val | 1 Get key | 2 Contains key | 3 Size | 4 Keys
                  5 StartsWith prefix | 6 LongestPrefix query        unused fields: len 0, val 0)
   observed = concat (per-op results) ++ [final Size] ++ enc_zss (final Keys, drained)
              Put           -> [0]                    ([2] if it panicked)
              Get           -> [found; value]         (value 0 when not found)
              Contains      -> [b]
              Size          -> [n]
              Keys          -> err :: enc_zss (drained queue)          (err is always 0)
              StartsWith    -> err :: enc_zss (drained queue)
              LongestPrefix -> [0; len; bytes ..] | [1; 1]
   kept in step with harness/c09.go.

   Type instances.  An input may begin with the pseudo-record [7; 0; i]: it
   selects the Go instantiation the harness drives — i = 0 (or no record):
   Trie[string, int] over queue.Queue, results drained and put back;
   i = 16 + bits, bit 1: V is string (else a non-comparable struct), bit 2: the
   result queue is queue.LQueue (behind a small adapter, see notes/C09.md)
   instead of queue.Queue, bit 4: drained results are NOT put back, bit 8: K is
   a named string type.  Keys are rebuilt from fresh byte slices and values by
   strconv for every call.  The observation is decoded back to this wire, so
   the record is simply dropped here: the model has no type parameter the
   property could depend on. *)

From Gogu Require Import Base C09_Model.

Definition zop := @op Z.
Definition zout := @out Z.

Definition mk_op (o : Z) (k : key) (v : Z) : option zop :=
  match o with
  | 0 => Some (Put k v)
  | 1 => Some (Get k)
  | 2 => Some (Contains k)
  | 3 => Some Size
  | 4 => Some Keys
  | 5 => Some (StartsWith k)
  | 6 => Some (LongestPrefix k)
  | _ => None
  end.

Fixpoint dec_ops (fuel : nat) (w : list Z) : option (list zop) :=
  match w with
  | [] => Some []
  | o :: w1 =>
      match fuel with
      | O => None
      | S f =>
          match rd_zs w1 with
          | Some (k, v :: w2) =>
              match mk_op o k v, dec_ops f w2 with
              | Some x, Some xs => Some (x :: xs)
              | _, _ => None
              end
          | _ => None
          end
      end
  end.

Definition enc_out (o : zout) : list Z :=
  match o with
  | ODone => [0]
  | OPanic => [2]
  | OGet None => [0; 0]
  | OGet (Some v) => [1; v]
  | OBool b => enc_bool b
  | OSize z => [z]
  | OKeys ks => 0 :: enc_zss ks
  | OStarts e ks => enc_bool e ++ enc_zss ks
  | OLongest r => enc_res enc_zs r
  end.

Definition strip_instance (w : list Z) : list Z :=
  match w with
  | 7 :: 0 :: _ :: rest => rest
  | _ => w
  end.

(* the model (C09_Model.run) on a wire input *)
Definition c09_run (w0 : list Z) : list Z :=
  let w := strip_instance w0 in
  match dec_ops (length w) w with
  | Some ops =>
      let '(t, xs) := run ops empty in
      flat_map enc_out xs ++ [n t] ++ enc_zss (keys (root t))
  | None => wire_error
  end.

(* the specification (the sorted association list C09_Model.run_spec) on a wire input *)
Definition c09_spec (w0 : list Z) : list Z :=
  let w := strip_instance w0 in
  match dec_ops (length w) w with
  | Some ops =>
      let '(m, xs) := run_spec ops [] in
      flat_map enc_out xs ++ [Z.of_nat (length m)] ++ enc_zss (map fst m)
  | None => wire_error
  end.

Definition c09_agree (w obs : list Z) : bool := zlist_eqb obs (c09_run w).

(* The property determines every observable uniquely (the outputs of the
   reference machine; C09_Props.C09_refines_map proves the repaired model
   produces exactly these for every history of Puts with non-empty keys), so
   the property holds on an observation iff it is the reference machine's. *)
Definition c09_holds (w obs : list Z) : bool := zlist_eqb obs (c09_spec w).
