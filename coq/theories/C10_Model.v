(* C10_Model.v — executable model of /repo/btree/btree.go (algs4 B-tree,
   maxChildren = 4, tombstone removal), transcribed statement by statement.
   NO PROOFS in this file.

   The model is the code AFTER the two small repairs of fixes/builder-c10
   (DESIGN §7 #25):
     fix 1  search (leaf branch): a tombstoned entry is not a hit
              `if gogu.Equal(key, c.key) && !c.isRemoved { return c.value, true }`
     fix 2  Put: `_, found := t.Get(key)` before the insert and `t.n++` only
              `if !found` (mirrors Remove, which already looks the key up first)
   The unrepaired behaviour is kept as [search0]/[put0]/[remove0] (used only by
   the `_refuted` witnesses in C10_Props.v).

   Representation.  Go: `node{children [4]entry; m int}`, `entry{key; value;
   next *node; isRemoved}`.  Only children[0..m) is ever read (every loop is
   bounded by m and `children[i+1]` is guarded by `i+1 == n.m ||`), so a node is
   the list of its first m entries; `next == nil` is [None].  Dereferencing a nil
   `next` at an internal level is a Go panic and is [Panic] here (C10_Props
   proves it unreachable from New).  Keys and values are Go ints (Z); `n` is a
   Go int (Z); `height` is the recursion argument (nat). *)

From Gogu Require Import Base.
Local Open Scope Z_scope.

Inductive node : Type :=
| Node : list entry -> node
with entry : Type :=
| Entry : Z -> Z -> option node -> bool -> entry.   (* key value next isRemoved *)

Definition entries (n : node) : list entry := let 'Node es := n in es.
Definition ekey (e : entry) : Z := let 'Entry k _ _ _ := e in k.
Definition eval (e : entry) : Z := let 'Entry _ v _ _ := e in v.
Definition enext (e : entry) : option node := let 'Entry _ _ c _ := e in c.
Definition erem (e : entry) : bool := let 'Entry _ _ _ r := e in r.

Record btree : Type := BTree { root : node; cnt : Z; height : nat }.

(* New: root = newNode(0), n = 0, height = 0 *)
Definition new : btree := BTree (Node []) 0 O.

Definition size (t : btree) : Z := cnt t.
Definition is_empty (t : btree) : bool := size t =? 0.

(* n.children[0].key — the array slot always exists in Go (zero value when never written) *)
Definition first_key (n : node) : Z :=
  match entries n with e :: _ => ekey e | [] => 0 end.

(* ------------------------------------------------------------------ search *)

(* external node:  for i < m: if key == children[i].key && !children[i].isRemoved
                               { return children[i].value, true }          (fix 1) *)
Fixpoint search_leaf (es : list entry) (key : Z) : option Z :=
  match es with
  | [] => None
  | e :: es' =>
      if (key =? ekey e) && negb (erem e) then Some (eval e) else search_leaf es' key
  end.

(* the internal-node test `i+1 == n.m || key < children[i+1].key`, as a test on
   the entries after position i *)
Definition stop_here (rest : list entry) (key : Z) : bool :=
  match rest with
  | [] => true
  | e1 :: _ => key <? ekey e1
  end.

(* internal node:  for i < m: if i+1 == m || key < children[i+1].key
                                { return children[i].next.search(key, height-1) } *)
Fixpoint search_kids (rec : node -> res (option Z)) (es : list entry) (key : Z)
  : res (option Z) :=
  match es with
  | [] => Ok None                     (* m = 0: the loop body never runs *)
  | e :: es' =>
      if stop_here es' key then
        match enext e with
        | Some c => rec c
        | None => Panic               (* nil.search: nil dereference *)
        end
      else search_kids rec es' key
  end.

Fixpoint search (h : nat) (n : node) (key : Z) : res (option Z) :=
  match h with
  | O => Ok (search_leaf (entries n) key)
  | S h' => search_kids (fun c => search h' c key) (entries n) key
  end.

Definition get (t : btree) (key : Z) : res (option Z) :=
  search (height t) (root t) key.

(* ------------------------------------------------------------------ insert *)

(* external node: the scan for the position j; overwrites value and tombstone
   flag of an equal key (second component false: nothing was added), otherwise
   shifts and stores entry{key,val,nil} (isRemoved false whatever the argument) *)
Fixpoint leaf_ins (es : list entry) (key val : Z) (rm : bool) : list entry * bool :=
  match es with
  | [] => ([Entry key val None false], true)
  | e :: es' =>
      if key =? ekey e then (Entry (ekey e) val (enext e) rm :: es', false)
      else if key <? ekey e then (Entry key val None false :: e :: es', true)
      else let '(r, added) := leaf_ins es' key val rm in (e :: r, added)
  end.

(* n.m++ ; if n.m < maxChildren { return nil } else { return t.split(n) }
   split: h gets children[2..4), n keeps children[0..2) *)
Definition finish (es : list entry) : node * option node :=
  if (length es <? 4)%nat then (Node es, None)
  else (Node (firstn 2 es), Some (Node (firstn 2 (skipn 2 es)))).

(* internal node: descend into children[j]; if the child split, store
   entry{key: u.children[0].key, value: val, next: u} at j+1 *)
Fixpoint ins_kids (rec : node -> res (node * option node)) (val : Z)
         (es : list entry) (key : Z) : res (list entry * bool) :=
  match es with
  | [] => Ok ([Entry key val None false], true)   (* m = 0: falls through with j = 0 *)
  | e :: es' =>
      if stop_here es' key then
        match enext e with
        | None => Panic
        | Some c =>
            match rec c with
            | Ok (c', None) =>
                Ok (Entry (ekey e) (eval e) (Some c') (erem e) :: es', false)
            | Ok (c', Some u) =>
                Ok (Entry (ekey e) (eval e) (Some c') (erem e)
                      :: Entry (first_key u) val (Some u) false :: es', true)
            | Err k => Err k
            | Panic => Panic
            end
        end
      else
        match ins_kids rec val es' key with
        | Ok (r, added) => Ok (e :: r, added)
        | Err k => Err k
        | Panic => Panic
        end
  end.

(* returns the node as mutated in place and the split-off sibling (nil = None) *)
Fixpoint insert (h : nat) (n : node) (key val : Z) (rm : bool) : res (node * option node) :=
  match h with
  | O =>
      let '(es', added) := leaf_ins (entries n) key val rm in
      Ok (if added then finish es' else (Node es', None))
  | S h' =>
      match ins_kids (fun c => insert h' c key val rm) val (entries n) key with
      | Ok (es', added) => Ok (if added then finish es' else (Node es', None))
      | Err k => Err k
      | Panic => Panic
      end
  end.

(* Put (fix 2: count only when the key was absent or tombstoned) *)
Definition put_with (srch : nat -> node -> Z -> res (option Z)) (count_always : bool)
           (t : btree) (key val : Z) : res btree :=
  match srch (height t) (root t) key with
  | Ok found =>
      match insert (height t) (root t) key val false with
      | Ok (r', u) =>
          let n' := if count_always then cnt t + 1
                    else match found with Some _ => cnt t | None => cnt t + 1 end in
          match u with
          | None => Ok (BTree r' n' (height t))
          | Some u' =>
              (* split the root *)
              Ok (BTree (Node [Entry (first_key r') 0 (Some r') false;
                               Entry (first_key u') 0 (Some u') false])
                        n' (S (height t)))
          end
      | Err k => Err k
      | Panic => Panic
      end
  | Err k => Err k
  | Panic => Panic
  end.

Definition put : btree -> Z -> Z -> res btree := put_with search false.

(* Remove: val, ok := Get(key); if !ok return; n--; root.insert(key, val, height, true) *)
Definition remove_with (srch : nat -> node -> Z -> res (option Z)) (t : btree) (key : Z)
  : res btree :=
  match srch (height t) (root t) key with
  | Ok None => Ok t
  | Ok (Some val) =>
      match insert (height t) (root t) key val true with
      | Ok (r', _) => Ok (BTree r' (cnt t - 1) (height t))
      | Err k => Err k
      | Panic => Panic
      end
  | Err k => Err k
  | Panic => Panic
  end.

Definition remove : btree -> Z -> res btree := remove_with search.

(* ---------------------------------------------------------------- traverse *)

(* external node: skip tombstones, call fn(key, value) — here: collect *)
Fixpoint trav_leaf (es : list entry) : list (Z * Z) :=
  match es with
  | [] => []
  | e :: es' => if erem e then trav_leaf es' else (ekey e, eval e) :: trav_leaf es'
  end.

Fixpoint trav_kids (rec : node -> res (list (Z * Z))) (es : list entry) : res (list (Z * Z)) :=
  match es with
  | [] => Ok []
  | e :: es' =>
      match enext e with
      | None => Panic
      | Some c =>
          match rec c with
          | Ok l =>
              match trav_kids rec es' with
              | Ok l' => Ok (l ++ l')
              | Err k => Err k
              | Panic => Panic
              end
          | Err k => Err k
          | Panic => Panic
          end
      end
  end.

Fixpoint trav (h : nat) (n : node) : res (list (Z * Z)) :=
  match h with
  | O => Ok (trav_leaf (entries n))
  | S h' => trav_kids (trav h') (entries n)
  end.

Definition traverse (t : btree) : res (list (Z * Z)) := trav (height t) (root t).

(* ------------------------------------------- the code before the repairs *)

(* search as it was: any entry with an equal key is a hit, tombstoned or not *)
Fixpoint search_leaf0 (es : list entry) (key : Z) : option Z :=
  match es with
  | [] => None
  | e :: es' => if key =? ekey e then Some (eval e) else search_leaf0 es' key
  end.

Fixpoint search0 (h : nat) (n : node) (key : Z) : res (option Z) :=
  match h with
  | O => Ok (search_leaf0 (entries n) key)
  | S h' => search_kids (fun c => search0 h' c key) (entries n) key
  end.

Definition get0 (t : btree) (key : Z) : res (option Z) := search0 (height t) (root t) key.
Definition put0 : btree -> Z -> Z -> res btree := put_with search0 true.   (* t.n++ always *)
Definition remove0 : btree -> Z -> res btree := remove_with search0.

(* ------------------------------------------------------------- histories *)

Inductive op : Type :=
| Put (k v : Z)
| Remove (k : Z)
| Get (k : Z)
| Size
| IsEmpty
| Traverse.

Inductive out : Type :=
| ONone                       (* Put, Remove return nothing *)
| OGet (r : option Z)         (* Some v = (v, true); None = (zero, false) *)
| OSize (n : Z)
| OEmpty (b : bool)
| OTrav (l : list (Z * Z)).

Definition step (t : btree) (o : op) : res (btree * out) :=
  match o with
  | Put k v => match put t k v with Ok t' => Ok (t', ONone) | Err e => Err e | Panic => Panic end
  | Remove k => match remove t k with Ok t' => Ok (t', ONone) | Err e => Err e | Panic => Panic end
  | Get k => match get t k with Ok r => Ok (t, OGet r) | Err e => Err e | Panic => Panic end
  | Size => Ok (t, OSize (size t))
  | IsEmpty => Ok (t, OEmpty (is_empty t))
  | Traverse => match traverse t with Ok l => Ok (t, OTrav l) | Err e => Err e | Panic => Panic end
  end.

(* run a history from a state, collecting the outputs; a panic aborts *)
Fixpoint run (ops : list op) (t : btree) : res (btree * list out) :=
  match ops with
  | [] => Ok (t, [])
  | o :: ops' =>
      match step t o with
      | Ok (t', x) =>
          match run ops' t' with
          | Ok (t'', xs) => Ok (t'', x :: xs)
          | Err e => Err e
          | Panic => Panic
          end
      | Err e => Err e
      | Panic => Panic
      end
  end.

(* ------------------------------------------ the reference machine (spec) *)
(* An ordered map as an association list kept in ascending key order. *)

Definition amap := list (Z * Z).

Fixpoint sput (k v : Z) (m : amap) : amap :=
  match m with
  | [] => [(k, v)]
  | (k', v') :: m' =>
      if k <? k' then (k, v) :: m
      else if k =? k' then (k, v) :: m'
      else (k', v') :: sput k v m'
  end.

Definition sremove (k : Z) (m : amap) : amap :=
  filter (fun kv => negb (fst kv =? k)) m.

Fixpoint sget (k : Z) (m : amap) : option Z :=
  match m with
  | [] => None
  | (k', v') :: m' => if k =? k' then Some v' else sget k m'
  end.

Definition sstep (m : amap) (o : op) : amap * out :=
  match o with
  | Put k v => (sput k v m, ONone)
  | Remove k => (sremove k m, ONone)
  | Get k => (m, OGet (sget k m))
  | Size => (m, OSize (Z.of_nat (length m)))
  | IsEmpty => (m, OEmpty (match m with [] => true | _ => false end))
  | Traverse => (m, OTrav m)
  end.

Fixpoint srun (ops : list op) (m : amap) : amap * list out :=
  match ops with
  | [] => (m, [])
  | o :: ops' =>
      let '(m', x) := sstep m o in
      let '(m'', xs) := srun ops' m' in
      (m'', x :: xs)
  end.

(* the distinct keys ever inserted by a history (first occurrences, in order) *)
Fixpoint put_keys (ops : list op) : list Z :=
  match ops with
  | [] => []
  | Put k _ :: ops' => k :: put_keys ops'
  | _ :: ops' => put_keys ops'
  end.

Definition distinct_keys_ever (ops : list op) : nat :=
  length (nodup Z.eq_dec (put_keys ops)).
