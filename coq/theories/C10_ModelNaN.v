(* C10_ModelNaN.v — btree/btree.go at a key type on which the bare Go operators < and ==
   are NOT a total order (float64: a NaN is neither smaller than, nor greater than, nor equal
   to anything, itself included).  NO PROOFS in this file.

   The code (after fixes/nan10/0001) never applies < or == to two keys directly; it goes
   through the two helpers

     func keyLess[K](a, b K) bool  { return a < b  || (a != a && b == b) }
     func keyEqual[K](a, b K) bool { return a == b || (a != a && b != b) }

   (the definitions of cmp.Less and cmp.Compare(a,b)==0 of the standard library: a key that is
   not equal to itself comes before every other key and is equal to its like).

   Part 1 is a SECOND transcription of btree.go, statement by statement like C10_Model.v, but
   generic: the key type K, the two raw operators [lt] [eq] (Go's < and == at K) and the zero
   value of K are parameters, and every comparison is a call of [key_less] / [key_equal].
   Part 2 is the float64 instance: [fkey], the raw IEEE operators [flt] [feq], and the order
   embedding [fenc] into the integer keys of C10_Model.v.  C10_ProofsNaN.v proves that the
   generic transcription at float64 IS the integer model of C10_Model.v seen through [fenc]
   (conservativity / simulation), so that every theorem of C10_Props.v is a theorem about
   BTree[float64, V] with NaN, infinities and signed zeros among the keys. *)

From Gogu Require Import Base C10_Model.
Local Open Scope Z_scope.

(* ================================================================== *)
(* Part 1: the generic transcription                                   *)

(* the two helpers; [lt] and [eq] are Go's < and == at the key type *)
(* func keyLess(a, b K) bool { return a < b || (a != a && b == b) } *)
Definition key_less {K : Type} (lt eq : K -> K -> bool) (a b : K) : bool :=
  lt a b || (negb (eq a a) && eq b b).
(* func keyEqual(a, b K) bool { return a == b || (a != a && b != b) } *)
Definition key_equal {K : Type} (lt eq : K -> K -> bool) (a b : K) : bool :=
  eq a b || (negb (eq a a) && negb (eq b b)).

Section Generic.

Variable K : Type.
Variable key_less : K -> K -> bool.    (* the comparison the code calls where it orders two keys *)
Variable key_equal : K -> K -> bool.   (* the comparison the code calls where it identifies two keys *)
Variable kzero : K.                    (* the zero value of the key type *)

Inductive gnode : Type :=
| GNode : list gentry -> gnode
with gentry : Type :=
| GEntry : K -> Z -> option gnode -> bool -> gentry.   (* key value next isRemoved *)

Definition gentries (n : gnode) : list gentry := let 'GNode es := n in es.
Definition gkey (e : gentry) : K := let 'GEntry k _ _ _ := e in k.
Definition gval (e : gentry) : Z := let 'GEntry _ v _ _ := e in v.
Definition gnext (e : gentry) : option gnode := let 'GEntry _ _ c _ := e in c.
Definition grem (e : gentry) : bool := let 'GEntry _ _ _ r := e in r.

Record gbtree : Type := GBTree { groot : gnode; gcnt : Z; gheight : nat }.

Definition g_new : gbtree := GBTree (GNode []) 0 O.
Definition g_size (t : gbtree) : Z := gcnt t.
Definition g_is_empty (t : gbtree) : bool := g_size t =? 0.

(* n.children[0].key (the zero value when the slot was never written) *)
Definition g_first_key (n : gnode) : K :=
  match gentries n with e :: _ => gkey e | [] => kzero end.

(* ------------------------------------------------------------------ search *)

(* for i < m: if keyEqual(key, children[i].key) && !children[i].isRemoved { return value, true } *)
Fixpoint g_search_leaf (es : list gentry) (key : K) : option Z :=
  match es with
  | [] => None
  | e :: es' =>
      if key_equal key (gkey e) && negb (grem e) then Some (gval e) else g_search_leaf es' key
  end.

(* i+1 == n.m || keyLess(key, children[i+1].key) *)
Definition g_stop_here (rest : list gentry) (key : K) : bool :=
  match rest with
  | [] => true
  | e1 :: _ => key_less key (gkey e1)
  end.

Fixpoint g_search_kids (rec : gnode -> res (option Z)) (es : list gentry) (key : K)
  : res (option Z) :=
  match es with
  | [] => Ok None
  | e :: es' =>
      if g_stop_here es' key then
        match gnext e with
        | Some c => rec c
        | None => Panic
        end
      else g_search_kids rec es' key
  end.

Fixpoint g_search (h : nat) (n : gnode) (key : K) : res (option Z) :=
  match h with
  | O => Ok (g_search_leaf (gentries n) key)
  | S h' => g_search_kids (fun c => g_search h' c key) (gentries n) key
  end.

Definition g_get (t : gbtree) (key : K) : res (option Z) :=
  g_search (gheight t) (groot t) key.

(* ------------------------------------------------------------------ insert *)

(* for j = 0; j < n.m; j++ { if keyEqual(key, c[j].key) { overwrite value and flag; return nil }
                             else if keyLess(key, c[j].key) { break } }
   an overwritten entry KEEPS THE KEY IT HAD (so the first NaN payload / the first sign of a
   zero stays in the tree) *)
Fixpoint g_leaf_ins (es : list gentry) (key : K) (val : Z) (rm : bool) : list gentry * bool :=
  match es with
  | [] => ([GEntry key val None false], true)
  | e :: es' =>
      if key_equal key (gkey e) then (GEntry (gkey e) val (gnext e) rm :: es', false)
      else if key_less key (gkey e) then (GEntry key val None false :: e :: es', true)
      else let '(r, added) := g_leaf_ins es' key val rm in (e :: r, added)
  end.

Definition g_finish (es : list gentry) : gnode * option gnode :=
  if (length es <? 4)%nat then (GNode es, None)
  else (GNode (firstn 2 es), Some (GNode (firstn 2 (skipn 2 es)))).

Fixpoint g_ins_kids (rec : gnode -> res (gnode * option gnode)) (val : Z)
         (es : list gentry) (key : K) : res (list gentry * bool) :=
  match es with
  | [] => Ok ([GEntry key val None false], true)
  | e :: es' =>
      if g_stop_here es' key then
        match gnext e with
        | None => Panic
        | Some c =>
            match rec c with
            | Ok (c', None) =>
                Ok (GEntry (gkey e) (gval e) (Some c') (grem e) :: es', false)
            | Ok (c', Some u) =>
                Ok (GEntry (gkey e) (gval e) (Some c') (grem e)
                      :: GEntry (g_first_key u) val (Some u) false :: es', true)
            | Err k => Err k
            | Panic => Panic
            end
        end
      else
        match g_ins_kids rec val es' key with
        | Ok (r, added) => Ok (e :: r, added)
        | Err k => Err k
        | Panic => Panic
        end
  end.

Fixpoint g_insert (h : nat) (n : gnode) (key : K) (val : Z) (rm : bool)
  : res (gnode * option gnode) :=
  match h with
  | O =>
      let '(es', added) := g_leaf_ins (gentries n) key val rm in
      Ok (if added then g_finish es' else (GNode es', None))
  | S h' =>
      match g_ins_kids (fun c => g_insert h' c key val rm) val (gentries n) key with
      | Ok (es', added) => Ok (if added then g_finish es' else (GNode es', None))
      | Err k => Err k
      | Panic => Panic
      end
  end.

(* Put: _, found := t.Get(key); u := root.insert(key, val, height, false); if !found { n++ };
        root split.  The two entries of a new root carry the zero VALUE (0). *)
Definition g_put (t : gbtree) (key : K) (val : Z) : res gbtree :=
  match g_search (gheight t) (groot t) key with
  | Ok found =>
      match g_insert (gheight t) (groot t) key val false with
      | Ok (r', u) =>
          let n' := match found with Some _ => gcnt t | None => gcnt t + 1 end in
          match u with
          | None => Ok (GBTree r' n' (gheight t))
          | Some u' =>
              Ok (GBTree (GNode [GEntry (g_first_key r') 0 (Some r') false;
                                 GEntry (g_first_key u') 0 (Some u') false])
                         n' (S (gheight t)))
          end
      | Err k => Err k
      | Panic => Panic
      end
  | Err k => Err k
  | Panic => Panic
  end.

Definition g_remove (t : gbtree) (key : K) : res gbtree :=
  match g_search (gheight t) (groot t) key with
  | Ok None => Ok t
  | Ok (Some val) =>
      match g_insert (gheight t) (groot t) key val true with
      | Ok (r', _) => Ok (GBTree r' (gcnt t - 1) (gheight t))
      | Err k => Err k
      | Panic => Panic
      end
  | Err k => Err k
  | Panic => Panic
  end.

(* ---------------------------------------------------------------- traverse *)

Fixpoint g_trav_leaf (es : list gentry) : list (K * Z) :=
  match es with
  | [] => []
  | e :: es' => if grem e then g_trav_leaf es' else (gkey e, gval e) :: g_trav_leaf es'
  end.

Fixpoint g_trav_kids (rec : gnode -> res (list (K * Z))) (es : list gentry)
  : res (list (K * Z)) :=
  match es with
  | [] => Ok []
  | e :: es' =>
      match gnext e with
      | None => Panic
      | Some c =>
          match rec c with
          | Ok l =>
              match g_trav_kids rec es' with
              | Ok l' => Ok (l ++ l')
              | Err k => Err k
              | Panic => Panic
              end
          | Err k => Err k
          | Panic => Panic
          end
      end
  end.

Fixpoint g_trav (h : nat) (n : gnode) : res (list (K * Z)) :=
  match h with
  | O => Ok (g_trav_leaf (gentries n))
  | S h' => g_trav_kids (g_trav h') (gentries n)
  end.

Definition g_traverse (t : gbtree) : res (list (K * Z)) := g_trav (gheight t) (groot t).

(* ------------------------------------------------------------- histories *)

Inductive gop : Type :=
| GPut (k : K) (v : Z)
| GRemove (k : K)
| GGet (k : K)
| GSize
| GIsEmpty
| GTraverse.

Inductive gout : Type :=
| GONone
| GOGet (r : option Z)
| GOSize (n : Z)
| GOEmpty (b : bool)
| GOTrav (l : list (K * Z)).

Definition g_step (t : gbtree) (o : gop) : res (gbtree * gout) :=
  match o with
  | GPut k v => match g_put t k v with Ok t' => Ok (t', GONone) | Err e => Err e | Panic => Panic end
  | GRemove k => match g_remove t k with Ok t' => Ok (t', GONone) | Err e => Err e | Panic => Panic end
  | GGet k => match g_get t k with Ok r => Ok (t, GOGet r) | Err e => Err e | Panic => Panic end
  | GSize => Ok (t, GOSize (g_size t))
  | GIsEmpty => Ok (t, GOEmpty (g_is_empty t))
  | GTraverse => match g_traverse t with Ok l => Ok (t, GOTrav l) | Err e => Err e | Panic => Panic end
  end.

Fixpoint g_run (ops : list gop) (t : gbtree) : res (gbtree * list gout) :=
  match ops with
  | [] => Ok (t, [])
  | o :: ops' =>
      match g_step t o with
      | Ok (t', x) =>
          match g_run ops' t' with
          | Ok (t'', xs) => Ok (t'', x :: xs)
          | Err e => Err e
          | Panic => Panic
          end
      | Err e => Err e
      | Panic => Panic
      end
  end.

(* -------------------------------------------- erasure to the integer model *)
(* [enc] re-labels the keys; C10_ProofsNaN.v shows that when [enc] turns key_less / key_equal
   into < / = on Z (and the zero value into 0) every procedure above commutes with it. *)

Variable enc : K -> Z.

Fixpoint enc_node (n : gnode) : node :=
  match n with
  | GNode es =>
      Node ((fix go (l : list gentry) : list entry :=
               match l with
               | [] => []
               | GEntry k v c r :: l' =>
                   Entry (enc k) v (match c with Some c' => Some (enc_node c') | None => None end) r
                   :: go l'
               end) es)
  end.

Definition enc_entry (e : gentry) : entry :=
  let 'GEntry k v c r := e in
  Entry (enc k) v (match c with Some c' => Some (enc_node c') | None => None end) r.

Definition enc_tree (t : gbtree) : btree :=
  BTree (enc_node (groot t)) (gcnt t) (gheight t).

Definition enc_kv (kv : K * Z) : Z * Z := (enc (fst kv), snd kv).

Definition enc_op (o : gop) : op :=
  match o with
  | GPut k v => Put (enc k) v
  | GRemove k => Remove (enc k)
  | GGet k => Get (enc k)
  | GSize => Size
  | GIsEmpty => IsEmpty
  | GTraverse => Traverse
  end.

Definition enc_out (x : gout) : out :=
  match x with
  | GONone => ONone
  | GOGet r => OGet r
  | GOSize n => OSize n
  | GOEmpty b => OEmpty b
  | GOTrav l => OTrav (map enc_kv l)
  end.

Definition enc_run (r : res (gbtree * list gout)) : res (btree * list out) :=
  match r with
  | Ok (t, xs) => Ok (enc_tree t, map enc_out xs)
  | Err e => Err e
  | Panic => Panic
  end.

End Generic.

Arguments GNode {K} _.
Arguments GEntry {K} _ _ _ _.
Arguments GBTree {K} _ _ _.
Arguments GPut {K} _ _.
Arguments GRemove {K} _.
Arguments GGet {K} _.
Arguments GSize {K}.
Arguments GIsEmpty {K}.
Arguments GTraverse {K}.
Arguments GONone {K}.
Arguments GOGet {K} _.
Arguments GOSize {K} _.
Arguments GOEmpty {K} _.
Arguments GOTrav {K} _.

(* ================================================================== *)
(* Part 2: float64                                                     *)

(* A float64 key, up to what the code can distinguish through < and ==:
     FNaN     every NaN (all payloads, both signs): NaN != NaN, so == cannot tell them apart
              from one another any better than from other keys, and keyEqual identifies them
     FNum n   the non-NaN values -Inf < -MaxFloat64 < ... < -5e-324 < 0 < 5e-324 < ... < +Inf in
              ascending order, numbered from -Inf = 0; -0 and +0 are == and carry the same number.
   (float64 has finitely many values and a least one, which is why N is the right index set.) *)
Inductive fkey : Type := FNaN | FNum (n : N).

(* Go's < and == at float64 (IEEE 754): false as soon as an operand is a NaN *)
Definition flt (a b : fkey) : bool :=
  match a, b with FNum x, FNum y => (x <? y)%N | _, _ => false end.
Definition feq (a b : fkey) : bool :=
  match a, b with FNum x, FNum y => (x =? y)%N | _, _ => false end.

(* the index of 0.0, the zero value of float64 (any fixed number does) *)
Definition fzero_index : N := 4611686018427387904%N.
Definition fzero : fkey := FNum fzero_index.

(* the order embedding into the integer keys of C10_Model.v: 0.0 |-> 0, NaN below -Inf *)
Definition fenc (a : fkey) : Z :=
  match a with
  | FNaN => - Z.of_N fzero_index - 1
  | FNum n => Z.of_N n - Z.of_N fzero_index
  end.

Definition fless : fkey -> fkey -> bool := key_less flt feq.
Definition fequal : fkey -> fkey -> bool := key_equal flt feq.

(* BTree[float64, V] *)
Definition fop := gop fkey.
Definition fout := gout fkey.
Definition ftree := gbtree fkey.
Definition f_new : ftree := g_new fkey.
Definition f_get : ftree -> fkey -> res (option Z) := g_get fkey fless fequal.
Definition f_put : ftree -> fkey -> Z -> res ftree := g_put fkey fless fequal fzero.
Definition f_remove : ftree -> fkey -> res ftree := g_remove fkey fless fequal fzero.
Definition f_traverse : ftree -> res (list (fkey * Z)) := g_traverse fkey.
Definition f_size : ftree -> Z := g_size fkey.
Definition f_is_empty : ftree -> bool := g_is_empty fkey.
Definition f_height : ftree -> nat := gheight fkey.
Definition f_step : ftree -> fop -> res (ftree * fout) := g_step fkey fless fequal fzero.
Definition f_run : list fop -> ftree -> res (ftree * list fout) := g_run fkey fless fequal fzero.

(* The code BEFORE fixes/nan10/0001 called gogu.Less / gogu.Equal, i.e. the bare operators: the
   same transcription with [flt] / [feq] in the place of the helpers.  Used only by the
   `_refuted` witnesses of C10_PropsNaN.v. *)
Definition f0_get : ftree -> fkey -> res (option Z) := g_get fkey flt feq.
Definition f0_run : list fop -> ftree -> res (ftree * list fout) := g_run fkey flt feq fzero.

(* ------------------------------------------------ vocabulary of the statements *)

Definition fenc_op : fop -> op := enc_op fkey fenc.
Definition fenc_out : fout -> out := enc_out fkey fenc.
Definition fenc_tree : ftree -> btree := enc_tree fkey fenc.

(* identity of keys as the tree sees it: all NaNs are one key, -0 and +0 are one key *)
Definition fkey_eqb (a b : fkey) : bool :=
  match a, b with
  | FNaN, FNaN => true
  | FNum x, FNum y => (x =? y)%N
  | _, _ => false
  end.

(* the map a history denotes: last write wins *)
Definition f_upd (f : fkey -> option Z) (k : fkey) (x : option Z) : fkey -> option Z :=
  fun k' => if fkey_eqb k' k then x else f k'.

Fixpoint f_final_map (ops : list fop) (f : fkey -> option Z) : fkey -> option Z :=
  match ops with
  | [] => f
  | GPut k v :: r => f_final_map r (f_upd f k (Some v))
  | GRemove k :: r => f_final_map r (f_upd f k None)
  | _ :: r => f_final_map r f
  end.

Definition f_empty_map : fkey -> option Z := fun _ => None.

Fixpoint f_put_keys (ops : list fop) : list fkey :=
  match ops with
  | [] => []
  | GPut k _ :: ops' => k :: f_put_keys ops'
  | _ :: ops' => f_put_keys ops'
  end.

Definition fkey_eq_dec (a b : fkey) : {a = b} + {a <> b}.
Proof. decide equality. apply N.eq_dec. Defined.

(* N of the height clause: distinct keys ever put, a NaN counting once *)
Definition f_distinct_keys_ever (ops : list fop) : nat :=
  length (nodup fkey_eq_dec (f_put_keys ops)).

(* the state invariant of C10_Proofs.v, read through the embedding *)
Definition f_lt (a b : fkey) : Prop := fless a b = true.
