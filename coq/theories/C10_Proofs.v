(* C10_Proofs.v — invariant, abstraction and lemmas for the B-tree model.

   Plan.  [elems h n] flattens a tree to the list of its leaf entries (tombstones
   included), left to right.  Under the invariant [wfn] the three recursive
   procedures of the code are, on that flat list, the three list functions the
   leaf code itself uses:
        search h n k        = Ok (search_leaf (elems h n) k)
        insert h n k v rm   ~  fst (leaf_ins (elems h n) k v rm)     (+ invariant kept)
        trav h n            = Ok (trav_leaf (elems h n))
   and on a strictly ascending entry list these are sget / sput / sremove of the
   reference machine applied to [trav_leaf] (the live entries). *)

From Gogu Require Import Base C10_Model.
From Coq Require Import Permutation Sorted.
Local Open Scope Z_scope.

(* ================================================================== *)
(* Definitions used in the statements of C10_Props.v                   *)
(* ================================================================== *)

(* half-open key interval [lo, hi), None = unbounded *)
Definition in_lo (lo : option Z) (k : Z) : Prop :=
  match lo with None => True | Some l => l <= k end.
Definition in_hi (hi : option Z) (k : Z) : Prop :=
  match hi with None => True | Some u => k < u end.

(* strictly ascending keys, all inside [lo, hi) *)
Fixpoint asc (lo hi : option Z) (ks : list Z) : Prop :=
  match ks with
  | [] => True
  | k :: ks' => in_lo lo k /\ in_hi hi k /\ asc (Some (k + 1)) hi ks'
  end.

Definition keys (es : list entry) : list Z := map ekey es.

(* external node: no child pointers, keys strictly ascending inside [lo,hi) *)
Definition wf_leaf (lo hi : option Z) (es : list entry) : Prop :=
  Forall (fun e => enext e = None) es /\ asc lo hi (keys es).

(* internal node with entries e0 e1 … e(m-1): every entry has a child; child i
   is well formed for the interval [key e_i, key e_(i+1)) — except that the
   FIRST child inherits the node's own lower bound (the key stored in e0 is
   never consulted: it is a stale copy, see [sep_stale_example]) and the last
   child inherits the node's upper bound *)
Fixpoint wf_kids (wfc : option Z -> option Z -> node -> Prop)
         (lo hi : option Z) (es : list entry) : Prop :=
  match es with
  | [] => False
  | e :: es' =>
      exists c, enext e = Some c /\
      match es' with
      | [] => wfc lo hi c
      | e1 :: _ => wfc lo (Some (ekey e1)) c /\ wf_kids wfc (Some (ekey e1)) hi es'
      end
  end.

(* a subtree of height h (uniform depth: the recursion is on h alone) whose
   node has between [minfan] and 3 entries, every node below it between 2 and 3 *)
Fixpoint wfn (minfan : nat) (h : nat) (lo hi : option Z) (n : node) : Prop :=
  (minfan <= length (entries n) <= 3)%nat /\
  match h with
  | O => wf_leaf lo hi (entries n)
  | S h' => wf_kids (wfn 2 h') lo hi (entries n)
  end.

(* the root may hold 0..3 entries while it is a leaf, 2..3 afterwards *)
Definition root_minfan (h : nat) : nat := match h with O => O | S _ => 2%nat end.

Definition wf_tree (t : btree) : Prop :=
  wfn (root_minfan (height t)) (height t) None None (root t).

(* all leaf entries, tombstones included, left to right *)
Definition kid_elems (f : node -> list entry) (e : entry) : list entry :=
  match enext e with Some c => f c | None => [] end.

Fixpoint elems (h : nat) (n : node) : list entry :=
  match h with
  | O => entries n
  | S h' => flat_map (kid_elems (elems h')) (entries n)
  end.

Definition all_entries (t : btree) : list entry := elems (height t) (root t).

(* abstraction function: the live (key, value) pairs in leaf order *)
Definition abs (t : btree) : amap := trav_leaf (all_entries t).

(* full invariant of the state: shape + the counter *)
Definition inv (t : btree) : Prop :=
  wf_tree t /\ cnt t = Z.of_nat (length (abs t)).

(* the map a history denotes: last write wins *)
Definition upd (f : Z -> option Z) (k : Z) (x : option Z) : Z -> option Z :=
  fun k' => if k' =? k then x else f k'.

Fixpoint final_map (ops : list op) (f : Z -> option Z) : Z -> option Z :=
  match ops with
  | [] => f
  | Put k v :: r => final_map r (upd f k (Some v))
  | Remove k :: r => final_map r (upd f k None)
  | _ :: r => final_map r f
  end.

Definition empty_map : Z -> option Z := fun _ => None.

(* ================================================================== *)
(* asc                                                                  *)
(* ================================================================== *)

Lemma asc_weaken_lo lo lo' hi ks :
  asc lo hi ks -> (forall k, in_lo lo k -> in_lo lo' k) -> asc lo' hi ks.
Proof. destruct ks as [|k ks]; cbn; [auto|]. intros (H1 & H2 & H3) W. auto. Qed.

Lemma asc_weaken_hi lo hi hi' ks :
  asc lo hi ks -> (forall k, in_hi hi k -> in_hi hi' k) -> asc lo hi' ks.
Proof.
  revert lo; induction ks as [|k ks IH]; cbn; intros lo; [auto|].
  intros (H1 & H2 & H3) W. repeat split; auto.
Qed.

Lemma asc_Forall lo hi ks :
  asc lo hi ks -> Forall (fun k => in_lo lo k /\ in_hi hi k) ks.
Proof.
  revert lo; induction ks as [|k ks IH]; cbn; intros lo; [constructor|].
  intros (H1 & H2 & H3). constructor; [auto|].
  specialize (IH _ H3). eapply Forall_impl; [|exact IH].
  cbn. intros a [Ha Hb]. split; [|exact Hb].
  destruct lo as [l|]; cbn in *; [lia|exact I].
Qed.

(* the append lemma needs lo <= s when l1 is empty; we state it with the bound
   on the head of l2 explicit *)
Lemma asc_app lo s hi l1 l2 :
  asc lo (Some s) l1 -> asc (Some s) hi l2 ->
  (forall k, k < s -> in_hi hi k) -> (forall k, s <= k -> in_lo lo k) ->
  asc lo hi (l1 ++ l2).
Proof.
  revert lo; induction l1 as [|k l1 IH]; cbn; intros lo H1 H2 W V.
  - eapply asc_weaken_lo; [exact H2|]. cbn. auto.
  - destruct H1 as (A & B & C). cbn in B. repeat split; auto.
    apply IH; auto. cbn. intros; lia.
Qed.

Lemma asc_NoDup lo hi ks : asc lo hi ks -> NoDup ks.
Proof.
  revert lo; induction ks as [|k ks IH]; cbn; intros lo; [constructor|].
  intros (A & B & C). constructor; [|eauto].
  intros Hin. apply asc_Forall in C. rewrite Forall_forall in C.
  specialize (C _ Hin). cbn in C. lia.
Qed.

Lemma asc_sorted lo hi ks : asc lo hi ks -> StronglySorted Z.lt ks.
Proof.
  revert lo; induction ks as [|k ks IH]; cbn; intros lo; [constructor|].
  intros (A & B & C). constructor; [eauto|].
  apply asc_Forall in C. eapply Forall_impl; [|exact C]. cbn. intros; lia.
Qed.

Lemma sorted_asc ks : StronglySorted Z.lt ks -> asc None None ks.
Proof.
  induction ks as [|k ks IH]; cbn; intros H; [exact I|].
  inversion H as [|? ? Hs Hf]; subst. repeat split.
  specialize (IH Hs). destruct ks as [|k2 ks]; cbn in *; [exact I|].
  destruct IH as (_ & _ & C). inversion Hf; subst. repeat split; [lia|exact C].
Qed.

(* ================================================================== *)
(* the leaf procedures on flat entry lists                              *)
(* ================================================================== *)

Lemma keys_app l1 l2 : keys (l1 ++ l2) = keys l1 ++ keys l2.
Proof. apply map_app. Qed.

Lemma search_leaf_app l1 l2 k :
  search_leaf (l1 ++ l2) k =
  match search_leaf l1 k with Some v => Some v | None => search_leaf l2 k end.
Proof.
  induction l1 as [|e l1 IH]; cbn; [reflexivity|].
  destruct ((k =? ekey e) && negb (erem e)); [reflexivity|exact IH].
Qed.

Lemma search_leaf_notin l k : ~ In k (keys l) -> search_leaf l k = None.
Proof.
  induction l as [|e l IH]; cbn; intros H; [reflexivity|].
  destruct (Z.eqb_spec k (ekey e)) as [E|E]; [exfalso; apply H; left; congruence|].
  cbn. apply IH. intros Hin. apply H. now right.
Qed.

Lemma search_leaf_in l k v : search_leaf l k = Some v -> In k (keys l).
Proof.
  intros H. destruct (in_dec Z.eq_dec k (keys l)) as [Hin|Hn]; [exact Hin|].
  rewrite (search_leaf_notin _ _ Hn) in H. discriminate.
Qed.

Lemma leaf_ins_app_l l1 l2 k v rm :
  Forall (fun x => k < x) (keys l2) ->
  leaf_ins (l1 ++ l2) k v rm =
  (fst (leaf_ins l1 k v rm) ++ l2, snd (leaf_ins l1 k v rm)).
Proof.
  intros H. induction l1 as [|e l1 IH]; cbn.
  - destruct l2 as [|e2 l2]; cbn; [reflexivity|].
    inversion H as [|? ? Hk _]; subst.
    destruct (Z.eqb_spec k (ekey e2)) as [E|E]; [lia|].
    destruct (Z.ltb_spec k (ekey e2)) as [L|L]; [reflexivity|lia].
  - destruct (k =? ekey e); [reflexivity|].
    destruct (k <? ekey e); [reflexivity|].
    rewrite IH. destruct (leaf_ins l1 k v rm) as [r a]. reflexivity.
Qed.

Lemma leaf_ins_app_r l1 l2 k v rm :
  Forall (fun x => x < k) (keys l1) ->
  leaf_ins (l1 ++ l2) k v rm =
  (l1 ++ fst (leaf_ins l2 k v rm), snd (leaf_ins l2 k v rm)).
Proof.
  induction l1 as [|e l1 IH]; cbn; intros H.
  - destruct (leaf_ins l2 k v rm); reflexivity.
  - inversion H as [|? ? Hk Hr]; subst.
    destruct (Z.eqb_spec k (ekey e)) as [E|E]; [lia|].
    destruct (Z.ltb_spec k (ekey e)) as [L|L]; [lia|].
    rewrite (IH Hr). reflexivity.
Qed.

Lemma leaf_ins_keys_in l k v rm x :
  In x (keys (fst (leaf_ins l k v rm))) <-> x = k \/ In x (keys l).
Proof.
  induction l as [|e l IH]; cbn.
  - intuition.
  - destruct (Z.eqb_spec k (ekey e)) as [E|E]; cbn; [intuition congruence|].
    destruct (k <? ekey e); cbn; [intuition|].
    destruct (leaf_ins l k v rm) as [r a]; cbn in *. intuition.
Qed.

Lemma leaf_ins_len l k v rm :
  length (fst (leaf_ins l k v rm)) =
  if snd (leaf_ins l k v rm) then S (length l) else length l.
Proof.
  induction l as [|e l IH]; cbn; [reflexivity|].
  destruct (k =? ekey e); cbn; [reflexivity|].
  destruct (k <? ekey e); cbn; [reflexivity|].
  destruct (leaf_ins l k v rm) as [r a]; cbn in *. rewrite IH. now destruct a.
Qed.

Lemma leaf_ins_asc lo hi l k v rm :
  asc lo hi (keys l) -> in_lo lo k -> in_hi hi k ->
  asc lo hi (keys (fst (leaf_ins l k v rm))).
Proof.
  revert lo; induction l as [|e l IH]; cbn; intros lo H Hlo Hhi.
  - auto.
  - destruct H as (A & B & C).
    destruct (Z.eqb_spec k (ekey e)) as [E|E]; cbn; [auto|].
    destruct (Z.ltb_spec k (ekey e)) as [L|L]; cbn.
    + repeat split; auto. lia.
    + specialize (IH (Some (ekey e + 1)) C).
      destruct (leaf_ins l k v rm) as [r a]; cbn in *.
      repeat split; auto. apply IH; [lia|exact Hhi].
Qed.

Lemma leaf_ins_next l k v rm :
  Forall (fun e => enext e = None) l ->
  Forall (fun e => enext e = None) (fst (leaf_ins l k v rm)).
Proof.
  induction l as [|e l IH]; cbn; intros H.
  - repeat constructor.
  - inversion H as [|? ? He Hl]; subst.
    destruct (k =? ekey e); cbn; [constructor; auto|].
    destruct (k <? ekey e); cbn; [repeat constructor; auto|].
    specialize (IH Hl). destruct (leaf_ins l k v rm) as [r a]; cbn in *.
    constructor; auto.
Qed.

(* an equal key is overwritten in place: nothing is added *)
Lemma leaf_ins_present lo hi l k v rm :
  asc lo hi (keys l) -> In k (keys l) -> snd (leaf_ins l k v rm) = false.
Proof.
  revert lo; induction l as [|e l IH]; cbn; intros lo H Hin; [contradiction|].
  destruct H as (A & B & C).
  destruct (Z.eqb_spec k (ekey e)) as [E|E]; cbn; [reflexivity|].
  destruct Hin as [Hin|Hin]; [congruence|].
  pose proof (asc_Forall _ _ _ C) as F. rewrite Forall_forall in F.
  specialize (F _ Hin). cbn in F.
  destruct (Z.ltb_spec k (ekey e)) as [L|L]; [lia|].
  specialize (IH _ C Hin). destruct (leaf_ins l k v rm) as [r a]; cbn in *. exact IH.
Qed.

Lemma leaf_ins_absent l k v rm :
  ~ In k (keys l) -> snd (leaf_ins l k v rm) = true.
Proof.
  induction l as [|e l IH]; cbn; intros H; [reflexivity|].
  destruct (Z.eqb_spec k (ekey e)) as [E|E]; [exfalso; apply H; left; congruence|].
  destruct (k <? ekey e); cbn; [reflexivity|].
  assert (Hn : ~ In k (keys l)) by (intros X; apply H; now right).
  specialize (IH Hn). destruct (leaf_ins l k v rm) as [r a]; cbn in *. exact IH.
Qed.

Lemma trav_leaf_app l1 l2 : trav_leaf (l1 ++ l2) = trav_leaf l1 ++ trav_leaf l2.
Proof.
  induction l1 as [|e l1 IH]; cbn; [reflexivity|].
  destruct (erem e); cbn; now rewrite IH.
Qed.

(* ---- live entries vs the reference machine ---- *)

Lemma search_leaf_sget l k : search_leaf l k = sget k (trav_leaf l).
Proof.
  induction l as [|e l IH]; cbn; [reflexivity|].
  destruct (erem e); cbn.
  - rewrite andb_false_r. exact IH.
  - rewrite andb_true_r. destruct (k =? ekey e); [reflexivity|exact IH].
Qed.

Lemma trav_leaf_lo lo hi l :
  asc lo hi (keys l) -> Forall (fun kv => in_lo lo (fst kv) /\ in_hi hi (fst kv)) (trav_leaf l).
Proof.
  intros H. apply asc_Forall in H. unfold keys in H. rewrite Forall_map in H.
  induction l as [|e l IH]; cbn; [constructor|].
  inversion H; subst. destruct (erem e); [auto|]. constructor; cbn; auto.
Qed.

Lemma trav_leaf_asc lo hi l :
  asc lo hi (keys l) -> asc lo hi (map fst (trav_leaf l)).
Proof.
  revert lo; induction l as [|e l IH]; cbn; intros lo H; [exact I|].
  destruct H as (A & B & C). specialize (IH _ C).
  destruct (erem e); cbn.
  - eapply asc_weaken_lo; [exact IH|]. cbn. intros k Hk.
    destruct lo as [l0|]; cbn in *; [lia|exact I].
  - auto.
Qed.

Lemma sput_below k v m :
  Forall (fun kv => k < fst kv) m -> sput k v m = (k, v) :: m.
Proof.
  destruct m as [|[k' v'] m]; cbn; intros H; [reflexivity|].
  inversion H; subst; cbn in *.
  destruct (Z.ltb_spec k k'); [reflexivity|lia].
Qed.

Lemma sremove_cons k k' v' m :
  sremove k ((k', v') :: m) =
  if k' =? k then sremove k m else (k', v') :: sremove k m.
Proof. unfold sremove; cbn. now destruct (k' =? k). Qed.

Lemma sremove_absent k m :
  Forall (fun kv => fst kv <> k) m -> sremove k m = m.
Proof.
  unfold sremove. induction m as [|[k' v'] m IH]; cbn; intros H; [reflexivity|].
  inversion H; subst; cbn in *.
  destruct (Z.eqb_spec k' k); [contradiction|]. cbn. now rewrite IH.
Qed.

Lemma live_gt lo hi l k :
  asc lo hi (keys l) -> (forall x, in_lo lo x -> k < x) ->
  Forall (fun kv => k < fst kv) (trav_leaf l).
Proof.
  intros H W. apply trav_leaf_lo in H. eapply Forall_impl; [|exact H].
  cbn. intros a [Ha _]. auto.
Qed.

(* Put on the flat list is sput on the live pairs *)
Lemma trav_leaf_put lo hi l k v :
  asc lo hi (keys l) ->
  trav_leaf (fst (leaf_ins l k v false)) = sput k v (trav_leaf l).
Proof.
  revert lo; induction l as [|e l IH]; cbn; intros lo H; [reflexivity|].
  destruct H as (A & B & C).
  destruct (Z.eqb_spec k (ekey e)) as [E|E]; cbn.
  - subst k.
    assert (G : Forall (fun kv => ekey e < fst kv) (trav_leaf l)).
    { eapply live_gt; [exact C|]. cbn. intros; lia. }
    destruct (erem e); cbn.
    + now rewrite sput_below.
    + rewrite Z.ltb_irrefl, Z.eqb_refl. reflexivity.
  - destruct (Z.ltb_spec k (ekey e)) as [L|L]; cbn.
    + assert (G : Forall (fun kv => k < fst kv) (trav_leaf l)).
      { eapply live_gt; [exact C|]. cbn. intros; lia. }
      destruct (erem e); cbn.
      * now rewrite sput_below.
      * destruct (Z.ltb_spec k (ekey e)); [reflexivity|lia].
    + specialize (IH _ C). destruct (leaf_ins l k v false) as [r a]; cbn in *.
      destruct (erem e); cbn; [exact IH|].
      destruct (Z.ltb_spec k (ekey e)); [lia|].
      destruct (Z.eqb_spec k (ekey e)); [lia|]. now rewrite IH.
Qed.

(* Remove (re-insert with the tombstone flag, value = the value found) on the
   flat list is sremove on the live pairs — provided the key was found *)
Lemma trav_leaf_remove lo hi l k v0 v :
  asc lo hi (keys l) -> search_leaf l k = Some v0 ->
  trav_leaf (fst (leaf_ins l k v true)) = sremove k (trav_leaf l).
Proof.
  revert lo; induction l as [|e l IH]; intros lo H S; [discriminate|].
  destruct H as (A & B & C).
  assert (G : k <= ekey e -> Forall (fun kv => fst kv <> k) (trav_leaf l)).
  { intros Hle. assert (G : Forall (fun kv => k < fst kv) (trav_leaf l)).
    { eapply live_gt; [exact C|]. cbn. intros; lia. }
    eapply Forall_impl; [|exact G]. cbn. intros; lia. }
  cbn [leaf_ins trav_leaf].
  destruct (Z.eqb_spec k (ekey e)) as [E|E].
  - cbn [fst trav_leaf erem].
    destruct (erem e).
    + now rewrite sremove_absent by (apply G; lia).
    + rewrite sremove_cons. destruct (Z.eqb_spec (ekey e) k); [|congruence].
      now rewrite sremove_absent by (apply G; lia).
  - cbn [search_leaf] in S.
    destruct (Z.eqb_spec k (ekey e)) as [E'|_]; [contradiction|]. cbn [andb] in S.
    destruct (Z.ltb_spec k (ekey e)) as [L|L].
    + exfalso. rewrite search_leaf_notin in S; [discriminate|].
      intros Hin. apply asc_Forall in C. rewrite Forall_forall in C.
      specialize (C _ Hin). cbn in C. lia.
    + specialize (IH _ C S). destruct (leaf_ins l k v true) as [r a].
      cbn [fst trav_leaf] in *.
      destruct (erem e); [exact IH|].
      rewrite sremove_cons. destruct (Z.eqb_spec (ekey e) k); [lia|]. now rewrite IH.
Qed.

(* ================================================================== *)
(* trees: flattening                                                    *)
(* ================================================================== *)

Lemma asc_head_hi s hi ks :
  asc (Some s) hi ks -> ks <> [] -> forall k, k < s -> in_hi hi k.
Proof.
  destruct ks as [|x ks]; [congruence|]. cbn. intros (A & B & _) _ k Hk.
  destruct hi as [u|]; cbn in *; [lia|exact I].
Qed.

Lemma asc_head_lo lo s ks :
  asc lo (Some s) ks -> ks <> [] -> forall k, s <= k -> in_lo lo k.
Proof.
  destruct ks as [|x ks]; [congruence|]. cbn. intros (A & B & _) _ k Hk.
  destruct lo as [l|]; cbn in *; [lia|exact I].
Qed.

Lemma asc_notin_above lo s ks k : asc lo (Some s) ks -> s <= k -> ~ In k ks.
Proof.
  intros H Hk Hin. apply asc_Forall in H. rewrite Forall_forall in H.
  specialize (H _ Hin). cbn in H. lia.
Qed.

Lemma asc_notin_below s hi ks k : asc (Some s) hi ks -> k < s -> ~ In k ks.
Proof.
  intros H Hk Hin. apply asc_Forall in H. rewrite Forall_forall in H.
  specialize (H _ Hin). cbn in H. lia.
Qed.

Lemma asc_all_above s hi ks k : asc (Some s) hi ks -> k < s -> Forall (fun x => k < x) ks.
Proof.
  intros H Hk. apply asc_Forall in H. eapply Forall_impl; [|exact H]. cbn. intros; lia.
Qed.

Lemma asc_all_below lo s ks k : asc lo (Some s) ks -> s <= k -> Forall (fun x => x < k) ks.
Proof.
  intros H Hk. apply asc_Forall in H. eapply Forall_impl; [|exact H]. cbn. intros; lia.
Qed.

Lemma kid_elems_some f e c : enext e = Some c -> kid_elems f e = f c.
Proof. unfold kid_elems. now intros ->. Qed.

(* the children of an internal node, flattened, are ascending inside the node's interval *)
Lemma kids_asc (wfc : option Z -> option Z -> node -> Prop) (f : node -> list entry) :
  (forall lo hi c, wfc lo hi c -> asc lo hi (keys (f c)) /\ f c <> []) ->
  forall es lo hi, wf_kids wfc lo hi es ->
    asc lo hi (keys (flat_map (kid_elems f) es)) /\ flat_map (kid_elems f) es <> [].
Proof.
  intros IHc. induction es as [|e es IH]; intros lo hi H; [destruct H|].
  destruct H as (c & Hc & R). cbn [flat_map]. rewrite (kid_elems_some _ _ _ Hc).
  destruct es as [|e1 es].
  - cbn [flat_map]. rewrite app_nil_r. now apply IHc.
  - destruct R as (Wc & Wk).
    destruct (IHc _ _ _ Wc) as (Ac & Nc). destruct (IH _ _ Wk) as (Ar & Nr).
    split.
    + rewrite keys_app. eapply asc_app; [exact Ac|exact Ar| |].
      * eapply asc_head_hi; [exact Ar|]. unfold keys. intros X. apply map_eq_nil in X. auto.
      * eapply asc_head_lo; [exact Ac|]. unfold keys. intros X. apply map_eq_nil in X. auto.
    + intros X. apply app_eq_nil in X. destruct X as [X _]. auto.
Qed.

Lemma elems_asc_ne : forall h m lo hi n,
  wfn m h lo hi n ->
  asc lo hi (keys (elems h n)) /\ ((1 <= m)%nat -> elems h n <> []).
Proof.
  induction h as [|h IH]; intros m lo hi n H; cbn in H; destruct H as (L & H).
  - cbn. destruct H as (_ & A). split; [exact A|].
    intros Hm X. rewrite X in L. cbn in L. lia.
  - cbn [elems].
    assert (K : forall lo hi c, wfn 2 h lo hi c ->
                asc lo hi (keys (elems h c)) /\ elems h c <> []).
    { intros lo' hi' c Wc. destruct (IH _ _ _ _ Wc) as (A & N). split; [exact A|]. apply N. lia. }
    destruct (kids_asc _ _ K _ _ _ H) as (A & N). split; [exact A|auto].
Qed.

Lemma elems_asc h m lo hi n : wfn m h lo hi n -> asc lo hi (keys (elems h n)).
Proof. intros H. now apply elems_asc_ne in H. Qed.

Lemma elems_ne h lo hi n : wfn 2 h lo hi n -> elems h n <> [].
Proof. intros H. apply elems_asc_ne in H. destruct H as (_ & N). apply N. lia. Qed.

Lemma kids2_asc h es lo hi :
  wf_kids (wfn 2 h) lo hi es ->
  asc lo hi (keys (flat_map (kid_elems (elems h)) es)) /\
  flat_map (kid_elems (elems h)) es <> [].
Proof.
  apply kids_asc. intros lo' hi' c Wc. split; [eapply elems_asc; eauto|eapply elems_ne; eauto].
Qed.

(* ================================================================== *)
(* search                                                               *)
(* ================================================================== *)

Lemma search_kids_spec h (rec : node -> res (option Z)) k :
  (forall lo hi c, wfn 2 h lo hi c -> rec c = Ok (search_leaf (elems h c) k)) ->
  forall es lo hi, wf_kids (wfn 2 h) lo hi es ->
    search_kids rec es k = Ok (search_leaf (flat_map (kid_elems (elems h)) es) k).
Proof.
  intros IHc. induction es as [|e es IH]; intros lo hi H; [destruct H|].
  destruct H as (c & Hc & R). cbn [flat_map search_kids]. rewrite (kid_elems_some _ _ _ Hc).
  destruct es as [|e1 es].
  - cbn [stop_here flat_map]. rewrite Hc, app_nil_r. eapply IHc; eauto.
  - destruct R as (Wc & Wk). cbn [stop_here].
    destruct (kids2_asc _ _ _ _ Wk) as (Ar & _).
    pose proof (elems_asc _ _ _ _ _ Wc) as Ac.
    rewrite search_leaf_app.
    destruct (Z.ltb_spec k (ekey e1)) as [L|L].
    + rewrite Hc, (IHc _ _ _ Wc).
      rewrite (search_leaf_notin (flat_map _ (e1 :: es))).
      * now destruct (search_leaf (elems h c) k).
      * eapply asc_notin_below; eauto.
    + rewrite (IH _ _ Wk).
      rewrite (search_leaf_notin (elems h c)); [reflexivity|].
      eapply asc_notin_above; eauto.
Qed.

Lemma search_spec : forall h m lo hi n k,
  wfn m h lo hi n -> search h n k = Ok (search_leaf (elems h n) k).
Proof.
  induction h as [|h IH]; intros m lo hi n k H; [reflexivity|].
  cbn in H. destruct H as (_ & H). cbn [search elems].
  eapply search_kids_spec; [|exact H].
  intros lo' hi' c Wc. eapply IH; eauto.
Qed.

(* ================================================================== *)
(* traverse                                                             *)
(* ================================================================== *)

Lemma trav_kids_spec h (rec : node -> res (list (Z * Z))) :
  (forall lo hi c, wfn 2 h lo hi c -> rec c = Ok (trav_leaf (elems h c))) ->
  forall es lo hi, wf_kids (wfn 2 h) lo hi es ->
    trav_kids rec es = Ok (trav_leaf (flat_map (kid_elems (elems h)) es)).
Proof.
  intros IHc. induction es as [|e es IH]; intros lo hi H; [destruct H|].
  destruct H as (c & Hc & R). cbn [flat_map trav_kids]. rewrite (kid_elems_some _ _ _ Hc), Hc.
  destruct es as [|e1 es].
  - rewrite (IHc _ _ _ R). cbn. now rewrite !app_nil_r.
  - destruct R as (Wc & Wk). rewrite (IHc _ _ _ Wc), (IH _ _ Wk).
    now rewrite trav_leaf_app.
Qed.

Lemma trav_spec : forall h m lo hi n,
  wfn m h lo hi n -> trav h n = Ok (trav_leaf (elems h n)).
Proof.
  induction h as [|h IH]; intros m lo hi n H; [reflexivity|].
  cbn in H. destruct H as (_ & H). cbn [trav elems].
  eapply trav_kids_spec; [|exact H].
  intros lo' hi' c Wc. eapply IH; eauto.
Qed.

(* ================================================================== *)
(* insert                                                               *)
(* ================================================================== *)

Definition opt_elems (h : nat) (u : option node) : list entry :=
  match u with Some n => elems h n | None => [] end.

(* what a call  n.insert(key, val, h, rm)  guarantees on a well-formed subtree:
   flat contents = leaf_ins of the old flat contents; no split when the key is
   already there; the node (and the split-off sibling) are well formed, the
   sibling's first key being the separator *)
Definition insert_post (h m : nat) (lo hi : option Z) (n : node) (k v : Z) (rm : bool)
           (n' : node) (u : option node) : Prop :=
  elems h n' ++ opt_elems h u = fst (leaf_ins (elems h n) k v rm) /\
  (In k (keys (elems h n)) -> u = None) /\
  match u with
  | None => wfn m h lo hi n'
  | Some u' => wfn 2 h lo (Some (first_key u')) n' /\ wfn 2 h (Some (first_key u')) hi u'
  end.

Lemma finish_small es : (length es < 4)%nat -> finish es = (Node es, None).
Proof. unfold finish. intros H. apply Nat.ltb_lt in H. now rewrite H. Qed.

Lemma length4 {A} (l : list A) : length l = 4%nat -> exists a b c d, l = [a; b; c; d].
Proof.
  destruct l as [|a [|b [|c [|d [|x l]]]]]; cbn; intros H; try discriminate.
  now exists a, b, c, d.
Qed.

Lemma ins_kids_spec h (rec : node -> res (node * option node)) k v rm :
  (forall lo hi c, wfn 2 h lo hi c -> in_lo lo k -> in_hi hi k ->
     exists c' u, rec c = Ok (c', u) /\ insert_post h 2 lo hi c k v rm c' u) ->
  forall es lo hi, wf_kids (wfn 2 h) lo hi es -> in_lo lo k -> in_hi hi k ->
  exists es' added, ins_kids rec v es k = Ok (es', added) /\
    length es' = (if added then S (length es) else length es) /\
    flat_map (kid_elems (elems h)) es' =
      fst (leaf_ins (flat_map (kid_elems (elems h)) es) k v rm) /\
    (In k (keys (flat_map (kid_elems (elems h)) es)) -> added = false) /\
    wf_kids (wfn 2 h) lo hi es' /\
    option_map ekey (hd_error es') = option_map ekey (hd_error es).
Proof.
  intros IHc. induction es as [|e es IH]; intros lo hi H Hlo Hhi; [destruct H|].
  destruct H as (c & Hc & R). cbn [flat_map ins_kids]. rewrite (kid_elems_some _ _ _ Hc).
  destruct es as [|e1 es].
  - (* last entry *)
    cbn [stop_here flat_map]. rewrite Hc, app_nil_r.
    destruct (IHc _ _ _ R Hlo Hhi) as (c' & u & Hrec & P1 & P2 & P3). rewrite Hrec.
    destruct u as [u'|].
    + eexists _, true. split; [reflexivity|]. cbn [opt_elems] in P1.
      repeat split.
      * cbn [flat_map]. unfold kid_elems at 1 2. cbn [enext]. now rewrite app_nil_r.
      * intros Hin. specialize (P2 Hin). discriminate.
      * destruct P3 as (W1 & W2). cbn. exists c'. split; [reflexivity|].
        split; [exact W1|]. exists u'. split; [reflexivity|exact W2].
    + eexists _, false. split; [reflexivity|]. cbn [opt_elems] in P1. rewrite app_nil_r in P1.
      repeat split.
      * cbn [flat_map]. unfold kid_elems at 1. cbn [enext]. now rewrite app_nil_r.
      * cbn. exists c'. split; [reflexivity|exact P3].
  - destruct R as (Wc & Wk). cbn [stop_here].
    destruct (kids2_asc _ _ _ _ Wk) as (Ar & Nr).
    pose proof (elems_asc _ _ _ _ _ Wc) as Ac.
    set (rest := flat_map (kid_elems (elems h)) (e1 :: es)) in *.
    destruct (Z.ltb_spec k (ekey e1)) as [L|L].
    + (* descend into this child *)
      rewrite Hc.
      assert (Hhi' : in_hi (Some (ekey e1)) k) by exact L.
      destruct (IHc _ _ _ Wc Hlo Hhi') as (c' & u & Hrec & P1 & P2 & P3). rewrite Hrec.
      assert (Gr : Forall (fun x => k < x) (keys rest)) by (eapply asc_all_above; eauto).
      assert (Nin : ~ In k (keys rest)) by (eapply asc_notin_below; eauto).
      destruct u as [u'|].
      * eexists _, true. split; [reflexivity|]. cbn [opt_elems] in P1.
        repeat split.
        -- cbn [flat_map]. unfold kid_elems at 1 2. cbn [enext]. fold rest.
           rewrite leaf_ins_app_l by exact Gr. cbn [fst]. rewrite <- P1.
           now rewrite <- app_assoc.
        -- intros Hin. rewrite keys_app, in_app_iff in Hin. destruct Hin as [Hin|Hin].
           ++ specialize (P2 Hin). discriminate.
           ++ contradiction.
        -- destruct P3 as (W1 & W2). cbn [wf_kids]. exists c'. split; [reflexivity|].
           cbn [ekey]. split; [exact W1|]. exists u'. split; [reflexivity|].
           split; [exact W2|exact Wk].
      * eexists _, false. split; [reflexivity|]. cbn [opt_elems] in P1. rewrite app_nil_r in P1.
        repeat split.
        -- cbn [flat_map]. unfold kid_elems at 1. cbn [enext]. fold rest.
           rewrite leaf_ins_app_l by exact Gr. cbn [fst]. now rewrite <- P1.
        -- cbn [wf_kids]. exists c'. split; [reflexivity|]. split; [exact P3|exact Wk].
    + (* go on to the right *)
      assert (Hlo' : in_lo (Some (ekey e1)) k) by exact L.
      destruct (IH _ _ Wk Hlo' Hhi) as (r & added & Hr & Q1 & Q2 & Q3 & Q4 & Q5). rewrite Hr.
      exists (e :: r), added. split; [reflexivity|].
      assert (Gl : Forall (fun x => x < k) (keys (elems h c))) by (eapply asc_all_below; eauto).
      repeat split.
      * cbn [length]. rewrite Q1. now destruct added.
      * cbn [flat_map]. rewrite (kid_elems_some _ _ _ Hc).
        rewrite leaf_ins_app_r by exact Gl. cbn [fst]. now rewrite Q2.
      * intros Hin. rewrite keys_app, in_app_iff in Hin. destruct Hin as [Hin|Hin].
        -- exfalso. eapply asc_notin_above; eauto.
        -- auto.
      * destruct r as [|r1 r]; [destruct Q4|]. cbn [hd_error option_map] in Q5.
        injection Q5 as Q5. rewrite <- Q5 in Q4, Wc.
        cbn [wf_kids]. exists c. split; [exact Hc|]. split; [exact Wc|exact Q4].
Qed.

Lemma insert_spec : forall h m lo hi n k v rm,
  wfn m h lo hi n -> in_lo lo k -> in_hi hi k ->
  exists n' u, insert h n k v rm = Ok (n', u) /\ insert_post h m lo hi n k v rm n' u.
Proof.
  induction h as [|h IH]; intros m lo hi n k v rm H Hlo Hhi; cbn in H; destruct H as (L & H).
  - (* external node *)
    destruct H as (Nx & A). cbn [insert]. unfold insert_post. cbn [elems].
    pose proof (leaf_ins_asc lo hi (entries n) k v rm A Hlo Hhi) as A'.
    pose proof (leaf_ins_next (entries n) k v rm Nx) as N'.
    pose proof (leaf_ins_len (entries n) k v rm) as Len.
    pose proof (leaf_ins_present lo hi (entries n) k v rm A) as Pres.
    destruct (leaf_ins (entries n) k v rm) as [es' added]. cbn [fst snd] in *.
    destruct added.
    + destruct (Nat.ltb_spec (length es') 4) as [Lt|Ge].
      * rewrite finish_small by exact Lt. eexists _, None. split; [reflexivity|].
        unfold insert_post. cbn [elems entries opt_elems]. rewrite app_nil_r. cbn [wfn entries].
        repeat split; auto; lia.
      * assert (L4 : length es' = 4%nat) by lia.
        destruct (length4 _ L4) as (a & b & c & d & ->).
        eexists _, (Some _). split; [reflexivity|].
        unfold insert_post. cbn [elems entries opt_elems firstn skipn app first_key].
        split; [reflexivity|]. split; [intros Hin; specialize (Pres Hin); discriminate|].
        inversion N' as [|? ? Na N1]; subst. inversion N1 as [|? ? Nb N2]; subst.
        inversion N2 as [|? ? Nc N3]; subst. inversion N3 as [|? ? Nd _]; subst.
        cbn in A'. destruct A' as (A1 & A2 & A3 & A4 & A5 & A6 & A7 & A8 & _).
        split; cbn; (split; [lia|]); (split; [repeat constructor; auto|]); cbn;
          repeat split; auto; lia.
    + eexists _, None. split; [reflexivity|].
      unfold insert_post. cbn [elems entries opt_elems]. rewrite app_nil_r. cbn [wfn entries].
      repeat split; auto; lia.
  - (* internal node *)
    cbn [insert].
    assert (IHc : forall lo hi c, wfn 2 h lo hi c -> in_lo lo k -> in_hi hi k ->
              exists c' u, (fun c => insert h c k v rm) c = Ok (c', u) /\
                           insert_post h 2 lo hi c k v rm c' u).
    { intros lo' hi' c Wc Hl Hh. eapply IH; eauto. }
    destruct (ins_kids_spec h _ k v rm IHc (entries n) lo hi H Hlo Hhi)
      as (es' & added & Hr & Q1 & Q2 & Q3 & Q4 & _).
    rewrite Hr. destruct added.
    + destruct (Nat.ltb_spec (length es') 4) as [Lt|Ge].
      * rewrite finish_small by exact Lt. eexists _, None. split; [reflexivity|].
        unfold insert_post. cbn [elems entries opt_elems]. rewrite app_nil_r. cbn [wfn entries].
        repeat split; auto; lia.
      * assert (L4 : length es' = 4%nat) by lia.
        destruct (length4 _ L4) as (a & b & c & d & ->).
        eexists _, (Some _). split; [reflexivity|].
        unfold insert_post. cbn [elems entries opt_elems firstn skipn first_key].
        split; [rewrite <- Q2; cbn [flat_map]; now rewrite !app_nil_r, !app_assoc|].
        split; [intros Hin; specialize (Q3 Hin); discriminate|].
        cbn in Q4.
        destruct Q4 as (ca & Ha & Wa & cb & Hb & Wb & cc & Hc & Wc & cd & Hd & Wd).
        split; cbn; (split; [lia|]).
        -- exists ca. split; [exact Ha|]. split; [exact Wa|]. exists cb. split; [exact Hb|exact Wb].
        -- exists cc. split; [exact Hc|]. split; [exact Wc|]. exists cd. split; [exact Hd|exact Wd].
    + eexists _, None. split; [reflexivity|].
      unfold insert_post. cbn [elems entries opt_elems]. rewrite app_nil_r. cbn [wfn entries].
      repeat split; auto; lia.
Qed.

(* ================================================================== *)
(* Put / Remove on whole trees                                          *)
(* ================================================================== *)

Lemma wf_tree_asc t : wf_tree t -> asc None None (keys (all_entries t)).
Proof. intros H. eapply elems_asc; exact H. Qed.

Lemma put_spec t k v :
  wf_tree t ->
  exists t', put t k v = Ok t' /\ wf_tree t' /\
    all_entries t' = fst (leaf_ins (all_entries t) k v false) /\
    cnt t' = match search_leaf (all_entries t) k with Some _ => cnt t | None => cnt t + 1 end /\
    (height t' = height t \/ height t' = S (height t)).
Proof.
  intros W. unfold put, put_with. unfold wf_tree in W.
  rewrite (search_spec _ _ _ _ _ k W).
  destruct (insert_spec _ _ _ _ _ k v false W I I) as (r' & u & Hi & P1 & _ & P3).
  rewrite Hi. unfold all_entries. destruct u as [u'|].
  - eexists. split; [reflexivity|]. cbn [root cnt height].
    destruct P3 as (W1 & W2). cbn [opt_elems] in P1.
    split; [|split; [|split; [reflexivity|now right]]].
    + unfold wf_tree. cbn [root height root_minfan wfn entries length wf_kids ekey enext].
      split; [lia|]. exists r'. split; [reflexivity|]. split; [exact W1|].
      exists u'. split; [reflexivity|exact W2].
    + rewrite <- P1. cbn [elems entries flat_map]. unfold kid_elems. cbn [enext].
      now rewrite app_nil_r.
  - eexists. split; [reflexivity|]. cbn [root cnt height].
    cbn [opt_elems] in P1. rewrite app_nil_r in P1.
    split; [exact P3|]. split; [exact P1|]. split; [reflexivity|now left].
Qed.

Lemma remove_spec t k :
  wf_tree t ->
  exists t', remove t k = Ok t' /\ wf_tree t' /\ height t' = height t /\
    match search_leaf (all_entries t) k with
    | None => t' = t
    | Some v0 =>
        all_entries t' = fst (leaf_ins (all_entries t) k v0 true) /\ cnt t' = cnt t - 1
    end.
Proof.
  intros W. unfold remove, remove_with. pose proof W as W0. unfold wf_tree in W.
  rewrite (search_spec _ _ _ _ _ k W). fold (all_entries t).
  destruct (search_leaf (all_entries t) k) as [v0|] eqn:S.
  - destruct (insert_spec _ _ _ _ _ k v0 true W I I) as (r' & u & Hi & P1 & P2 & P3).
    rewrite Hi. apply search_leaf_in in S. specialize (P2 S). subst u.
    cbn [opt_elems] in P1. rewrite app_nil_r in P1.
    eexists. split; [reflexivity|]. unfold all_entries. cbn [root cnt height].
    split; [exact P3|]. split; [reflexivity|]. split; [exact P1|reflexivity].
  - exists t. split; [reflexivity|]. split; [exact W0|]. split; reflexivity.
Qed.

(* ================================================================== *)
(* the reference machine                                                *)
(* ================================================================== *)

Lemma sget_sput_same k v m : sget k (sput k v m) = Some v.
Proof.
  induction m as [|[k' v'] m IH]; cbn; [now rewrite Z.eqb_refl|].
  destruct (k <? k'); cbn; [now rewrite Z.eqb_refl|].
  destruct (Z.eqb_spec k k'); cbn; [now rewrite Z.eqb_refl|].
  destruct (Z.eqb_spec k k'); [contradiction|exact IH].
Qed.

Lemma sget_sput_other k k' v m : k' <> k -> sget k' (sput k v m) = sget k' m.
Proof.
  intros N. induction m as [|[k1 v1] m IH]; cbn.
  - destruct (Z.eqb_spec k' k); [contradiction|reflexivity].
  - destruct (k <? k1); cbn.
    + destruct (Z.eqb_spec k' k); [contradiction|reflexivity].
    + destruct (Z.eqb_spec k k1); cbn.
      * subst k1. destruct (Z.eqb_spec k' k); [contradiction|reflexivity].
      * destruct (k' =? k1); [reflexivity|exact IH].
Qed.

Lemma sget_sremove_same k m : sget k (sremove k m) = None.
Proof.
  induction m as [|[k1 v1] m IH]; [reflexivity|].
  rewrite sremove_cons. destruct (Z.eqb_spec k1 k); [exact IH|].
  cbn. destruct (Z.eqb_spec k k1); [congruence|exact IH].
Qed.

Lemma sget_sremove_other k k' m : k' <> k -> sget k' (sremove k m) = sget k' m.
Proof.
  intros N. induction m as [|[k1 v1] m IH]; [reflexivity|].
  rewrite sremove_cons. cbn. destruct (Z.eqb_spec k1 k).
  - subst k1. destruct (Z.eqb_spec k' k); [contradiction|exact IH].
  - cbn. destruct (k' =? k1); [reflexivity|exact IH].
Qed.

Lemma sget_none_notin k m : sget k m = None -> Forall (fun kv => fst kv <> k) m.
Proof.
  induction m as [|[k1 v1] m IH]; cbn; intros H; [constructor|].
  destruct (Z.eqb_spec k k1); [discriminate|]. constructor; [cbn; congruence|auto].
Qed.

Lemma sremove_sget_none k m : sget k m = None -> sremove k m = m.
Proof. intros H. apply sremove_absent. now apply sget_none_notin. Qed.

Lemma sget_above k m lo hi :
  asc lo hi (map fst m) -> (forall x, in_lo lo x -> k < x) -> sget k m = None.
Proof.
  intros A W. apply asc_Forall in A. rewrite Forall_map in A.
  induction m as [|[k1 v1] m IH]; cbn; [reflexivity|].
  inversion A as [|? ? [H1 _] H2]; subst. cbn in H1. specialize (W _ H1).
  destruct (Z.eqb_spec k k1); [lia|auto].
Qed.

Lemma sput_len lo hi k v m :
  asc lo hi (map fst m) ->
  length (sput k v m) = match sget k m with Some _ => length m | None => S (length m) end.
Proof.
  revert lo; induction m as [|[k1 v1] m IH]; cbn; intros lo A; [reflexivity|].
  destruct A as (A1 & A2 & A3).
  destruct (Z.ltb_spec k k1) as [L|L]; cbn.
  - destruct (Z.eqb_spec k k1); [lia|].
    rewrite (sget_above k m _ _ A3); [reflexivity|]. cbn. intros; lia.
  - destruct (Z.eqb_spec k k1); cbn; [reflexivity|].
    rewrite (IH _ A3). now destruct (sget k m).
Qed.

Lemma sremove_len lo hi k v m :
  asc lo hi (map fst m) -> sget k m = Some v -> S (length (sremove k m)) = length m.
Proof.
  revert lo; induction m as [|[k1 v1] m IH]; intros lo A S; cbn in A, S; [discriminate|].
  destruct A as (A1 & A2 & A3). rewrite sremove_cons. cbn [length].
  destruct (Z.eqb_spec k k1) as [E|E].
  - subst k1. rewrite Z.eqb_refl. rewrite sremove_sget_none; [reflexivity|].
    eapply sget_above; [exact A3|]. cbn. intros; lia.
  - destruct (Z.eqb_spec k1 k); [congruence|]. cbn. f_equal. eapply IH; eauto.
Qed.

Lemma sget_in_iff lo hi m k v :
  asc lo hi (map fst m) -> (In (k, v) m <-> sget k m = Some v).
Proof.
  revert lo; induction m as [|[k1 v1] m IH]; cbn; intros lo A.
  - split; [contradiction|discriminate].
  - destruct A as (A1 & A2 & A3). specialize (IH _ A3).
    destruct (Z.eqb_spec k k1) as [E|E].
    + subst k1. split.
      * intros [H|H]; [congruence|].
        exfalso. apply asc_Forall in A3. rewrite Forall_forall in A3.
        specialize (A3 k (in_map fst _ _ H)). cbn in A3. lia.
      * intros H. left. congruence.
    + rewrite <- IH. split; [intros [H|H]; [congruence|exact H]|auto].
Qed.

(* ================================================================== *)
(* simulation: every step of the B-tree is the reference machine's step *)
(* ================================================================== *)

Lemma inv_new : inv new.
Proof. split; [|reflexivity]. unfold wf_tree; cbn. repeat split; try lia; constructor. Qed.

Lemma abs_new : abs new = [].
Proof. reflexivity. Qed.

Definition op_put_keys (o : op) : list Z := put_keys [o].

Lemma step_sim t o :
  inv t ->
  exists t' x, step t o = Ok (t', x) /\ inv t' /\ sstep (abs t) o = (abs t', x) /\
    (forall y, In y (keys (all_entries t')) <->
               In y (keys (all_entries t)) \/ In y (op_put_keys o)) /\
    (height t <= height t')%nat.
Proof.
  intros (W & C). pose proof (wf_tree_asc _ W) as A.
  pose proof (trav_leaf_asc _ _ _ A) as Aa. fold (abs t) in Aa.
  destruct o as [k v|k|k| | |]; cbn [step sstep op_put_keys put_keys].
  - destruct (put_spec t k v W) as (t' & Hp & W' & E & Cn & Hh). rewrite Hp.
    assert (Ab : abs t' = sput k v (abs t)).
    { unfold abs. rewrite E. eapply trav_leaf_put; eauto. }
    exists t', ONone. repeat split; auto.
    + rewrite Cn, Ab, (sput_len _ _ _ _ _ Aa), C. unfold abs. rewrite <- search_leaf_sget.
      destruct (search_leaf (all_entries t) k); lia.
    + now rewrite Ab.
    + rewrite E, leaf_ins_keys_in. cbn. intuition.
    + rewrite E, leaf_ins_keys_in. cbn. intuition.
    + lia.
  - destruct (remove_spec t k W) as (t' & Hr & W' & Hh & R). rewrite Hr.
    pose proof (search_leaf_sget (all_entries t) k) as Sg. fold (abs t) in Sg.
    destruct (search_leaf (all_entries t) k) as [v0|] eqn:S.
    + destruct R as (E & Cn).
      assert (Ab : abs t' = sremove k (abs t)).
      { unfold abs. rewrite E. eapply trav_leaf_remove; eauto. }
      exists t', ONone. repeat split; auto.
      * rewrite Cn, C, Ab. symmetry in Sg.
        pose proof (sremove_len _ _ _ _ _ Aa Sg). lia.
      * now rewrite Ab.
      * rewrite E, leaf_ins_keys_in. apply search_leaf_in in S. cbn. intuition congruence.
      * rewrite E, leaf_ins_keys_in. cbn. intuition.
      * lia.
    + subst t'. exists t, ONone. repeat split; auto; try (cbn; intuition; fail).
      rewrite sremove_sget_none; auto.
  - unfold get. unfold wf_tree in W. rewrite (search_spec _ _ _ _ _ k W). fold (all_entries t).
    rewrite search_leaf_sget. fold (abs t).
    exists t, (OGet (sget k (abs t))). repeat split; auto; try (cbn; intuition; fail).
  - exists t, (OSize (size t)). unfold size. rewrite C.
    repeat split; auto; try (cbn; intuition; fail).
  - exists t, (OEmpty (is_empty t)). unfold is_empty, size. rewrite C.
    repeat split; auto; try (cbn; intuition; fail).
    destruct (abs t); reflexivity.
  - unfold traverse. unfold wf_tree in W. rewrite (trav_spec _ _ _ _ _ W). fold (all_entries t) (abs t).
    exists t, (OTrav (abs t)). repeat split; auto; try (cbn; intuition; fail).
Qed.

Lemma put_keys_app a b : put_keys (a ++ b) = put_keys a ++ put_keys b.
Proof.
  induction a as [|o a IH]; cbn; [reflexivity|]. destruct o; cbn; now rewrite ?IH.
Qed.

Lemma run_sim ops : forall t,
  inv t ->
  exists t' xs, run ops t = Ok (t', xs) /\ inv t' /\ srun ops (abs t) = (abs t', xs) /\
    (forall y, In y (keys (all_entries t')) <->
               In y (keys (all_entries t)) \/ In y (put_keys ops)) /\
    (height t <= height t')%nat.
Proof.
  induction ops as [|o ops IH]; intros t Hi; cbn [run srun].
  - exists t, []. split; [reflexivity|]. split; [exact Hi|]. split; [reflexivity|].
    split; [cbn; intuition|lia].
  - destruct (step_sim t o Hi) as (t1 & x & Hs & Hi1 & Ss & K1 & H1). rewrite Hs, Ss.
    destruct (IH t1 Hi1) as (t2 & xs & Hr & Hi2 & Sr & K2 & H2). rewrite Hr, Sr.
    exists t2, (x :: xs). split; [reflexivity|]. split; [exact Hi2|]. split; [reflexivity|].
    split; [|lia]. intros y. split.
    + intros Hy. apply K2 in Hy. rewrite K1 in Hy.
      change (o :: ops) with ([o] ++ ops). rewrite put_keys_app, in_app_iff.
      unfold op_put_keys in Hy. intuition.
    + intros Hy. apply K2. rewrite K1.
      change (o :: ops) with ([o] ++ ops) in Hy. rewrite put_keys_app, in_app_iff in Hy.
      unfold op_put_keys. intuition.
Qed.

(* ================================================================== *)
(* top-level statements                                                 *)
(* ================================================================== *)

(* every history from New runs without panic and produces exactly the outputs
   of the reference machine; the final tree satisfies the invariant and
   abstracts to the reference machine's final state *)
Lemma refinement ops :
  exists t, run ops new = Ok (t, snd (srun ops [])) /\ inv t /\ abs t = fst (srun ops []).
Proof.
  destruct (run_sim ops new inv_new) as (t & xs & Hr & Hi & Sr & _). rewrite abs_new in Sr.
  exists t. rewrite Sr. cbn. auto.
Qed.

Lemma run_inv ops t outs : run ops new = Ok (t, outs) -> inv t.
Proof.
  intros H. destruct (refinement ops) as (t0 & Hr & Hi & _). rewrite Hr in H.
  injection H as <- _. exact Hi.
Qed.

Lemma get_abs t k : inv t -> get t k = Ok (sget k (abs t)).
Proof.
  intros (W & _). unfold get. unfold wf_tree in W. rewrite (search_spec _ _ _ _ _ k W).
  now rewrite search_leaf_sget.
Qed.

Lemma traverse_abs t : inv t -> traverse t = Ok (abs t).
Proof.
  intros (W & _). unfold traverse. unfold wf_tree in W. now rewrite (trav_spec _ _ _ _ _ W).
Qed.

Lemma abs_asc t : inv t -> asc None None (map fst (abs t)).
Proof. intros (W & _). apply trav_leaf_asc. now apply wf_tree_asc. Qed.

(* ---- the map a history denotes ---- *)

Lemma final_map_ext ops : forall f g,
  (forall k, f k = g k) -> forall k, final_map ops f k = final_map ops g k.
Proof.
  induction ops as [|o ops IH]; intros f g E k; cbn; [apply E|].
  destruct o; try (apply IH; exact E); apply IH; intros x; unfold upd;
    destruct (x =? k0); auto.
Qed.

Lemma srun_fst o ops m : fst (srun (o :: ops) m) = fst (srun ops (fst (sstep m o))).
Proof.
  cbn [srun]. destruct (sstep m o) as [m' x]. cbn [fst].
  destruct (srun ops m') as [m'' xs]. reflexivity.
Qed.

Lemma srun_final_map ops : forall m k,
  sget k (fst (srun ops m)) = final_map ops (fun x => sget x m) k.
Proof.
  induction ops as [|o ops IH]; intros m k; [reflexivity|].
  rewrite srun_fst, IH. destruct o as [k0 v0|k0|k0| | |]; cbn [sstep fst final_map];
    try reflexivity; apply final_map_ext; intros x; unfold upd.
  - destruct (Z.eqb_spec x k0) as [->|N]; [apply sget_sput_same|now apply sget_sput_other].
  - destruct (Z.eqb_spec x k0) as [->|N]; [apply sget_sremove_same|now apply sget_sremove_other].
Qed.

Lemma abs_final_map ops t outs k :
  run ops new = Ok (t, outs) -> sget k (abs t) = final_map ops empty_map k.
Proof.
  intros H. destruct (refinement ops) as (t0 & Hr & _ & Ab). rewrite Hr in H.
  injection H as <- _. rewrite Ab. apply srun_final_map.
Qed.

(* Get returns the last value put and not since removed, absence otherwise *)
Lemma get_final ops t outs k :
  run ops new = Ok (t, outs) -> get t k = Ok (final_map ops empty_map k).
Proof.
  intros H. rewrite (get_abs _ _ (run_inv _ _ _ H)). f_equal. eapply abs_final_map; eauto.
Qed.

(* Traverse: exactly the live keys, once each, ascending, current values;
   Size = their number; IsEmpty accordingly *)
Lemma traverse_final ops t outs :
  run ops new = Ok (t, outs) ->
  exists l, traverse t = Ok l /\
    StronglySorted Z.lt (map fst l) /\
    (forall k v, In (k, v) l <-> final_map ops empty_map k = Some v) /\
    size t = Z.of_nat (length l) /\
    is_empty t = match l with [] => true | _ => false end.
Proof.
  intros H. pose proof (run_inv _ _ _ H) as Hi. exists (abs t).
  split; [now apply traverse_abs|].
  pose proof (abs_asc _ Hi) as A.
  split; [eapply asc_sorted; eauto|].
  split.
  - intros k v. rewrite (sget_in_iff _ _ _ k v A). now rewrite (abs_final_map _ _ _ k H).
  - destruct Hi as (_ & C). unfold is_empty, size. rewrite C. split; [reflexivity|].
    destruct (abs t); reflexivity.
Qed.

(* ---- algebraic laws on any state satisfying the invariant ---- *)

Lemma put_laws t k v :
  inv t ->
  exists t', put t k v = Ok t' /\ inv t' /\
    get t' k = Ok (Some v) /\
    (forall k', k' <> k -> get t' k' = get t k') /\
    size t' = match get t k with Ok (Some _) => size t | _ => size t + 1 end.
Proof.
  intros Hi. destruct (step_sim t (Put k v) Hi) as (t' & x & Hs & Hi' & Ss & _).
  cbn [step] in Hs. destruct (put t k v) as [t1| |]; try discriminate.
  injection Hs as -> _. cbn [sstep] in Ss. injection Ss as Ab.
  exists t'. split; [reflexivity|]. split; [exact Hi'|].
  rewrite !(get_abs _ _ Hi'), <- Ab, sget_sput_same. split; [reflexivity|].
  split.
  - intros k' N. rewrite (get_abs _ _ Hi'), (get_abs _ _ Hi), <- Ab. f_equal.
    now apply sget_sput_other.
  - rewrite (get_abs _ _ Hi). pose proof (abs_asc _ Hi) as A.
    destruct Hi as (_ & C), Hi' as (_ & C'). unfold size.
    rewrite C, C', <- Ab, (sput_len _ _ _ _ _ A).
    destruct (sget k (abs t)); lia.
Qed.

Lemma remove_laws t k :
  inv t ->
  exists t', remove t k = Ok t' /\ inv t' /\
    get t' k = Ok None /\
    (forall k', k' <> k -> get t' k' = get t k') /\
    size t' = match get t k with Ok (Some _) => size t - 1 | _ => size t end /\
    (get t k = Ok None -> t' = t).
Proof.
  intros Hi. destruct (step_sim t (Remove k) Hi) as (t' & x & Hs & Hi' & Ss & _).
  cbn [step] in Hs. destruct (remove t k) as [t1| |] eqn:Hr; try discriminate.
  injection Hs as -> _. cbn [sstep] in Ss. injection Ss as Ab.
  exists t'. split; [reflexivity|]. split; [exact Hi'|].
  rewrite !(get_abs _ _ Hi'), <- Ab, sget_sremove_same. split; [reflexivity|].
  split; [|split].
  - intros k' N. rewrite (get_abs _ _ Hi'), (get_abs _ _ Hi), <- Ab. f_equal.
    now apply sget_sremove_other.
  - rewrite (get_abs _ _ Hi). pose proof (abs_asc _ Hi) as A.
    destruct Hi as (_ & C), Hi' as (_ & C'). unfold size. rewrite C, C', <- Ab.
    destruct (sget k (abs t)) as [v0|] eqn:G.
    + pose proof (sremove_len _ _ _ _ _ A G). lia.
    + now rewrite sremove_sget_none.
  - rewrite (get_abs _ _ Hi). intros G. injection G as G.
    destruct Hi as (W & _). destruct (remove_spec t k W) as (t2 & Hr2 & _ & _ & R).
    rewrite Hr in Hr2. injection Hr2 as <-.
    rewrite search_leaf_sget in R. fold (abs t) in R. now rewrite G in R.
Qed.

(* ---- balance ---- *)

Lemma kids_len h X es : forall lo hi,
  (forall lo hi c, wfn 2 h lo hi c -> (X <= length (elems h c))%nat) ->
  wf_kids (wfn 2 h) lo hi es ->
  (length es * X <= length (flat_map (kid_elems (elems h)) es))%nat.
Proof.
  induction es as [|e es IH]; intros lo hi Hc H; [destruct H|].
  destruct H as (c & Hn & R). cbn [flat_map length]. rewrite (kid_elems_some _ _ _ Hn), app_length.
  destruct es as [|e1 es].
  - specialize (Hc _ _ _ R). cbn. lia.
  - destruct R as (Wc & Wk). specialize (IH _ _ Hc Wk). specialize (Hc _ _ _ Wc).
    cbn [length] in *. lia.
Qed.

(* a non-root subtree of height h holds at least 2^(h+1) leaf entries *)
Lemma elems_len : forall h lo hi n,
  wfn 2 h lo hi n -> (2 ^ S h <= length (elems h n))%nat.
Proof.
  induction h as [|h IH]; intros lo hi n H; cbn in H; destruct H as (L & H).
  - cbn. lia.
  - cbn [elems]. pose proof (kids_len h (2 ^ S h) (entries n) lo hi IH H) as K.
    change (2 ^ S (S h))%nat with (2 * 2 ^ S h)%nat. nia.
Qed.

Lemma tree_len t :
  wf_tree t -> height t = O \/ (2 ^ S (height t) <= length (all_entries t))%nat.
Proof.
  unfold wf_tree, all_entries. destruct (height t) as [|h]; [now left|]. right.
  eapply elems_len; eauto.
Qed.

(* the leaf entries (tombstones included) are exactly the distinct keys ever put *)
Lemma entries_count ops t outs :
  run ops new = Ok (t, outs) -> length (all_entries t) = distinct_keys_ever ops.
Proof.
  intros H. destruct (run_sim ops new inv_new) as (t0 & xs & Hr & Hi & _ & K & _).
  rewrite Hr in H. injection H as <- _.
  unfold distinct_keys_ever. rewrite <- (map_length ekey). fold (keys (all_entries t0)).
  apply Permutation_length. apply NoDup_Permutation.
  - destruct Hi as (W & _). eapply asc_NoDup. apply wf_tree_asc; eauto.
  - apply NoDup_nodup.
  - intros y. rewrite K, nodup_In. cbn. intuition.
Qed.

Lemma height_pow ops t outs :
  run ops new = Ok (t, outs) ->
  height t = O \/ (2 ^ S (height t) <= distinct_keys_ever ops)%nat.
Proof.
  intros H. rewrite <- (entries_count _ _ _ H). apply tree_len.
  now destruct (run_inv _ _ _ H).
Qed.

Lemma height_log ops t outs :
  run ops new = Ok (t, outs) ->
  (2 ^ height t <= Nat.max 1 (distinct_keys_ever ops))%nat.
Proof.
  intros H. destruct (height_pow _ _ _ H) as [E|L].
  - rewrite E. change (2 ^ 0)%nat with 1%nat. lia.
  - rewrite Nat.pow_succ_r' in L. lia.
Qed.

Lemma height_le_log2 ops t outs :
  run ops new = Ok (t, outs) ->
  (height t <= Nat.log2 (Nat.max 1 (distinct_keys_ever ops)))%nat.
Proof.
  intros H. apply height_log in H. apply Nat.log2_le_mono in H.
  rewrite Nat.log2_pow2 in H by lia. exact H.
Qed.

(* Height never decreases along a history *)
Lemma height_mono ops t t' outs :
  inv t -> run ops t = Ok (t', outs) -> (height t <= height t')%nat.
Proof.
  intros Hi H. destruct (run_sim ops t Hi) as (t0 & xs & Hr & _ & _ & _ & Hh).
  rewrite Hr in H. injection H as <- _. exact Hh.
Qed.

(* ---- the code before the repairs violates the property ---- *)

Lemma unrepaired_get_after_remove :
  exists t1 t2, put0 new 1 10 = Ok t1 /\ remove0 t1 1 = Ok t2 /\
                get0 t2 1 = Ok (Some 10) /\ size t2 = 0.
Proof. do 2 eexists. vm_compute. repeat split. Qed.

Lemma unrepaired_reput_grows_size :
  exists t1 t2, put0 new 1 10 = Ok t1 /\ put0 t1 1 11 = Ok t2 /\ size t2 = 2.
Proof. do 2 eexists. vm_compute. repeat split. Qed.

Lemma unrepaired_double_remove :
  exists t1 t2 t3, put0 new 1 10 = Ok t1 /\ remove0 t1 1 = Ok t2 /\ remove0 t2 1 = Ok t3 /\
                   size t3 = -1 /\ is_empty t3 = false.
Proof. do 3 eexists. vm_compute. repeat split. Qed.
