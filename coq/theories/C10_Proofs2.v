(* C10_Proofs2.v — second part of the C10 lemmas:
   (A) the exact meaning of the keys stored in internal entries: every entry
       but the FIRST of an internal node carries the least key of its subtree
       (tombstones included); the first entry's key is a stale copy that the
       code never reads;
   (B) soundness of the wire property checker [c10_holds] on the model's own
       observations. *)

From Gogu Require Import Base C10_Model C10_Proofs C10_Wire.
From Coq Require Import Permutation Sorted.
Local Open Scope Z_scope.

(* ================================================================== *)
(* (A) separator keys                                                   *)
(* ================================================================== *)

(* least key stored below a node (first leaf entry, tombstone or not) *)
Definition min_key (h : nat) (n : node) : option Z := hd_error (keys (elems h n)).

(* entries of an internal node: every child satisfies P; every entry except
   the first one of the node carries its child's least key *)
Fixpoint sep_kids (P : node -> Prop) (mk : node -> option Z) (first : bool)
         (es : list entry) : Prop :=
  match es with
  | [] => True
  | e :: es' =>
      (forall c, enext e = Some c -> P c /\ (first = false -> mk c = Some (ekey e))) /\
      sep_kids P mk false es'
  end.

Fixpoint seps (h : nat) (n : node) : Prop :=
  match h with
  | O => True
  | S h' => sep_kids (seps h') (min_key h') true (entries n)
  end.

Definition seps_tree (t : btree) : Prop := seps (height t) (root t).

Lemma hd_keys_app l1 l2 : l1 <> [] -> hd_error (keys (l1 ++ l2)) = hd_error (keys l1).
Proof. destruct l1; [congruence|reflexivity]. Qed.

Lemma hd_leaf_ins l k v rm k0 :
  hd_error (keys l) = Some k0 -> k0 <= k ->
  hd_error (keys (fst (leaf_ins l k v rm))) = Some k0.
Proof.
  destruct l as [|e l]; cbn; [discriminate|]. intros H L. injection H as H.
  destruct (Z.eqb_spec k (ekey e)); cbn; [congruence|].
  destruct (Z.ltb_spec k (ekey e)); [lia|].
  destruct (leaf_ins l k v rm) as [r a]; cbn. congruence.
Qed.

Lemma sep_kids_weaken P mk es : sep_kids P mk false es -> sep_kids P mk true es.
Proof.
  destruct es as [|e es]; cbn; [auto|]. intros (H & R). split; [|exact R].
  intros c Hc. destruct (H c Hc) as (Pc & _). split; [exact Pc|discriminate].
Qed.

Lemma sep_entry (P : node -> Prop) (mk : node -> option Z) first k v c r :
  P c -> (first = false -> mk c = Some k) ->
  forall c0, enext (Entry k v (Some c) r) = Some c0 ->
             P c0 /\ (first = false -> mk c0 = Some k).
Proof. intros Pc M c0 E. cbn in E. injection E as <-. auto. Qed.

(* what one call of insert guarantees about separators *)
Definition seps_post (h : nat) (n' : node) (u : option node) : Prop :=
  seps h n' /\
  match u with
  | None => True
  | Some u' => seps h u' /\ min_key h u' = Some (first_key u')
  end.

Lemma ins_kids_seps h (rec : node -> res (node * option node)) k v rm :
  (forall lo hi c c' u, wfn 2 h lo hi c -> in_lo lo k -> in_hi hi k -> seps h c ->
     rec c = Ok (c', u) -> insert_post h 2 lo hi c k v rm c' u /\ seps_post h c' u) ->
  forall es lo hi first es' added,
    wf_kids (wfn 2 h) lo hi es -> in_lo lo k -> in_hi hi k ->
    (first = false -> exists e0 rest, es = e0 :: rest /\ lo = Some (ekey e0)) ->
    sep_kids (seps h) (min_key h) first es ->
    ins_kids rec v es k = Ok (es', added) ->
    sep_kids (seps h) (min_key h) first es'.
Proof.
  intros IHc. induction es as [|e es IH]; intros lo hi first es' added W Hlo Hhi Hf S R;
    [destruct W|].
  destruct W as (c & Hc & Wr). cbn [sep_kids] in S. destruct S as (Se & Sr).
  destruct (Se c Hc) as (Sc & Sx).
  assert (Hlo0 : first = false -> lo = Some (ekey e)).
  { intros F. destruct (Hf F) as (e0 & rest & E & L). injection E as <- _. exact L. }
  (* the case "descend into this child", shared by both shapes of the tail *)
  assert (Desc : forall hi_c, wfn 2 h lo hi_c c -> in_hi hi_c k ->
            forall c' u, rec c = Ok (c', u) ->
            seps h c' /\ (first = false -> min_key h c' = Some (ekey e)) /\
            match u with None => True
                    | Some u' => seps h u' /\ min_key h u' = Some (first_key u') end).
  { intros hi_c Wc Hh c' u Hrec.
    destruct (IHc _ _ _ _ _ Wc Hlo Hh Sc Hrec) as ((P1 & _ & P3) & (S1 & S2)).
    split; [exact S1|]. split; [|exact S2].
    intros F. specialize (Sx F). specialize (Hlo0 F). subst lo. cbn in Hlo.
    unfold min_key in *.
    assert (N' : elems h c' <> []).
    { destruct u as [u'|]; [destruct P3 as (Wc' & _)|]; eapply elems_ne; eauto. }
    rewrite <- (hd_keys_app _ (opt_elems h u) N'), P1. now apply hd_leaf_ins. }
  cbn [ins_kids] in R. destruct es as [|e1 es].
  - cbn [stop_here] in R. rewrite Hc in R.
    destruct (rec c) as [[c' u]| |] eqn:Hrec; try discriminate.
    destruct (Desc _ Wr Hhi _ _ eq_refl) as (S1 & S2 & S3).
    destruct u as [u'|]; injection R as <- <-; cbn [sep_kids].
    + destruct S3 as (Su & Mu).
      split; [apply sep_entry; auto|]. split; [apply sep_entry; auto|exact I].
    + split; [apply sep_entry; auto|exact I].
  - destruct Wr as (Wc & Wk). cbn [stop_here] in R.
    destruct (Z.ltb_spec k (ekey e1)) as [L|L].
    + rewrite Hc in R. destruct (rec c) as [[c' u]| |] eqn:Hrec; try discriminate.
      assert (Hh : in_hi (Some (ekey e1)) k) by exact L.
      destruct (Desc _ Wc Hh _ _ eq_refl) as (S1 & S2 & S3).
      destruct u as [u'|]; injection R as <- <-; cbn [sep_kids].
      * destruct S3 as (Su & Mu).
        split; [apply sep_entry; auto|]. split; [apply sep_entry; auto|exact Sr].
      * split; [apply sep_entry; auto|exact Sr].
    + destruct (ins_kids rec v (e1 :: es) k) as [[r a]| |] eqn:Hr; try discriminate.
      injection R as <- <-. cbn [sep_kids]. split; [exact Se|].
      refine (IH (Some (ekey e1)) hi false r a Wk L Hhi _ Sr eq_refl).
      intros _. now exists e1, es.
Qed.

Lemma insert_seps : forall h m lo hi n k v rm n' u,
  wfn m h lo hi n -> in_lo lo k -> in_hi hi k -> seps h n ->
  insert h n k v rm = Ok (n', u) ->
  insert_post h m lo hi n k v rm n' u /\ seps_post h n' u.
Proof.
  induction h as [|h IH]; intros m lo hi n k v rm n' u W Hlo Hhi S R.
  - (* leaves: nothing to say about separators except the split-off node's first key *)
    destruct (insert_spec _ _ _ _ _ k v rm W Hlo Hhi) as (n0 & u0 & R0 & P).
    rewrite R in R0. injection R0 as <- <-. split; [exact P|].
    split; [exact I|]. destruct u as [u'|]; [|exact I]. split; [exact I|].
    destruct P as (_ & _ & (_ & W2)). cbn in W2. destruct W2 as (L & _).
    unfold min_key, first_key. cbn [elems]. destruct (entries u'); [cbn in L; lia|reflexivity].
  - destruct (insert_spec _ _ _ _ _ k v rm W Hlo Hhi) as (n0 & u0 & R0 & P).
    rewrite R in R0. injection R0 as <- <-. split; [exact P|].
    cbn in W. destruct W as (L & Wk). cbn [insert] in R. cbn [seps] in S.
    destruct (ins_kids (fun c => insert h c k v rm) v (entries n) k) as [[es' added]| |] eqn:Hr;
      try discriminate.
    assert (S' : sep_kids (seps h) (min_key h) true es').
    { eapply (ins_kids_seps h _ k v rm) with (first := true); eauto.
      - intros lo' hi' c c' u' Wc Hl Hh Sc Hrec. eapply IH; eauto.
      - discriminate. }
    destruct added.
    + unfold finish in R. destruct (length es' <? 4)%nat eqn:Lt.
      * injection R as <- <-. split; [exact S'|exact I].
      * injection R as <- <-.
        destruct P as (_ & _ & (W1 & W2)).
        destruct es' as [|a [|b [|c [|d rest]]]]; cbn in Lt; try discriminate.
        cbn [firstn skipn] in *. cbn [sep_kids] in S'.
        destruct S' as (Sa & Sb & Sc & Sd & _).
        split; [cbn [seps entries sep_kids]; auto|].
        split; [cbn [seps entries sep_kids]; split; [|split; [exact Sd|exact I]]|].
        -- intros c0 E0. destruct (Sc c0 E0) as (Pc & _). split; [exact Pc|discriminate].
        -- cbn in W2. destruct W2 as (_ & (cc & Hcc & Wcc & _)).
           destruct (Sc cc Hcc) as (_ & Mc). specialize (Mc eq_refl).
           unfold min_key in *. cbn [elems entries flat_map first_key].
           rewrite (kid_elems_some _ _ _ Hcc), hd_keys_app; [exact Mc|].
           eapply elems_ne; eauto.
    + injection R as <- <-. split; [exact S'|exact I].
Qed.

Lemma put_seps t k v t' :
  wf_tree t -> seps_tree t -> put t k v = Ok t' -> seps_tree t'.
Proof.
  unfold put, put_with, wf_tree, seps_tree. intros W S R.
  destruct (search (height t) (root t) k) as [found| |]; try discriminate.
  destruct (insert (height t) (root t) k v false) as [[r' u]| |] eqn:Hi; try discriminate.
  destruct (insert_seps _ _ _ _ _ _ _ _ _ _ W I I S Hi) as (_ & (S1 & S2)).
  destruct u as [u'|]; injection R as <-; cbn [root height]; [|exact S1].
  destruct S2 as (Su & Mu). cbn [seps entries sep_kids].
  split; [apply sep_entry; [exact S1|discriminate]|].
  split; [apply sep_entry; auto|exact I].
Qed.

Lemma remove_seps t k t' :
  wf_tree t -> seps_tree t -> remove t k = Ok t' -> seps_tree t'.
Proof.
  intros W S R. pose proof W as W0. pose proof S as S0.
  unfold remove, remove_with in R. unfold wf_tree in W. unfold seps_tree in S.
  rewrite (search_spec _ _ _ _ _ k W) in R.
  destruct (search_leaf (elems (height t) (root t)) k) as [v0|] eqn:Sr.
  - destruct (insert (height t) (root t) k v0 true) as [[r' u]| |] eqn:Hi; try discriminate.
    destruct (insert_seps _ _ _ _ _ _ _ _ _ _ W I I S Hi) as (_ & (S1 & _)).
    injection R as <-. exact S1.
  - injection R as <-. exact S0.
Qed.

Lemma step_seps t o t' x :
  inv t -> seps_tree t -> step t o = Ok (t', x) -> seps_tree t'.
Proof.
  intros (W & _) S R. destruct o as [k v|k|k| | |]; cbn [step] in R.
  - destruct (put t k v) as [t1| |] eqn:E; try discriminate. injection R as <- _.
    eapply put_seps; eauto.
  - destruct (remove t k) as [t1| |] eqn:E; try discriminate. injection R as <- _.
    eapply remove_seps; eauto.
  - destruct (get t k); try discriminate. now injection R as <- _.
  - now injection R as <- _.
  - now injection R as <- _.
  - destruct (traverse t); try discriminate. now injection R as <- _.
Qed.

Lemma run_seps ops : forall t t' outs,
  inv t -> seps_tree t -> run ops t = Ok (t', outs) -> seps_tree t'.
Proof.
  induction ops as [|o ops IH]; intros t t' outs Hi S R; cbn [run] in R.
  - now injection R as <- _.
  - destruct (step_sim t o Hi) as (t1 & x & Hs & Hi1 & _). rewrite Hs in R.
    destruct (run ops t1) as [[t2 xs]| |] eqn:Hr; try discriminate. injection R as <- _.
    exact (IH t1 t2 xs Hi1 (step_seps t o t1 x Hi S Hs) Hr).
Qed.

Lemma seps_all_histories ops t outs : run ops new = Ok (t, outs) -> seps_tree t.
Proof. intros R. eapply run_seps; [exact inv_new|exact I|exact R]. Qed.

(* the FIRST entry's key is stale: after Put 5,6,7,8 (root split: children[0].key = 5)
   and Put 1, the first entry of the root still says 5 although its subtree starts at 1 *)
Lemma first_sep_stale :
  exists t outs e c,
    run [Put 5 0; Put 6 0; Put 7 0; Put 8 0; Put 1 0] new = Ok (t, outs) /\
    hd_error (entries (root t)) = Some e /\ enext e = Some c /\
    ekey e = 5 /\ min_key 0 c = Some 1.
Proof. do 4 eexists. vm_compute. repeat split. Qed.

(* ================================================================== *)
(* (B) the wire property checker accepts every observation of the model *)
(* ================================================================== *)

Definition good_rec (r : list Z) : Prop :=
  exists c k v, r = [c; k; v] /\ (c = 1 \/ c = 2 \/ c = 3 \/ c = 4).

(* [seen] lists the distinct keys put so far = the keys of the leaf level *)
Definition seen_ok (seen : list Z) (t : btree) : Prop :=
  NoDup seen /\ forall y, In y seen <-> In y (keys (all_entries t)).

Lemma zmem_spec k l : zmem k l = true <-> In k l.
Proof.
  induction l as [|x l IH]; cbn; [split; [discriminate|contradiction]|].
  rewrite orb_true_iff, IH, Z.eqb_eq. intuition.
Qed.

Lemma seen_len seen t : inv t -> seen_ok seen t -> length seen = length (all_entries t).
Proof.
  intros (W & _) (N & M). rewrite <- (map_length ekey (all_entries t)). fold (keys (all_entries t)).
  apply Permutation_length, NoDup_Permutation; auto.
  eapply asc_NoDup. apply wf_tree_asc; eauto.
Qed.

Lemma state_ok_model t seen :
  inv t -> seen_ok seen t ->
  state_ok (abs t) (Z.of_nat (length seen)) (size t) (if is_empty t then 1 else 0)
           (Z.of_nat (height t)) = true.
Proof.
  intros Hi Hs. rewrite (seen_len _ _ Hi Hs). destruct Hi as (W & C).
  unfold state_ok, is_empty, size. rewrite C, Z.eqb_refl.
  assert (E : ((if Z.of_nat (length (abs t)) =? 0 then 1 else 0)
               =? match abs t with [] => 1 | _ :: _ => 0 end) = true)
    by (destruct (abs t); reflexivity).
  rewrite E. cbn [andb].
  assert (H0 : (0 <=? Z.of_nat (height t)) = true) by (apply Z.leb_le; lia).
  rewrite H0. cbn [andb].
  destruct (tree_len t W) as [Z0|L].
  - rewrite Z0. cbn. apply andb_true_iff. split; apply Z.leb_le; lia.
  - pose proof (Nat.pow_gt_lin_r 2 (height t) ltac:(lia)) as G.
    rewrite Nat.pow_succ_r' in L.
    assert (P : 2 ^ Z.of_nat (height t) = Z.of_nat (2 ^ height t)) by (now rewrite Nat2Z.inj_pow).
    apply andb_true_iff. split; apply Z.leb_le; [lia|]. rewrite P. lia.
Qed.

Lemma strip_prefix_app p r : strip_prefix p (p ++ r) = Some r.
Proof. induction p as [|x p IH]; cbn; [reflexivity|]. now rewrite Z.eqb_refl. Qed.

Lemma run_wire_holds recs : Forall good_rec recs -> forall t seen,
  inv t -> seen_ok seen t ->
  holds_wire recs (abs t) seen (run_wire recs t) = true.
Proof.
  induction 1 as [|r recs (c & k & v & -> & Hc) _ IH]; intros t seen Hi Hs.
  - cbn [run_wire holds_wire]. rewrite (traverse_abs _ Hi). apply zlist_eqb_refl.
  - cbn [run_wire holds_wire]. destruct Hc as [->|[->|[->| ->]]]; cbn [Z.eqb Pos.eqb].
    + (* Put *)
      destruct (step_sim t (Put k v) Hi) as (t' & x & St & Hi' & Ss & K & _).
      cbn [step] in St. destruct (put t k v) as [t1| |]; try discriminate. injection St as -> _.
      cbn [sstep] in Ss. injection Ss as Ab.
      assert (Hs' : seen_ok (if zmem k seen then seen else k :: seen) t').
      { destruct Hs as (N & M). destruct (zmem k seen) eqn:Z.
        - apply zmem_spec in Z. split; [exact N|]. intros y. rewrite K, <- M. cbn.
          intuition congruence.
        - split.
          + constructor; [|exact N]. intros X. apply zmem_spec in X. congruence.
          + intros y. rewrite K, <- M. cbn. intuition. }
      cbn [enc_state app]. rewrite Ab, (state_ok_model _ _ Hi' Hs'). cbn [andb].
      apply IH; auto.
    + (* Remove *)
      destruct (step_sim t (Remove k) Hi) as (t' & x & St & Hi' & Ss & K & _).
      cbn [step] in St. destruct (remove t k) as [t1| |]; try discriminate. injection St as -> _.
      cbn [sstep] in Ss. injection Ss as Ab.
      assert (Hs' : seen_ok seen t').
      { destruct Hs as (N & M). split; [exact N|]. intros y. rewrite K, <- M. cbn. intuition. }
      cbn [enc_state app]. rewrite Ab, (state_ok_model _ _ Hi' Hs'). cbn [andb].
      apply IH; auto.
    + (* Get *)
      rewrite (get_abs _ _ Hi).
      destruct (sget k (abs t)) as [x|]; cbn [enc_get enc_state app];
        rewrite (state_ok_model _ _ Hi Hs), zlist_eqb_refl; cbn [andb]; apply IH; auto.
    + (* Traverse *)
      rewrite (traverse_abs _ Hi), strip_prefix_app. cbn [enc_state app].
      rewrite (state_ok_model _ _ Hi Hs). cbn [andb]. apply IH; auto.
Qed.

Lemma checker_sound w :
  Forall good_rec (chunks 3 w) -> c10_holds w (c10_run w) = true.
Proof.
  intros G. unfold c10_holds, c10_run. change (@nil (Z * Z)) with (abs new).
  apply run_wire_holds; [exact G|exact inv_new|].
  split; [constructor|]. intros y. cbn. tauto.
Qed.

(* the wire encoding of a history decodes into well-formed records *)
Inductive wop : Type := WPut (k v : Z) | WRemove (k : Z) | WGet (k : Z) | WTraverse.
Definition enc_wop (o : wop) : list Z :=
  match o with WPut k v => [1; k; v] | WRemove k => [2; k; 0] | WGet k => [3; k; 0]
  | WTraverse => [4; 0; 0] end.

Lemma chunks_enc ops : forall fuel,
  (length (flat_map enc_wop ops) <= fuel)%nat ->
  chunks_fuel fuel 3 (flat_map enc_wop ops) = map enc_wop ops.
Proof.
  induction ops as [|o ops IH]; intros fuel L; cbn [flat_map map].
  - destruct fuel; reflexivity.
  - cbn [flat_map] in L. rewrite app_length in L.
    assert (L3 : length (enc_wop o) = 3%nat) by (destruct o; reflexivity).
    destruct fuel as [|fuel]; [lia|]. cbn [chunks_fuel].
    destruct o; cbn [enc_wop app firstn skipn]; (rewrite IH by lia); reflexivity.
Qed.

Lemma checker_sound_enc ops :
  let w := flat_map enc_wop ops in c10_holds w (c10_run w) = true.
Proof.
  intros w. apply checker_sound. unfold chunks, w. rewrite chunks_enc by lia.
  apply Forall_forall. intros r Hr. apply in_map_iff in Hr. destruct Hr as (o & <- & _).
  destruct o; do 3 eexists; (split; [reflexivity|]); auto 6.
Qed.

(* ================================================================== *)
(* (C) tombstones: Remove never changes the shape, a re-Put revives the
       tombstone in place; the height bound at every moment of a history *)
(* ================================================================== *)

Lemma leaf_ins_present_keys lo hi l k v rm :
  asc lo hi (keys l) -> In k (keys l) -> keys (fst (leaf_ins l k v rm)) = keys l.
Proof.
  revert lo; induction l as [|e l IH]; cbn; intros lo H Hin; [contradiction|].
  destruct H as (A & B & C).
  destruct (Z.eqb_spec k (ekey e)) as [E|E]; cbn; [reflexivity|].
  destruct Hin as [Hin|Hin]; [congruence|].
  pose proof (asc_Forall _ _ _ C) as F. rewrite Forall_forall in F.
  specialize (F _ Hin). cbn in F.
  destruct (Z.ltb_spec k (ekey e)) as [L|L]; [lia|].
  specialize (IH _ C Hin). destruct (leaf_ins l k v rm) as [r a]; cbn in *. now rewrite IH.
Qed.

(* Remove only flips a flag: same height, same leaf slots (tombstones included) *)
Lemma remove_shape t k t' :
  inv t -> remove t k = Ok t' ->
  height t' = height t /\ keys (all_entries t') = keys (all_entries t).
Proof.
  intros (W & _) R. destruct (remove_spec t k W) as (t1 & R1 & _ & Hh & P).
  rewrite R in R1. injection R1 as <-. split; [exact Hh|].
  destruct (search_leaf (all_entries t) k) as [v0|] eqn:S.
  - destruct P as (E & _). rewrite E.
    eapply leaf_ins_present_keys; [apply wf_tree_asc; exact W|eapply search_leaf_in; eauto].
  - now subst t'.
Qed.

(* Put of a key that has a slot (live or tombstoned): no entry is added, no split *)
Lemma put_present_shape t k v t' :
  inv t -> In k (keys (all_entries t)) -> put t k v = Ok t' ->
  height t' = height t /\ keys (all_entries t') = keys (all_entries t).
Proof.
  intros (W & _) Hin R. pose proof (wf_tree_asc _ W) as A.
  destruct (put_spec t k v W) as (t1 & R1 & W1 & E & _ & Hh).
  rewrite R in R1. injection R1 as <-.
  assert (K : keys (all_entries t') = keys (all_entries t)).
  { rewrite E. eapply leaf_ins_present_keys; eauto. }
  split; [|exact K].
  destruct Hh as [Hh|Hh]; [exact Hh|exfalso].
  (* a taller tree of the same number of entries: look at how Put built it *)
  unfold put, put_with in R. unfold wf_tree in W.
  rewrite (search_spec _ _ _ _ _ k W) in R.
  destruct (insert_spec _ _ _ _ _ k v false W I I) as (r' & u & Hi & _ & P2 & _).
  rewrite Hi in R. rewrite (P2 Hin) in R. injection R as <-. cbn [height] in Hh. lia.
Qed.

(* Remove k ; Put k v  on any state of the invariant *)
Lemma revive t k v :
  inv t ->
  exists t1 t2, remove t k = Ok t1 /\ put t1 k v = Ok t2 /\ inv t2 /\
    get t1 k = Ok None /\ get t2 k = Ok (Some v) /\
    (forall k', k' <> k -> get t2 k' = get t k') /\
    size t1 = match get t k with Ok (Some _) => size t - 1 | _ => size t end /\
    size t2 = match get t k with Ok (Some _) => size t | _ => size t + 1 end /\
    (In k (keys (all_entries t)) ->
       height t2 = height t /\ keys (all_entries t2) = keys (all_entries t)).
Proof.
  intros Hi.
  destruct (remove_laws t k Hi) as (t1 & R1 & Hi1 & G1 & O1 & S1 & _).
  destruct (put_laws t1 k v Hi1) as (t2 & R2 & Hi2 & G2 & O2 & S2).
  exists t1, t2. repeat (split; [assumption|]).
  split; [intros k' N; now rewrite (O2 k' N), (O1 k' N)|].
  split; [exact S1|]. split.
  - rewrite S2, G1, S1. destruct (get t k) as [[x|]| |]; lia.
  - intros Hin. destruct (remove_shape _ _ _ Hi R1) as (H1 & K1).
    rewrite <- K1 in Hin. destruct (put_present_shape _ _ _ _ Hi1 Hin R2) as (H2 & K2).
    split; congruence.
Qed.

Lemma run_app a : forall b t t1 xs,
  run a t = Ok (t1, xs) ->
  run (a ++ b) t = match run b t1 with
                   | Ok (t2, ys) => Ok (t2, xs ++ ys) | Err e => Err e | Panic => Panic end.
Proof.
  induction a as [|o a IH]; intros b t t1 xs R; cbn [run app] in *.
  - injection R as <- <-. destruct (run b t) as [[t2 ys]| |]; reflexivity.
  - destruct (step t o) as [[t' x]| |]; try discriminate.
    destruct (run a t') as [[t'' xs']| |] eqn:Ra; try discriminate. injection R as <- <-.
    rewrite (IH b t' t'' xs' Ra). destruct (run b t'') as [[t2 ys]| |]; reflexivity.
Qed.

Lemma distinct_keys_mono a b :
  (distinct_keys_ever a <= distinct_keys_ever (a ++ b))%nat.
Proof.
  unfold distinct_keys_ever. apply NoDup_incl_length; [apply NoDup_nodup|].
  intros y Hy. apply nodup_In in Hy. apply nodup_In. rewrite put_keys_app, in_app_iff. now left.
Qed.

(* "Height NEVER exceeds ...": at every moment of every history, against the
   number of distinct keys put UP TO THAT MOMENT (hence also against the final N) *)
Lemma height_every_moment ops1 ops2 t2 outs :
  run (ops1 ++ ops2) new = Ok (t2, outs) ->
  exists t1 outs1, run ops1 new = Ok (t1, outs1) /\
    (2 ^ height t1 <= Nat.max 1 (distinct_keys_ever ops1))%nat /\
    (distinct_keys_ever ops1 <= distinct_keys_ever (ops1 ++ ops2))%nat /\
    (height t1 <= height t2)%nat.
Proof.
  intros R. destruct (refinement ops1) as (t1 & R1 & Hi1 & _).
  exists t1, (snd (srun ops1 [])). split; [exact R1|].
  split; [eapply height_log; eauto|]. split; [apply distinct_keys_mono|].
  rewrite (run_app _ ops2 _ _ _ R1) in R.
  destruct (run ops2 t1) as [[t2' ys]| |] eqn:R2; try discriminate. injection R as <- _.
  eapply height_mono; eauto.
Qed.

(* the bound must count removed keys: four keys put and all removed leave an
   EMPTY map (Size 0, nothing traversed) of Height 1 — 2^1 > max 1 0 *)
Definition c10_all_removed_ops : list op :=
  [Put 1 10; Put 2 20; Put 3 30; Put 4 40; Remove 1; Remove 2; Remove 3; Remove 4].
Lemma height_counts_removed_keys :
  exists t outs, run c10_all_removed_ops new = Ok (t, outs) /\
    size t = 0 /\ is_empty t = true /\ traverse t = Ok [] /\ height t = 1%nat /\
    distinct_keys_ever c10_all_removed_ops = 4%nat /\
    length (all_entries t) = 4%nat.
Proof. do 2 eexists. vm_compute. repeat split. Qed.

(* the sharp bound 2^(Height+1) <= N is attained: 4 keys give Height 1, 8 keys
   (in a suitable order) Height 2, 16 keys Height 3 *)
Definition puts (ks : list Z) : list op := map (fun k => Put k k) ks.
Lemma height_bound_attained :
  (exists t outs, run (puts [1; 2; 3; 4]) new = Ok (t, outs) /\ height t = 1%nat) /\
  (exists t outs, run (puts [8; 7; 6; 5; 4; 3; 2; 1]) new = Ok (t, outs) /\ height t = 2%nat) /\
  (exists t outs, run (puts [16; 15; 14; 13; 12; 11; 10; 9; 8; 7; 6; 5; 4; 3; 2; 1]) new
                  = Ok (t, outs) /\ height t = 3%nat).
Proof. repeat split; do 2 eexists; vm_compute; repeat split. Qed.

(* a removed key in an "internal position": after Put 1..4 the root is [1|3] and
   3 is both the separator of the root's second entry and the first entry of
   the right leaf.  Remove 3 tombstones the leaf entry only; the separator stays,
   Get 3 descends to the right leaf and reports absence, the neighbours are
   unaffected, Traverse skips it, and Put 3 revives the slot in place. *)
Lemma removed_separator_example :
  exists t outs e c e0 t',
    run [Put 1 10; Put 2 20; Put 3 30; Put 4 40; Remove 3] new = Ok (t, outs) /\
    nth_error (entries (root t)) 1 = Some e /\ ekey e = 3 /\ enext e = Some c /\
    hd_error (entries c) = Some e0 /\ ekey e0 = 3 /\ erem e0 = true /\
    get t 3 = Ok None /\ get t 4 = Ok (Some 40) /\ get t 2 = Ok (Some 20) /\
    traverse t = Ok [(1, 10); (2, 20); (4, 40)] /\ size t = 3 /\
    put t 3 33 = Ok t' /\ get t' 3 = Ok (Some 33) /\ size t' = 4 /\
    traverse t' = Ok [(1, 10); (2, 20); (3, 33); (4, 40)] /\
    height t' = height t /\ length (all_entries t') = 4%nat.
Proof. do 6 eexists. vm_compute. repeat split. Qed.
