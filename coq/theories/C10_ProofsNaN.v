(* C10_ProofsNaN.v — proofs for C10_ModelNaN.v.
   Part 1 (Section Sim): for ANY key type K, comparison functions [kless] [kequal], zero value and
   re-labelling [enc : K -> Z] such that  kless a b = (enc a <? enc b),  kequal a b = (enc a =? enc b)
   and  enc kzero = 0,  every procedure of the generic transcription commutes with the erasure to
   the integer model of C10_Model.v (search, insert, split, Put, Remove, Traverse, whole histories).
   Part 2: float64 — keyLess / keyEqual over the IEEE operators satisfy those hypotheses for [fenc]
   (NaN below -Inf), hence the clauses of C10 for BTree[float64, V] with NaN keys, by transfer from
   C10_Proofs.v / C10_Proofs2.v. *)

From Gogu Require Import Base C10_Model C10_ModelNaN.
Local Open Scope Z_scope.

Section Sim.

Variable K : Type.
Variable kless kequal : K -> K -> bool.
Variable kzero : K.
Variable enc : K -> Z.
Hypothesis Hless : forall a b, kless a b = (enc a <? enc b).
Hypothesis Hequal : forall a b, kequal a b = (enc a =? enc b).
Hypothesis Hzero : enc kzero = 0.

Notation EN := (enc_node K enc).
Notation EE := (enc_entry K enc).

Lemma enc_entries : forall n, entries (EN n) = map EE (gentries K n).
Proof.
  intros [es]. simpl. induction es as [|e es IH]; simpl; auto.
  destruct e as [k v c r]. simpl. f_equal. exact IH.
Qed.

Lemma enc_node_eq : forall es, EN (GNode es) = Node (map EE es).
Proof.
  intros es. pose proof (enc_entries (GNode es)) as H. simpl gentries in H.
  destruct (EN (GNode es)) as [l] eqn:E. simpl in H. subst. reflexivity.
Qed.

#[local] Opaque enc_node.

Lemma ekey_enc : forall e, ekey (EE e) = enc (gkey K e).
Proof. intros [k v c r]; reflexivity. Qed.
Lemma eval_enc : forall e, eval (EE e) = gval K e.
Proof. intros [k v c r]; reflexivity. Qed.
Lemma erem_enc : forall e, erem (EE e) = grem K e.
Proof. intros [k v c r]; reflexivity. Qed.
Lemma enext_enc : forall e, enext (EE e) = option_map EN (gnext K e).
Proof. intros [k v [c|] r]; reflexivity. Qed.

Lemma first_key_enc : forall n, first_key (EN n) = enc (g_first_key K kzero n).
Proof.
  intros n. unfold first_key, g_first_key. rewrite enc_entries.
  destruct (gentries K n) as [|e es]; simpl; [symmetry; exact Hzero | apply ekey_enc].
Qed.

(* ---- search ---- *)
Lemma sim_search_leaf : forall es k,
  search_leaf (map EE es) (enc k) = g_search_leaf K kequal es k.
Proof.
  induction es as [|e es IH]; intros k; simpl; auto.
  rewrite ekey_enc, erem_enc, eval_enc, Hequal, IH. reflexivity.
Qed.

Lemma sim_stop_here : forall es k,
  stop_here (map EE es) (enc k) = g_stop_here K kless es k.
Proof.
  intros [|e es] k; simpl; auto. rewrite ekey_enc, Hless. reflexivity.
Qed.

Lemma sim_search_kids : forall (rz : node -> res (option Z)) (rg : gnode K -> res (option Z)) es k,
  (forall c, rz (EN c) = rg c) ->
  search_kids rz (map EE es) (enc k) = g_search_kids K kless rg es k.
Proof.
  intros rz rg es k Hr. induction es as [|e es IH]; simpl; auto.
  rewrite sim_stop_here, enext_enc.
  destruct (g_stop_here K kless es k).
  - destruct (gnext K e) as [c|]; simpl; auto.
  - exact IH.
Qed.

Lemma sim_search : forall h n k,
  search h (EN n) (enc k) = g_search K kless kequal h n k.
Proof.
  induction h as [|h IH]; intros n k; simpl.
  - rewrite enc_entries, sim_search_leaf. reflexivity.
  - rewrite enc_entries. apply sim_search_kids. intros c. apply IH.
Qed.

(* ---- insert ---- *)
Definition enc_ins (r : res (gnode K * option (gnode K))) : res (node * option node) :=
  match r with
  | Ok (n, u) => Ok (EN n, option_map EN u)
  | Err e => Err e
  | Panic => Panic
  end.

Lemma sim_leaf_ins : forall es k v rm,
  leaf_ins (map EE es) (enc k) v rm =
  (map EE (fst (g_leaf_ins K kless kequal es k v rm)), snd (g_leaf_ins K kless kequal es k v rm)).
Proof.
  induction es as [|e es IH]; intros k v rm; simpl; auto.
  rewrite ekey_enc, Hequal, Hless.
  destruct (enc k =? enc (gkey K e)).
  - simpl. rewrite enext_enc. destruct e as [k0 v0 [c|] r]; reflexivity.
  - destruct (enc k <? enc (gkey K e)); simpl; auto.
    rewrite IH. destruct (g_leaf_ins K kless kequal es k v rm) as [r a]. reflexivity.
Qed.

Lemma sim_finish : forall es,
  finish (map EE es) =
  (EN (fst (g_finish K es)), option_map EN (snd (g_finish K es))).
Proof.
  intros es. unfold finish, g_finish. rewrite map_length.
  destruct (length es <? 4)%nat; cbn [fst snd option_map].
  - rewrite enc_node_eq. reflexivity.
  - rewrite !enc_node_eq, skipn_map, !firstn_map. reflexivity.
Qed.

Lemma sim_ins_kids : forall (rz : node -> res (node * option node))
    (rg : gnode K -> res (gnode K * option (gnode K))) v es k,
  (forall c, rz (EN c) = enc_ins (rg c)) ->
  ins_kids rz v (map EE es) (enc k) =
  match g_ins_kids K kless kzero rg v es k with
  | Ok (r, a) => Ok (map EE r, a)
  | Err e => Err e
  | Panic => Panic
  end.
Proof.
  intros rz rg v es k Hr. induction es as [|e es IH]; simpl; auto.
  rewrite sim_stop_here, enext_enc.
  destruct (g_stop_here K kless es k).
  - destruct (gnext K e) as [c|]; simpl; auto.
    rewrite Hr. destruct (rg c) as [[c' [u|]]| |]; simpl; auto.
    + rewrite ekey_enc, eval_enc, erem_enc, first_key_enc. reflexivity.
    + rewrite ekey_enc, eval_enc, erem_enc. reflexivity.
  - rewrite IH. destruct (g_ins_kids K kless kzero rg v es k) as [[r a]| |]; reflexivity.
Qed.

Lemma sim_insert : forall h n k v rm,
  insert h (EN n) (enc k) v rm = enc_ins (g_insert K kless kequal kzero h n k v rm).
Proof.
  induction h as [|h IH]; intros n k v rm; simpl.
  - rewrite enc_entries, sim_leaf_ins.
    destruct (g_leaf_ins K kless kequal (gentries K n) k v rm) as [r a]. simpl.
    destruct a; simpl.
    + rewrite sim_finish. destruct (g_finish K r); reflexivity.
    + rewrite enc_node_eq. reflexivity.
  - rewrite enc_entries.
    rewrite (sim_ins_kids _ (fun c => g_insert K kless kequal kzero h c k v rm)) by (intros c; apply IH).
    destruct (g_ins_kids K kless kzero _ v (gentries K n) k) as [[r a]| |]; simpl; auto.
    destruct a; simpl.
    + rewrite sim_finish. destruct (g_finish K r); reflexivity.
    + rewrite enc_node_eq. reflexivity.
Qed.

Notation ET := (enc_tree K enc).

Definition enc_rt (r : res (gbtree K)) : res btree :=
  match r with Ok t => Ok (ET t) | Err e => Err e | Panic => Panic end.

Lemma sim_get : forall t k, get (ET t) (enc k) = g_get K kless kequal t k.
Proof. intros [r c h] k. unfold get, g_get. simpl. apply sim_search. Qed.

Lemma sim_put : forall t k v,
  put (ET t) (enc k) v = enc_rt (g_put K kless kequal kzero t k v).
Proof.
  intros [r c h] k v. unfold put, put_with, g_put. simpl.
  rewrite sim_search. destruct (g_search K kless kequal h r k) as [found| |]; simpl; auto.
  rewrite sim_insert.
  destruct (g_insert K kless kequal kzero h r k v false) as [[r' [u|]]| |]; simpl; auto.
  unfold enc_tree. simpl. rewrite enc_node_eq. simpl. rewrite !first_key_enc. reflexivity.
Qed.

Lemma sim_remove : forall t k,
  remove (ET t) (enc k) = enc_rt (g_remove K kless kequal kzero t k).
Proof.
  intros [r c h] k. unfold remove, remove_with, g_remove. simpl.
  rewrite sim_search. destruct (g_search K kless kequal h r k) as [[val|]| |]; simpl; auto.
  rewrite sim_insert.
  destruct (g_insert K kless kequal kzero h r k val true) as [[r' u]| |]; simpl; auto.
Qed.

(* ---- traverse ---- *)
Definition enc_tr (r : res (list (K * Z))) : res (list (Z * Z)) :=
  match r with Ok l => Ok (map (enc_kv K enc) l) | Err e => Err e | Panic => Panic end.

Lemma sim_trav_leaf : forall es,
  trav_leaf (map EE es) = map (enc_kv K enc) (g_trav_leaf K es).
Proof.
  induction es as [|e es IH]; simpl; auto.
  rewrite erem_enc. destruct (grem K e); simpl; auto.
  rewrite IH, ekey_enc, eval_enc. reflexivity.
Qed.

Lemma sim_trav_kids : forall (rz : node -> res (list (Z * Z))) (rg : gnode K -> res (list (K * Z))) es,
  (forall c, rz (EN c) = enc_tr (rg c)) ->
  trav_kids rz (map EE es) = enc_tr (g_trav_kids K rg es).
Proof.
  intros rz rg es Hr. induction es as [|e es IH]; simpl; auto.
  rewrite enext_enc. destruct (gnext K e) as [c|]; simpl; auto.
  rewrite Hr. destruct (rg c) as [l| |]; simpl; auto.
  rewrite IH. destruct (g_trav_kids K rg es) as [l'| |]; simpl; auto.
  rewrite map_app. reflexivity.
Qed.

Lemma sim_trav : forall h n, trav h (EN n) = enc_tr (g_trav K h n).
Proof.
  induction h as [|h IH]; intros n; simpl.
  - rewrite enc_entries, sim_trav_leaf. reflexivity.
  - rewrite enc_entries. apply sim_trav_kids. exact IH.
Qed.

Lemma sim_traverse : forall t, traverse (ET t) = enc_tr (g_traverse K t).
Proof. intros [r c h]. unfold traverse, g_traverse. simpl. apply sim_trav. Qed.

(* ---- steps and histories ---- *)
Lemma sim_step : forall t o,
  step (ET t) (enc_op K enc o) =
  match g_step K kless kequal kzero t o with
  | Ok (t', x) => Ok (ET t', enc_out K enc x)
  | Err e => Err e
  | Panic => Panic
  end.
Proof.
  intros t o. destruct o as [k v|k|k| | |]; simpl.
  - rewrite sim_put. destruct (g_put K kless kequal kzero t k v); reflexivity.
  - rewrite sim_remove. destruct (g_remove K kless kequal kzero t k); reflexivity.
  - rewrite sim_get. destruct (g_get K kless kequal t k); reflexivity.
  - reflexivity.
  - reflexivity.
  - rewrite sim_traverse. destruct (g_traverse K t); reflexivity.
Qed.

Lemma sim_run : forall ops t,
  run (map (enc_op K enc) ops) (ET t) = enc_run K enc (g_run K kless kequal kzero ops t).
Proof.
  induction ops as [|o ops IH]; intros t; simpl; auto.
  rewrite sim_step. destruct (g_step K kless kequal kzero t o) as [[t' x]| |]; simpl; auto.
  rewrite IH. destruct (g_run K kless kequal kzero ops t') as [[t'' xs]| |]; reflexivity.
Qed.

End Sim.

(* ================================================================== *)
(* float64                                                              *)

From Gogu Require Import C10_Proofs C10_Proofs2.
From Coq Require Import Sorted.

#[local] Opaque fzero_index.

Lemma fless_enc : forall a b, fless a b = (fenc a <? fenc b).
Proof.
  intros [|x] [|y]; unfold fless, key_less; simpl; rewrite ?N.eqb_refl; simpl;
    rewrite ?orb_false_r;
    match goal with |- _ = (?a <? ?b) => destruct (Z.ltb_spec a b) end;
    try destruct (N.ltb_spec x y); try reflexivity; lia.
Qed.

Lemma fequal_enc : forall a b, fequal a b = (fenc a =? fenc b).
Proof.
  intros [|x] [|y]; unfold fequal, key_equal; simpl; rewrite ?N.eqb_refl; simpl;
    rewrite ?orb_false_r;
    match goal with |- _ = (?a =? ?b) => destruct (Z.eqb_spec a b) end;
    try destruct (N.eqb_spec x y); try reflexivity; lia.
Qed.

Lemma fenc_zero : fenc fzero = 0.
Proof. unfold fenc, fzero. lia. Qed.

Lemma fenc_inj : forall a b, fenc a = fenc b -> a = b.
Proof. intros [|x] [|y]; unfold fenc; intros H; try reflexivity; try lia. f_equal. lia. Qed.

Lemma fkey_eqb_enc : forall a b, fkey_eqb a b = (fenc a =? fenc b).
Proof.
  intros [|x] [|y]; simpl;
    match goal with |- _ = (?a =? ?b) => destruct (Z.eqb_spec a b) end;
    try destruct (N.eqb_spec x y); try reflexivity; lia.
Qed.

Lemma fkey_eqb_eq : forall a b, fkey_eqb a b = true <-> a = b.
Proof.
  intros a b. rewrite fkey_eqb_enc, Z.eqb_eq. split; [apply fenc_inj | now intros ->].
Qed.

Lemma fequal_is_identity : forall a b, fequal a b = true <-> a = b.
Proof. intros a b. rewrite fequal_enc, Z.eqb_eq. split; [apply fenc_inj | now intros ->]. Qed.

(* the order facts *)
Lemma fless_irrefl : forall a, fless a a = false.
Proof. intros a. rewrite fless_enc. apply Z.ltb_irrefl. Qed.

Lemma fless_trans : forall a b c, fless a b = true -> fless b c = true -> fless a c = true.
Proof. intros a b c. rewrite !fless_enc, !Z.ltb_lt. lia. Qed.

Lemma fless_trichotomy : forall a b,
  (fless a b = true /\ fequal a b = false /\ fless b a = false) \/
  (fless a b = false /\ fequal a b = true /\ fless b a = false) \/
  (fless a b = false /\ fequal a b = false /\ fless b a = true).
Proof.
  intros a b. rewrite !fless_enc, fequal_enc.
  destruct (Z.lt_trichotomy (fenc a) (fenc b)) as [H|[H|H]]; [left|right; left|right; right];
    repeat split; try (apply Z.ltb_lt; lia); try (apply Z.ltb_ge; lia);
    try (apply Z.eqb_eq; lia); try (apply Z.eqb_neq; lia).
Qed.

Lemma nan_least : forall n, fless FNaN (FNum n) = true /\ fless (FNum n) FNaN = false.
Proof. intros n. rewrite !fless_enc. unfold fenc. split; [apply Z.ltb_lt | apply Z.ltb_ge]; lia. Qed.

Lemma nan_raw_unordered : forall x,
  flt FNaN x = false /\ flt x FNaN = false /\ feq FNaN x = false /\ feq x FNaN = false.
Proof. intros [|x]; repeat split. Qed.

Lemma helpers_agree_without_nan : forall x y,
  fless (FNum x) (FNum y) = flt (FNum x) (FNum y) /\
  fequal (FNum x) (FNum y) = feq (FNum x) (FNum y).
Proof.
  intros x y. unfold fless, fequal, key_less, key_equal. simpl. rewrite !N.eqb_refl. simpl.
  split; [apply orb_false_r | apply orb_false_r].
Qed.

(* ---- the simulation at float64 ---- *)

Lemma fenc_new : fenc_tree f_new = new.
Proof. unfold fenc_tree, enc_tree, f_new, g_new, new. cbn [groot gcnt gheight]. rewrite enc_node_eq. reflexivity. Qed.

Lemma f_sim_run_from : forall ops t,
  run (map fenc_op ops) (fenc_tree t) = enc_run fkey fenc (f_run ops t).
Proof. intros. apply sim_run; [exact fless_enc | exact fequal_enc | exact fenc_zero]. Qed.

Lemma f_sim_run : forall ops,
  run (map fenc_op ops) new = enc_run fkey fenc (f_run ops f_new).
Proof. intros. rewrite <- fenc_new. apply f_sim_run_from. Qed.

Lemma f_sim_get : forall t k, get (fenc_tree t) (fenc k) = f_get t k.
Proof. intros. apply sim_get; [exact fless_enc | exact fequal_enc]. Qed.

Lemma f_sim_put : forall t k v,
  put (fenc_tree t) (fenc k) v =
  match f_put t k v with Ok t' => Ok (fenc_tree t') | Err e => Err e | Panic => Panic end.
Proof. intros. apply sim_put; [exact fless_enc | exact fequal_enc | exact fenc_zero]. Qed.

Lemma f_sim_remove : forall t k,
  remove (fenc_tree t) (fenc k) =
  match f_remove t k with Ok t' => Ok (fenc_tree t') | Err e => Err e | Panic => Panic end.
Proof. intros. apply sim_remove; [exact fless_enc | exact fequal_enc | exact fenc_zero]. Qed.

Lemma f_sim_traverse : forall t,
  traverse (fenc_tree t) =
  match f_traverse t with Ok l => Ok (map (enc_kv fkey fenc) l) | Err e => Err e | Panic => Panic end.
Proof. intros. apply sim_traverse. Qed.

Definition f_inv (t : ftree) : Prop := inv (fenc_tree t).

(* a run of the float tree is Ok exactly when the encoded run is, with the encoded results *)
Lemma f_run_ok : forall ops t outs,
  f_run ops f_new = Ok (t, outs) ->
  run (map fenc_op ops) new = Ok (fenc_tree t, map fenc_out outs).
Proof. intros ops t outs H. rewrite f_sim_run, H. reflexivity. Qed.

Lemma f_refinement : forall ops,
  exists t outs, f_run ops f_new = Ok (t, outs) /\ f_inv t /\
    map fenc_out outs = snd (srun (map fenc_op ops) []) /\
    abs (fenc_tree t) = fst (srun (map fenc_op ops) []).
Proof.
  intros ops. destruct (refinement (map fenc_op ops)) as (t0 & Hr & Hi & Ha).
  rewrite f_sim_run in Hr.
  destruct (f_run ops f_new) as [[t outs]| |]; simpl in Hr; try discriminate.
  injection Hr as Ht Ho. subst t0. exists t, outs.
  split; [reflexivity|]. split; [exact Hi|]. split; [exact Ho | exact Ha].
Qed.

Lemma f_never_panics : forall ops, exists t outs, f_run ops f_new = Ok (t, outs).
Proof. intros ops. destruct (f_refinement ops) as (t & outs & H & _). eauto. Qed.

Lemma f_run_inv : forall ops t outs, f_run ops f_new = Ok (t, outs) -> f_inv t.
Proof. intros ops t outs H. eapply run_inv. apply f_run_ok. exact H. Qed.

(* ---- the denoted map ---- *)
Lemma final_map_enc : forall ops f g,
  (forall k, f (fenc k) = g k) ->
  forall k, final_map (map fenc_op ops) f (fenc k) = f_final_map ops g k.
Proof.
  induction ops as [|o ops IH]; intros f g Hfg k; simpl; auto.
  destruct o as [k0 v|k0|k0| | |]; simpl; apply IH; auto;
    intros k1; unfold upd, f_upd; rewrite fkey_eqb_enc; destruct (fenc k1 =? fenc k0); auto.
Qed.

Lemma f_get_final : forall ops t outs k,
  f_run ops f_new = Ok (t, outs) -> f_get t k = Ok (f_final_map ops f_empty_map k).
Proof.
  intros ops t outs k H. rewrite <- f_sim_get.
  rewrite (get_final _ _ _ (fenc k) (f_run_ok _ _ _ H)).
  f_equal. apply final_map_enc. reflexivity.
Qed.

(* ---- traverse ---- *)
Lemma sorted_enc : forall l : list fkey,
  StronglySorted Z.lt (map fenc l) -> StronglySorted f_lt l.
Proof.
  induction l as [|a l IH]; intros H; [constructor|].
  simpl in H. inversion H as [|? ? Hs Hf]; subst. constructor; [apply IH; exact Hs|].
  rewrite Forall_map in Hf. eapply Forall_impl; [|exact Hf].
  intros b Hb. unfold f_lt. rewrite fless_enc. apply Z.ltb_lt. exact Hb.
Qed.

Lemma f_traverse_final : forall ops t outs,
  f_run ops f_new = Ok (t, outs) ->
  exists l, f_traverse t = Ok l /\
    StronglySorted f_lt (map fst l) /\
    (forall k v, In (k, v) l <-> f_final_map ops f_empty_map k = Some v) /\
    f_size t = Z.of_nat (length l) /\
    f_is_empty t = match l with [] => true | _ => false end.
Proof.
  intros ops t outs H.
  destruct (traverse_final _ _ _ (f_run_ok _ _ _ H)) as (l0 & Ht & Hs & Hin & Hsz & He).
  rewrite f_sim_traverse in Ht.
  destruct (f_traverse t) as [l| |]; try discriminate. injection Ht as <-.
  exists l. split; [reflexivity|]. split; [|split; [|split]].
  - apply sorted_enc. rewrite map_map in Hs. rewrite map_map. exact Hs.
  - intros k v. rewrite <- (final_map_enc ops empty_map f_empty_map (fun _ => eq_refl) k).
    rewrite <- Hin. rewrite in_map_iff. split.
    + intros Hi. exists (k, v). split; [reflexivity | exact Hi].
    + intros ([k' v'] & E & Hi). unfold enc_kv in E. simpl in E. injection E as E1 E2.
      apply fenc_inj in E1. subst. exact Hi.
  - rewrite map_length in Hsz. exact Hsz.
  - unfold f_is_empty, g_is_empty, f_size in *. unfold is_empty, size in He.
    change (cnt (fenc_tree t)) with (gcnt fkey t) in He.
    unfold g_size. rewrite He. destruct l; reflexivity.
Qed.

(* ---- the height clause ---- *)
Lemma put_keys_enc : forall ops, put_keys (map fenc_op ops) = map fenc (f_put_keys ops).
Proof.
  induction ops as [|o ops IH]; simpl; auto. destruct o; simpl; rewrite ?IH; reflexivity.
Qed.

Lemma nodup_length_inj : forall l : list fkey,
  length (nodup Z.eq_dec (map fenc l)) = length (nodup fkey_eq_dec l).
Proof.
  induction l as [|a l IH]; simpl; auto.
  destruct (in_dec Z.eq_dec (fenc a) (map fenc l)) as [Hi|Hn];
    destruct (in_dec fkey_eq_dec a l) as [Hj|Hm]; simpl; auto.
  - exfalso. apply Hm. apply in_map_iff in Hi. destruct Hi as (b & E & Hb).
    apply fenc_inj in E. subst. exact Hb.
  - exfalso. apply Hn. apply in_map. exact Hj.
Qed.

Lemma distinct_enc : forall ops, distinct_keys_ever (map fenc_op ops) = f_distinct_keys_ever ops.
Proof.
  intros ops. unfold distinct_keys_ever, f_distinct_keys_ever. rewrite put_keys_enc.
  apply nodup_length_inj.
Qed.

Lemma f_height_log : forall ops t outs,
  f_run ops f_new = Ok (t, outs) ->
  (2 ^ f_height t <= Nat.max 1 (f_distinct_keys_ever ops))%nat.
Proof.
  intros ops t outs H. rewrite <- distinct_enc.
  exact (height_log _ _ _ (f_run_ok _ _ _ H)).
Qed.

Lemma f_height_le_log2 : forall ops t outs,
  f_run ops f_new = Ok (t, outs) ->
  (f_height t <= Nat.log2 (Nat.max 1 (f_distinct_keys_ever ops)))%nat.
Proof.
  intros ops t outs H. rewrite <- distinct_enc.
  exact (height_le_log2 _ _ _ (f_run_ok _ _ _ H)).
Qed.

(* ---- the ordered-map laws, NaN included ---- *)
Lemma f_put_laws : forall t k v,
  f_inv t ->
  exists t', f_put t k v = Ok t' /\ f_inv t' /\
    f_get t' k = Ok (Some v) /\
    (forall k', k' <> k -> f_get t' k' = f_get t k') /\
    f_size t' = match f_get t k with Ok (Some _) => f_size t | _ => f_size t + 1 end.
Proof.
  intros t k v Hi. destruct (put_laws (fenc_tree t) (fenc k) v Hi) as (t0 & Hp & Hi' & Hg & Ho & Hs).
  rewrite f_sim_put in Hp. destruct (f_put t k v) as [t'| |]; try discriminate.
  injection Hp as <-. exists t'. split; [reflexivity|]. split; [exact Hi'|].
  rewrite <- !f_sim_get. split; [exact Hg|]. split.
  - intros k' Hk. rewrite <- !f_sim_get. apply Ho. intros E. apply Hk. apply fenc_inj. exact E.
  - exact Hs.
Qed.

Lemma f_remove_laws : forall t k,
  f_inv t ->
  exists t', f_remove t k = Ok t' /\ f_inv t' /\
    f_get t' k = Ok None /\
    (forall k', k' <> k -> f_get t' k' = f_get t k') /\
    f_size t' = match f_get t k with Ok (Some _) => f_size t - 1 | _ => f_size t end /\
    (f_get t k = Ok None -> t' = t).
Proof.
  intros t k Hi.
  destruct (remove_laws (fenc_tree t) (fenc k) Hi) as (t0 & Hp & Hi' & Hg & Ho & Hs & Hsame).
  pose proof (f_sim_remove t k) as Hsim. rewrite Hp in Hsim.
  destruct (f_remove t k) as [t'| |] eqn:Er; try discriminate.
  injection Hsim as ->. exists t'. split; [reflexivity|]. split; [exact Hi'|].
  rewrite <- !f_sim_get. split; [exact Hg|]. split; [|split].
  - intros k' Hk. rewrite <- !f_sim_get. apply Ho. intros E. apply Hk. apply fenc_inj. exact E.
  - exact Hs.
  - intros Hn. rewrite f_sim_get in Hn. unfold f_remove, g_remove in Er. unfold f_get, g_get in Hn.
    rewrite Hn in Er. injection Er as <-. reflexivity.
Qed.

(* ---- NaN operations leave the ordinary keys alone (frame) ---- *)
Lemma f_nan_frame : forall t v,
  f_inv t ->
  (exists t', f_put t FNaN v = Ok t' /\ f_inv t' /\ f_get t' FNaN = Ok (Some v) /\
     (forall n, f_get t' (FNum n) = f_get t (FNum n)) /\
     f_size t' = match f_get t FNaN with Ok (Some _) => f_size t | _ => f_size t + 1 end) /\
  (exists t', f_remove t FNaN = Ok t' /\ f_inv t' /\ f_get t' FNaN = Ok None /\
     (forall n, f_get t' (FNum n) = f_get t (FNum n)) /\
     f_size t' = match f_get t FNaN with Ok (Some _) => f_size t - 1 | _ => f_size t end).
Proof.
  intros t v Hi. split.
  - destruct (f_put_laws t FNaN v Hi) as (t' & Hp & Hi' & Hg & Ho & Hs).
    exists t'. split; [exact Hp|]. split; [exact Hi'|]. split; [exact Hg|]. split; [|exact Hs].
    intros n. apply Ho. discriminate.
  - destruct (f_remove_laws t FNaN Hi) as (t' & Hp & Hi' & Hg & Ho & Hs & _).
    exists t'. split; [exact Hp|]. split; [exact Hi'|]. split; [exact Hg|]. split; [|exact Hs].
    intros n. apply Ho. discriminate.
Qed.

(* when a NaN is among the live keys, Traverse visits it first *)
Lemma f_nan_first : forall ops t outs l v,
  f_run ops f_new = Ok (t, outs) -> f_traverse t = Ok l ->
  In (FNaN, v) l -> exists l', l = (FNaN, v) :: l'.
Proof.
  intros ops t outs l v H Ht Hin.
  destruct (f_traverse_final _ _ _ H) as (l0 & Ht0 & Hs & _).
  rewrite Ht in Ht0. injection Ht0 as <-.
  destruct l as [|[k0 v0] l']; [contradiction|]. destruct Hin as [E|Hin].
  - injection E as -> ->. eauto.
  - exfalso. simpl in Hs. inversion Hs as [|? ? _ Hf]; subst.
    rewrite Forall_forall in Hf. specialize (Hf FNaN).
    assert (Hx : In FNaN (map fst l')) by (apply in_map_iff; exists (FNaN, v); auto).
    specialize (Hf Hx). unfold f_lt in Hf. rewrite fless_enc in Hf. apply Z.ltb_lt in Hf.
    destruct k0; unfold fenc in Hf; lia.
Qed.

(* ---- witnesses ---- *)
Definition nan_witness_ops : list fop :=
  [GPut (FNum 1) 10; GPut (FNum 2) 20; GPut FNaN 99; GPut (FNum 3) 30;
   GGet (FNum 1); GGet (FNum 2); GGet FNaN; GSize; GTraverse].

Lemma nan_witness_repaired :
  exists t, f_run nan_witness_ops f_new =
    Ok (t, [GONone; GONone; GONone; GONone; GOGet (Some 10); GOGet (Some 20); GOGet (Some 99);
            GOSize 4; GOTrav [(FNaN, 99); (FNum 1, 10); (FNum 2, 20); (FNum 3, 30)]]) /\
    f_height t = 1%nat.
Proof. eexists. split; vm_compute; reflexivity. Qed.

(* the code before fixes/nan10/0001 (bare < and ==) on the same history: the keys 1 and 2 are
   reported absent although they were put and never removed, and Traverse is out of order *)
Lemma nan_witness_unrepaired :
  exists t, f0_run nan_witness_ops f_new =
    Ok (t, [GONone; GONone; GONone; GONone; GOGet None; GOGet None; GOGet None;
            GOSize 4; GOTrav [(FNum 1, 10); (FNum 2, 20); (FNaN, 99); (FNum 3, 30)]]).
Proof. eexists. vm_compute. reflexivity. Qed.

(* all NaNs are one key: the second Put overwrites, Remove removes it, it can be revived *)
Lemma nan_one_key :
  exists t, f_run [GPut FNaN 1; GPut (FNum 7) 2; GPut FNaN 3; GSize; GGet FNaN; GRemove FNaN; GGet FNaN;
                   GSize; GPut FNaN 4; GGet FNaN; GSize; GTraverse] f_new =
    Ok (t, [GONone; GONone; GONone; GOSize 2; GOGet (Some 3); GONone; GOGet None; GOSize 1;
            GONone; GOGet (Some 4); GOSize 2; GOTrav [(FNaN, 4); (FNum 7, 2)]]).
Proof. eexists. vm_compute. reflexivity. Qed.
