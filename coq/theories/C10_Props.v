(* C10_Props.v — property C10 (btree.BTree behaves as an ordered map and stays
   balanced), stated over the model of C10_Model.v (btree.go after the two
   repairs of fixes/builder-c10).  Only statements here; each is closed by
   [exact] of a lemma of C10_Proofs.v and followed by Print Assumptions.

   Vocabulary (C10_Model / C10_Proofs):
     run ops t          the history [ops] executed from state t: Ok (t', outputs) or Panic
     new                btree.New()
     srun ops m         the reference machine (association list in ascending key order)
     final_map ops f    the map a history denotes: last Put wins, Remove erases
     distinct_keys_ever ops   N = number of distinct keys ever put by the history
     inv t              wf_tree t  /\  cnt t = number of live entries
     wf_tree t          the shape invariant [wfn]: uniform depth = height, every
                        node below the root has 2..3 entries (root: 0..3 as a
                        leaf, 2..3 otherwise), leaf keys strictly ascending, and
                        child i of an internal node holds exactly the keys in
                        [key_i, key_(i+1)) — the first child inheriting the
                        node's lower bound, the last its upper bound
     all_entries t      the leaf entries, tombstones included, left to right
     abs t              the live (key, value) pairs in leaf order *)

From Gogu Require Import Base C10_Model C10_Proofs C10_Wire C10_Proofs2.
From Coq Require Import Sorted.
Local Open Scope Z_scope.

(* ------------------------------------------------------------------ *)
(* 1. Refinement, for ALL histories of Put/Remove/Get/Size/IsEmpty/Traverse:
      no panic, and every output equals the reference machine's. *)
Theorem C10_refinement : forall ops,
  exists t, run ops new = Ok (t, snd (srun ops [])) /\ inv t /\ abs t = fst (srun ops []).
Proof. exact refinement. Qed.
Print Assumptions C10_refinement.

(* 2. The invariant (shape + counter) holds after every history. *)
Theorem C10_invariant_all_histories : forall ops t outs,
  run ops new = Ok (t, outs) -> inv t.
Proof. exact run_inv. Qed.
Print Assumptions C10_invariant_all_histories.

(* the invariant is preserved from ANY state satisfying it (not only from New),
   each step being the reference machine's step *)
Theorem C10_step_simulation : forall t o,
  inv t ->
  exists t' x, step t o = Ok (t', x) /\ inv t' /\ sstep (abs t) o = (abs t', x) /\
    (forall y, In y (keys (all_entries t')) <->
               In y (keys (all_entries t)) \/ In y (op_put_keys o)) /\
    (height t <= height t')%nat.
Proof. exact step_sim. Qed.
Print Assumptions C10_step_simulation.

(* 3. Get returns the last value put for a key put and not since removed, and
      reports absence for every other key. *)
Theorem C10_get_last_put : forall ops t outs k,
  run ops new = Ok (t, outs) -> get t k = Ok (final_map ops empty_map k).
Proof. exact get_final. Qed.
Print Assumptions C10_get_last_put.

(* 4. Traverse visits exactly those keys, once each, in ascending key order with
      their current values; Size is their number; IsEmpty accordingly. *)
Theorem C10_traverse_size_exact : forall ops t outs,
  run ops new = Ok (t, outs) ->
  exists l, traverse t = Ok l /\
    StronglySorted Z.lt (map fst l) /\
    (forall k v, In (k, v) l <-> final_map ops empty_map k = Some v) /\
    size t = Z.of_nat (length l) /\
    is_empty t = match l with [] => true | _ => false end.
Proof. exact traverse_final. Qed.
Print Assumptions C10_traverse_size_exact.

(* 5. The ordered-map laws, on any state satisfying the invariant.
      Put: visible, other keys untouched, Size grows only if the key was absent
      or removed (re-putting an existing key does not change it). *)
Theorem C10_put_laws : forall t k v,
  inv t ->
  exists t', put t k v = Ok t' /\ inv t' /\
    get t' k = Ok (Some v) /\
    (forall k', k' <> k -> get t' k' = get t k') /\
    size t' = match get t k with Ok (Some _) => size t | _ => size t + 1 end.
Proof. exact put_laws. Qed.
Print Assumptions C10_put_laws.

(*    Remove: the key is absent afterwards, other keys untouched, Size shrinks
      only if the key was live; removing an absent or already removed key
      changes nothing at all. *)
Theorem C10_remove_laws : forall t k,
  inv t ->
  exists t', remove t k = Ok t' /\ inv t' /\
    get t' k = Ok None /\
    (forall k', k' <> k -> get t' k' = get t k') /\
    size t' = match get t k with Ok (Some _) => size t - 1 | _ => size t end /\
    (get t k = Ok None -> t' = t).
Proof. exact remove_laws. Qed.
Print Assumptions C10_remove_laws.

(*    Tombstones.  Remove only flips a flag: Height and the leaf slots (tombstones
      included) are unchanged ... *)
Theorem C10_remove_keeps_shape : forall t k t',
  inv t -> remove t k = Ok t' ->
  height t' = height t /\ keys (all_entries t') = keys (all_entries t).
Proof. exact remove_shape. Qed.
Print Assumptions C10_remove_keeps_shape.

(*    ... Put of a key that already has a slot (live OR tombstoned) adds no entry
      and splits nothing ... *)
Theorem C10_put_existing_slot_keeps_shape : forall t k v t',
  inv t -> In k (keys (all_entries t)) -> put t k v = Ok t' ->
  height t' = height t /\ keys (all_entries t') = keys (all_entries t).
Proof. exact put_present_shape. Qed.
Print Assumptions C10_put_existing_slot_keeps_shape.

(*    ... so Remove k ; Put k v (re-put after remove) on ANY state: the key is
      absent in between and present with the new value afterwards, every other
      key is untouched, Size goes down (if k was live) and comes back — to
      size t if k was live, size t + 1 if it was absent or already removed —
      and a key that was ever put is revived in its old slot (same Height). *)
Theorem C10_remove_then_put_revives : forall t k v,
  inv t ->
  exists t1 t2, remove t k = Ok t1 /\ put t1 k v = Ok t2 /\ inv t2 /\
    get t1 k = Ok None /\ get t2 k = Ok (Some v) /\
    (forall k', k' <> k -> get t2 k' = get t k') /\
    size t1 = match get t k with Ok (Some _) => size t - 1 | _ => size t end /\
    size t2 = match get t k with Ok (Some _) => size t | _ => size t + 1 end /\
    (In k (keys (all_entries t)) ->
       height t2 = height t /\ keys (all_entries t2) = keys (all_entries t)).
Proof. exact revive. Qed.
Print Assumptions C10_remove_then_put_revives.

(*    A removed key in an internal position (it is also a separator of the root) *)
Example C10_removed_separator_example :
  exists t outs e c e0 t',
    run [Put 1 10; Put 2 20; Put 3 30; Put 4 40; Remove 3] new = Ok (t, outs) /\
    nth_error (entries (root t)) 1 = Some e /\ ekey e = 3 /\ enext e = Some c /\
    hd_error (entries c) = Some e0 /\ ekey e0 = 3 /\ erem e0 = true /\
    get t 3 = Ok None /\ get t 4 = Ok (Some 40) /\ get t 2 = Ok (Some 20) /\
    traverse t = Ok [(1, 10); (2, 20); (4, 40)] /\ size t = 3 /\
    put t 3 33 = Ok t' /\ get t' 3 = Ok (Some 33) /\ size t' = 4 /\
    traverse t' = Ok [(1, 10); (2, 20); (3, 33); (4, 40)] /\
    height t' = height t /\ length (all_entries t') = 4%nat.
Proof. exact removed_separator_example. Qed.

(* non-vacuity of [inv]: a reachable tree of height 3 (four levels) with tombstones *)
Definition c10_example_ops : list op :=
  map (fun k => Put k (10 * k)) [7; 3; 9; 1; 5; 8; 2; 6; 4; 0; 11; 10; 13; 12; 15; 14; 17; 16; 19; 18]
  ++ [Remove 3; Remove 9; Put 3 33; Remove 0].
Example C10_inv_nonvacuous :
  exists t outs, run c10_example_ops new = Ok (t, outs) /\ height t = 3%nat /\ size t = 18 /\ inv t.
Proof.
  destruct (run c10_example_ops new) as [[t outs]| |] eqn:E; try (vm_compute in E; discriminate).
  exists t, outs. split; [reflexivity|]. pose proof (run_inv _ _ _ E) as Hi.
  split; [|split; [|exact Hi]]; vm_compute in E; injection E as <- _; reflexivity.
Qed.

(* 6. The leaf level holds exactly the distinct keys ever put (a tombstone keeps
      its slot), strictly ascending. *)
Theorem C10_entries_are_the_keys_ever_put : forall ops t outs,
  run ops new = Ok (t, outs) ->
  length (all_entries t) = distinct_keys_ever ops /\
  StronglySorted Z.lt (keys (all_entries t)) /\
  (forall k, In k (keys (all_entries t)) <-> In k (put_keys ops)).
Proof.
  intros ops t outs H. split; [eapply entries_count; eauto|]. split.
  - eapply asc_sorted. apply wf_tree_asc. now destruct (run_inv _ _ _ H).
  - destruct (run_sim ops new inv_new) as (t0 & xs & Hr & _ & _ & K & _).
    rewrite Hr in H. injection H as <- _. intros k. rewrite K. cbn. intuition.
Qed.
Print Assumptions C10_entries_are_the_keys_ever_put.

(* 7. Balance: Height <= log2 (max 1 N), whatever the insertion order. *)
Theorem C10_height_log : forall ops t outs,
  run ops new = Ok (t, outs) ->
  (2 ^ height t <= Nat.max 1 (distinct_keys_ever ops))%nat.
Proof. exact height_log. Qed.
Print Assumptions C10_height_log.

Theorem C10_height_le_log2 : forall ops t outs,
  run ops new = Ok (t, outs) ->
  (height t <= Nat.log2 (Nat.max 1 (distinct_keys_ever ops)))%nat.
Proof. exact height_le_log2. Qed.
Print Assumptions C10_height_le_log2.

(*    "never": at EVERY moment of every history (every prefix ops1 of ops1 ++ ops2),
      against the number of distinct keys put up to that moment — which is at
      most the final N — and the height only grows afterwards *)
Theorem C10_height_log_at_every_moment : forall ops1 ops2 t2 outs,
  run (ops1 ++ ops2) new = Ok (t2, outs) ->
  exists t1 outs1, run ops1 new = Ok (t1, outs1) /\
    (2 ^ height t1 <= Nat.max 1 (distinct_keys_ever ops1))%nat /\
    (distinct_keys_ever ops1 <= distinct_keys_ever (ops1 ++ ops2))%nat /\
    (height t1 <= height t2)%nat.
Proof. exact height_every_moment. Qed.
Print Assumptions C10_height_log_at_every_moment.

(*    N counts the keys EVER put, removed ones included — and it has to: after
      Put 1..4 and Remove 1..4 the map is empty (Size 0, IsEmpty, Traverse
      visits nothing) but Height is 1, so "2^Height <= max 1 (live keys)" is
      false; the four tombstones still occupy their leaf slots. *)
Theorem C10_height_bound_counts_removed_keys :
  exists t outs, run c10_all_removed_ops new = Ok (t, outs) /\
    size t = 0 /\ is_empty t = true /\ traverse t = Ok [] /\ height t = 1%nat /\
    distinct_keys_ever c10_all_removed_ops = 4%nat /\
    length (all_entries t) = 4%nat.
Proof. exact height_counts_removed_keys. Qed.
Print Assumptions C10_height_bound_counts_removed_keys.

(*    non-vacuity / tightness: the sharper bound 2^(Height+1) <= N is attained
      at every level tried (descending insertion: 4 keys -> 1, 8 -> 2, 16 -> 3) *)
Theorem C10_height_bound_attained :
  (exists t outs, run (puts [1; 2; 3; 4]) new = Ok (t, outs) /\ height t = 1%nat) /\
  (exists t outs, run (puts [8; 7; 6; 5; 4; 3; 2; 1]) new = Ok (t, outs) /\ height t = 2%nat) /\
  (exists t outs, run (puts [16; 15; 14; 13; 12; 11; 10; 9; 8; 7; 6; 5; 4; 3; 2; 1]) new
                  = Ok (t, outs) /\ height t = 3%nat).
Proof. exact height_bound_attained. Qed.
Print Assumptions C10_height_bound_attained.

(* what the shape invariant really gives (one level better): *)
Theorem C10_height_pow_sharp : forall ops t outs,
  run ops new = Ok (t, outs) ->
  height t = O \/ (2 ^ S (height t) <= distinct_keys_ever ops)%nat.
Proof. exact height_pow. Qed.
Print Assumptions C10_height_pow_sharp.

(* Height never decreases (no operation merges nodes) *)
Theorem C10_height_monotone : forall ops t t' outs,
  inv t -> run ops t = Ok (t', outs) -> (height t <= height t')%nat.
Proof. exact height_mono. Qed.
Print Assumptions C10_height_monotone.

(* 8. The three procedures, on any well-formed subtree, are the leaf procedures
      on its flattened contents (the lemmas everything above rests on). *)
Theorem C10_search_is_flat_search : forall h m lo hi n k,
  wfn m h lo hi n -> search h n k = Ok (search_leaf (elems h n) k).
Proof. exact search_spec. Qed.
Print Assumptions C10_search_is_flat_search.

Theorem C10_insert_is_flat_insert : forall h m lo hi n k v rm,
  wfn m h lo hi n -> in_lo lo k -> in_hi hi k ->
  exists n' u, insert h n k v rm = Ok (n', u) /\ insert_post h m lo hi n k v rm n' u.
Proof. exact insert_spec. Qed.
Print Assumptions C10_insert_is_flat_insert.

(* 9. What the keys stored in internal entries mean, exactly.  [seps_tree t]:
      in every internal node, every entry EXCEPT THE FIRST carries the least key
      of its subtree (tombstones included).  It holds after every history ... *)
Theorem C10_separators_exact_all_histories : forall ops t outs,
  run ops new = Ok (t, outs) -> seps_tree t.
Proof. exact seps_all_histories. Qed.
Print Assumptions C10_separators_exact_all_histories.

(*    ... and is preserved from any state satisfying the invariants *)
Theorem C10_separators_exact_preserved : forall ops t t' outs,
  inv t -> seps_tree t -> run ops t = Ok (t', outs) -> seps_tree t'.
Proof. exact run_seps. Qed.
Print Assumptions C10_separators_exact_preserved.

(*    ... whereas the first entry's key is a stale copy (never read by the code):
      after Put 5,6,7,8 and Put 1 the root's first entry still says 5 while its
      subtree starts at 1.  So "internal entries carry the smallest key of their
      subtree" is false for entry 0 and true for all others. *)
Theorem C10_first_separator_is_stale :
  exists t outs e c,
    run [Put 5 0; Put 6 0; Put 7 0; Put 8 0; Put 1 0] new = Ok (t, outs) /\
    hd_error (entries (root t)) = Some e /\ enext e = Some c /\
    ekey e = 5 /\ min_key 0 c = Some 1.
Proof. exact first_sep_stale. Qed.
Print Assumptions C10_first_separator_is_stale.

(* 10. The wire property checker used by the correspondence check (C10_Wire:
      reference machine for Get/Size/IsEmpty/Traverse (also in the middle of a
      history) + 2^Height <= max 1 N after every operation) accepts the model's observation of EVERY history — i.e.
      the property, as judged on the wire, is a consequence of the theorems. *)
Theorem C10_checker_accepts_model : forall ops : list wop,
  let w := flat_map enc_wop ops in c10_holds w (c10_run w) = true.
Proof. exact checker_sound_enc. Qed.
Print Assumptions C10_checker_accepts_model.

(* 11. The code BEFORE the repairs violates the property (DESIGN §7 #25);
      put0 / remove0 / get0 transcribe the unrepaired Put / Remove / Get. *)
Theorem C10_unrepaired_get_after_remove_refuted :
  exists t1 t2, put0 new 1 10 = Ok t1 /\ remove0 t1 1 = Ok t2 /\
                get0 t2 1 = Ok (Some 10) /\ size t2 = 0.
Proof. exact unrepaired_get_after_remove. Qed.
Print Assumptions C10_unrepaired_get_after_remove_refuted.

Theorem C10_unrepaired_reput_grows_size_refuted :
  exists t1 t2, put0 new 1 10 = Ok t1 /\ put0 t1 1 11 = Ok t2 /\ size t2 = 2.
Proof. exact unrepaired_reput_grows_size. Qed.
Print Assumptions C10_unrepaired_reput_grows_size_refuted.

Theorem C10_unrepaired_double_remove_refuted :
  exists t1 t2 t3, put0 new 1 10 = Ok t1 /\ remove0 t1 1 = Ok t2 /\ remove0 t2 1 = Ok t3 /\
                   size t3 = -1 /\ is_empty t3 = false.
Proof. exact unrepaired_double_remove. Qed.
Print Assumptions C10_unrepaired_double_remove_refuted.
