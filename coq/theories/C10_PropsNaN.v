(* C10_PropsNaN.v — property C10 for BTree[float64, V] with NaN, infinities and signed zeros
   among the keys.  Only statements; each is closed by [exact] of a lemma of C10_ProofsNaN.v and
   followed by Print Assumptions.

   Vocabulary (C10_ModelNaN.v):
     fkey                 FNaN (every NaN) | FNum n (the non-NaN float64 values in ascending
                          order, -Inf = 0; -0 and +0 are one value)
     flt / feq            Go's < and == at float64: false as soon as an operand is a NaN
     fless / fequal       keyLess / keyEqual of btree.go over flt / feq
     f_run ops t          the history run on the GENERIC transcription of btree.go instantiated at
                          fkey with fless / fequal (f0_run: with the bare flt / feq — the code
                          before fixes/nan10/0001)
     fenc                 fkey -> Z, NaN |-> below -Inf |-> ..., 0.0 |-> 0
     f_final_map ops f    the map a history denotes (last Put wins, Remove erases; all NaNs are
                          ONE key)
     f_distinct_keys_ever N of the height clause (a NaN counts once)
     f_lt a b             fless a b = true
     f_inv t              inv (C10_Proofs.v) of the tree with its keys re-labelled by fenc *)

From Gogu Require Import Base C10_Model C10_Proofs C10_ModelNaN C10_ProofsNaN.
From Coq Require Import Sorted.
Local Open Scope Z_scope.

(* ------------------------------------------------------------------ *)
(* 0. The order the tree uses.  The bare operators leave a NaN unordered and unequal to
      everything, itself included ... *)
Theorem C10n_bare_operators_do_not_order_nan : forall x,
  flt FNaN x = false /\ flt x FNaN = false /\ feq FNaN x = false /\ feq x FNaN = false.
Proof. exact nan_raw_unordered. Qed.
Print Assumptions C10n_bare_operators_do_not_order_nan.

(*    ... keyLess / keyEqual are a strict total order and its equality on ALL float64 keys:
      irreflexive, transitive, exactly one of  a < b,  a = b,  b < a;  keyEqual is identity of
      fkey (all NaNs one key, -0 = +0); a NaN comes before every other key; and on two keys that
      are not NaN the helpers ARE < and ==. *)
Theorem C10n_key_order_is_total :
  (forall a, fless a a = false) /\
  (forall a b c, fless a b = true -> fless b c = true -> fless a c = true) /\
  (forall a b,
     (fless a b = true /\ fequal a b = false /\ fless b a = false) \/
     (fless a b = false /\ fequal a b = true /\ fless b a = false) \/
     (fless a b = false /\ fequal a b = false /\ fless b a = true)) /\
  (forall a b, fequal a b = true <-> a = b) /\
  (forall n, fless FNaN (FNum n) = true /\ fless (FNum n) FNaN = false) /\
  (forall x y, fless (FNum x) (FNum y) = flt (FNum x) (FNum y) /\
               fequal (FNum x) (FNum y) = feq (FNum x) (FNum y)).
Proof.
  exact (conj fless_irrefl (conj fless_trans (conj fless_trichotomy
          (conj fequal_is_identity (conj nan_least helpers_agree_without_nan))))).
Qed.
Print Assumptions C10n_key_order_is_total.

(*    fenc is an order embedding: it turns keyLess / keyEqual into < / = on Z, is injective, and
      sends the zero value of float64 to the zero value of int *)
Theorem C10n_fenc_is_an_order_embedding :
  (forall a b, fless a b = (fenc a <? fenc b)) /\
  (forall a b, fequal a b = (fenc a =? fenc b)) /\
  (forall a b, fenc a = fenc b -> a = b) /\
  fenc fzero = 0.
Proof. exact (conj fless_enc (conj fequal_enc (conj fenc_inj fenc_zero))). Qed.
Print Assumptions C10n_fenc_is_an_order_embedding.

(* ------------------------------------------------------------------ *)
(* 1. Conservativity / simulation.  For ANY key type, comparison functions and re-labelling
      [enc] that turns them into < and = on Z, the generic transcription run on a history is the
      integer model of C10_Model.v run on the re-labelled history: same panics, same tree (after
      re-labelling), same outputs.  (With K = Z, enc = id, kless = Z.ltb, kequal = Z.eqb this says
      the second transcription IS the first.) *)
Theorem C10n_generic_transcription_simulates : forall (K : Type) (kless kequal : K -> K -> bool)
    (kzero : K) (enc : K -> Z),
  (forall a b, kless a b = (enc a <? enc b)) ->
  (forall a b, kequal a b = (enc a =? enc b)) ->
  enc kzero = 0 ->
  forall ops t,
    run (map (enc_op K enc) ops) (enc_tree K enc t) =
    enc_run K enc (g_run K kless kequal kzero ops t).
Proof. exact sim_run. Qed.
Print Assumptions C10n_generic_transcription_simulates.

(*    at float64, from New: *)
Theorem C10n_float_simulation : forall ops,
  run (map fenc_op ops) new = enc_run fkey fenc (f_run ops f_new).
Proof. exact f_sim_run. Qed.
Print Assumptions C10n_float_simulation.

(* 2. Refinement for ALL histories over float64 keys, NaN included: no panic, the invariant
      holds, and the outputs are those of the reference machine (association list in ascending
      order) on the re-labelled history. *)
Theorem C10n_refinement : forall ops,
  exists t outs, f_run ops f_new = Ok (t, outs) /\ f_inv t /\
    map fenc_out outs = snd (srun (map fenc_op ops) []) /\
    abs (fenc_tree t) = fst (srun (map fenc_op ops) []).
Proof. exact f_refinement. Qed.
Print Assumptions C10n_refinement.

(* 3. Get returns the last value put for a key put and not since removed and reports absence
      for every other key — for EVERY float64 key: Get(NaN) finds what Put(NaN, v) stored. *)
Theorem C10n_get_last_put : forall ops t outs k,
  f_run ops f_new = Ok (t, outs) -> f_get t k = Ok (f_final_map ops f_empty_map k).
Proof. exact f_get_final. Qed.
Print Assumptions C10n_get_last_put.

(* 4. Traverse visits exactly those keys, once each, in ascending order (of keyLess: a live NaN
      first) with their current values; Size is their number; IsEmpty accordingly. *)
Theorem C10n_traverse_size_exact : forall ops t outs,
  f_run ops f_new = Ok (t, outs) ->
  exists l, f_traverse t = Ok l /\
    StronglySorted f_lt (map fst l) /\
    (forall k v, In (k, v) l <-> f_final_map ops f_empty_map k = Some v) /\
    f_size t = Z.of_nat (length l) /\
    f_is_empty t = match l with [] => true | _ => false end.
Proof. exact f_traverse_final. Qed.
Print Assumptions C10n_traverse_size_exact.

Theorem C10n_live_nan_is_visited_first : forall ops t outs l v,
  f_run ops f_new = Ok (t, outs) -> f_traverse t = Ok l ->
  In (FNaN, v) l -> exists l', l = (FNaN, v) :: l'.
Proof. exact f_nan_first. Qed.
Print Assumptions C10n_live_nan_is_visited_first.

(* 5. The ordered-map laws on any state satisfying the invariant, for every key ... *)
Theorem C10n_put_laws : forall t k v,
  f_inv t ->
  exists t', f_put t k v = Ok t' /\ f_inv t' /\
    f_get t' k = Ok (Some v) /\
    (forall k', k' <> k -> f_get t' k' = f_get t k') /\
    f_size t' = match f_get t k with Ok (Some _) => f_size t | _ => f_size t + 1 end.
Proof. exact f_put_laws. Qed.
Print Assumptions C10n_put_laws.

Theorem C10n_remove_laws : forall t k,
  f_inv t ->
  exists t', f_remove t k = Ok t' /\ f_inv t' /\
    f_get t' k = Ok None /\
    (forall k', k' <> k -> f_get t' k' = f_get t k') /\
    f_size t' = match f_get t k with Ok (Some _) => f_size t - 1 | _ => f_size t end /\
    (f_get t k = Ok None -> t' = t).
Proof. exact f_remove_laws. Qed.
Print Assumptions C10n_remove_laws.

(*    ... in particular the frame: Put(NaN, v) and Remove(NaN) never change what Get reports
      about a key that is not NaN, and move Size by the NaN entry alone. *)
Theorem C10n_nan_operations_leave_other_keys_alone : forall t v,
  f_inv t ->
  (exists t', f_put t FNaN v = Ok t' /\ f_inv t' /\ f_get t' FNaN = Ok (Some v) /\
     (forall n, f_get t' (FNum n) = f_get t (FNum n)) /\
     f_size t' = match f_get t FNaN with Ok (Some _) => f_size t | _ => f_size t + 1 end) /\
  (exists t', f_remove t FNaN = Ok t' /\ f_inv t' /\ f_get t' FNaN = Ok None /\
     (forall n, f_get t' (FNum n) = f_get t (FNum n)) /\
     f_size t' = match f_get t FNaN with Ok (Some _) => f_size t - 1 | _ => f_size t end).
Proof. exact f_nan_frame. Qed.
Print Assumptions C10n_nan_operations_leave_other_keys_alone.

(*    non-vacuity: f_inv holds after every history (C10n_refinement); a concrete one with a NaN
      put in the middle of a leaf that then splits (Height 1), every key found, NaN first *)
Example C10n_nan_witness :
  exists t, f_run nan_witness_ops f_new =
    Ok (t, [GONone; GONone; GONone; GONone; GOGet (Some 10); GOGet (Some 20); GOGet (Some 99);
            GOSize 4; GOTrav [(FNaN, 99); (FNum 1, 10); (FNum 2, 20); (FNum 3, 30)]]) /\
    f_height t = 1%nat.
Proof. exact nan_witness_repaired. Qed.
Print Assumptions C10n_nan_witness.

Example C10n_all_nans_are_one_key :
  exists t, f_run [GPut FNaN 1; GPut (FNum 7) 2; GPut FNaN 3; GSize; GGet FNaN; GRemove FNaN; GGet FNaN;
                   GSize; GPut FNaN 4; GGet FNaN; GSize; GTraverse] f_new =
    Ok (t, [GONone; GONone; GONone; GOSize 2; GOGet (Some 3); GONone; GOGet None; GOSize 1;
            GONone; GOGet (Some 4); GOSize 2; GOTrav [(FNaN, 4); (FNum 7, 2)]]).
Proof. exact nan_one_key. Qed.
Print Assumptions C10n_all_nans_are_one_key.

(* 6. Balance: Height <= log2 (max 1 N), N = distinct keys ever put (a NaN counts once). *)
Theorem C10n_height_log : forall ops t outs,
  f_run ops f_new = Ok (t, outs) ->
  (2 ^ f_height t <= Nat.max 1 (f_distinct_keys_ever ops))%nat.
Proof. exact f_height_log. Qed.
Print Assumptions C10n_height_log.

Theorem C10n_height_le_log2 : forall ops t outs,
  f_run ops f_new = Ok (t, outs) ->
  (f_height t <= Nat.log2 (Nat.max 1 (f_distinct_keys_ever ops)))%nat.
Proof. exact f_height_le_log2. Qed.
Print Assumptions C10n_height_le_log2.

(* 7. The code BEFORE fixes/nan10/0001 (gogu.Less / gogu.Equal = the bare operators; [f0_run])
      on Put(1,10); Put(2,20); Put(NaN,99); Put(3,30): Get(1) and Get(2) report absence although
      both keys were put and never removed, and Traverse visits 1, 2, NaN, 3.  (The leaf scan
      walks past the NaN entry, the split makes it the separator of the right half, and
      `key < NaN` is never true.)  About the unrepaired code ONLY. *)
Theorem C10n_unrepaired_nan_hides_other_keys_refuted :
  exists t, f0_run nan_witness_ops f_new =
    Ok (t, [GONone; GONone; GONone; GONone; GOGet None; GOGet None; GOGet None;
            GOSize 4; GOTrav [(FNum 1, 10); (FNum 2, 20); (FNaN, 99); (FNum 3, 30)]]).
Proof. exact nan_witness_unrepaired. Qed.
Print Assumptions C10n_unrepaired_nan_hides_other_keys_refuted.
