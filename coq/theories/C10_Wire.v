(* C10_Wire.v — wire glue for C10 (no proofs; exercised by the correspondence).

   input    = concat [op; k; v]      op: 1 Put k v | 2 Remove k _ | 3 Get k _ | 4 Traverse _ _
   observed = per op:  Put/Remove ↦ [Size; IsEmpty; Height]
                       Get        ↦ [found; value; Size; IsEmpty; Height]
                       Traverse   ↦ count :: k1 :: v1 :: k2 :: v2 … ++ [Size; IsEmpty; Height]
              then, at the end of the case, Traverse ↦ count :: k1 :: v1 :: k2 :: v2 …
              a panic of the implementation ↦ -2 and the observation stops there.

   c10_run   : the model (C10_Model, the code after the repairs)
   c10_agree : observation = model's observation (including the exact Height)
   c10_holds : THE PROPERTY, judged against the reference machine of
               C10_Model (sorted association list): Get / Size / IsEmpty /
               Traverse must be exactly the reference's; Height is only
               required to satisfy 2^Height <= max 1 N, N = number of distinct
               keys put so far (the property does not fix the exact height). *)

From Gogu Require Import Base C10_Model.
Local Open Scope Z_scope.

Definition enc_get (r : option Z) : list Z :=
  match r with Some v => [1; v] | None => [0; 0] end.

Definition enc_state (t : btree) : list Z :=
  [size t; if is_empty t then 1 else 0; Z.of_nat (height t)].

Definition enc_pairs (l : list (Z * Z)) : list Z :=
  Z.of_nat (length l) :: flat_map (fun kv => [fst kv; snd kv]) l.

Definition panic_mark : list Z := [-2].

Fixpoint run_wire (recs : list (list Z)) (t : btree) : list Z :=
  match recs with
  | [] => match traverse t with Ok l => enc_pairs l | _ => panic_mark end
  | [c; k; v] :: recs' =>
      if c =? 1 then
        match put t k v with
        | Ok t' => enc_state t' ++ run_wire recs' t'
        | _ => panic_mark
        end
      else if c =? 2 then
        match remove t k with
        | Ok t' => enc_state t' ++ run_wire recs' t'
        | _ => panic_mark
        end
      else if c =? 3 then
        match get t k with
        | Ok r => enc_get r ++ enc_state t ++ run_wire recs' t
        | _ => panic_mark
        end
      else if c =? 4 then
        match traverse t with
        | Ok l => enc_pairs l ++ enc_state t ++ run_wire recs' t
        | _ => panic_mark
        end
      else wire_error
  | _ => wire_error
  end.

Definition c10_run (w : list Z) : list Z := run_wire (chunks 3 w) new.

Definition c10_agree (w obs : list Z) : bool := zlist_eqb obs (c10_run w).

(* ---- the property checker: reference machine + height bound ---- *)

Fixpoint zmem (k : Z) (l : list Z) : bool :=
  match l with [] => false | x :: l' => (k =? x) || zmem k l' end.

(* Size, IsEmpty exact; 2^Height <= max 1 N  (the test h <= N, implied by the
   bound, only keeps a wild h from the wire from being exponentiated) *)
Definition state_ok (m : amap) (nkeys : Z) (s e h : Z) : bool :=
  (s =? Z.of_nat (length m)) &&
  (e =? match m with [] => 1 | _ => 0 end) &&
  (0 <=? h) && (h <=? nkeys) && (2 ^ h <=? Z.max 1 nkeys).

(* [strip_prefix p obs] = Some r  iff  obs = p ++ r *)
Fixpoint strip_prefix (p obs : list Z) : option (list Z) :=
  match p with
  | [] => Some obs
  | x :: p' =>
      match obs with
      | y :: obs' => if x =? y then strip_prefix p' obs' else None
      | [] => None
      end
  end.

Fixpoint holds_wire (recs : list (list Z)) (m : amap) (seen : list Z) (obs : list Z) : bool :=
  match recs with
  | [] => zlist_eqb obs (enc_pairs m)
  | [c; k; v] :: recs' =>
      if c =? 1 then
        let m' := sput k v m in
        let seen' := if zmem k seen then seen else k :: seen in
        match obs with
        | s :: e :: h :: obs' =>
            state_ok m' (Z.of_nat (length seen')) s e h && holds_wire recs' m' seen' obs'
        | _ => false
        end
      else if c =? 2 then
        let m' := sremove k m in
        match obs with
        | s :: e :: h :: obs' =>
            state_ok m' (Z.of_nat (length seen)) s e h && holds_wire recs' m' seen obs'
        | _ => false
        end
      else if c =? 3 then
        match obs with
        | f :: x :: s :: e :: h :: obs' =>
            zlist_eqb [f; x] (enc_get (sget k m)) &&
            state_ok m (Z.of_nat (length seen)) s e h && holds_wire recs' m seen obs'
        | _ => false
        end
      else if c =? 4 then
        (* a traversal in the middle of the history: exactly the reference map, in order *)
        match strip_prefix (enc_pairs m) obs with
        | Some (s :: e :: h :: obs') =>
            state_ok m (Z.of_nat (length seen)) s e h && holds_wire recs' m seen obs'
        | _ => false
        end
      else false
  | _ => false
  end.

Definition c10_holds (w obs : list Z) : bool := holds_wire (chunks 3 w) [] [] obs.
