(* C11_Model.v — executable model of the set-algebra slice helpers of
   /repo/slice.go: Contains, Unique, UniqueBy, Duplicate, DuplicateWithIndex,
   baseFlatten, Union, Intersection, IntersectionBy, Without, Difference,
   DifferenceBy — transcribed loop by loop.  No proofs in this file.

   Conventions (DESIGN §3):
   * the element type is any type with decidable equality ([T comparable]);
     the executable instance is Z (C11_Wire.v);
   * a Go map used as a *set* ([keys := make(map[T]bool)], [keys[v] = true],
     [_, ok := keys[v]]) is the list of inserted keys, looked up with
     [contains]; a map with payload is an association list whose order is the
     insertion order;  iteration over a Go map happens in an arbitrary order:
     the functions that iterate ([duplicate], [duplicate_with_index]) are split
     into "build the map" and "read the map off a list in iteration order"
     ([dup_of_map], [dwi_of_map]) so that the theorems can quantify over every
     iteration order;
   * [result = append(result, v)] is [result ++ [v]];
   * a loop with state is a [fold_left] of its body over the ranged slice; a
     nested search loop that only computes a boolean is a [Fixpoint] returning
     that boolean (same scan order, same early exit);
   * the model is the code AFTER the two repairs of fixes/builder-c11c12
     (Union returns the flattening error instead of (nil, nil); IntersectionBy
     de-duplicates by comparing the item — not its image — with the result).
     The two unrepaired behaviours are kept as [union_unrepaired] and
     [intersection_by_unrepaired] so that the defect is a theorem
     ([…_refuted] in C11_Props.v). *)

From Gogu Require Import Base.

Section SetAlgebra.
  Context {A : Type} (eq_dec : forall x y : A, {x = y} + {x <> y}).

  (* slice.go:172  Contains — also the model of a set-map lookup *)
  Fixpoint contains (slice : list A) (value : A) : bool :=
    match slice with
    | [] => false
    | v :: rest => if eq_dec v value then true else contains rest value
    end.

  (* slice.go:105  Unique
       keys := map[T]bool{}; result := []T{}
       for _, v := range slice { if _, ok := keys[v]; !ok { keys[v] = true; result = append(result, v) } } *)
  Definition unique_step (st : list A * list A) (v : A) : list A * list A :=
    let (keys, result) := st in
    if contains keys v then st else (v :: keys, result ++ [v]).
  Definition unique (slice : list A) : list A :=
    snd (fold_left unique_step slice ([], [])).

  (* slice.go:121  UniqueBy — the set holds the images fn(v) *)
  Definition unique_by_step (fn : A -> A) (st : list A * list A) (v : A) : list A * list A :=
    let (keys, result) := st in
    if contains keys (fn v) then st else (fn v :: keys, result ++ [v]).
  Definition unique_by (fn : A -> A) (slice : list A) : list A :=
    snd (fold_left (unique_by_step fn) slice ([], [])).

  (* slice.go:182  Duplicate
       first loop: keyCount[v] = 1 for a new key, keyCount[v]++ otherwise *)
  Fixpoint count_bump (m : list (A * Z)) (v : A) : list (A * Z) :=
    match m with
    | [] => [(v, 1)]
    | (k, c) :: m' => if eq_dec k v then (k, c + 1) :: m' else (k, c) :: count_bump m' v
    end.
  Definition key_count (slice : list A) : list (A * Z) := fold_left count_bump slice [].
  (*   second loop: for k, v := range keyCount { if v > 1 { result = append(result, k) } }
       [m] is the map listed in the order the runtime iterates it *)
  Definition dup_of_map (m : list (A * Z)) : list A :=
    map fst (filter (fun kc => snd kc >? 1) m).
  Definition duplicate (slice : list A) : list A := dup_of_map (key_count slice).

  (* slice.go:206  DuplicateWithIndex
       var count int   — ONE counter shared by all keys (quirk kept)
       kvMap[v] = [first index, count]
       new key:  count = 1; kvMap[v][0] = idx; kvMap[v][1] = count
       seen key: count++;   kvMap[v][1] = count *)
  Fixpoint kv_has (kv : list (A * (Z * Z))) (v : A) : bool :=
    match kv with
    | [] => false
    | (k, _) :: kv' => if eq_dec k v then true else kv_has kv' v
    end.
  Fixpoint kv_set_count (kv : list (A * (Z * Z))) (v : A) (c : Z) : list (A * (Z * Z)) :=
    match kv with
    | [] => []
    | (k, (i0, c0)) :: kv' =>
        if eq_dec k v then (k, (i0, c)) :: kv' else (k, (i0, c0)) :: kv_set_count kv' v c
    end.
  (* state = (count, kvMap, idx) *)
  Definition dwi_step (st : Z * list (A * (Z * Z)) * Z) (v : A) : Z * list (A * (Z * Z)) * Z :=
    let '(count, kv, idx) := st in
    if kv_has kv v
    then (count + 1, kv_set_count kv v (count + 1), idx + 1)
    else (1, kv ++ [(v, (idx, 1))], idx + 1).
  Definition dwi_map (slice : list A) : list (A * (Z * Z)) :=
    snd (fst (fold_left dwi_step slice (0, [], 0))).
  (*   for k, v := range kvMap { if v[1] > 1 { result[k] = v[0] } } *)
  Definition dwi_of_map (kv : list (A * (Z * Z))) : list (A * Z) :=
    map (fun e => (fst e, fst (snd e))) (filter (fun e => snd (snd e) >? 1) kv).
  Definition duplicate_with_index (slice : list A) : list (A * Z) := dwi_of_map (dwi_map slice).

  (* ---------- nested input of Flatten / Union: the dynamic type of an [any] ---------- *)
  Inductive nest : Type :=
  | NLeaf (v : A)            (* case T    *)
  | NSlice (vs : list A)     (* case []T  *)
  | NAny (children : list nest)   (* case []any *)
  | NBad.                    (* default: any other dynamic type *)

  (* slice.go:252  baseFlatten(acc, slice) *)
  Fixpoint base_flatten (acc : list A) (n : nest) : res (list A) :=
    match n with
    | NLeaf v => Ok (acc ++ [v])
    | NSlice vs => Ok (acc ++ vs)
    | NAny children =>
        (fix loop (acc : list A) (cs : list nest) {struct cs} : res (list A) :=
           match cs with
           | [] => Ok acc
           | sv :: cs' =>
               match base_flatten acc sv with
               | Ok acc' => loop acc' cs'
               | _ => Err 1            (* return nil, errors.New("flattening error") *)
               end
           end) acc children
    | NBad => Err 1
    end.

  (* slice.go:248  Flatten (property C12 — lives here because Union shares baseFlatten) *)
  Definition flatten (n : nest) : res (list A) := base_flatten [] n.

  (* slice.go:276  Union, after  fix: Union returns the flattening error *)
  Definition union (n : nest) : res (list A) :=
    match base_flatten [] n with
    | Ok fl => Ok (unique fl)
    | Err k => Err k
    | Panic => Panic
    end.
  (* the code before the repair: the inner [err] shadows the outer one, so the
     final [return nil, err] returns the outer, nil, error: (nil, nil) *)
  Definition union_unrepaired (n : nest) : res (list A) :=
    match base_flatten [] n with
    | Ok fl => Ok (unique fl)
    | _ => Ok []
    end.

  (* slice.go:286  Intersection
       for i := 0; i < len(params[0]); i++ {          — params[0] panics on no argument
         item := params[0][i]
         if Contains(result, item) { continue }
         for j = 1; j < len(params); j++ { if !Contains(params[j], item) { break } }
         if j == len(params) { result = append(result, item) } } *)
  Fixpoint in_all (others : list (list A)) (item : A) : bool :=
    match others with
    | [] => true                                     (* j reached len(params) *)
    | p :: ps => if contains p item then in_all ps item else false
    end.
  Definition inter_step (others : list (list A)) (result : list A) (item : A) : list A :=
    if contains result item then result
    else if in_all others item then result ++ [item] else result.
  Definition intersection (params : list (list A)) : res (list A) :=
    match params with
    | [] => Panic
    | p0 :: others => Ok (fold_left (inter_step others) p0 [])
    end.

  (* slice.go:310  IntersectionBy
       has := func() bool { for _, v := range params[j] { if fn(v) == fn(item) { return true } }; return false } *)
  Fixpoint has_image (fn : A -> A) (p : list A) (item : A) : bool :=
    match p with
    | [] => false
    | v :: p' => if eq_dec (fn v) (fn item) then true else has_image fn p' item
    end.
  Fixpoint in_all_by (fn : A -> A) (others : list (list A)) (item : A) : bool :=
    match others with
    | [] => true
    | p :: ps => if has_image fn p item then in_all_by fn ps item else false
    end.
  (* after  fix: IntersectionBy de-duplicates on the item  — Contains(result, item) *)
  Definition inter_by_step (fn : A -> A) (others : list (list A)) (result : list A) (item : A) : list A :=
    if contains result item then result
    else if in_all_by fn others item then result ++ [item] else result.
  Definition intersection_by (fn : A -> A) (params : list (list A)) : res (list A) :=
    match params with
    | [] => Panic
    | p0 :: others => Ok (fold_left (inter_by_step fn others) p0 [])
    end.
  (* before the repair: Contains(result, fn(item)) — the IMAGE is looked up among the result VALUES *)
  Definition inter_by_step_unrepaired (fn : A -> A) (others : list (list A)) (result : list A) (item : A) : list A :=
    if contains result (fn item) then result
    else if in_all_by fn others item then result ++ [item] else result.
  Definition intersection_by_unrepaired (fn : A -> A) (params : list (list A)) : res (list A) :=
    match params with
    | [] => Panic
    | p0 :: others => Ok (fold_left (inter_by_step_unrepaired fn others) p0 [])
    end.

  (* slice.go:342 Without / slice.go:363 Difference
       loop: for _, v := range slice {
               for _, val := range values { if v == val { continue loop } }
               if _, ok := keys[v]; !ok { keys[v] = true; uni = append(uni, v) } } *)
  Fixpoint any_eq (v : A) (values : list A) : bool :=
    match values with
    | [] => false
    | val :: rest => if eq_dec v val then true else any_eq v rest
    end.
  Definition without_step (values : list A) (st : list A * list A) (v : A) : list A * list A :=
    let (keys, uni) := st in
    if any_eq v values then st
    else if contains keys v then st else (v :: keys, uni ++ [v]).
  Definition without (slice values : list A) : list A :=
    snd (fold_left (without_step values) slice ([], [])).
  Definition difference (s1 s2 : list A) : list A :=
    snd (fold_left (without_step s2) s1 ([], [])).

  (* slice.go:384 DifferenceBy — the exclusion test compares images, the
     de-duplication set holds the VALUES v (keys[v]) *)
  Fixpoint any_eq_by (fn : A -> A) (v : A) (values : list A) : bool :=
    match values with
    | [] => false
    | val :: rest => if eq_dec (fn v) (fn val) then true else any_eq_by fn v rest
    end.
  Definition difference_by_step (fn : A -> A) (s2 : list A) (st : list A * list A) (v : A) : list A * list A :=
    let (keys, uni) := st in
    if any_eq_by fn v s2 then st
    else if contains keys v then st else (v :: keys, uni ++ [v]).
  Definition difference_by (fn : A -> A) (s1 s2 : list A) : list A :=
    snd (fold_left (difference_by_step fn s2) s1 ([], [])).

  (* ================= specification vocabulary (reference definitions) ================= *)

  Definition inb (x : A) (l : list A) : bool := if in_dec eq_dec x l then true else false.

  (* the reference "keep the first occurrence of each distinct value" *)
  Fixpoint uniq_ref (l : list A) : list A :=
    match l with
    | [] => []
    | x :: r => x :: filter (fun y => if eq_dec y x then false else true) (uniq_ref r)
    end.

  (* left-to-right leaves of a nesting; well-formedness = no wrong dynamic type anywhere *)
  Fixpoint leaves (n : nest) : list A :=
    match n with
    | NLeaf v => [v]
    | NSlice vs => vs
    | NAny cs => (fix go (cs : list nest) : list A :=
                    match cs with [] => [] | c :: cs' => leaves c ++ go cs' end) cs
    | NBad => []
    end.
  Fixpoint wf_nest (n : nest) : bool :=
    match n with
    | NLeaf _ | NSlice _ => true
    | NAny cs => (fix go (cs : list nest) : bool :=
                    match cs with [] => true | c :: cs' => wf_nest c && go cs' end) cs
    | NBad => false
    end.

  (* does every other argument contain x / a value with the image of x *)
  Definition in_every (others : list (list A)) (x : A) : bool :=
    forallb (fun p => inb x p) others.
  Definition image_in_every (fn : A -> A) (others : list (list A)) (x : A) : bool :=
    forallb (fun p => inb (fn x) (map fn p)) others.

  (* a sub-sequence (order-preserving selection) *)
  Inductive subseq : list A -> list A -> Prop :=
  | subseq_nil : subseq [] []
  | subseq_skip : forall x s l, subseq s l -> subseq s (x :: l)
  | subseq_keep : forall x s l, subseq s l -> subseq (x :: s) (x :: l).

  (* the reference results, used by the property checker of C11_Wire.v *)
  Definition union_ref (n : nest) : res (list A) :=
    if wf_nest n then Ok (uniq_ref (leaves n)) else Err 1.
  Definition intersection_ref (params : list (list A)) : res (list A) :=
    match params with
    | [] => Panic
    | p0 :: others => Ok (filter (in_every others) (uniq_ref p0))
    end.
  Definition intersection_by_ref (fn : A -> A) (params : list (list A)) : res (list A) :=
    match params with
    | [] => Panic
    | p0 :: others => Ok (filter (image_in_every fn others) (uniq_ref p0))
    end.
  Definition difference_ref (s1 s2 : list A) : list A :=
    filter (fun x => negb (inb x s2)) (uniq_ref s1).
  Definition difference_by_ref (fn : A -> A) (s1 s2 : list A) : list A :=
    filter (fun x => negb (inb (fn x) (map fn s2))) (uniq_ref s1).
  (* first element of each distinct image *)
  Fixpoint unique_by_ref (fn : A -> A) (l : list A) : list A :=
    match l with
    | [] => []
    | x :: r => x :: filter (fun y => if eq_dec (fn y) (fn x) then false else true) (unique_by_ref fn r)
    end.
  Definition duplicate_ref (l : list A) : list A :=
    filter (fun x => (2 <=? count_occ eq_dec l x)%nat) (uniq_ref l).
  (* index of the first occurrence (the position DuplicateWithIndex reports) *)
  Fixpoint first_index (l : list A) (x : A) : Z :=
    match l with
    | [] => -1
    | y :: r => if eq_dec y x then 0 else
                  let i := first_index r x in if i <? 0 then -1 else i + 1
    end.
  Definition duplicate_with_index_ref (l : list A) : list (A * Z) :=
    map (fun x => (x, first_index l x)) (duplicate_ref l).

End SetAlgebra.

Arguments nest : clear implicits.
Arguments NLeaf {A} v.
Arguments NSlice {A} vs.
Arguments NAny {A} children.
Arguments NBad {A}.
