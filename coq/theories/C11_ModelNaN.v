(* C11_ModelNaN.v — the set-algebra slice helpers of /repo/slice.go over element
   types whose `==` is NOT the identity of values: float64, where NaN != NaN
   (not reflexive) and +0 == -0 although the two are different values (different
   bit patterns, told apart by math.Signbit, 1/x, math.Copysign).

   Go's `==` on the element type is a parameter [eq : A -> A -> bool] of which
   only this is assumed ([per], "partial equivalence"):

        eq a b = true -> eq b a = true                       (symmetric)
        eq a b = true -> eq b c = true -> eq a c = true      (transitive)

   NOT assumed: reflexivity (an element with [eq a a = false] — a NaN — is equal
   to nothing, itself included; this FOLLOWS from the two laws), and NOT assumed:
   [eq a b = true -> a = b] (+0 and -0 are two elements of A that [eq] identifies;
   which of the two a helper returns is part of what is modelled: "the first
   occurrence" means that very element, sign included).  Both intended instances
   satisfy [per]: the decidable Leibniz equality of C11_Model.v (ints, strings:
   [deq]) and [feq] on float codes at the end of this file.

   A Go map keyed by such a type (the `keys`, `keyCount`, `kvMap` maps of the
   helpers) is the list of its entries in insertion order; a look-up `m[k]` finds
   the entry whose stored key is == to k, so an entry stored under a NaN is found
   by no look-up and every assignment under a NaN adds an entry; +0 and -0 find
   each other's entry.  An ASSIGNMENT `m[k] = v` / `m[k]++` to an existing entry
   REPLACES THE STORED KEY by k (the runtime does this for key types where equal
   keys can differ: floats, interfaces, strings) — visible in Duplicate, which
   therefore returns the LAST occurrence's sign of zero.  A read `m[k][1] = c`
   through a slice value does not assign to the map and leaves the key alone
   (DuplicateWithIndex keeps the FIRST occurrence's sign).

   The helpers are transcribed loop by loop from the code as it is now (after the
   repair fixes/nan-c11/0001 of DuplicateWithIndex); the loop as found, which
   indexes a nil slice for every NaN element, is kept as
   [gduplicate_with_index_asfound] for the refutation witness.

   Everything that does not compare elements is shared with C11_Model.v:
   [nest], [base_flatten], [leaves], [wf_nest], [dup_of_map], [dwi_of_map],
   [subseq].  At [deq eq_dec] every helper below EQUALS the helper of C11_Model.v
   (C11_nan_conservative in C11_PropsNaN.v).  No proofs in this file. *)

From Gogu Require Import Base C11_Model.
Local Open Scope Z_scope.

(* what is assumed of `==` *)
Definition per {A} (eq : A -> A -> bool) : Prop :=
  (forall a b, eq a b = true -> eq b a = true) /\
  (forall a b c, eq a b = true -> eq b c = true -> eq a c = true).

(* the `==` of a type with decidable Leibniz equality *)
Definition deq {A} (eq_dec : forall x y : A, {x = y} + {x <> y}) (x y : A) : bool :=
  if eq_dec x y then true else false.

Section GenericSetAlgebra.
  Context {A : Type} (eq : A -> A -> bool).

  (* slice.go:172  Contains: if v == value { return true } — also the look-up in a set-map *)
  Fixpoint gcontains (slice : list A) (value : A) : bool :=
    match slice with
    | [] => false
    | v :: rest => if eq v value then true else gcontains rest value
    end.

  (* slice.go:105  Unique *)
  Definition gunique_step (st : list A * list A) (v : A) : list A * list A :=
    let (keys, result) := st in
    if gcontains keys v then st else (v :: keys, result ++ [v]).
  Definition gunique (slice : list A) : list A :=
    snd (fold_left gunique_step slice ([], [])).

  (* slice.go:121  UniqueBy — the set holds the images fn(v) *)
  Definition gunique_by_step (fn : A -> A) (st : list A * list A) (v : A) : list A * list A :=
    let (keys, result) := st in
    if gcontains keys (fn v) then st else (fn v :: keys, result ++ [v]).
  Definition gunique_by (fn : A -> A) (slice : list A) : list A :=
    snd (fold_left (gunique_by_step fn) slice ([], [])).

  (* slice.go:182  Duplicate
       if _, ok := keyCount[v]; !ok { keyCount[v] = 1 } else { keyCount[v]++ }
     keyCount[v]++ is an assignment: the stored key becomes v *)
  Fixpoint gcount_bump (m : list (A * Z)) (v : A) : list (A * Z) :=
    match m with
    | [] => [(v, 1)]
    | (k, c) :: m' => if eq k v then (v, c + 1) :: m' else (k, c) :: gcount_bump m' v
    end.
  Definition gkey_count (slice : list A) : list (A * Z) := fold_left gcount_bump slice [].
  (* second loop: [dup_of_map m], m = keyCount in iteration order *)
  Definition gduplicate (slice : list A) : list A := dup_of_map (gkey_count slice).

  (* slice.go:206  DuplicateWithIndex (repaired)
       new key:  count = 1; kvMap[v] = []int{idx, count}
       seen key: count++;   kvMap[v][1] = count       — a read of the map, the key stays *)
  Fixpoint gkv_has (kv : list (A * (Z * Z))) (v : A) : bool :=
    match kv with
    | [] => false
    | (k, _) :: kv' => if eq k v then true else gkv_has kv' v
    end.
  Fixpoint gkv_set_count (kv : list (A * (Z * Z))) (v : A) (c : Z) : list (A * (Z * Z)) :=
    match kv with
    | [] => []
    | (k, (i0, c0)) :: kv' =>
        if eq k v then (k, (i0, c)) :: kv' else (k, (i0, c0)) :: gkv_set_count kv' v c
    end.
  Definition gdwi_step (st : Z * list (A * (Z * Z)) * Z) (v : A) : Z * list (A * (Z * Z)) * Z :=
    let '(count, kv, idx) := st in
    if gkv_has kv v
    then (count + 1, gkv_set_count kv v (count + 1), idx + 1)
    else (1, kv ++ [(v, (idx, 1))], idx + 1).
  Definition gdwi_map (slice : list A) : list (A * (Z * Z)) :=
    snd (fst (fold_left gdwi_step slice (0, [], 0))).
  (* second loop: [dwi_of_map kv]; `result[k] = v[0]` is reached only for keys with a
     count above 1, which are pairwise unequal and equal to themselves: one entry each *)
  Definition gduplicate_with_index (slice : list A) : list (A * Z) := dwi_of_map (gdwi_map slice).

  (* as found (8c13ccc):  kvMap[v] = make([]int, 2); count = 1; kvMap[v][0] = idx; ...
     — kvMap[v] is looked up again; under a key with v != v the look-up yields the nil
     slice and the index expression panics *)
  Definition gdwi_step_asfound (st : option (Z * list (A * (Z * Z)) * Z)) (v : A)
      : option (Z * list (A * (Z * Z)) * Z) :=
    match st with
    | None => None
    | Some (count, kv, idx) =>
        if gkv_has kv v
        then Some (count + 1, gkv_set_count kv v (count + 1), idx + 1)
        else if gkv_has (kv ++ [(v, (0, 0))]) v
             then Some (1, kv ++ [(v, (idx, 1))], idx + 1)
             else None                      (* index out of range [0] with length 0 *)
    end.
  Definition gduplicate_with_index_asfound (slice : list A) : res (list (A * Z)) :=
    match fold_left gdwi_step_asfound slice (Some (0, [], 0)) with
    | Some (_, kv, _) => Ok (dwi_of_map kv)
    | None => Panic
    end.

  (* slice.go:276  Union = baseFlatten + Unique *)
  Definition gunion (n : nest A) : res (list A) :=
    match base_flatten [] n with
    | Ok fl => Ok (gunique fl)
    | Err k => Err k
    | Panic => Panic
    end.

  (* slice.go:286  Intersection *)
  Fixpoint gin_all (others : list (list A)) (item : A) : bool :=
    match others with
    | [] => true
    | p :: ps => if gcontains p item then gin_all ps item else false
    end.
  Definition ginter_step (others : list (list A)) (result : list A) (item : A) : list A :=
    if gcontains result item then result
    else if gin_all others item then result ++ [item] else result.
  Definition gintersection (params : list (list A)) : res (list A) :=
    match params with
    | [] => Panic
    | p0 :: others => Ok (fold_left (ginter_step others) p0 [])
    end.

  (* slice.go:310  IntersectionBy: if fn(v) == fn(item) { return true } *)
  Fixpoint ghas_image (fn : A -> A) (p : list A) (item : A) : bool :=
    match p with
    | [] => false
    | v :: p' => if eq (fn v) (fn item) then true else ghas_image fn p' item
    end.
  Fixpoint gin_all_by (fn : A -> A) (others : list (list A)) (item : A) : bool :=
    match others with
    | [] => true
    | p :: ps => if ghas_image fn p item then gin_all_by fn ps item else false
    end.
  Definition ginter_by_step (fn : A -> A) (others : list (list A)) (result : list A) (item : A) : list A :=
    if gcontains result item then result
    else if gin_all_by fn others item then result ++ [item] else result.
  Definition gintersection_by (fn : A -> A) (params : list (list A)) : res (list A) :=
    match params with
    | [] => Panic
    | p0 :: others => Ok (fold_left (ginter_by_step fn others) p0 [])
    end.

  (* slice.go:342 Without / slice.go:363 Difference: if v == val { continue loop } *)
  Fixpoint gany_eq (v : A) (values : list A) : bool :=
    match values with
    | [] => false
    | val :: rest => if eq v val then true else gany_eq v rest
    end.
  Definition gwithout_step (values : list A) (st : list A * list A) (v : A) : list A * list A :=
    let (keys, uni) := st in
    if gany_eq v values then st
    else if gcontains keys v then st else (v :: keys, uni ++ [v]).
  Definition gwithout (slice values : list A) : list A :=
    snd (fold_left (gwithout_step values) slice ([], [])).
  Definition gdifference (s1 s2 : list A) : list A :=
    snd (fold_left (gwithout_step s2) s1 ([], [])).

  (* slice.go:384 DifferenceBy: if fn(v) == fn(val) { continue loop }; the set holds VALUES *)
  Fixpoint gany_eq_by (fn : A -> A) (v : A) (values : list A) : bool :=
    match values with
    | [] => false
    | val :: rest => if eq (fn v) (fn val) then true else gany_eq_by fn v rest
    end.
  Definition gdifference_by_step (fn : A -> A) (s2 : list A) (st : list A * list A) (v : A) : list A * list A :=
    let (keys, uni) := st in
    if gany_eq_by fn v s2 then st
    else if gcontains keys v then st else (v :: keys, uni ++ [v]).
  Definition gdifference_by (fn : A -> A) (s1 s2 : list A) : list A :=
    snd (fold_left (gdifference_by_step fn s2) s1 ([], [])).

  (* ================= specification vocabulary ================= *)

  (* x occurs in l: some element of l is == to x.  Never true for a NaN. *)
  Definition gin (x : A) (l : list A) : bool := existsb (fun y => eq y x) l.

  (* an element that equals itself (an ordinary value) / that does not (a NaN) *)
  Definition ordinary (a : A) : bool := eq a a.
  Definition irr (a : A) : bool := negb (eq a a).

  (* no two positions hold == values ("never repeats a value"); two NaNs may both be there *)
  Fixpoint pairwise_ne (l : list A) : Prop :=
    match l with
    | [] => True
    | x :: r => (forall y, In y r -> eq x y = false) /\ pairwise_ne r
    end.

  (* "keep the first occurrence of each distinct value": x, then the rest without
     what is == to x.  A NaN removes nothing and is removed by nothing. *)
  Fixpoint guniq_ref (l : list A) : list A :=
    match l with
    | [] => []
    | x :: r => x :: filter (fun y => negb (eq x y)) (guniq_ref r)
    end.
  Fixpoint gunique_by_ref (fn : A -> A) (l : list A) : list A :=
    match l with
    | [] => []
    | x :: r => x :: filter (fun y => negb (eq (fn x) (fn y))) (gunique_by_ref fn r)
    end.

  Definition gin_every (others : list (list A)) (x : A) : bool :=
    forallb (fun p => gin x p) others.
  Definition gimage_in_every (fn : A -> A) (others : list (list A)) (x : A) : bool :=
    forallb (fun p => gin (fn x) (map fn p)) others.

  (* a callback that maps == elements to == images (abs, -x, x*0; NOT 1/x or
     math.Signbit, which tell +0 from -0) *)
  Definition respects (fn : A -> A) : Prop := forall x y, eq x y = true -> eq (fn x) (fn y) = true.

  Definition gunion_ref (n : nest A) : res (list A) :=
    if wf_nest n then Ok (guniq_ref (leaves n)) else Err 1.
  Definition gintersection_ref (params : list (list A)) : res (list A) :=
    match params with
    | [] => Panic
    | p0 :: others => Ok (filter (gin_every others) (guniq_ref p0))
    end.
  Definition gdifference_ref (s1 s2 : list A) : list A :=
    filter (fun x => negb (gin x s2)) (guniq_ref s1).
  (* the By helpers test an element BEFORE they de-duplicate: Unique of the literal
     list "every element of the first argument whose image passes".  For a callback
     that [respects] == this is filter-after-Unique as for the plain helpers. *)
  Definition gintersection_by_ref (fn : A -> A) (params : list (list A)) : res (list A) :=
    match params with
    | [] => Panic
    | p0 :: others => Ok (guniq_ref (filter (gimage_in_every fn others) p0))
    end.
  Definition gdifference_by_ref (fn : A -> A) (s1 s2 : list A) : list A :=
    guniq_ref (filter (fun x => negb (gin (fn x) (map fn s2))) s1).

  (* number of elements == to x (0 for a NaN) *)
  Definition gcount (x : A) (l : list A) : nat := length (filter (fun y => eq y x) l).
  (* the repeated values, each by its FIRST occurrence *)
  Definition gduplicate_ref (l : list A) : list A :=
    filter (fun x => (2 <=? gcount x l)%nat) (guniq_ref l).
  (* the LAST element of l that is == to x (x itself when there is none) *)
  Definition glast (l : list A) (x : A) : A := fold_left (fun acc y => if eq y x then y else acc) l x.
  (* position of the first element == to x *)
  Fixpoint gfirst_index (l : list A) (x : A) : Z :=
    match l with
    | [] => -1
    | y :: r => if eq y x then 0 else
                  let i := gfirst_index r x in if i <? 0 then -1 else i + 1
    end.
  Definition gduplicate_with_index_ref (l : list A) : list (A * Z) :=
    map (fun x => (x, gfirst_index l x)) (gduplicate_ref l).

End GenericSetAlgebra.

(* ================= the executable instance: float codes =================
   A float64 on the wire is its CODE: the integer n for float64(n) (n = 0: +0),
   [negz_code] for -0, [nan_code] for NaN.  Only small integers travel, so every
   float operation of the callbacks below is exact. *)
Definition nan_code : Z := -999999999.
Definition negz_code : Z := -999999998.
Definition fnorm (z : Z) : Z := if z =? negz_code then 0 else z.
(* Go's == on float64 *)
Definition feq (a b : Z) : bool :=
  if (a =? nan_code) || (b =? nan_code) then false else fnorm a =? fnorm b.

(* key functions at float64 (mirrored in harness/c11nan.go):
   0 id, 1 math.Mod(x,2) (sign of x, so Mod(-2,2) = -0), 2 const +0, 3 -x, 4 math.Abs,
   5 const NaN, 6 x*0 (+0 / -0 by the sign of x), 7 sign test that tells -0 from +0:
   NaN for NaN, -1 if math.Signbit(x), else 1 *)
Definition fkey_of (c : Z) (x : Z) : Z :=
  if x =? nan_code then (match c with 2 => 0 | _ => nan_code end) else
  match c with
  | 0 => x
  | 1 => if x =? negz_code then negz_code else
         let r := Z.rem x 2 in if r =? 0 then (if x <? 0 then negz_code else 0) else r
  | 2 => 0
  | 3 => if x =? negz_code then 0 else if x =? 0 then negz_code else - x
  | 4 => if x =? negz_code then 0 else Z.abs x
  | 5 => nan_code
  | 6 => if (x =? negz_code) || (x <? 0) then negz_code else 0
  | _ => if (x =? negz_code) || (x <? 0) then -1 else 1
  end.
