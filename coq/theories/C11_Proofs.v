(* C11_Proofs.v — lemmas for property C11 (statements collected in C11_Props.v). *)
From Gogu Require Import Base C11_Model.
From Coq Require Import Permutation.

Section Proofs.
  Context {A : Type} (eq_dec : forall x y : A, {x = y} + {x <> y}).

  Notation contains := (contains eq_dec).
  Notation inb := (inb eq_dec).
  Notation unique := (unique eq_dec).
  Notation unique_by := (unique_by eq_dec).
  Notation unique_step := (unique_step eq_dec).
  Notation unique_by_step := (unique_by_step eq_dec).

  (* ---------- membership tests ---------- *)

  Lemma contains_iff l x : contains l x = true <-> In x l.
  Proof.
    induction l as [|y l IH]; cbn.
    - split; [discriminate | tauto].
    - destruct (eq_dec y x) as [->|Hne].
      + split; auto.
      + rewrite IH. split; [auto | intros [H|H]; [contradiction | exact H]].
  Qed.

  Lemma contains_inb l x : contains l x = inb x l.
  Proof.
    unfold C11_Model.inb. destruct (in_dec eq_dec x l) as [H|H].
    - now apply contains_iff.
    - destruct (contains l x) eqn:E; [|reflexivity]. apply contains_iff in E. contradiction.
  Qed.

  Lemma inb_iff x l : inb x l = true <-> In x l.
  Proof. unfold C11_Model.inb. destruct (in_dec eq_dec x l); split; auto; discriminate. Qed.

  Lemma inb_false_iff x l : inb x l = false <-> ~ In x l.
  Proof. unfold C11_Model.inb. destruct (in_dec eq_dec x l); split; auto; try discriminate. contradiction. Qed.

  Lemma inb_ext x l l' : (In x l <-> In x l') -> inb x l = inb x l'.
  Proof.
    intros H. destruct (inb x l') eqn:E.
    - apply inb_iff. apply H. now apply inb_iff.
    - apply inb_false_iff. intros Hin. apply inb_false_iff in E. apply E, H, Hin.
  Qed.

  Lemma any_eq_inb v values : any_eq eq_dec v values = inb v values.
  Proof.
    induction values as [|y r IH]; cbn.
    - reflexivity.
    - destruct (eq_dec v y) as [->|Hne].
      + symmetry. apply inb_iff. now left.
      + rewrite IH. apply inb_ext. split; [now right | intros [H|H]; [congruence | exact H]].
  Qed.

  Lemma has_image_inb fn p item : has_image eq_dec fn p item = inb (fn item) (map fn p).
  Proof.
    induction p as [|y r IH]; cbn.
    - reflexivity.
    - destruct (eq_dec (fn y) (fn item)) as [E|Hne].
      + symmetry. apply inb_iff. now left.
      + rewrite IH. apply inb_ext. cbn. split; [now right | intros [H|H]; [congruence | exact H]].
  Qed.

  Lemma any_eq_by_inb fn v values : any_eq_by eq_dec fn v values = inb (fn v) (map fn values).
  Proof.
    induction values as [|y r IH]; cbn.
    - reflexivity.
    - destruct (eq_dec (fn v) (fn y)) as [E|Hne].
      + symmetry. apply inb_iff. left. now symmetry.
      + rewrite IH. apply inb_ext. cbn. split; [now right | intros [H|H]; [congruence | exact H]].
  Qed.

  Lemma in_all_in_every others x : in_all eq_dec others x = in_every eq_dec others x.
  Proof.
    induction others as [|p ps IH]; cbn; [reflexivity|].
    rewrite contains_inb, IH. now destruct (inb x p).
  Qed.

  Lemma in_all_by_image_in_every fn others x :
    in_all_by eq_dec fn others x = image_in_every eq_dec fn others x.
  Proof.
    induction others as [|p ps IH]; cbn; [reflexivity|].
    rewrite has_image_inb, IH. now destruct (inb (fn x) (map fn p)).
  Qed.

  Lemma in_every_iff others x : in_every eq_dec others x = true <-> forall p, In p others -> In x p.
  Proof.
    unfold in_every. rewrite forallb_forall. split; intros H p Hp.
    - apply inb_iff. now apply H.
    - apply inb_iff. now apply H.
  Qed.

  Lemma image_in_every_iff fn others x :
    image_in_every eq_dec fn others x = true <->
    forall p, In p others -> exists y, In y p /\ fn y = fn x.
  Proof.
    unfold image_in_every. rewrite forallb_forall. split; intros H p Hp.
    - specialize (H p Hp). apply inb_iff, in_map_iff in H. destruct H as (y & Hy & Hin). eauto.
    - apply inb_iff, in_map_iff. destruct (H p Hp) as (y & Hy & Hfy). eauto.
  Qed.

  (* ---------- sub-sequences ---------- *)

  Lemma subseq_refl (l : list A) : subseq l l.
  Proof. induction l; [apply subseq_nil | now apply subseq_keep]. Qed.

  Lemma subseq_nil_l (l : list A) : subseq [] l.
  Proof. induction l; [apply subseq_nil | now apply subseq_skip]. Qed.

  Lemma subseq_app (s1 l1 s2 l2 : list A) : subseq s1 l1 -> subseq s2 l2 -> subseq (s1 ++ s2) (l1 ++ l2).
  Proof.
    induction 1; cbn; intros H2; [exact H2 | apply subseq_skip; auto | apply subseq_keep; auto].
  Qed.

  Lemma subseq_snoc_skip (s l : list A) x : subseq s l -> subseq s (l ++ [x]).
  Proof.
    intros H. rewrite <- (app_nil_r s). apply subseq_app; [exact H|]. apply subseq_nil_l.
  Qed.

  Lemma subseq_snoc_keep (s l : list A) x : subseq s l -> subseq (s ++ [x]) (l ++ [x]).
  Proof. intros H. apply subseq_app; [exact H|]. apply subseq_refl. Qed.

  Lemma subseq_In (s l : list A) x : subseq s l -> In x s -> In x l.
  Proof. induction 1; cbn; intros; tauto. Qed.

  Lemma subseq_filter (p : A -> bool) l : subseq (filter p l) l.
  Proof.
    induction l as [|x l IH]; cbn; [apply subseq_nil|].
    destruct (p x); [now apply subseq_keep | now apply subseq_skip].
  Qed.

  Lemma subseq_trans (a b c : list A) : subseq a b -> subseq b c -> subseq a c.
  Proof.
    intros Hab Hbc. revert a Hab. induction Hbc as [|x s l Hbc IH|x s l Hbc IH]; intros a Hab.
    - exact Hab.
    - apply subseq_skip. auto.
    - inversion Hab; subst.
      + apply subseq_skip. auto.
      + apply subseq_keep. auto.
  Qed.

  Lemma subseq_length (s l : list A) : subseq s l -> (length s <= length l)%nat.
  Proof. induction 1; cbn; lia. Qed.

  Lemma NoDup_snoc (l : list A) x : NoDup l -> ~ In x l -> NoDup (l ++ [x]).
  Proof.
    induction l as [|y l IH]; cbn; intros ND Hn.
    - constructor; [tauto | constructor].
    - inversion ND as [|? ? Hy ND']; subst. constructor.
      + rewrite in_app_iff. cbn. intros [H|[H|[]]]; [contradiction | subst; tauto].
      + apply IH; tauto.
  Qed.

  (* ---------- UniqueBy / Unique ---------- *)

  Lemma unique_is_unique_by l : unique l = unique_by (fun x => x) l.
  Proof. reflexivity. Qed.

  Lemma unique_by_keys fn l : forall x,
    In x (fst (fold_left (unique_by_step fn) l ([], []))) <-> In x (map fn l).
  Proof.
    induction l as [|y l IH] using rev_ind; intros x; cbn; [tauto|].
    rewrite fold_left_app, map_app, in_app_iff. cbn.
    destruct (fold_left (unique_by_step fn) l ([], [])) as [keys res] eqn:E. cbn in *.
    destruct (contains keys (fn y)) eqn:C; cbn.
    - apply contains_iff in C. rewrite IH in C. rewrite IH. intuition (subst; auto).
    - rewrite IH. intuition.
  Qed.

  (* the defining law: an element is appended iff its image was not seen before *)
  Lemma unique_by_snoc fn l x :
    unique_by fn (l ++ [x]) =
    if inb (fn x) (map fn l) then unique_by fn l else unique_by fn l ++ [x].
  Proof.
    unfold C11_Model.unique_by. rewrite fold_left_app. cbn.
    pose proof (unique_by_keys fn l (fn x)) as K.
    destruct (fold_left (unique_by_step fn) l ([], [])) as [keys res]. cbn in *.
    rewrite contains_inb. rewrite (inb_ext _ _ _ K).
    now destruct (inb (fn x) (map fn l)).
  Qed.

  Lemma unique_by_nil fn : unique_by fn [] = [].
  Proof. reflexivity. Qed.

  Lemma unique_snoc l x : unique (l ++ [x]) = if inb x l then unique l else unique l ++ [x].
  Proof. rewrite !unique_is_unique_by, unique_by_snoc, map_id. reflexivity. Qed.

  Lemma unique_by_subseq fn l : subseq (unique_by fn l) l.
  Proof.
    induction l as [|x l IH] using rev_ind; [apply subseq_nil|].
    rewrite unique_by_snoc. destruct (inb _ _).
    - now apply subseq_snoc_skip.
    - now apply subseq_snoc_keep.
  Qed.

  Lemma unique_by_incl fn l x : In x (unique_by fn l) -> In x l.
  Proof. apply subseq_In, unique_by_subseq. Qed.

  (* the images of the result are the distinct images of the input, in first-occurrence order *)
  Lemma unique_by_map fn l : map fn (unique_by fn l) = unique (map fn l).
  Proof.
    induction l as [|x l IH] using rev_ind; [reflexivity|].
    rewrite unique_by_snoc, map_app. cbn. rewrite unique_snoc.
    destruct (inb (fn x) (map fn l)); [exact IH|]. rewrite map_app, IH. reflexivity.
  Qed.

  Lemma unique_In l x : In x (unique l) <-> In x l.
  Proof.
    induction l as [|y l IH] using rev_ind; [reflexivity|].
    rewrite unique_snoc. destruct (inb y l) eqn:E.
    - apply inb_iff in E. rewrite IH, in_app_iff. cbn. intuition (subst; auto).
    - rewrite !in_app_iff, IH. reflexivity.
  Qed.

  Lemma unique_NoDup l : NoDup (unique l).
  Proof.
    induction l as [|y l IH] using rev_ind; [constructor|].
    rewrite unique_snoc. destruct (inb y l) eqn:E; [exact IH|].
    apply inb_false_iff in E. apply NoDup_snoc; [exact IH|]. now rewrite unique_In.
  Qed.

  Lemma unique_by_images fn l y : In y (map fn (unique_by fn l)) <-> In y (map fn l).
  Proof. rewrite unique_by_map. apply unique_In. Qed.

  Lemma unique_by_NoDup_images fn l : NoDup (map fn (unique_by fn l)).
  Proof. rewrite unique_by_map. apply unique_NoDup. Qed.

  Lemma unique_by_prefix fn l l' : exists r, unique_by fn (l ++ l') = unique_by fn l ++ r.
  Proof.
    induction l' as [|x l' IH] using rev_ind.
    - exists []. now rewrite !app_nil_r.
    - destruct IH as [r IH]. rewrite app_assoc, unique_by_snoc, IH.
      destruct (inb _ _); [now exists r|]. exists (r ++ [x]). now rewrite app_assoc.
  Qed.

  (* an element is kept iff it stands at a position before which its image does not occur *)
  Lemma unique_by_first fn l x :
    In x (unique_by fn l) <-> exists l1 l2, l = l1 ++ x :: l2 /\ ~ In (fn x) (map fn l1).
  Proof.
    split.
    - induction l as [|y l IH] using rev_ind; [intros []|].
      rewrite unique_by_snoc. destruct (inb (fn y) (map fn l)) eqn:E.
      + intros H. destruct (IH H) as (l1 & l2 & -> & Hn).
        exists l1, (l2 ++ [y]). split; [now rewrite <- app_assoc|exact Hn].
      + rewrite in_app_iff. intros [H|[<-|[]]].
        * destruct (IH H) as (l1 & l2 & -> & Hn).
          exists l1, (l2 ++ [y]). split; [now rewrite <- app_assoc|exact Hn].
        * exists l, []. split; [reflexivity|]. now apply inb_false_iff.
    - intros (l1 & l2 & -> & Hn).
      replace (l1 ++ x :: l2) with ((l1 ++ [x]) ++ l2) by now rewrite <- app_assoc.
      destruct (unique_by_prefix fn (l1 ++ [x]) l2) as [r ->].
      rewrite unique_by_snoc. apply inb_false_iff in Hn. rewrite Hn.
      rewrite !in_app_iff. cbn. auto.
  Qed.

  Lemma filter_snoc (p : A -> bool) l x : filter p (l ++ [x]) = filter p l ++ (if p x then [x] else []).
  Proof. rewrite filter_app. cbn. now destruct (p x). Qed.

  (* the cons law: the reference definition *)
  Lemma unique_by_cons fn x l :
    unique_by fn (x :: l) =
    x :: filter (fun y => if eq_dec (fn y) (fn x) then false else true) (unique_by fn l).
  Proof.
    induction l as [|y l IH] using rev_ind; [reflexivity|].
    change (x :: l ++ [y]) with ((x :: l) ++ [y]).
    rewrite !unique_by_snoc, IH. cbn [map].
    destruct (eq_dec (fn y) (fn x)) as [E|Hne].
    - replace (inb (fn y) (fn x :: map fn l)) with true by (symmetry; apply inb_iff; left; auto).
      destruct (inb (fn y) (map fn l)); [reflexivity|].
      rewrite filter_snoc. destruct (eq_dec (fn y) (fn x)); [|contradiction]. now rewrite app_nil_r.
    - replace (inb (fn y) (fn x :: map fn l)) with (inb (fn y) (map fn l)).
      + destruct (inb (fn y) (map fn l)); [reflexivity|].
        rewrite filter_snoc. destruct (eq_dec (fn y) (fn x)); [contradiction|]. reflexivity.
      + apply inb_ext. cbn. split; [now right | intros [H|H]; [congruence | exact H]].
  Qed.

  Lemma unique_by_is_ref fn l : unique_by fn l = unique_by_ref eq_dec fn l.
  Proof. induction l as [|x l IH]; [reflexivity|]. rewrite unique_by_cons, IH. reflexivity. Qed.

  Lemma unique_cons x l :
    unique (x :: l) = x :: filter (fun y => if eq_dec y x then false else true) (unique l).
  Proof. rewrite !unique_is_unique_by. apply unique_by_cons. Qed.

  Lemma unique_is_ref l : unique l = uniq_ref eq_dec l.
  Proof. induction l as [|x l IH]; [reflexivity|]. rewrite unique_cons, IH. reflexivity. Qed.

  Lemma unique_subseq l : subseq (unique l) l.
  Proof. rewrite unique_is_unique_by. apply unique_by_subseq. Qed.

  (* against the standard library: [nodup] keeps LAST occurrences, so mirror it *)
  Lemma unique_rev_nodup l : unique l = rev (nodup eq_dec (rev l)).
  Proof.
    induction l as [|x l IH] using rev_ind; [reflexivity|].
    rewrite unique_snoc, rev_app_distr. cbn [rev app nodup].
    destruct (in_dec eq_dec x (rev l)) as [H|H].
    - rewrite <- in_rev in H. apply inb_iff in H. now rewrite H.
    - rewrite <- in_rev in H. apply inb_false_iff in H. rewrite H. cbn [rev]. now rewrite IH.
  Qed.

  Lemma unique_NoDup_id l : NoDup l -> unique l = l.
  Proof.
    induction l as [|x l IH] using rev_ind; [reflexivity|].
    intros H. apply NoDup_remove in H as [H1 H2]. rewrite app_nil_r in *.
    rewrite unique_snoc. apply inb_false_iff in H2. rewrite H2, IH; auto.
  Qed.

  Lemma unique_idem l : unique (unique l) = unique l.
  Proof. apply unique_NoDup_id, unique_NoDup. Qed.

  Lemma unique_filter (p : A -> bool) l : unique (filter p l) = filter p (unique l).
  Proof.
    induction l as [|x l IH] using rev_ind; [reflexivity|].
    rewrite filter_snoc, unique_snoc. destruct (p x) eqn:Px.
    - rewrite unique_snoc, IH.
      replace (inb x (filter p l)) with (inb x l).
      + destruct (inb x l); [reflexivity|]. now rewrite filter_snoc, Px.
      + apply inb_ext. rewrite filter_In. tauto.
    - rewrite app_nil_r, IH. destruct (inb x l); [reflexivity|].
      now rewrite filter_snoc, Px, app_nil_r.
  Qed.

  (* ---------- Without / Difference / DifferenceBy ---------- *)

  Lemma skip_fold (skip : A -> bool) l st :
    fold_left (fun st v => if skip v then st else unique_step st v) l st =
    fold_left unique_step (filter (fun v => negb (skip v)) l) st.
  Proof.
    revert st. induction l as [|x l IH]; intros st; cbn; [reflexivity|].
    destruct (skip x); cbn; apply IH.
  Qed.

  Lemma fold_left_ext {S : Type} (f g : S -> A -> S) l s :
    (forall s x, f s x = g s x) -> fold_left f l s = fold_left g l s.
  Proof. intros H. revert s. induction l as [|x l IH]; intros s; cbn; [reflexivity|]. now rewrite H, IH. Qed.

  Lemma without_spec slice values :
    without eq_dec slice values = filter (fun x => negb (inb x values)) (unique slice).
  Proof.
    unfold without. rewrite <- unique_filter. unfold C11_Model.unique.
    rewrite <- (skip_fold (fun v => inb v values)). f_equal.
    apply fold_left_ext. intros [keys uni] x. cbn. now rewrite any_eq_inb.
  Qed.

  Lemma difference_spec s1 s2 :
    difference eq_dec s1 s2 = filter (fun x => negb (inb x s2)) (unique s1).
  Proof. apply without_spec. Qed.

  Lemma difference_by_spec fn s1 s2 :
    difference_by eq_dec fn s1 s2 = filter (fun x => negb (inb (fn x) (map fn s2))) (unique s1).
  Proof.
    unfold difference_by. rewrite <- unique_filter. unfold C11_Model.unique.
    rewrite <- (skip_fold (fun v => inb (fn v) (map fn s2))). f_equal.
    apply fold_left_ext. intros [keys uni] x. cbn. now rewrite any_eq_by_inb.
  Qed.

  (* ---------- Intersection / IntersectionBy ---------- *)

  Definition inter_gen (P : A -> bool) (result : list A) (item : A) : list A :=
    if contains result item then result else if P item then result ++ [item] else result.

  Lemma inter_gen_spec P l : fold_left (inter_gen P) l [] = filter P (unique l).
  Proof.
    induction l as [|x l IH] using rev_ind; [reflexivity|].
    rewrite fold_left_app. cbn. rewrite IH. unfold inter_gen. rewrite contains_inb, unique_snoc.
    destruct (inb x (filter P (unique l))) eqn:E.
    - apply inb_iff, filter_In in E as [E _]. apply (proj1 (unique_In _ _)) in E.
      apply (proj2 (inb_iff _ _)) in E. now rewrite E.
    - destruct (P x) eqn:Px.
      + assert (inb x l = false) as ->.
        { apply inb_false_iff. intros H. apply inb_false_iff in E. apply E, filter_In.
          split; [now apply (proj2 (unique_In _ _)) | exact Px]. }
        now rewrite filter_snoc, Px.
      + destruct (inb x l); [reflexivity|]. now rewrite filter_snoc, Px, app_nil_r.
  Qed.

  Lemma intersection_spec p0 others :
    intersection eq_dec (p0 :: others) = Ok (filter (in_every eq_dec others) (unique p0)).
  Proof.
    cbn. f_equal. rewrite <- inter_gen_spec. apply fold_left_ext. intros r x.
    unfold inter_step, inter_gen. now rewrite in_all_in_every.
  Qed.

  Lemma intersection_by_spec fn p0 others :
    intersection_by eq_dec fn (p0 :: others) = Ok (filter (image_in_every eq_dec fn others) (unique p0)).
  Proof.
    cbn. f_equal. rewrite <- inter_gen_spec. apply fold_left_ext. intros r x.
    unfold inter_by_step, inter_gen. now rewrite in_all_by_image_in_every.
  Qed.

  (* ---------- "distinct values of the first argument, in its order, that satisfy P" ---------- *)

  Lemma subseq_NoDup (s l : list A) : subseq s l -> NoDup l -> NoDup s.
  Proof.
    induction 1 as [|x s l H IH|x s l H IH]; intros ND.
    - constructor.
    - inversion ND; auto.
    - inversion ND as [|? ? Hn ND']; subst. constructor; [|auto].
      intros Hin. apply Hn. eapply subseq_In; eauto.
  Qed.

  (* a repetition-free selection from a repetition-free list is determined by its members *)
  Lemma selection_determined (l : list A) : forall r1 r2,
    NoDup l -> subseq r1 l -> subseq r2 l -> (forall x, In x r1 <-> In x r2) -> r1 = r2.
  Proof.
    induction l as [|a l IH]; intros r1 r2 ND H1 H2 Hm.
    - inversion H1; inversion H2; reflexivity.
    - inversion ND as [|? ? Hn ND']; subst.
      inversion H1 as [|x s l' H1'|x s l' H1']; subst;
        inversion H2 as [|x' s' l'' H2'|x' s' l'' H2']; subst.
      + now apply IH.
      + exfalso. apply Hn. apply (subseq_In _ _ _ H1'). apply Hm. now left.
      + exfalso. apply Hn. apply (subseq_In _ _ _ H2'). apply Hm. now left.
      + f_equal. apply IH; auto. intros y. split; intros Hy.
        * assert (Hy' : In y (a :: s')) by (apply Hm; now right).
          destruct Hy' as [->|Hy']; [|exact Hy']. exfalso. apply Hn. exact (subseq_In _ _ _ H1' Hy).
        * assert (Hy' : In y (a :: s)) by (apply Hm; now right).
          destruct Hy' as [->|Hy']; [|exact Hy']. exfalso. apply Hn. exact (subseq_In _ _ _ H2' Hy).
  Qed.

  Lemma filter_unique_characterised (P : A -> bool) l :
    NoDup (filter P (unique l)) /\
    subseq (filter P (unique l)) (unique l) /\
    (forall x, In x (filter P (unique l)) <-> In x l /\ P x = true).
  Proof.
    split; [apply NoDup_filter, unique_NoDup|]. split; [apply subseq_filter|].
    intros x. now rewrite filter_In, unique_In.
  Qed.

  Lemma negb_inb_true x l : negb (inb x l) = true <-> ~ In x l.
  Proof. rewrite negb_true_iff. apply inb_false_iff. Qed.

  (* ---------- association lists (Go maps with payload) ---------- *)

  Fixpoint alook {V : Type} (m : list (A * V)) (k : A) : option V :=
    match m with
    | [] => None
    | (k', v) :: m' => if eq_dec k' k then Some v else alook m' k
    end.

  Lemma alook_None {V} (m : list (A * V)) k : alook m k = None <-> ~ In k (map fst m).
  Proof.
    induction m as [|[k' v] m IH]; cbn; [tauto|].
    destruct (eq_dec k' k) as [->|Hne].
    - split; [discriminate | intros H; exfalso; auto].
    - rewrite IH. tauto.
  Qed.

  Lemma In_alook {V} (m : list (A * V)) k v :
    NoDup (map fst m) -> (In (k, v) m <-> alook m k = Some v).
  Proof.
    induction m as [|[k' v'] m IH]; cbn; intros ND.
    - split; [tauto | discriminate].
    - inversion ND as [|? ? Hn ND']; subst.
      destruct (eq_dec k' k) as [->|Hne].
      + split.
        * intros [H|H]; [congruence|]. exfalso. apply Hn. apply in_map_iff. now exists (k, v).
        * intros H. left. congruence.
      + rewrite <- (IH ND'). split; [intros [H|H]; [congruence|exact H] | auto].
  Qed.

  Lemma alook_app {V} (m1 m2 : list (A * V)) k :
    alook (m1 ++ m2) k = match alook m1 k with Some v => Some v | None => alook m2 k end.
  Proof.
    induction m1 as [|[k' v] m1 IH]; cbn; [reflexivity|]. destruct (eq_dec k' k); auto.
  Qed.

  (* ---------- Duplicate ---------- *)

  Lemma count_bump_keys m v :
    map fst (count_bump eq_dec m v) = if inb v (map fst m) then map fst m else map fst m ++ [v].
  Proof.
    induction m as [|[k c] m IH]; cbn; [reflexivity|].
    destruct (eq_dec k v) as [->|Hne]; cbn.
    - replace (inb v (v :: map fst m)) with true; [reflexivity|]. symmetry. apply inb_iff. now left.
    - rewrite IH. replace (inb v (k :: map fst m)) with (inb v (map fst m)).
      + now destruct (inb v (map fst m)).
      + apply inb_ext. cbn. split; [now right | intros [H|H]; [congruence | exact H]].
  Qed.

  Lemma count_bump_look m v k :
    alook (count_bump eq_dec m v) k =
    if eq_dec v k then Some (match alook m v with Some c => c + 1 | None => 1 end) else alook m k.
  Proof.
    induction m as [|[k' c] m IH]; cbn.
    - destruct (eq_dec v k); reflexivity.
    - destruct (eq_dec k' v) as [->|Hne]; cbn.
      + destruct (eq_dec v k); reflexivity.
      + rewrite IH. destruct (eq_dec k' k) as [->|Hne'].
        * destruct (eq_dec v k); [congruence | reflexivity].
        * reflexivity.
  Qed.

  Lemma key_count_keys l : map fst (key_count eq_dec l) = unique l.
  Proof.
    induction l as [|x l IH] using rev_ind; [reflexivity|].
    unfold key_count in *. rewrite fold_left_app. cbn. rewrite count_bump_keys, IH, unique_snoc.
    now rewrite (inb_ext x (unique l) l (unique_In l x)).
  Qed.

  Lemma key_count_look l k :
    alook (key_count eq_dec l) k =
    if (count_occ eq_dec l k =? 0)%nat then None else Some (Z.of_nat (count_occ eq_dec l k)).
  Proof.
    induction l as [|x l IH] using rev_ind; [reflexivity|].
    unfold key_count in *. rewrite fold_left_app. cbn. rewrite count_bump_look, count_occ_app. cbn.
    destruct (eq_dec x k) as [->|Hne].
    - rewrite IH. destruct (count_occ eq_dec l k) as [|n]; cbn; [reflexivity|].
      replace (n + 1)%nat with (S n) by lia. cbn [Nat.eqb]. f_equal. lia.
    - rewrite IH. now rewrite Nat.add_0_r.
  Qed.

  Lemma NoDup_map_fst_filter {V} (p : A * V -> bool) (m : list (A * V)) :
    NoDup (map fst m) -> NoDup (map fst (filter p m)).
  Proof.
    induction m as [|e m IH]; cbn; intros ND; [constructor|].
    inversion ND as [|? ? Hn ND']; subst.
    destruct (p e); cbn; [|auto]. constructor; [|auto].
    intros H. apply Hn. apply in_map_iff in H as (e' & He & Hin). apply filter_In in Hin as [Hin _].
    apply in_map_iff. eauto.
  Qed.

  (* for EVERY order [m] in which the runtime may iterate keyCount *)
  Lemma duplicate_spec l m :
    Permutation m (key_count eq_dec l) ->
    NoDup (dup_of_map m) /\
    (forall x, In x (dup_of_map m) <-> (2 <= count_occ eq_dec l x)%nat).
  Proof.
    intros HP.
    assert (ND : NoDup (map fst (key_count eq_dec l))) by (rewrite key_count_keys; apply unique_NoDup).
    assert (NDm : NoDup (map fst m)).
    { eapply Permutation_NoDup; [|exact ND]. apply Permutation_map. now symmetry. }
    split.
    - unfold dup_of_map. now apply NoDup_map_fst_filter.
    - intros x. unfold dup_of_map. rewrite in_map_iff. split.
      + intros ([k c] & <- & Hin). apply filter_In in Hin as [Hin Hc]. cbn in *.
        apply (Permutation_in _ HP) in Hin. apply (In_alook _ _ _ ND) in Hin.
        rewrite key_count_look in Hin.
        destruct (count_occ eq_dec l k =? 0)%nat; [discriminate|]. injection Hin as <-.
        apply Z.gtb_lt in Hc. lia.
      + intros H. exists (x, Z.of_nat (count_occ eq_dec l x)). split; [reflexivity|].
        apply filter_In. split.
        * apply (Permutation_in _ (Permutation_sym HP)). apply (In_alook _ _ _ ND).
          rewrite key_count_look. destruct (count_occ eq_dec l x =? 0)%nat eqn:E; [|reflexivity].
          apply Nat.eqb_eq in E. lia.
        * cbn. apply Z.gtb_lt. lia.
  Qed.

  Lemma duplicate_ref_spec l :
    NoDup (duplicate_ref eq_dec l) /\
    (forall x, In x (duplicate_ref eq_dec l) <-> (2 <= count_occ eq_dec l x)%nat).
  Proof.
    unfold duplicate_ref. split.
    - apply NoDup_filter. rewrite <- unique_is_ref. apply unique_NoDup.
    - intros x. rewrite filter_In, <- unique_is_ref, unique_In, Nat.leb_le. split; [tauto|].
      intros H. split; [|exact H]. apply (proj2 (count_occ_In eq_dec l x)). lia.
  Qed.

  Lemma duplicate_perm l m :
    Permutation m (key_count eq_dec l) -> Permutation (dup_of_map m) (duplicate_ref eq_dec l).
  Proof.
    intros HP. destruct (duplicate_spec l m HP) as [N1 I1]. destruct (duplicate_ref_spec l) as [N2 I2].
    apply NoDup_Permutation; auto. intros x. now rewrite I1, I2.
  Qed.

  (* ---------- DuplicateWithIndex ---------- *)

  Lemma first_index_range l x :
    (~ In x l -> first_index eq_dec l x = -1) /\
    (In x l -> 0 <= first_index eq_dec l x < Z.of_nat (length l)).
  Proof.
    induction l as [|y l [IH1 IH2]]; cbn [first_index In length].
    - split; [reflexivity | tauto].
    - destruct (eq_dec y x) as [->|Hne].
      + split; [intros H; exfalso; auto | lia].
      + split.
        * intros H. rewrite IH1 by tauto. reflexivity.
        * intros [H|H]; [contradiction|]. specialize (IH2 H).
          destruct (first_index eq_dec l x <? 0) eqn:E; [apply Z.ltb_lt in E; lia | lia].
  Qed.

  Lemma first_index_app_in l l' x : In x l -> first_index eq_dec (l ++ l') x = first_index eq_dec l x.
  Proof.
    induction l as [|y l IH]; cbn [first_index In app]; [tauto|].
    destruct (eq_dec y x); [reflexivity|]. intros [H|H]; [contradiction|]. now rewrite IH.
  Qed.

  Lemma first_index_snoc_new l x : ~ In x l -> first_index eq_dec (l ++ [x]) x = Z.of_nat (length l).
  Proof.
    induction l as [|y l IH]; cbn [first_index In app length]; intros H.
    - destruct (eq_dec x x); [reflexivity | contradiction].
    - destruct (eq_dec y x) as [->|Hne]; [exfalso; auto|].
      rewrite IH by tauto. destruct (Z.of_nat (length l) <? 0) eqn:E; [apply Z.ltb_lt in E; lia | lia].
  Qed.

  (* the position reported is that of the first occurrence *)
  Lemma first_index_spec l x i :
    first_index eq_dec l x = Z.of_nat i <->
    exists l1 l2, l = l1 ++ x :: l2 /\ ~ In x l1 /\ length l1 = i.
  Proof.
    split.
    - revert i. induction l as [|y l IH]; cbn [first_index]; intros i H; [lia|].
      destruct (eq_dec y x) as [->|Hne].
      + exists [], l. assert (i = O) by lia. subst. auto.
      + destruct (first_index eq_dec l x <? 0) eqn:E; [lia|]. apply Z.ltb_ge in E.
        destruct i as [|i]; [lia|].
        destruct (IH i) as (l1 & l2 & -> & Hn & Hl); [lia|].
        exists (y :: l1), l2. cbn. repeat split; [|lia]. intros [H'|H']; [congruence|auto].
    - intros (l1 & l2 & -> & Hn & <-).
      replace (l1 ++ x :: l2) with ((l1 ++ [x]) ++ l2) by now rewrite <- app_assoc.
      rewrite first_index_app_in by (apply in_app_iff; cbn; auto).
      now apply first_index_snoc_new.
  Qed.

  Lemma kv_has_look kv v : kv_has eq_dec kv v = match alook kv v with Some _ => true | None => false end.
  Proof.
    induction kv as [|[k e] kv IH]; cbn; [reflexivity|]. destruct (eq_dec k v); auto.
  Qed.

  Lemma kv_set_count_keys kv v c : map fst (kv_set_count eq_dec kv v c) = map fst kv.
  Proof.
    induction kv as [|[k [i0 c0]] kv IH]; cbn; [reflexivity|].
    destruct (eq_dec k v); cbn; [reflexivity|]. now rewrite IH.
  Qed.

  Lemma kv_set_count_look kv v c k :
    alook (kv_set_count eq_dec kv v c) k =
    if eq_dec v k then match alook kv v with Some (i0, _) => Some (i0, c) | None => None end
    else alook kv k.
  Proof.
    induction kv as [|[k' [i0 c0]] kv IH]; cbn.
    - destruct (eq_dec v k); reflexivity.
    - destruct (eq_dec k' v) as [->|Hne]; cbn.
      + destruct (eq_dec v k); reflexivity.
      + rewrite IH. destruct (eq_dec k' k) as [->|Hne'].
        * destruct (eq_dec v k); [congruence | reflexivity].
        * reflexivity.
  Qed.

  (* the loop invariant: the SHARED counter is at least 1 once anything was read,
     so a key seen again always gets a count >= 2, whichever key bumped it last *)
  Definition dwi_inv (l : list A) (st : Z * list (A * (Z * Z)) * Z) : Prop :=
    let '(count, kv, idx) := st in
    idx = Z.of_nat (length l) /\
    (l <> [] -> 1 <= count) /\
    map fst kv = unique l /\
    forall k,
      match alook kv k with
      | None => ~ In k l
      | Some (i, c) => In k l /\ i = first_index eq_dec l k /\
                       (count_occ eq_dec l k = 1%nat -> c = 1) /\
                       ((2 <= count_occ eq_dec l k)%nat -> 2 <= c)
      end.

  Lemma dwi_invariant l : dwi_inv l (fold_left (dwi_step eq_dec) l (0, [], 0)).
  Proof.
    induction l as [|x l IH] using rev_ind.
    - cbn. repeat split; auto. congruence.
    - rewrite fold_left_app. cbn [fold_left].
      destruct (fold_left (dwi_step eq_dec) l (0, [], 0)) as [[count kv] idx].
      destruct IH as (Hidx & Hcnt & Hkeys & Hlook). unfold dwi_step. rewrite kv_has_look.
      pose proof (Hlook x) as Hx.
      destruct (alook kv x) as [[ix cx]|] eqn:Ex.
      + (* seen before *)
        destruct Hx as (Hin & Hix & _).
        assert (Hl : l <> []) by (intros ->; contradiction).
        specialize (Hcnt Hl).
        unfold dwi_inv. rewrite app_length. cbn [length]. repeat split.
        * lia.
        * intros _. lia.
        * rewrite kv_set_count_keys, Hkeys, unique_snoc. apply inb_iff in Hin. now rewrite Hin.
        * intros k. rewrite kv_set_count_look, Ex. rewrite count_occ_app. cbn [count_occ].
          destruct (eq_dec x k) as [<-|Hne].
          -- assert (1 <= count_occ eq_dec l x)%nat by (pose proof (proj1 (count_occ_In eq_dec l x) Hin); lia).
             repeat split.
             ++ apply in_app_iff. auto.
             ++ now rewrite first_index_app_in.
             ++ lia.
             ++ lia.
          -- specialize (Hlook k). destruct (alook kv k) as [[i c]|].
             ++ destruct Hlook as (Hk & Hi & H1 & H2). rewrite Nat.add_0_r. repeat split; auto.
                ** apply in_app_iff. auto.
                ** now rewrite first_index_app_in.
             ++ rewrite in_app_iff. cbn. intuition.
      + (* new key *)
        unfold dwi_inv. rewrite app_length. cbn [length]. repeat split.
        * lia.
        * intros _. lia.
        * rewrite map_app, Hkeys, unique_snoc. cbn. apply inb_false_iff in Hx. now rewrite Hx.
        * intros k. rewrite alook_app. cbn [alook]. rewrite count_occ_app. cbn [count_occ].
          specialize (Hlook k). destruct (alook kv k) as [[i c]|] eqn:Ek.
          -- destruct Hlook as (Hk & Hi & H1 & H2).
             destruct (eq_dec x k) as [<-|Hne]; [contradiction|]. rewrite Nat.add_0_r.
             repeat split; auto.
             ++ apply in_app_iff. auto.
             ++ now rewrite first_index_app_in.
          -- destruct (eq_dec x k) as [<-|Hne].
             ++ assert (count_occ eq_dec l x = 0%nat) as -> by now apply count_occ_not_In.
                repeat split.
                ** apply in_app_iff. cbn. auto.
                ** rewrite first_index_snoc_new by exact Hx. exact Hidx.
                ** lia.
             ++ rewrite in_app_iff. cbn. intuition.
  Qed.

  Lemma dwi_map_facts l :
    NoDup (map fst (dwi_map eq_dec l)) /\
    forall k i c, In (k, (i, c)) (dwi_map eq_dec l) ->
      In k l /\ i = first_index eq_dec l k /\
      (count_occ eq_dec l k = 1%nat -> c = 1) /\ ((2 <= count_occ eq_dec l k)%nat -> 2 <= c).
  Proof.
    unfold dwi_map. pose proof (dwi_invariant l) as H.
    destruct (fold_left (dwi_step eq_dec) l (0, [], 0)) as [[count kv] idx]. cbn.
    destruct H as (_ & _ & Hkeys & Hlook).
    assert (ND : NoDup (map fst kv)) by (rewrite Hkeys; apply unique_NoDup).
    split; [exact ND|]. intros k i c Hin. apply (In_alook _ _ _ ND) in Hin.
    specialize (Hlook k). now rewrite Hin in Hlook.
  Qed.

  Lemma dwi_map_complete l k :
    In k l -> exists i c, In (k, (i, c)) (dwi_map eq_dec l).
  Proof.
    unfold dwi_map. pose proof (dwi_invariant l) as H.
    destruct (fold_left (dwi_step eq_dec) l (0, [], 0)) as [[count kv] idx]. cbn.
    destruct H as (_ & _ & Hkeys & Hlook). intros Hin.
    assert (ND : NoDup (map fst kv)) by (rewrite Hkeys; apply unique_NoDup).
    specialize (Hlook k). destruct (alook kv k) as [[i c]|] eqn:E; [|contradiction].
    exists i, c. now apply (In_alook _ _ _ ND).
  Qed.

  (* for EVERY order [m] in which the runtime may iterate kvMap: the result is a
     map (no key twice) holding exactly the repeated values with their first index *)
  Lemma duplicate_with_index_spec l m :
    Permutation m (dwi_map eq_dec l) ->
    NoDup (map fst (dwi_of_map m)) /\
    (forall k i, In (k, i) (dwi_of_map m) <->
                 (2 <= count_occ eq_dec l k)%nat /\ i = first_index eq_dec l k).
  Proof.
    intros HP. destruct (dwi_map_facts l) as [ND Hf].
    assert (NDm : NoDup (map fst m)).
    { eapply Permutation_NoDup; [|exact ND]. apply Permutation_map. now symmetry. }
    split.
    - unfold dwi_of_map. rewrite map_map. cbn.
      change (fun x : A * (Z * Z) => fst x) with (@fst A (Z * Z)).
      now apply NoDup_map_fst_filter.
    - intros k i. unfold dwi_of_map. rewrite in_map_iff. split.
      + intros ([k' [i' c]] & E & Hin). cbn in E. injection E as -> ->.
        apply filter_In in Hin as [Hin Hc]. cbn in Hc. apply Z.gtb_lt in Hc.
        apply (Permutation_in _ HP) in Hin. destruct (Hf _ _ _ Hin) as (Hk & Hi & H1 & H2).
        split; [|exact Hi].
        assert (1 <= count_occ eq_dec l k)%nat by (pose proof (proj1 (count_occ_In eq_dec l k) Hk); lia).
        destruct (Nat.eq_dec (count_occ eq_dec l k) 1) as [E1|E1]; [specialize (H1 E1); lia | lia].
      + intros [Hc ->].
        assert (Hk : In k l) by (apply (proj2 (count_occ_In eq_dec l k)); lia).
        destruct (dwi_map_complete l k Hk) as (i & c & Hin).
        destruct (Hf _ _ _ Hin) as (_ & Hi & _ & H2). specialize (H2 Hc).
        exists (k, (i, c)). split; [cbn; now rewrite Hi|].
        apply filter_In. split; [apply (Permutation_in _ (Permutation_sym HP) Hin)|].
        cbn. apply Z.gtb_lt. lia.
  Qed.

  Lemma duplicate_with_index_perm l m :
    Permutation m (dwi_map eq_dec l) ->
    Permutation (dwi_of_map m) (duplicate_with_index_ref eq_dec l).
  Proof.
    intros HP. destruct (duplicate_with_index_spec l m HP) as [ND HI].
    destruct (duplicate_ref_spec l) as [N2 I2].
    apply NoDup_Permutation.
    - eapply NoDup_map_inv. exact ND.
    - unfold duplicate_with_index_ref. apply FinFun.Injective_map_NoDup; [|exact N2].
      intros x y E. now injection E.
    - intros [k i]. rewrite HI. unfold duplicate_with_index_ref. rewrite in_map_iff. split.
      + intros [Hc ->]. exists k. split; [reflexivity|]. now apply I2.
      + intros (x & E & Hin). injection E as -> <-. split; [now apply I2 | reflexivity].
  Qed.

  (* ---------- baseFlatten / Flatten / Union ---------- *)

  Section nest_induction.
    Variable P : nest A -> Prop.
    Hypothesis HL : forall v, P (NLeaf v).
    Hypothesis HS : forall vs, P (NSlice vs).
    Hypothesis HB : P NBad.
    Hypothesis HA : forall cs, Forall P cs -> P (NAny cs).
    Fixpoint nest_ind' (n : nest A) : P n :=
      match n with
      | NLeaf v => HL v
      | NSlice vs => HS vs
      | NBad => HB
      | NAny cs =>
          HA cs ((fix go (cs : list (nest A)) : Forall P cs :=
                    match cs with
                    | [] => Forall_nil P
                    | c :: cs' => Forall_cons c (nest_ind' c) (go cs')
                    end) cs)
      end.
  End nest_induction.

  Lemma leaves_any (cs : list (nest A)) : leaves (NAny cs) = flat_map leaves cs.
  Proof. induction cs as [|c cs IH]; [reflexivity|]. cbn in *. now rewrite IH. Qed.

  Lemma wf_nest_any (cs : list (nest A)) : wf_nest (NAny cs) = forallb wf_nest cs.
  Proof. induction cs as [|c cs IH]; [reflexivity|]. cbn in *. now rewrite IH. Qed.

  Lemma base_flatten_any_cons (acc : list A) c cs :
    base_flatten acc (NAny (c :: cs)) =
    match base_flatten acc c with
    | Ok acc' => base_flatten acc' (NAny cs)
    | _ => Err 1
    end.
  Proof. reflexivity. Qed.

  Lemma base_flatten_spec (n : nest A) : forall acc,
    base_flatten acc n = if wf_nest n then Ok (acc ++ leaves n) else Err 1.
  Proof.
    induction n as [v|vs| |cs IH] using nest_ind'; intros acc; try reflexivity.
    rewrite wf_nest_any, leaves_any. revert acc.
    induction IH as [|c cs Hc _ IHcs]; intros acc.
    - cbn. now rewrite app_nil_r.
    - rewrite base_flatten_any_cons, Hc. cbn [forallb flat_map].
      destruct (wf_nest c); cbn [andb]; [|reflexivity].
      rewrite IHcs. destruct (forallb wf_nest cs); [|reflexivity]. now rewrite app_assoc.
  Qed.

  Lemma flatten_spec (n : nest A) : flatten n = if wf_nest n then Ok (leaves n) else Err 1.
  Proof. unfold flatten. now rewrite base_flatten_spec. Qed.

  Lemma union_spec n : union eq_dec n = if wf_nest n then Ok (unique (leaves n)) else Err 1.
  Proof. unfold union. rewrite base_flatten_spec. now destruct (wf_nest n). Qed.

  Lemma union_is_ref n : union eq_dec n = union_ref eq_dec n.
  Proof. rewrite union_spec. unfold union_ref. now rewrite unique_is_ref. Qed.

  (* malformed nesting, declaratively: a node of a wrong dynamic type somewhere *)
  Inductive has_bad : nest A -> Prop :=
  | hb_here : has_bad NBad
  | hb_child : forall cs c, In c cs -> has_bad c -> has_bad (NAny cs).

  Lemma wf_nest_false_iff n : wf_nest n = false <-> has_bad n.
  Proof.
    induction n as [v|vs| |cs IH] using nest_ind'.
    - split; [discriminate | inversion 1].
    - split; [discriminate | inversion 1].
    - split; [constructor | reflexivity].
    - rewrite wf_nest_any. split.
      + intros H. induction IH as [|c cs Hc _ IHcs]; [discriminate|]. cbn in H.
        destruct (wf_nest c) eqn:E.
        * cbn in H. specialize (IHcs H). inversion IHcs; subst.
          eapply hb_child; [right; eassumption | assumption].
        * eapply hb_child; [now left | now apply Hc].
      + intros H. inversion H as [|cs' c Hin Hb]; subst.
        destruct (forallb wf_nest cs) eqn:E; [|reflexivity].
        rewrite forallb_forall in E. specialize (E c Hin).
        rewrite Forall_forall in IH. apply (IH c Hin) in Hb. congruence.
  Qed.

End Proofs.

(* ---------- session 3 (audit): literal reading of the filtering helpers, dependence on the
   other arguments, exact domain of Union ---------- *)
Section Deepen.
  Context {A : Type} (eq_dec : forall x y : A, {x = y} + {x <> y}).
  Notation unique := (unique eq_dec).

  (* the results of the filtering helpers are Unique of the "literal" list
     (every element of the first argument that passes the test) *)
  Lemma intersection_literal p0 others :
    intersection eq_dec (p0 :: others) = Ok (unique (filter (in_every eq_dec others) p0)).
  Proof. rewrite intersection_spec. now rewrite unique_filter. Qed.

  Lemma intersection_by_literal fn p0 others :
    intersection_by eq_dec fn (p0 :: others) =
    Ok (unique (filter (image_in_every eq_dec fn others) p0)).
  Proof. rewrite intersection_by_spec. now rewrite unique_filter. Qed.

  Lemma difference_by_literal fn s1 s2 :
    difference_by eq_dec fn s1 s2 = unique (filter (fun x => negb (inb eq_dec (fn x) (map fn s2))) s1).
  Proof. rewrite difference_by_spec. now rewrite unique_filter. Qed.

  Lemma difference_literal s1 s2 :
    difference eq_dec s1 s2 = unique (filter (fun x => negb (inb eq_dec x s2)) s1).
  Proof. rewrite difference_spec. now rewrite unique_filter. Qed.

  (* the other arguments matter only through membership *)
  Lemma intersection_others_members p0 others others' :
    (forall x, In x p0 ->
       ((forall p, In p others -> In x p) <-> (forall p, In p others' -> In x p))) ->
    intersection eq_dec (p0 :: others) = intersection eq_dec (p0 :: others').
  Proof.
    intros H. rewrite !intersection_spec. f_equal. apply filter_ext_in. intros x Hx.
    apply (proj1 (unique_In eq_dec _ _)) in Hx. apply eq_iff_eq_true. rewrite !in_every_iff. exact (H x Hx).
  Qed.

  Lemma unique_nil_iff l : unique l = [] <-> l = [].
  Proof.
    split; [|intros ->; reflexivity]. destruct l as [|x l]; [reflexivity|].
    intros E. assert (H : In x (unique (x :: l))) by (apply unique_In; now left).
    rewrite E in H. destruct H.
  Qed.

  Lemma union_ok_iff (n : nest A) r :
    union eq_dec n = Ok r <-> ~ has_bad n /\ r = unique (leaves n).
  Proof.
    rewrite union_spec. destruct (wf_nest n) eqn:E.
    - split.
      + intros H. injection H as <-. split; [|reflexivity].
        intros Hb. apply wf_nest_false_iff in Hb. congruence.
      + intros [_ ->]. reflexivity.
    - split; [discriminate|]. intros [H _]. exfalso. now apply H, wf_nest_false_iff.
  Qed.

  Lemma union_empty_iff (n : nest A) :
    union eq_dec n = Ok [] <-> ~ has_bad n /\ leaves n = [].
  Proof.
    rewrite union_ok_iff. split; intros [H1 H2]; (split; [exact H1|]).
    - now apply unique_nil_iff.
    - rewrite H2. reflexivity.
  Qed.
End Deepen.
