(* C11_ProofsNaN.v — lemmas for the NaN / signed-zero extension of C11 (statements in C11_PropsNaN.v). *)
From Gogu Require Import Base C11_Model C11_Proofs C11_ModelNaN.
From Coq Require Import Permutation.
Local Open Scope Z_scope.

Section PerProofs.
  Context {A : Type} (eq : A -> A -> bool).
  Hypothesis Hper : per eq.

  Let Hsym : forall a b, eq a b = true -> eq b a = true := proj1 Hper.
  Let Htr : forall a b c, eq a b = true -> eq b c = true -> eq a c = true := proj2 Hper.

  Notation gin := (gin eq).
  Notation gcontains := (gcontains eq).
  Notation gunique := (gunique eq).
  Notation gunique_by := (gunique_by eq).
  Notation pairwise_ne := (pairwise_ne eq).
  Notation irr := (irr eq).

  (* ---------- the equality ---------- *)

  Lemma eq_comm a b : eq a b = eq b a.
  Proof.
    destruct (eq a b) eqn:E1, (eq b a) eqn:E2; auto.
    - apply Hsym in E1. congruence.
    - apply Hsym in E2. congruence.
  Qed.

  Lemma eq_refl_l a b : eq a b = true -> eq a a = true.
  Proof. intros H. eapply Htr; [exact H | now apply Hsym]. Qed.

  Lemma eq_refl_r a b : eq a b = true -> eq b b = true.
  Proof. intros H. eapply Htr; [apply Hsym; exact H | exact H]. Qed.

  Lemma eq_irr_l a b : eq a a = false -> eq a b = false.
  Proof. intros H. destruct (eq a b) eqn:E; [|reflexivity]. apply eq_refl_l in E. congruence. Qed.

  Lemma eq_irr_r a b : eq a a = false -> eq b a = false.
  Proof. intros H. rewrite eq_comm. now apply eq_irr_l. Qed.

  (* == elements are interchangeable on either side of == *)
  Lemma eq_compat_r a b c : eq a b = true -> eq c a = eq c b.
  Proof.
    intros H. destruct (eq c a) eqn:E1, (eq c b) eqn:E2; auto.
    - rewrite (Htr _ _ _ E1 H) in E2. discriminate.
    - rewrite (Htr _ _ _ E2 (Hsym _ _ H)) in E1. discriminate.
  Qed.

  Lemma eq_compat_l a b c : eq a b = true -> eq a c = eq b c.
  Proof. intros H. rewrite (eq_comm a c), (eq_comm b c). now apply eq_compat_r. Qed.

  (* ---------- membership ---------- *)

  Lemma gcontains_gin l x : gcontains l x = gin x l.
  Proof. induction l as [|y l IH]; cbn; [reflexivity|]. rewrite IH. now destruct (eq y x). Qed.

  Lemma gin_iff x l : gin x l = true <-> exists y, In y l /\ eq y x = true.
  Proof. unfold C11_ModelNaN.gin. apply existsb_exists. Qed.

  Lemma gin_false_iff x l : gin x l = false <-> forall y, In y l -> eq y x = false.
  Proof.
    split.
    - intros H y Hy. destruct (eq y x) eqn:E; [|reflexivity].
      assert (gin x l = true) by (apply gin_iff; eauto). congruence.
    - intros H. destruct (gin x l) eqn:E; [|reflexivity]. apply gin_iff in E as (y & Hy & Ey).
      rewrite (H y Hy) in Ey. discriminate.
  Qed.

  Lemma gin_app x l1 l2 : gin x (l1 ++ l2) = gin x l1 || gin x l2.
  Proof. apply existsb_app. Qed.

  Lemma gin_cons x y l : gin x (y :: l) = eq y x || gin x l.
  Proof. reflexivity. Qed.

  Lemma gin_snoc x l y : gin x (l ++ [y]) = gin x l || eq y x.
  Proof. rewrite gin_app. cbn. now rewrite orb_false_r. Qed.

  Lemma gin_compat x y l : eq x y = true -> gin x l = gin y l.
  Proof.
    intros H. induction l as [|z l IH]; [reflexivity|]. rewrite !gin_cons, IH.
    now rewrite (eq_compat_r _ _ z H).
  Qed.

  (* a NaN occurs in no slice *)
  Lemma gin_irr x l : eq x x = false -> gin x l = false.
  Proof. intros H. apply gin_false_iff. intros y _. now apply eq_irr_r. Qed.

  Lemma gin_In x l : In x l -> eq x x = true -> gin x l = true.
  Proof. intros H E. apply gin_iff. eauto. Qed.

  Lemma gin_ext x l l' : (forall y, In y l <-> In y l') -> gin x l = gin x l'.
  Proof.
    intros H. destruct (gin x l') eqn:E.
    - apply gin_iff in E as (y & Hy & Ey). apply gin_iff. exists y. split; [now apply H | exact Ey].
    - apply gin_false_iff. intros y Hy. apply (proj1 (gin_false_iff _ _) E). now apply H.
  Qed.

  Lemma gany_eq_gin v values : gany_eq eq v values = gin v values.
  Proof.
    induction values as [|y r IH]; cbn; [reflexivity|]. rewrite IH, (eq_comm v y). now destruct (eq y v).
  Qed.

  Lemma ghas_image_gin fn p item : ghas_image eq fn p item = gin (fn item) (map fn p).
  Proof. induction p as [|y r IH]; cbn; [reflexivity|]. rewrite IH. now destruct (eq (fn y) (fn item)). Qed.

  Lemma gany_eq_by_gin fn v values : gany_eq_by eq fn v values = gin (fn v) (map fn values).
  Proof.
    induction values as [|y r IH]; cbn; [reflexivity|]. rewrite IH, (eq_comm (fn v) (fn y)).
    now destruct (eq (fn y) (fn v)).
  Qed.

  Lemma gin_all_gin_every others x : gin_all eq others x = gin_every eq others x.
  Proof.
    induction others as [|p ps IH]; cbn; [reflexivity|]. rewrite gcontains_gin, IH. now destruct (gin x p).
  Qed.

  Lemma gin_all_by_gimage_in_every fn others x :
    gin_all_by eq fn others x = gimage_in_every eq fn others x.
  Proof.
    induction others as [|p ps IH]; cbn; [reflexivity|].
    rewrite ghas_image_gin, IH. now destruct (gin (fn x) (map fn p)).
  Qed.

  Lemma gin_every_iff others x :
    gin_every eq others x = true <-> forall p, In p others -> exists y, In y p /\ eq y x = true.
  Proof.
    unfold gin_every. rewrite forallb_forall. split; intros H p Hp.
    - apply gin_iff. now apply H.
    - apply gin_iff. now apply H.
  Qed.

  Lemma gimage_in_every_iff fn others x :
    gimage_in_every eq fn others x = true <->
    forall p, In p others -> exists y, In y p /\ eq (fn y) (fn x) = true.
  Proof.
    unfold gimage_in_every. rewrite forallb_forall. split; intros H p Hp.
    - specialize (H p Hp). apply gin_iff in H as (z & Hz & Ez). apply in_map_iff in Hz as (y & <- & Hy). eauto.
    - apply gin_iff. destruct (H p Hp) as (y & Hy & Ey). exists (fn y). split; [now apply in_map | exact Ey].
  Qed.

  Lemma gin_every_compat others x y : eq x y = true -> gin_every eq others x = gin_every eq others y.
  Proof.
    intros H. unfold gin_every. induction others as [|p ps IH]; [reflexivity|]. cbn.
    now rewrite IH, (gin_compat x y p H).
  Qed.

  Lemma gimage_in_every_compat fn others x y :
    respects eq fn -> eq x y = true -> gimage_in_every eq fn others x = gimage_in_every eq fn others y.
  Proof.
    intros Hf H. unfold gimage_in_every. induction others as [|p ps IH]; [reflexivity|]. cbn.
    now rewrite IH, (gin_compat (fn x) (fn y) _ (Hf _ _ H)).
  Qed.

  (* a NaN of the first argument is in no other argument *)
  Lemma gin_every_irr others x : eq x x = false -> others <> [] -> gin_every eq others x = false.
  Proof.
    intros H Hn. destruct others as [|p ps]; [congruence|]. cbn. now rewrite gin_irr.
  Qed.

  (* ---------- pairwise unequal ---------- *)

  Lemma pairwise_ne_snoc l x : pairwise_ne l -> gin x l = false -> pairwise_ne (l ++ [x]).
  Proof.
    induction l as [|y l IH]; cbn [C11_ModelNaN.pairwise_ne app]; intros P Hn.
    - split; [intros ? [] | exact I].
    - destruct P as [P1 P2]. rewrite gin_cons in Hn. apply orb_false_iff in Hn as [E Hn]. split.
      + intros z Hz. apply in_app_iff in Hz as [Hz|[<-|[]]]; [now apply P1 | exact E].
      + now apply IH.
  Qed.

  Lemma pairwise_ne_app_inv l1 l2 :
    pairwise_ne (l1 ++ l2) -> pairwise_ne l1 /\ pairwise_ne l2 /\ forall x y, In x l1 -> In y l2 -> eq x y = false.
  Proof.
    induction l1 as [|a l1 IH]; cbn.
    - intros P. repeat split; [exact P | intros x y []].
    - intros [P1 P2]. destruct (IH P2) as (Q1 & Q2 & Q3). repeat split; auto.
      + intros y Hy. apply P1, in_app_iff. now left.
      + intros x y [<-|Hx] Hy; [apply P1, in_app_iff; now right | now apply Q3].
  Qed.

  Lemma pairwise_ne_filter (p : A -> bool) l : pairwise_ne l -> pairwise_ne (filter p l).
  Proof.
    induction l as [|x l IH]; cbn; [auto|]. intros [P1 P2]. destruct (p x); cbn; [|auto].
    split; [|auto]. intros y Hy. apply filter_In in Hy as [Hy _]. now apply P1.
  Qed.

  Lemma pairwise_ne_subseq s l : subseq s l -> pairwise_ne l -> pairwise_ne s.
  Proof.
    induction 1 as [|x s l H IH|x s l H IH]; cbn; [auto | intros [_ P]; auto|].
    intros [P1 P2]. split; [|auto]. intros y Hy. apply P1. eapply subseq_In; eauto.
  Qed.

  Lemma pairwise_ne_perm l l' : Permutation l l' -> pairwise_ne l -> pairwise_ne l'.
  Proof.
    induction 1 as [|x l l' HP IH|x y l|l l' l'' HP1 IH1 HP2 IH2]; cbn; auto.
    - intros [P1 P2]. split; [|auto]. intros y Hy. apply P1. eapply Permutation_in; [symmetry|]; eauto.
    - intros (P1 & P2 & P3). split; [|split; [|exact P3]].
      + intros z [<-|Hz]; [rewrite eq_comm; apply P1; now left | now apply P2].
      + intros z Hz. apply P1. now right.
  Qed.


  (* ---------- UniqueBy / Unique ---------- *)

  Lemma gunique_is_gunique_by l : gunique l = gunique_by (fun x => x) l.
  Proof. reflexivity. Qed.

  (* the `keys` set holds, up to ==, the images seen so far *)
  Lemma gunique_by_keys fn l : forall x,
    gin x (fst (fold_left (gunique_by_step eq fn) l ([], []))) = gin x (map fn l).
  Proof.
    induction l as [|y l IH] using rev_ind; intros x; [reflexivity|].
    rewrite fold_left_app, map_app. cbn [fold_left map]. rewrite gin_snoc.
    destruct (fold_left (gunique_by_step eq fn) l ([], [])) as [keys res] eqn:E. cbn [fst] in *.
    unfold gunique_by_step. rewrite gcontains_gin.
    destruct (gin (fn y) keys) eqn:C; cbn [fst].
    - rewrite IH. destruct (eq (fn y) x) eqn:Ex; [|now rewrite orb_false_r].
      rewrite orb_true_r. rewrite <- IH, <- (gin_compat _ _ keys Ex). exact C.
    - rewrite gin_cons, IH. apply orb_comm.
  Qed.

  (* the defining law: an element is appended iff its image was not seen before *)
  Lemma gunique_by_snoc fn l x :
    gunique_by fn (l ++ [x]) =
    if gin (fn x) (map fn l) then gunique_by fn l else gunique_by fn l ++ [x].
  Proof.
    unfold C11_ModelNaN.gunique_by. rewrite fold_left_app. cbn [fold_left].
    pose proof (gunique_by_keys fn l (fn x)) as K.
    destruct (fold_left (gunique_by_step eq fn) l ([], [])) as [keys res]. cbn [fst snd] in *.
    unfold gunique_by_step. rewrite gcontains_gin, K. now destruct (gin (fn x) (map fn l)).
  Qed.

  Lemma gunique_snoc l x : gunique (l ++ [x]) = if gin x l then gunique l else gunique l ++ [x].
  Proof. rewrite !gunique_is_gunique_by, gunique_by_snoc, map_id. reflexivity. Qed.

  Lemma gunique_by_subseq fn l : subseq (gunique_by fn l) l.
  Proof.
    induction l as [|x l IH] using rev_ind; [apply subseq_nil|].
    rewrite gunique_by_snoc. destruct (gin _ _).
    - now apply subseq_snoc_skip.
    - now apply subseq_snoc_keep.
  Qed.

  Lemma gunique_subseq l : subseq (gunique l) l.
  Proof. rewrite gunique_is_gunique_by. apply gunique_by_subseq. Qed.

  (* the images of the result are the distinct images of the input, in first-occurrence order *)
  Lemma gunique_by_map fn l : map fn (gunique_by fn l) = gunique (map fn l).
  Proof.
    induction l as [|x l IH] using rev_ind; [reflexivity|].
    rewrite gunique_by_snoc, map_app. cbn [map]. rewrite gunique_snoc.
    destruct (gin (fn x) (map fn l)); [exact IH|]. rewrite map_app, IH. reflexivity.
  Qed.

  Lemma gin_gunique x l : gin x (gunique l) = gin x l.
  Proof.
    induction l as [|y l IH] using rev_ind; [reflexivity|].
    rewrite gunique_snoc, gin_snoc. destruct (gin y l) eqn:E.
    - rewrite IH. destruct (eq y x) eqn:Ex; [|now rewrite orb_false_r].
      rewrite orb_true_r, <- (gin_compat _ _ l Ex). exact E.
    - now rewrite gin_snoc, IH.
  Qed.

  Lemma gunique_pairwise_ne l : pairwise_ne (gunique l).
  Proof.
    induction l as [|y l IH] using rev_ind; [exact I|].
    rewrite gunique_snoc. destruct (gin y l) eqn:E; [exact IH|].
    apply pairwise_ne_snoc; [exact IH|]. now rewrite gin_gunique.
  Qed.

  Lemma gunique_by_pairwise_ne_images fn l : pairwise_ne (map fn (gunique_by fn l)).
  Proof. rewrite gunique_by_map. apply gunique_pairwise_ne. Qed.

  Lemma gunique_by_prefix fn l l' : exists r, gunique_by fn (l ++ l') = gunique_by fn l ++ r.
  Proof.
    induction l' as [|x l' IH] using rev_ind.
    - exists []. now rewrite !app_nil_r.
    - destruct IH as [r IH]. rewrite app_assoc, gunique_by_snoc, IH.
      destruct (gin _ _); [now exists r|]. exists (r ++ [x]). now rewrite app_assoc.
  Qed.

  (* an element is kept iff it stands at a position before which no == image occurs *)
  Lemma gunique_by_first fn l x :
    In x (gunique_by fn l) <-> exists l1 l2, l = l1 ++ x :: l2 /\ gin (fn x) (map fn l1) = false.
  Proof.
    split.
    - induction l as [|y l IH] using rev_ind; [intros []|].
      rewrite gunique_by_snoc. destruct (gin (fn y) (map fn l)) eqn:E.
      + intros H. destruct (IH H) as (l1 & l2 & -> & Hn).
        exists l1, (l2 ++ [y]). split; [now rewrite <- app_assoc|exact Hn].
      + rewrite in_app_iff. intros [H|[<-|[]]].
        * destruct (IH H) as (l1 & l2 & -> & Hn).
          exists l1, (l2 ++ [y]). split; [now rewrite <- app_assoc|exact Hn].
        * exists l, []. split; [reflexivity|exact E].
    - intros (l1 & l2 & -> & Hn).
      replace (l1 ++ x :: l2) with ((l1 ++ [x]) ++ l2) by now rewrite <- app_assoc.
      destruct (gunique_by_prefix fn (l1 ++ [x]) l2) as [r ->].
      rewrite gunique_by_snoc, Hn. rewrite !in_app_iff. cbn. auto.
  Qed.

  Lemma gunique_first l x :
    In x (gunique l) <-> exists l1 l2, l = l1 ++ x :: l2 /\ gin x l1 = false.
  Proof.
    rewrite gunique_is_gunique_by, gunique_by_first. split; intros (l1 & l2 & E & H); exists l1, l2.
    - now rewrite map_id in H.
    - now rewrite map_id.
  Qed.

  (* the cons law: the reference definition *)
  Lemma gunique_by_cons fn x l :
    gunique_by fn (x :: l) = x :: filter (fun y => negb (eq (fn x) (fn y))) (gunique_by fn l).
  Proof.
    induction l as [|y l IH] using rev_ind; [reflexivity|].
    change (x :: l ++ [y]) with ((x :: l) ++ [y]).
    rewrite !gunique_by_snoc, IH. cbn [map]. rewrite gin_cons.
    destruct (eq (fn x) (fn y)) eqn:E; cbn [orb].
    - destruct (gin (fn y) (map fn l)); [reflexivity|].
      rewrite filter_snoc, E. cbn. now rewrite app_nil_r.
    - destruct (gin (fn y) (map fn l)); [reflexivity|].
      rewrite filter_snoc, E. reflexivity.
  Qed.

  Lemma gunique_by_is_ref fn l : gunique_by fn l = gunique_by_ref eq fn l.
  Proof. induction l as [|x l IH]; [reflexivity|]. rewrite gunique_by_cons, IH. reflexivity. Qed.

  Lemma gunique_cons x l : gunique (x :: l) = x :: filter (fun y => negb (eq x y)) (gunique l).
  Proof. rewrite !gunique_is_gunique_by. apply gunique_by_cons. Qed.

  Lemma gunique_is_ref l : gunique l = guniq_ref eq l.
  Proof. induction l as [|x l IH]; [reflexivity|]. rewrite gunique_cons, IH. reflexivity. Qed.

  Lemma gunique_pairwise_id l : pairwise_ne l -> gunique l = l.
  Proof.
    induction l as [|x l IH] using rev_ind; [reflexivity|].
    intros H. apply pairwise_ne_app_inv in H as (H1 & _ & H3).
    rewrite gunique_snoc, IH by exact H1.
    replace (gin x l) with false; [reflexivity|]. symmetry. apply gin_false_iff.
    intros y Hy. apply H3; [exact Hy | now left].
  Qed.

  Lemma gunique_idem l : gunique (gunique l) = gunique l.
  Proof. apply gunique_pairwise_id, gunique_pairwise_ne. Qed.

  (* filtering by a test that cannot tell == elements apart commutes with Unique *)
  Lemma gunique_filter (p : A -> bool) l :
    (forall x y, eq x y = true -> p x = p y) -> gunique (filter p l) = filter p (gunique l).
  Proof.
    intros Hp. induction l as [|x l IH] using rev_ind; [reflexivity|].
    rewrite filter_snoc, gunique_snoc. destruct (p x) eqn:Px.
    - rewrite gunique_snoc, IH.
      replace (gin x (filter p l)) with (gin x l).
      + destruct (gin x l); [reflexivity|]. now rewrite filter_snoc, Px.
      + destruct (gin x l) eqn:E.
        * apply gin_iff in E as (y & Hy & Ey). symmetry. apply gin_iff. exists y. split; [|exact Ey].
          apply filter_In. split; [exact Hy|]. now rewrite (Hp _ _ Ey).
        * symmetry. apply gin_false_iff. intros y Hy. apply filter_In in Hy as [Hy _].
          now apply (proj1 (gin_false_iff _ _) E).
    - rewrite app_nil_r, IH. destruct (gin x l); [reflexivity|].
      now rewrite filter_snoc, Px, app_nil_r.
  Qed.

  (* every NaN of the input is kept, in order: each is its own element *)
  Lemma gunique_irr l : filter irr (gunique l) = filter irr l.
  Proof.
    induction l as [|x l IH] using rev_ind; [reflexivity|].
    rewrite gunique_snoc, !filter_snoc. destruct (gin x l) eqn:E.
    - rewrite IH. apply gin_iff in E as (y & _ & Ey). apply eq_refl_r in Ey.
      unfold C11_ModelNaN.irr. rewrite Ey. cbn. now rewrite app_nil_r.
    - now rewrite filter_snoc, IH.
  Qed.

  Lemma gunique_nil_iff l : gunique l = [] <-> l = [].
  Proof.
    split; [|intros ->; reflexivity]. destruct l as [|x l]; [reflexivity|].
    rewrite gunique_cons. discriminate.
  Qed.

  (* ---------- Without / Difference / DifferenceBy ---------- *)

  Lemma gskip_fold (skip : A -> bool) l st :
    fold_left (fun st v => if skip v then st else gunique_step eq st v) l st =
    fold_left (gunique_step eq) (filter (fun v => negb (skip v)) l) st.
  Proof.
    revert st. induction l as [|x l IH]; intros st; cbn; [reflexivity|].
    destruct (skip x); cbn; apply IH.
  Qed.

  (* literal reading: Unique of the elements that pass the test *)
  Lemma gwithout_literal slice values :
    gwithout eq slice values = gunique (filter (fun x => negb (gin x values)) slice).
  Proof.
    unfold gwithout, C11_ModelNaN.gunique.
    rewrite <- (gskip_fold (fun v => gin v values)). f_equal.
    apply fold_left_ext. intros [keys uni] x. cbn. now rewrite gany_eq_gin.
  Qed.

  Lemma gwithout_spec slice values :
    gwithout eq slice values = filter (fun x => negb (gin x values)) (gunique slice).
  Proof.
    rewrite gwithout_literal. apply gunique_filter. intros x y E. now rewrite (gin_compat _ _ _ E).
  Qed.

  Lemma gdifference_spec s1 s2 :
    gdifference eq s1 s2 = filter (fun x => negb (gin x s2)) (gunique s1).
  Proof. apply gwithout_spec. Qed.

  Lemma gdifference_by_literal fn s1 s2 :
    gdifference_by eq fn s1 s2 = gunique (filter (fun x => negb (gin (fn x) (map fn s2))) s1).
  Proof.
    unfold gdifference_by, C11_ModelNaN.gunique.
    rewrite <- (gskip_fold (fun v => gin (fn v) (map fn s2))). f_equal.
    apply fold_left_ext. intros [keys uni] x. cbn. now rewrite gany_eq_by_gin.
  Qed.

  Lemma gdifference_by_spec fn s1 s2 :
    respects eq fn ->
    gdifference_by eq fn s1 s2 = filter (fun x => negb (gin (fn x) (map fn s2))) (gunique s1).
  Proof.
    intros Hf. rewrite gdifference_by_literal. apply gunique_filter.
    intros x y E. now rewrite (gin_compat _ _ _ (Hf _ _ E)).
  Qed.

  (* ---------- Intersection / IntersectionBy ---------- *)

  Definition ginter_gen (P : A -> bool) (result : list A) (item : A) : list A :=
    if gcontains result item then result else if P item then result ++ [item] else result.

  Lemma ginter_gen_literal P l : fold_left (ginter_gen P) l [] = gunique (filter P l).
  Proof.
    induction l as [|x l IH] using rev_ind; [reflexivity|].
    rewrite fold_left_app. cbn [fold_left]. rewrite IH. unfold ginter_gen.
    rewrite gcontains_gin, gin_gunique, filter_snoc.
    destruct (P x) eqn:Px.
    - now rewrite gunique_snoc.
    - rewrite app_nil_r. now destruct (gin x (filter P l)).
  Qed.

  Lemma gintersection_literal p0 others :
    gintersection eq (p0 :: others) = Ok (gunique (filter (gin_every eq others) p0)).
  Proof.
    cbn. f_equal. rewrite <- ginter_gen_literal. apply fold_left_ext. intros r x.
    unfold ginter_step, ginter_gen. now rewrite gin_all_gin_every.
  Qed.

  Lemma gintersection_spec p0 others :
    gintersection eq (p0 :: others) = Ok (filter (gin_every eq others) (gunique p0)).
  Proof.
    rewrite gintersection_literal. f_equal. apply gunique_filter. intros x y E. now apply gin_every_compat.
  Qed.

  Lemma gintersection_by_literal fn p0 others :
    gintersection_by eq fn (p0 :: others) = Ok (gunique (filter (gimage_in_every eq fn others) p0)).
  Proof.
    cbn. f_equal. rewrite <- ginter_gen_literal. apply fold_left_ext. intros r x.
    unfold ginter_by_step, ginter_gen. now rewrite gin_all_by_gimage_in_every.
  Qed.

  Lemma gintersection_by_spec fn p0 others :
    respects eq fn ->
    gintersection_by eq fn (p0 :: others) = Ok (filter (gimage_in_every eq fn others) (gunique p0)).
  Proof.
    intros Hf. rewrite gintersection_by_literal. f_equal. apply gunique_filter.
    intros x y E. now apply gimage_in_every_compat.
  Qed.

  (* ---------- Union ---------- *)

  Lemma gunion_spec n : gunion eq n = if wf_nest n then Ok (gunique (leaves n)) else Err 1.
  Proof. unfold gunion. rewrite base_flatten_spec. now destruct (wf_nest n). Qed.

  Lemma gunion_is_ref n : gunion eq n = gunion_ref eq n.
  Proof. rewrite gunion_spec. unfold gunion_ref. now rewrite gunique_is_ref. Qed.

  Lemma gunion_ok_iff (n : nest A) r :
    gunion eq n = Ok r <-> ~ has_bad n /\ r = gunique (leaves n).
  Proof.
    rewrite gunion_spec. destruct (wf_nest n) eqn:E.
    - split.
      + intros H. injection H as <-. split; [|reflexivity].
        intros Hb. apply wf_nest_false_iff in Hb. congruence.
      + intros [_ ->]. reflexivity.
    - split; [discriminate|]. intros [H _]. exfalso. now apply H, wf_nest_false_iff.
  Qed.

  (* ---------- counting, last occurrence, first index ---------- *)

  Notation gcount := (gcount eq).
  Notation glast := (glast eq).
  Notation gfirst_index := (gfirst_index eq).

  Lemma gcount_app x l1 l2 : gcount x (l1 ++ l2) = (gcount x l1 + gcount x l2)%nat.
  Proof. unfold C11_ModelNaN.gcount. now rewrite filter_app, app_length. Qed.

  Lemma gcount_snoc x l y : gcount x (l ++ [y]) = (gcount x l + (if eq y x then 1 else 0))%nat.
  Proof. rewrite gcount_app. unfold C11_ModelNaN.gcount. cbn. now destruct (eq y x). Qed.

  Lemma gcount_zero_iff x l : gcount x l = 0%nat <-> gin x l = false.
  Proof.
    unfold C11_ModelNaN.gcount. induction l as [|y l IH]; cbn [filter]; [cbn; tauto|].
    rewrite gin_cons. destruct (eq y x); cbn; [split; discriminate | exact IH].
  Qed.

  Lemma gcount_pos x l : gin x l = true -> (1 <= gcount x l)%nat.
  Proof.
    intros H. destruct (gcount x l) eqn:E; [|lia]. apply gcount_zero_iff in E. congruence.
  Qed.

  Lemma gcount_compat x y l : eq x y = true -> gcount x l = gcount y l.
  Proof.
    intros H. unfold C11_ModelNaN.gcount. f_equal. apply filter_ext. intros a. now apply eq_compat_r.
  Qed.

  (* anything counted at all is an ordinary value *)
  Lemma gcount_ordinary x l : (1 <= gcount x l)%nat -> eq x x = true.
  Proof.
    intros H. destruct (gin x l) eqn:E.
    - apply gin_iff in E as (y & _ & Ey). now apply eq_refl_r in Ey.
    - apply gcount_zero_iff in E. lia.
  Qed.

  Lemma glast_snoc l y x : glast (l ++ [y]) x = if eq y x then y else glast l x.
  Proof. unfold C11_ModelNaN.glast. rewrite fold_left_app. reflexivity. Qed.

  Lemma glast_none l x : gin x l = false -> glast l x = x.
  Proof.
    induction l as [|y l IH] using rev_ind; [reflexivity|].
    rewrite gin_snoc, glast_snoc. intros H. apply orb_false_iff in H as [H1 H2]. now rewrite H2, IH.
  Qed.

  Lemma glast_some l x : gin x l = true -> In (glast l x) l /\ eq (glast l x) x = true.
  Proof.
    induction l as [|y l IH] using rev_ind; [discriminate|].
    rewrite gin_snoc, glast_snoc. intros H. destruct (eq y x) eqn:E.
    - split; [apply in_app_iff; cbn; auto | exact E].
    - rewrite orb_false_r in H. destruct (IH H) as [I1 I2]. split; [apply in_app_iff; auto | exact I2].
  Qed.

  Lemma glast_mem l x : In x l -> In (glast l x) l.
  Proof.
    intros H. destruct (gin x l) eqn:E; [now apply glast_some|]. now rewrite glast_none.
  Qed.

  (* the last occurrence stands for the value it is an occurrence of *)
  Lemma glast_eq_l l x z : eq (glast l x) z = eq x z.
  Proof.
    destruct (gin x l) eqn:E; [|now rewrite glast_none].
    apply eq_compat_l. now apply glast_some.
  Qed.

  Lemma pairwise_ne_map_compat (g : A -> A) l :
    (forall u z, eq (g u) z = eq u z) -> pairwise_ne l -> pairwise_ne (map g l).
  Proof.
    intros Hg. induction l as [|x l IH]; cbn; [auto|]. intros [P1 P2]. split; [|auto].
    intros y Hy. apply in_map_iff in Hy as (u & <- & Hu).
    rewrite Hg, eq_comm, Hg, eq_comm. now apply P1.
  Qed.

  Lemma gin_map_compat (g : A -> A) l v : (forall u z, eq (g u) z = eq u z) -> gin v (map g l) = gin v l.
  Proof.
    intros Hg. induction l as [|x l IH]; [reflexivity|]. cbn [map]. now rewrite !gin_cons, IH, Hg.
  Qed.

  Lemma gfirst_index_range l x :
    (gin x l = false -> gfirst_index l x = -1) /\
    (gin x l = true -> 0 <= gfirst_index l x < Z.of_nat (length l)).
  Proof.
    induction l as [|y l [IH1 IH2]]; cbn [C11_ModelNaN.gfirst_index length].
    - split; [reflexivity | discriminate].
    - rewrite gin_cons. destruct (eq y x); cbn [orb].
      + split; [discriminate | lia].
      + split.
        * intros H. now rewrite (IH1 H).
        * intros H. specialize (IH2 H).
          destruct (gfirst_index l x <? 0) eqn:E; [apply Z.ltb_lt in E; lia | lia].
  Qed.

  Lemma gfirst_index_app_in l l' x : gin x l = true -> gfirst_index (l ++ l') x = gfirst_index l x.
  Proof.
    induction l as [|y l IH]; cbn [C11_ModelNaN.gfirst_index app]; [discriminate|].
    rewrite gin_cons. destruct (eq y x); [reflexivity|]. cbn [orb]. intros H. now rewrite IH.
  Qed.

  Lemma gfirst_index_snoc_hit l y x :
    gin x l = false -> eq y x = true -> gfirst_index (l ++ [y]) x = Z.of_nat (length l).
  Proof.
    induction l as [|z l IH]; cbn [C11_ModelNaN.gfirst_index app length]; intros H E.
    - now rewrite E.
    - rewrite gin_cons in H. apply orb_false_iff in H as [H1 H2]. rewrite H1, (IH H2 E).
      destruct (Z.of_nat (length l) <? 0) eqn:E'; [apply Z.ltb_lt in E'; lia | lia].
  Qed.

  (* the position reported is that of the first occurrence *)
  Lemma gfirst_index_spec l x i :
    gfirst_index l x = Z.of_nat i <->
    exists l1 y l2, l = l1 ++ y :: l2 /\ eq y x = true /\ gin x l1 = false /\ length l1 = i.
  Proof.
    split.
    - revert i. induction l as [|y l IH]; cbn [C11_ModelNaN.gfirst_index]; intros i H; [lia|].
      destruct (eq y x) eqn:E.
      + exists [], y, l. assert (i = O) by lia. subst. auto.
      + destruct (gfirst_index l x <? 0) eqn:E'; [lia|]. apply Z.ltb_ge in E'.
        destruct i as [|i]; [lia|].
        destruct (IH i) as (l1 & y' & l2 & -> & Ey & Hn & Hl); [lia|].
        exists (y :: l1), y', l2. cbn [app length]. rewrite gin_cons, E, Hn. repeat split; auto.
    - intros (l1 & y & l2 & -> & Ey & Hn & <-).
      replace (l1 ++ y :: l2) with ((l1 ++ [y]) ++ l2) by now rewrite <- app_assoc.
      rewrite gfirst_index_app_in by (rewrite gin_snoc, Ey; apply orb_true_r).
      now apply gfirst_index_snoc_hit.
  Qed.

  (* ---------- Duplicate ---------- *)

  Lemma map_id_on {B} (g : B -> B) l : (forall e, In e l -> g e = e) -> map g l = l.
  Proof. intros H. rewrite <- (map_id l) at 2. now apply map_ext_in. Qed.

  Lemma filter_map_swap {B C} (f : B -> C) (p : C -> bool) l :
    filter p (map f l) = map f (filter (fun x => p (f x)) l).
  Proof. induction l as [|x l IH]; cbn; [reflexivity|]. rewrite IH. now destruct (p (f x)). Qed.

  Lemma perm_filter {B} (p : B -> bool) l l' : Permutation l l' -> Permutation (filter p l) (filter p l').
  Proof.
    induction 1 as [|x l l' HP IH|x y l|l l' l'' HP1 IH1 HP2 IH2]; cbn.
    - constructor.
    - destruct (p x); [now constructor | exact IH].
    - destruct (p x), (p y); try apply Permutation_refl. apply perm_swap.
    - now transitivity (filter p l').
  Qed.

  Lemma no_other_match (B : Type) (m : list (A * B)) k v :
    (forall y, In y (map fst m) -> eq k y = false) -> eq k v = true ->
    forall e, In e m -> eq (fst e) v = false.
  Proof.
    intros P E e He. destruct (eq (fst e) v) eqn:E'; [|reflexivity].
    rewrite <- (P (fst e)) by now apply in_map. symmetry. eapply Htr; [exact E | now apply Hsym].
  Qed.

  (* keyCount[v]++ on a present key: the one entry with a == key gets v as its key *)
  Lemma gcount_bump_hit m v :
    pairwise_ne (map fst m) -> gin v (map fst m) = true ->
    gcount_bump eq m v = map (fun e => if eq (fst e) v then (v, snd e + 1) else e) m.
  Proof.
    induction m as [|[k c] m IH]; cbn [map fst C11_ModelNaN.pairwise_ne gcount_bump]; [discriminate|].
    intros [P1 P2]. rewrite gin_cons. destruct (eq k v) eqn:E; cbn [orb snd fst].
    - intros _. f_equal. symmetry. apply map_id_on. intros e He.
      now rewrite (no_other_match _ m k v P1 E e He).
    - intros H. now rewrite IH.
  Qed.

  Lemma gcount_bump_miss m v : gin v (map fst m) = false -> gcount_bump eq m v = m ++ [(v, 1)].
  Proof.
    induction m as [|[k c] m IH]; cbn [map fst gcount_bump app]; [reflexivity|].
    rewrite gin_cons. intros H. apply orb_false_iff in H as [H1 H2]. now rewrite H1, IH.
  Qed.

  (* the counting map after the first loop, entry by entry in insertion order:
     one entry per distinct value, filed under its LAST occurrence *)
  Lemma gkey_count_shape l :
    gkey_count eq l = map (fun x => (glast l x, Z.max 1 (Z.of_nat (gcount x l)))) (gunique l).
  Proof.
    induction l as [|v l IH] using rev_ind; [reflexivity|].
    unfold gkey_count in *. rewrite fold_left_app. cbn [fold_left]. rewrite IH.
    set (f := fun x => (glast l x, Z.max 1 (Z.of_nat (gcount x l)))).
    assert (Hk : map fst (map f (gunique l)) = map (glast l) (gunique l)) by now rewrite map_map.
    assert (Hg : gin v (map (glast l) (gunique l)) = gin v l).
    { rewrite gin_map_compat by (intros; apply glast_eq_l). apply gin_gunique. }
    rewrite gunique_snoc. destruct (gin v l) eqn:E.
    - rewrite gcount_bump_hit.
      + rewrite map_map. apply map_ext_in. intros x Hx. subst f. cbn [fst snd].
        rewrite glast_eq_l, glast_snoc, gcount_snoc, (eq_comm v x).
        destruct (eq x v) eqn:Ex; [|now rewrite Nat.add_0_r].
        assert (1 <= gcount x l)%nat.
        { apply gcount_pos, gin_In; [eapply subseq_In; [apply gunique_subseq | exact Hx] | now apply eq_refl_l in Ex]. }
        f_equal. lia.
      + rewrite Hk. apply pairwise_ne_map_compat; [intros; apply glast_eq_l | apply gunique_pairwise_ne].
      + now rewrite Hk, Hg.
    - rewrite gcount_bump_miss by now rewrite Hk, Hg.
      rewrite map_app. cbn [map]. f_equal.
      + apply map_ext_in. intros x Hx. subst f. cbn beta.
        assert (Hxl : In x l) by (eapply subseq_In; [apply gunique_subseq | exact Hx]).
        assert (Exv : eq x v = false) by (apply (proj1 (gin_false_iff _ _) E); exact Hxl).
        rewrite glast_snoc, gcount_snoc, (eq_comm v x), Exv. now rewrite Nat.add_0_r.
      + rewrite glast_snoc, gcount_snoc, (glast_none l v E).
        apply gcount_zero_iff in E. rewrite E. now destruct (eq v v).
  Qed.

  Lemma gduplicate_exact l : gduplicate eq l = map (glast l) (gduplicate_ref eq l).
  Proof.
    unfold gduplicate, dup_of_map, gduplicate_ref. rewrite gkey_count_shape, filter_map_swap, map_map.
    cbn [fst snd]. rewrite <- gunique_is_ref. f_equal. apply filter_ext. intros x.
    destruct (2 <=? gcount x l)%nat eqn:E.
    - apply Nat.leb_le in E. apply Z.gtb_lt. lia.
    - apply Nat.leb_gt in E. destruct (Z.max 1 (Z.of_nat (gcount x l)) >? 1) eqn:E'; [|reflexivity].
      apply Z.gtb_lt in E'. lia.
  Qed.

  Lemma dup_of_map_perm (m m' : list (A * Z)) :
    Permutation m m' -> Permutation (dup_of_map m) (dup_of_map m').
  Proof. intros H. unfold dup_of_map. now apply Permutation_map, perm_filter. Qed.

  Lemma gduplicate_perm l m :
    Permutation m (gkey_count eq l) -> Permutation (dup_of_map m) (map (glast l) (gduplicate_ref eq l)).
  Proof. intros H. rewrite <- gduplicate_exact. now apply dup_of_map_perm. Qed.

  Lemma gduplicate_ref_facts l :
    pairwise_ne (gduplicate_ref eq l) /\
    subseq (gduplicate_ref eq l) l /\
    (forall x, In x (gduplicate_ref eq l) -> eq x x = true /\ (2 <= gcount x l)%nat) /\
    (forall x, (2 <= gcount x l)%nat -> gin x (gduplicate_ref eq l) = true).
  Proof.
    unfold gduplicate_ref. rewrite <- gunique_is_ref. repeat split.
    - apply pairwise_ne_filter, gunique_pairwise_ne.
    - eapply subseq_trans; [apply subseq_filter | apply gunique_subseq].
    - apply filter_In in H as [_ H]. apply Nat.leb_le in H. apply (gcount_ordinary x l). lia.
    - apply filter_In in H as [_ H]. now apply Nat.leb_le in H.
    - intros x H. assert (Ex : eq x x = true) by (apply (gcount_ordinary x l); lia).
      assert (G : gin x (gunique l) = true).
      { rewrite gin_gunique. destruct (gin x l) eqn:E; [reflexivity|]. apply gcount_zero_iff in E. lia. }
      apply gin_iff in G as (u & Hu & Eu). apply gin_iff. exists u. split; [|exact Eu].
      apply filter_In. split; [exact Hu|]. apply Nat.leb_le. now rewrite (gcount_compat u x l Eu).
  Qed.

  (* what Duplicate returns, for every iteration order of the map *)
  Lemma gduplicate_facts l m :
    Permutation m (gkey_count eq l) ->
    pairwise_ne (dup_of_map m) /\
    (forall x, In x (dup_of_map m) -> In x l /\ eq x x = true /\ (2 <= gcount x l)%nat) /\
    (forall x, (2 <= gcount x l)%nat -> gin x (dup_of_map m) = true).
  Proof.
    intros HP. pose proof (gduplicate_perm l m HP) as P.
    destruct (gduplicate_ref_facts l) as (F1 & F2 & F3 & F4). repeat split.
    - apply (pairwise_ne_perm _ _ (Permutation_sym P)).
      apply pairwise_ne_map_compat; [intros; apply glast_eq_l | exact F1].
    - apply (Permutation_in _ P), in_map_iff in H as (u & <- & Hu).
      apply glast_mem. eapply subseq_In; eauto.
    - apply (Permutation_in _ P), in_map_iff in H as (u & <- & Hu).
      destruct (F3 u Hu) as [E _]. now rewrite glast_eq_l, eq_comm, glast_eq_l.
    - apply (Permutation_in _ P), in_map_iff in H as (u & <- & Hu).
      destruct (F3 u Hu) as [E C]. rewrite (gcount_compat (glast l u) u); [exact C|].
      now rewrite glast_eq_l.
    - intros x H. specialize (F4 x H).
      rewrite <- (gin_map_compat (glast l)) in F4 by (intros; apply glast_eq_l).
      apply gin_iff in F4 as (y & Hy & Ey). apply gin_iff. exists y. split; [|exact Ey].
      apply (Permutation_in _ (Permutation_sym P)), Hy.
  Qed.

  (* ---------- DuplicateWithIndex ---------- *)

  Lemma gkv_has_gin kv v : gkv_has eq kv v = gin v (map fst kv).
  Proof.
    induction kv as [|[k e] kv IH]; cbn [gkv_has map fst]; [reflexivity|].
    rewrite gin_cons, IH. now destruct (eq k v).
  Qed.

  Lemma gkv_set_count_keys kv v c : map fst (gkv_set_count eq kv v c) = map fst kv.
  Proof.
    induction kv as [|[k [i0 c0]] kv IH]; cbn; [reflexivity|].
    destruct (eq k v); cbn; [reflexivity|]. now rewrite IH.
  Qed.

  Lemma gkv_set_count_map kv v c :
    pairwise_ne (map fst kv) ->
    gkv_set_count eq kv v c = map (fun e => if eq (fst e) v then (fst e, (fst (snd e), c)) else e) kv.
  Proof.
    induction kv as [|[k [i0 c0]] kv IH]; cbn [map fst snd C11_ModelNaN.pairwise_ne gkv_set_count]; [reflexivity|].
    intros [P1 P2]. destruct (eq k v) eqn:E.
    - f_equal. symmetry. apply map_id_on. intros e He. now rewrite (no_other_match _ kv k v P1 E e He).
    - now rewrite IH.
  Qed.

  Definition gdwi_ok (l : list A) (e : A * (Z * Z)) : Prop :=
    (eq (fst e) (fst e) = true -> fst (snd e) = gfirst_index l (fst e)) /\
    ((gcount (fst e) l <= 1)%nat -> snd (snd e) = 1) /\
    ((2 <= gcount (fst e) l)%nat -> 2 <= snd (snd e)).

  (* the loop invariant: the SHARED counter is at least 1 once anything was read,
     so a key seen again always gets a count >= 2, whichever key bumped it last *)
  Definition gdwi_inv (l : list A) (st : Z * list (A * (Z * Z)) * Z) : Prop :=
    let '(count, kv, idx) := st in
    idx = Z.of_nat (length l) /\ (l <> [] -> 1 <= count) /\
    map fst kv = gunique l /\ (forall e, In e kv -> gdwi_ok l e).

  Lemma gdwi_ok_keep l x e :
    In (fst e) l -> eq (fst e) x = false -> gdwi_ok l e -> gdwi_ok (l ++ [x]) e.
  Proof.
    intros Hm Ex (O1 & O2 & O3). unfold gdwi_ok. rewrite gcount_snoc, (eq_comm x), Ex, Nat.add_0_r.
    split; [|split; assumption]. intros Ek. rewrite gfirst_index_app_in by now apply gin_In. auto.
  Qed.

  Lemma gdwi_invariant l : gdwi_inv l (fold_left (gdwi_step eq) l (0, [], 0)).
  Proof.
    induction l as [|x l IH] using rev_ind.
    - cbn. split; [reflexivity|]. split; [congruence|]. split; [reflexivity|]. intros e [].
    - rewrite fold_left_app. cbn [fold_left].
      destruct (fold_left (gdwi_step eq) l (0, [], 0)) as [[count kv] idx].
      destruct IH as (Hidx & Hcnt & Hkeys & Hok). unfold gdwi_step.
      rewrite gkv_has_gin, Hkeys, gin_gunique.
      assert (Hmem : forall e, In e kv -> In (fst e) l).
      { intros e He. eapply subseq_In; [apply gunique_subseq|]. rewrite <- Hkeys. now apply in_map. }
      destruct (gin x l) eqn:Ex.
      + (* seen before *)
        assert (Hl : l <> []) by (intros ->; discriminate).
        specialize (Hcnt Hl).
        unfold gdwi_inv. rewrite app_length. cbn [length]. split; [lia|]. split; [intros _; lia|]. split.
        * now rewrite gkv_set_count_keys, Hkeys, gunique_snoc, Ex.
        * rewrite gkv_set_count_map by (rewrite Hkeys; apply gunique_pairwise_ne).
          intros e' He'. apply in_map_iff in He' as (e & <- & He).
          pose proof (Hok e He) as Oe. specialize (Hmem e He).
          destruct (eq (fst e) x) eqn:Ek; [|now apply gdwi_ok_keep].
          destruct Oe as (O1 & O2 & O3). unfold gdwi_ok. cbn [fst snd].
          assert (Ekk : eq (fst e) (fst e) = true) by now apply eq_refl_l in Ek.
          assert (1 <= gcount (fst e) l)%nat by (apply gcount_pos; now apply gin_In).
          rewrite gcount_snoc, (eq_comm x), Ek. split; [|split; intros; lia].
          intros _. rewrite gfirst_index_app_in by now apply gin_In. auto.
      + (* new key *)
        unfold gdwi_inv. rewrite app_length. cbn [length]. split; [lia|]. split; [intros _; lia|]. split.
        * now rewrite map_app, Hkeys, gunique_snoc, Ex.
        * intros e He. apply in_app_iff in He as [He|[<-|[]]].
          -- apply gdwi_ok_keep; auto. apply (proj1 (gin_false_iff _ _) Ex). auto.
          -- unfold gdwi_ok. cbn [fst snd]. rewrite gcount_snoc.
             assert (gcount x l = 0%nat) as -> by now apply gcount_zero_iff.
             split; [|split; [reflexivity|]].
             ++ intros Exx. rewrite (gfirst_index_snoc_hit l x x Ex Exx). exact Hidx.
             ++ destruct (eq x x); cbn; lia.
  Qed.

  Lemma dwi_of_map_shape l (kv : list (A * (Z * Z))) :
    (forall e, In e kv -> gdwi_ok l e) ->
    dwi_of_map kv =
    map (fun x => (x, gfirst_index l x)) (filter (fun x => (2 <=? gcount x l)%nat) (map fst kv)).
  Proof.
    induction kv as [|[k [i c]] kv IH]; intros H; [reflexivity|].
    unfold dwi_of_map in *. cbn [filter map fst snd].
    destruct (H (k, (i, c)) (or_introl Logic.eq_refl)) as (O1 & O2 & O3). cbn [fst snd] in *.
    specialize (IH (fun e He => H e (or_intror He))).
    destruct (2 <=? gcount k l)%nat eqn:E.
    - apply Nat.leb_le in E. specialize (O3 E).
      replace (c >? 1) with true by (symmetry; apply Z.gtb_lt; lia).
      cbn [map fst snd]. rewrite IH. f_equal. f_equal. apply O1. apply (gcount_ordinary k l). lia.
    - apply Nat.leb_gt in E. rewrite O2 by lia. cbn. exact IH.
  Qed.

  (* DuplicateWithIndex, entry by entry in insertion order *)
  Lemma gduplicate_with_index_exact l :
    gduplicate_with_index eq l = gduplicate_with_index_ref eq l.
  Proof.
    unfold gduplicate_with_index, gdwi_map, gduplicate_with_index_ref, gduplicate_ref.
    pose proof (gdwi_invariant l) as H.
    destruct (fold_left (gdwi_step eq) l (0, [], 0)) as [[count kv] idx]. cbn [fst snd].
    destruct H as (_ & _ & Hkeys & Hok). rewrite (dwi_of_map_shape l kv Hok), Hkeys.
    now rewrite gunique_is_ref.
  Qed.

  Lemma dwi_of_map_perm (m m' : list (A * (Z * Z))) :
    Permutation m m' -> Permutation (dwi_of_map m) (dwi_of_map m').
  Proof. intros H. unfold dwi_of_map. now apply Permutation_map, perm_filter. Qed.

  (* for EVERY order in which the runtime may iterate kvMap *)
  Lemma gduplicate_with_index_perm l m :
    Permutation m (gdwi_map eq l) -> Permutation (dwi_of_map m) (gduplicate_with_index_ref eq l).
  Proof.
    intros H. rewrite <- gduplicate_with_index_exact. now apply dwi_of_map_perm.
  Qed.

  (* the loop as found panics exactly when the slice holds a NaN *)
  Lemma gdwi_asfound_fold l : forall st,
    fold_left (gdwi_step_asfound eq) l (Some st) =
    if forallb (ordinary eq) l then Some (fold_left (gdwi_step eq) l st) else None.
  Proof.
    assert (HN : forall l', fold_left (gdwi_step_asfound eq) l' None = None)
      by (induction l'; auto).
    induction l as [|x l IH]; intros [[count kv] idx]; [reflexivity|].
    cbn [fold_left forallb]. unfold gdwi_step_asfound at 2, gdwi_step at 2.
    rewrite !gkv_has_gin, map_app. cbn [map fst]. rewrite gin_snoc. unfold ordinary.
    destruct (gin x (map fst kv)) eqn:E.
    - apply gin_iff in E as (y & _ & Ey). apply eq_refl_r in Ey. rewrite Ey. cbn [andb]. apply IH.
    - cbn [orb]. destruct (eq x x); cbn [andb]; [apply IH | apply HN].
  Qed.

  Lemma gduplicate_with_index_asfound_spec l :
    gduplicate_with_index_asfound eq l =
    if forallb (ordinary eq) l then Ok (gduplicate_with_index eq l) else Panic.
  Proof.
    unfold gduplicate_with_index_asfound, gduplicate_with_index, gdwi_map. rewrite gdwi_asfound_fold.
    destruct (forallb (ordinary eq) l); [|reflexivity].
    now destruct (fold_left (gdwi_step eq) l (0, [], 0)) as [[count kv] idx].
  Qed.

  (* ---------- NaN elements of the results ---------- *)

  Lemma filter_filter_impl {B} (p q : B -> bool) l :
    (forall x, p x = true -> q x = true) -> filter p (filter q l) = filter p l.
  Proof.
    intros H. induction l as [|x l IH]; cbn; [reflexivity|].
    destruct (q x) eqn:Q; cbn; destruct (p x) eqn:P; rewrite ?IH; auto.
    rewrite (H x P) in Q. discriminate.
  Qed.

  Lemma filter_filter_excl {B} (p q : B -> bool) l :
    (forall x, p x = true -> q x = false) -> filter p (filter q l) = [].
  Proof.
    intros H. induction l as [|x l IH]; cbn; [reflexivity|].
    destruct (q x) eqn:Q; cbn; [|exact IH]. destruct (p x) eqn:P; [|exact IH].
    rewrite (H x P) in Q. discriminate.
  Qed.

  Lemma irr_true x : irr x = true -> eq x x = false.
  Proof. unfold C11_ModelNaN.irr. now destruct (eq x x). Qed.

  (* Difference / Without keep every NaN of the first argument *)
  Lemma gdifference_irr s1 s2 : filter irr (gdifference eq s1 s2) = filter irr s1.
  Proof.
    rewrite gdifference_spec, filter_filter_impl; [apply gunique_irr|].
    intros x H. now rewrite gin_irr by now apply irr_true.
  Qed.

  (* Intersection with a further argument keeps no NaN *)
  Lemma gintersection_irr p0 others r :
    others <> [] -> gintersection eq (p0 :: others) = Ok r -> filter irr r = [].
  Proof.
    intros Hn. rewrite gintersection_spec. intros E. injection E as <-. apply filter_filter_excl.
    intros x H. apply gin_every_irr; [now apply irr_true | exact Hn].
  Qed.

  Lemma gintersection_single p0 : gintersection eq [p0] = Ok (gunique p0).
  Proof.
    rewrite gintersection_spec. f_equal. unfold gin_every. cbn.
    induction (gunique p0) as [|x l IH]; cbn; [reflexivity|]. now rewrite IH.
  Qed.

  (* the other arguments matter only through what occurs in them *)
  Lemma gintersection_others_members p0 others others' :
    (forall x, In x p0 -> gin_every eq others x = gin_every eq others' x) ->
    gintersection eq (p0 :: others) = gintersection eq (p0 :: others').
  Proof.
    intros H. rewrite !gintersection_literal. f_equal. f_equal. now apply filter_ext_in.
  Qed.

End PerProofs.

(* ---------- conservativity: at the == of a type with decidable Leibniz equality the
   generic helpers ARE the helpers of C11_Model.v ---------- *)
Section Conservative.
  Context {A : Type} (ed : forall x y : A, {x = y} + {x <> y}).
  Notation dq := (deq ed).

  Lemma deq_true x y : dq x y = true <-> x = y.
  Proof. unfold deq. destruct (ed x y); split; auto; discriminate. Qed.

  Lemma deq_per : per dq.
  Proof.
    split.
    - intros a b H. apply deq_true in H. now apply deq_true.
    - intros a b c H1 H2. apply deq_true in H1, H2. apply deq_true. congruence.
  Qed.

  Lemma deq_reflexive x : dq x x = true.
  Proof. now apply deq_true. Qed.

  Lemma gcontains_deq l x : gcontains dq l x = contains ed l x.
  Proof. induction l as [|y l IH]; cbn; [reflexivity|]. unfold deq at 1. now destruct (ed y x). Qed.

  Lemma gunique_by_deq fn l : gunique_by dq fn l = unique_by ed fn l.
  Proof.
    unfold gunique_by, unique_by. f_equal. apply fold_left_ext. intros [keys res] v. cbn.
    now rewrite gcontains_deq.
  Qed.

  Lemma gunique_deq l : gunique dq l = unique ed l.
  Proof. apply (gunique_by_deq (fun x => x)). Qed.

  Lemma gcount_bump_deq m v : gcount_bump dq m v = count_bump ed m v.
  Proof.
    induction m as [|[k c] m IH]; cbn; [reflexivity|]. unfold deq at 1.
    destruct (ed k v) as [->|]; [reflexivity | now rewrite IH].
  Qed.

  Lemma gkey_count_deq l : gkey_count dq l = key_count ed l.
  Proof. unfold gkey_count, key_count. apply fold_left_ext. intros. apply gcount_bump_deq. Qed.

  Lemma gduplicate_deq l : gduplicate dq l = duplicate ed l.
  Proof. unfold gduplicate, duplicate. now rewrite gkey_count_deq. Qed.

  Lemma gkv_has_deq kv v : gkv_has dq kv v = kv_has ed kv v.
  Proof. induction kv as [|[k e] kv IH]; cbn; [reflexivity|]. unfold deq at 1. now destruct (ed k v). Qed.

  Lemma gkv_set_count_deq kv v c : gkv_set_count dq kv v c = kv_set_count ed kv v c.
  Proof.
    induction kv as [|[k [i0 c0]] kv IH]; cbn; [reflexivity|]. unfold deq at 1.
    destruct (ed k v); [reflexivity | now rewrite IH].
  Qed.

  Lemma gdwi_map_deq l : gdwi_map dq l = dwi_map ed l.
  Proof.
    unfold gdwi_map, dwi_map. f_equal. f_equal. apply fold_left_ext. intros [[count kv] idx] v.
    unfold gdwi_step, dwi_step. now rewrite gkv_has_deq, gkv_set_count_deq.
  Qed.

  Lemma gduplicate_with_index_deq l : gduplicate_with_index dq l = duplicate_with_index ed l.
  Proof. unfold gduplicate_with_index, duplicate_with_index. now rewrite gdwi_map_deq. Qed.

  Lemma gunion_deq n : gunion dq n = union ed n.
  Proof. unfold gunion, union. destruct (base_flatten [] n); auto. now rewrite gunique_deq. Qed.

  Lemma gin_all_deq others x : gin_all dq others x = in_all ed others x.
  Proof. induction others as [|p ps IH]; cbn; [reflexivity|]. now rewrite gcontains_deq, IH. Qed.

  Lemma gintersection_deq ps : gintersection dq ps = intersection ed ps.
  Proof.
    destruct ps as [|p0 others]; [reflexivity|]. cbn. f_equal. apply fold_left_ext. intros r x.
    unfold ginter_step, inter_step. now rewrite gcontains_deq, gin_all_deq.
  Qed.

  Lemma ghas_image_deq fn p x : ghas_image dq fn p x = has_image ed fn p x.
  Proof. induction p as [|y p IH]; cbn; [reflexivity|]. unfold deq at 1. now destruct (ed (fn y) (fn x)). Qed.

  Lemma gin_all_by_deq fn others x : gin_all_by dq fn others x = in_all_by ed fn others x.
  Proof. induction others as [|p ps IH]; cbn; [reflexivity|]. now rewrite ghas_image_deq, IH. Qed.

  Lemma gintersection_by_deq fn ps : gintersection_by dq fn ps = intersection_by ed fn ps.
  Proof.
    destruct ps as [|p0 others]; [reflexivity|]. cbn. f_equal. apply fold_left_ext. intros r x.
    unfold ginter_by_step, inter_by_step. now rewrite gcontains_deq, gin_all_by_deq.
  Qed.

  Lemma gany_eq_deq v values : gany_eq dq v values = any_eq ed v values.
  Proof. induction values as [|y r IH]; cbn; [reflexivity|]. unfold deq at 1. now destruct (ed v y). Qed.

  Lemma gwithout_deq s values : gwithout dq s values = without ed s values.
  Proof.
    unfold gwithout, without. f_equal. apply fold_left_ext. intros [keys uni] v. cbn.
    now rewrite gany_eq_deq, gcontains_deq.
  Qed.

  Lemma gdifference_deq s1 s2 : gdifference dq s1 s2 = difference ed s1 s2.
  Proof. apply gwithout_deq. Qed.

  Lemma gany_eq_by_deq fn v values : gany_eq_by dq fn v values = any_eq_by ed fn v values.
  Proof.
    induction values as [|y r IH]; cbn; [reflexivity|]. unfold deq at 1. now destruct (ed (fn v) (fn y)).
  Qed.

  Lemma gdifference_by_deq fn s1 s2 : gdifference_by dq fn s1 s2 = difference_by ed fn s1 s2.
  Proof.
    unfold gdifference_by, difference_by. f_equal. apply fold_left_ext. intros [keys uni] v. cbn.
    now rewrite gany_eq_by_deq, gcontains_deq.
  Qed.

  (* the specification vocabulary coincides as well *)
  Lemma gin_deq x l : gin dq x l = inb ed x l.
  Proof. rewrite <- (gcontains_gin dq), gcontains_deq. apply contains_inb. Qed.

  Lemma guniq_ref_deq l : guniq_ref dq l = uniq_ref ed l.
  Proof.
    induction l as [|x l IH]; cbn; [reflexivity|]. rewrite IH. f_equal. apply filter_ext. intros y.
    unfold deq. destruct (ed x y) as [E1|N], (ed y x) as [E|N']; cbn; auto; congruence.
  Qed.

  Lemma gcount_deq x l : gcount dq x l = count_occ ed l x.
  Proof.
    unfold gcount. induction l as [|y l IH]; cbn; [reflexivity|]. unfold deq at 1.
    destruct (ed y x); cbn; now rewrite IH.
  Qed.

  Lemma gfirst_index_deq l x : gfirst_index dq l x = first_index ed l x.
  Proof. induction l as [|y l IH]; cbn; [reflexivity|]. unfold deq at 1. rewrite IH. now destruct (ed y x). Qed.

  Lemma glast_deq l x : glast dq l x = x.
  Proof.
    unfold glast. induction l as [|y l IH]; cbn; [reflexivity|]. unfold deq at 2.
    destruct (ed y x) as [->|]; exact IH.
  Qed.
  Lemma pairwise_ne_deq l : pairwise_ne dq l <-> NoDup l.
  Proof.
    induction l as [|y l IH]; cbn; [split; [constructor | auto]|]. split.
    - intros [P1 P2]. constructor; [|now apply IH]. intros Hy. specialize (P1 y Hy).
      rewrite deq_reflexive in P1. discriminate.
    - intros ND. inversion ND as [|? ? Hn ND']; subst. split; [|now apply IH].
      intros z Hz. destruct (dq y z) eqn:E; [|reflexivity]. apply deq_true in E. subst. contradiction.
  Qed.

  Lemma respects_deq (fn : A -> A) : respects dq fn.
  Proof. intros a b E. apply deq_true in E. subst. apply deq_reflexive. Qed.
End Conservative.

(* ---------- the float instance ---------- *)

Lemma feq_per : per feq.
Proof.
  split.
  - intros a b. unfold feq. rewrite (orb_comm (a =? nan_code)).
    destruct (_ || _); [auto|]. now rewrite Z.eqb_sym.
  - intros a b c. unfold feq.
    destruct (a =? nan_code), (b =? nan_code), (c =? nan_code); cbn; try discriminate.
    rewrite !Z.eqb_eq. congruence.
Qed.

Lemma feq_facts :
  feq nan_code nan_code = false /\ feq 0 negz_code = true /\ feq negz_code 0 = true /\ 0 <> negz_code /\
  (forall z, z <> nan_code -> feq z z = true).
Proof.
  repeat split; try reflexivity; try discriminate.
  intros z H. unfold feq. apply Z.eqb_neq in H. rewrite H. cbn. apply Z.eqb_refl.
Qed.

(* key functions of the float instance: Abs maps == codes to == codes, the sign test does not *)
Ltac zb := repeat match goal with
  | H : (_ =? _) = true |- _ => apply Z.eqb_eq in H
  | H : (_ =? _) = false |- _ => apply Z.eqb_neq in H
  | H : (_ <? _) = true |- _ => apply Z.ltb_lt in H
  | H : (_ <? _) = false |- _ => apply Z.ltb_ge in H
  end.

Lemma feq_true_iff a b : feq a b = true <-> a <> nan_code /\ b <> nan_code /\ fnorm a = fnorm b.
Proof.
  unfold feq. destruct (a =? nan_code) eqn:Ea, (b =? nan_code) eqn:Eb; cbn [orb]; zb.
  - split; [discriminate | tauto].
  - split; [discriminate | tauto].
  - split; [discriminate | tauto].
  - rewrite Z.eqb_eq. tauto.
Qed.

Lemma fkey_abs_respects : respects feq (fkey_of 4).
Proof.
  intros x y E. apply feq_true_iff in E as (Hx & Hy & E). apply feq_true_iff.
  unfold fkey_of, fnorm in *. apply Z.eqb_neq in Hx, Hy. rewrite Hx, Hy.
  destruct (x =? negz_code) eqn:X, (y =? negz_code) eqn:Y; zb; subst;
    unfold nan_code, negz_code in *;
    repeat match goal with |- context [?a =? ?b] => destruct (a =? b) eqn:?; zb end; lia.
Qed.

Lemma fkey_sign_not_respects : ~ respects feq (fkey_of 7).
Proof. intros R. specialize (R 0 negz_code Logic.eq_refl). discriminate. Qed.
