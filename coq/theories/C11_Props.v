(* C11_Props.v — property C11 "Set-algebra slice helpers return exact set
   results in first-occurrence order", stated over the model of C11_Model.v
   (the Go code of slice.go after the two repairs of fixes/builder-c11c12).
   Only statements here; every proof is an application of a lemma of
   C11_Proofs.v.  All theorems hold for every element type with decidable
   equality ([T comparable]) and for slices of every length.

   Vocabulary (C11_Model.v): [subseq s l] — s is an order-preserving selection
   from l; [inb x l] — boolean membership; [in_every others x] — x occurs in
   every slice of [others]; [image_in_every fn others x] — every slice of
   [others] holds a value with the image [fn x]; [leaves n] — the left-to-right
   flattening of a nesting, [has_bad n] — some node has a wrong dynamic type;
   [first_index l x] — position of the first occurrence; [count_occ] — number
   of occurrences (standard library). *)

From Gogu Require Import Base C11_Model C11_Proofs.
From Coq Require Import Permutation.
Local Open Scope Z_scope.

Notation dec_eq A := (forall x y : A, {x = y} + {x <> y}).

(* ===== Unique keeps the first occurrence of each distinct value in order ===== *)

(* the defining law, read left to right along the slice: a value is appended
   iff it has not been seen before *)
Theorem C11_unique_law : forall A (ed : dec_eq A) (l : list A) x,
  unique ed [] = [] /\
  unique ed (l ++ [x]) = if inb ed x l then unique ed l else unique ed l ++ [x].
Proof. intros. split; [reflexivity | apply unique_snoc]. Qed.
Print Assumptions C11_unique_law.

(* … equivalently the quadratic reference "x, then the rest without x" *)
Theorem C11_unique_reference : forall A (ed : dec_eq A) (l : list A),
  unique ed l = uniq_ref ed l.
Proof. intros. apply unique_is_ref. Qed.
Print Assumptions C11_unique_reference.

(* … and against the standard library, whose [nodup] keeps LAST occurrences *)
Theorem C11_unique_rev_nodup : forall A (ed : dec_eq A) (l : list A),
  unique ed l = rev (nodup ed (rev l)).
Proof. intros. apply unique_rev_nodup. Qed.
Print Assumptions C11_unique_rev_nodup.

(* no repetition, same members, an order-preserving selection of the input *)
Theorem C11_unique_set : forall A (ed : dec_eq A) (l : list A),
  NoDup (unique ed l) /\ (forall x, In x (unique ed l) <-> In x l) /\ subseq (unique ed l) l.
Proof. intros. split; [apply unique_NoDup|]. split; [intros; apply unique_In | apply unique_subseq]. Qed.
Print Assumptions C11_unique_set.

Theorem C11_unique_idempotent : forall A (ed : dec_eq A) (l : list A),
  unique ed (unique ed l) = unique ed l /\ (NoDup l -> unique ed l = l).
Proof. intros. split; [apply unique_idem | apply unique_NoDup_id]. Qed.
Print Assumptions C11_unique_idempotent.

(* Why "members + order + no repetition" is an EXACT description of the results
   below: a repetition-free selection from a repetition-free list is determined
   by its members. *)
Theorem C11_selection_determined : forall A (l r1 r2 : list A),
  NoDup l -> subseq r1 l -> subseq r2 l -> (forall x, In x r1 <-> In x r2) -> r1 = r2.
Proof. intros A l r1 r2. apply selection_determined. Qed.
Print Assumptions C11_selection_determined.

(* ===== Union of arbitrarily nested slices = Unique of the left-to-right flattening;
         malformed nesting is an error, never a silent empty result ===== *)

Theorem C11_nest_vocabulary : forall A (cs : list (nest A)) (v : A) (vs : list A),
  leaves (NLeaf v) = [v] /\ leaves (NSlice vs) = vs /\ leaves (NAny cs) = flat_map leaves cs /\
  (forall n : nest A, wf_nest n = false <-> has_bad n).
Proof.
  intros. split; [reflexivity|]. split; [reflexivity|]. split; [apply leaves_any|].
  intros. apply wf_nest_false_iff.
Qed.
Print Assumptions C11_nest_vocabulary.

Theorem C11_union_spec : forall A (ed : dec_eq A) (n : nest A),
  ~ has_bad n -> union ed n = Ok (unique ed (leaves n)).
Proof.
  intros A ed n H. rewrite union_spec. destruct (wf_nest n) eqn:E; [reflexivity|].
  exfalso. apply H. now apply wf_nest_false_iff.
Qed.
Print Assumptions C11_union_spec.

Theorem C11_union_error : forall A (ed : dec_eq A) (n : nest A),
  has_bad n -> union ed n = Err 1.
Proof. intros A ed n H. rewrite union_spec. apply wf_nest_false_iff in H. now rewrite H. Qed.
Print Assumptions C11_union_error.

Theorem C11_union_never_panics : forall A (ed : dec_eq A) (n : nest A), union ed n <> Panic.
Proof. intros A ed n. rewrite union_spec. destruct (wf_nest n); discriminate. Qed.
Print Assumptions C11_union_never_panics.

(* the code before  fix: Union returns the flattening error  — (nil, nil) for []any{1, "x"} *)
Theorem C11_union_unrepaired_refuted :
  exists n : nest Z, has_bad n /\ union_unrepaired Z.eq_dec n = Ok [].
Proof.
  exists (NAny [NLeaf 1; NBad]). split; [|reflexivity].
  eapply hb_child; [right; left; reflexivity | constructor].
Qed.
Print Assumptions C11_union_unrepaired_refuted.

(* ===== Intersection: the distinct values of the first argument, in its order,
         that occur in every other argument ===== *)

Theorem C11_intersection_spec : forall A (ed : dec_eq A) (p0 : list A) others,
  intersection ed (p0 :: others) = Ok (filter (in_every ed others) (unique ed p0)).
Proof. intros. apply intersection_spec. Qed.
Print Assumptions C11_intersection_spec.

Theorem C11_intersection_characterised : forall A (ed : dec_eq A) (p0 : list A) others,
  exists r, intersection ed (p0 :: others) = Ok r /\
    NoDup r /\ subseq r (unique ed p0) /\
    (forall x, In x r <-> In x p0 /\ forall p, In p others -> In x p).
Proof.
  intros A ed p0 others. eexists. split; [apply intersection_spec|].
  destruct (filter_unique_characterised ed (in_every ed others) p0) as (H1 & H2 & H3).
  split; [exact H1|]. split; [exact H2|]. intros x. rewrite H3, in_every_iff. reflexivity.
Qed.
Print Assumptions C11_intersection_characterised.

(* no argument at all: params[0] is an index panic (outside the property's domain) *)
Theorem C11_intersection_no_argument : forall A (ed : dec_eq A) (fn : A -> A),
  intersection ed [] = Panic /\ intersection_by ed fn [] = Panic.
Proof. intros. split; reflexivity. Qed.
Print Assumptions C11_intersection_no_argument.

(* ===== Difference / Without: the distinct values of the first argument, in
         order, that do not occur in the second / among the listed values ===== *)

Theorem C11_difference_spec : forall A (ed : dec_eq A) (s1 s2 : list A),
  difference ed s1 s2 = filter (fun x => negb (inb ed x s2)) (unique ed s1).
Proof. intros. apply difference_spec. Qed.
Print Assumptions C11_difference_spec.

Theorem C11_without_spec : forall A (ed : dec_eq A) (slice values : list A),
  without ed slice values = filter (fun x => negb (inb ed x values)) (unique ed slice).
Proof. intros. apply without_spec. Qed.
Print Assumptions C11_without_spec.

Theorem C11_difference_characterised : forall A (ed : dec_eq A) (s1 s2 : list A),
  let r := difference ed s1 s2 in
  r = without ed s1 s2 /\
  NoDup r /\ subseq r (unique ed s1) /\ (forall x, In x r <-> In x s1 /\ ~ In x s2).
Proof.
  intros A ed s1 s2. cbv zeta. split; [reflexivity|]. rewrite difference_spec.
  destruct (filter_unique_characterised ed (fun x => negb (inb ed x s2)) s1) as (H1 & H2 & H3).
  split; [exact H1|]. split; [exact H2|]. intros x. rewrite H3, negb_inb_true. reflexivity.
Qed.
Print Assumptions C11_difference_characterised.

(* ===== Duplicate: exactly the values occurring more than once, each once —
         for EVERY order [m] in which the runtime iterates the counting map ===== *)

Theorem C11_duplicate_spec : forall A (ed : dec_eq A) (l : list A) m,
  Permutation m (key_count ed l) ->
  NoDup (dup_of_map m) /\
  (forall x, In x (dup_of_map m) <-> (2 <= count_occ ed l x)%nat) /\
  Permutation (dup_of_map m) (duplicate_ref ed l).
Proof.
  intros A ed l m H. destruct (duplicate_spec ed l m H) as [H1 H2].
  split; [exact H1|]. split; [exact H2 | now apply duplicate_perm].
Qed.
Print Assumptions C11_duplicate_spec.

(* ===== DuplicateWithIndex: maps each repeated value to its first index — a
         map (no key twice), for every iteration order; the counter shared by
         all keys (slice.go:207) is harmless ===== *)

Theorem C11_duplicate_with_index_spec : forall A (ed : dec_eq A) (l : list A) m,
  Permutation m (dwi_map ed l) ->
  NoDup (map fst (dwi_of_map m)) /\
  (forall k i, In (k, i) (dwi_of_map m) <->
               (2 <= count_occ ed l k)%nat /\ i = first_index ed l k) /\
  Permutation (dwi_of_map m) (duplicate_with_index_ref ed l).
Proof.
  intros A ed l m H. destruct (duplicate_with_index_spec ed l m H) as [H1 H2].
  split; [exact H1|]. split; [exact H2 | now apply duplicate_with_index_perm].
Qed.
Print Assumptions C11_duplicate_with_index_spec.

Theorem C11_first_index_is_first_occurrence : forall A (ed : dec_eq A) (l : list A) x i,
  first_index ed l x = Z.of_nat i <->
  exists l1 l2, l = l1 ++ x :: l2 /\ ~ In x l1 /\ length l1 = i.
Proof. intros. apply first_index_spec. Qed.
Print Assumptions C11_first_index_is_first_occurrence.

(* ===== UniqueBy keeps the first element of each distinct image ===== *)

Theorem C11_unique_by_law : forall A (ed : dec_eq A) (fn : A -> A) (l : list A) x,
  unique_by ed fn [] = [] /\
  unique_by ed fn (l ++ [x]) =
    if inb ed (fn x) (map fn l) then unique_by ed fn l else unique_by ed fn l ++ [x].
Proof. intros. split; [reflexivity | apply unique_by_snoc]. Qed.
Print Assumptions C11_unique_by_law.

Theorem C11_unique_by_reference : forall A (ed : dec_eq A) (fn : A -> A) (l : list A),
  unique_by ed fn l = unique_by_ref ed fn l.
Proof. intros. apply unique_by_is_ref. Qed.
Print Assumptions C11_unique_by_reference.

(* an order-preserving selection whose images are the distinct images of the
   input in first-occurrence order; an element is selected iff no earlier
   element has its image *)
Theorem C11_unique_by_characterised : forall A (ed : dec_eq A) (fn : A -> A) (l : list A),
  subseq (unique_by ed fn l) l /\
  map fn (unique_by ed fn l) = unique ed (map fn l) /\
  NoDup (map fn (unique_by ed fn l)) /\
  (forall x, In x (unique_by ed fn l) <->
             exists l1 l2, l = l1 ++ x :: l2 /\ ~ In (fn x) (map fn l1)).
Proof.
  intros. split; [apply unique_by_subseq|]. split; [apply unique_by_map|].
  split; [apply unique_by_NoDup_images | intros; apply unique_by_first].
Qed.
Print Assumptions C11_unique_by_characterised.

Theorem C11_unique_is_unique_by_id : forall A (ed : dec_eq A) (l : list A),
  unique ed l = unique_by ed (fun x => x) l.
Proof. reflexivity. Qed.
Print Assumptions C11_unique_is_unique_by_id.

(* ===== IntersectionBy / DifferenceBy: the (distinct) elements of the first
         argument, in order, whose image does / does not occur among the images
         of every other / the other argument ===== *)

Theorem C11_intersection_by_spec : forall A (ed : dec_eq A) (fn : A -> A) (p0 : list A) others,
  intersection_by ed fn (p0 :: others) = Ok (filter (image_in_every ed fn others) (unique ed p0)).
Proof. intros. apply intersection_by_spec. Qed.
Print Assumptions C11_intersection_by_spec.

Theorem C11_intersection_by_characterised : forall A (ed : dec_eq A) (fn : A -> A) (p0 : list A) others,
  exists r, intersection_by ed fn (p0 :: others) = Ok r /\
    NoDup r /\ subseq r (unique ed p0) /\
    (forall x, In x r <-> In x p0 /\ forall p, In p others -> In (fn x) (map fn p)).
Proof.
  intros A ed fn p0 others. eexists. split; [apply intersection_by_spec|].
  destruct (filter_unique_characterised ed (image_in_every ed fn others) p0) as (H1 & H2 & H3).
  split; [exact H1|]. split; [exact H2|]. intros x. rewrite H3, image_in_every_iff.
  split; intros [Hx H]; (split; [exact Hx|]); intros p Hp.
  - destruct (H p Hp) as (y & Hy & E). rewrite <- E. now apply in_map.
  - specialize (H p Hp). apply in_map_iff in H as (y & E & Hy). eauto.
Qed.
Print Assumptions C11_intersection_by_characterised.

Theorem C11_intersection_by_id : forall A (ed : dec_eq A) (params : list (list A)),
  intersection_by ed (fun x => x) params = intersection ed params.
Proof.
  intros A ed [|p0 others]; [reflexivity|]. rewrite intersection_by_spec, intersection_spec.
  f_equal. apply filter_ext. intros x. unfold image_in_every, in_every.
  induction others as [|p ps IH]; cbn; [reflexivity|]. now rewrite map_id, IH.
Qed.
Print Assumptions C11_intersection_by_id.

Theorem C11_difference_by_spec : forall A (ed : dec_eq A) (fn : A -> A) (s1 s2 : list A),
  difference_by ed fn s1 s2 = filter (fun x => negb (inb ed (fn x) (map fn s2))) (unique ed s1).
Proof. intros. apply difference_by_spec. Qed.
Print Assumptions C11_difference_by_spec.

Theorem C11_difference_by_characterised : forall A (ed : dec_eq A) (fn : A -> A) (s1 s2 : list A),
  let r := difference_by ed fn s1 s2 in
  NoDup r /\ subseq r (unique ed s1) /\
  (forall x, In x r <-> In x s1 /\ ~ In (fn x) (map fn s2)).
Proof.
  intros A ed fn s1 s2. cbv zeta. rewrite difference_by_spec.
  destruct (filter_unique_characterised ed (fun x => negb (inb ed (fn x) (map fn s2))) s1) as (H1 & H2 & H3).
  split; [exact H1|]. split; [exact H2|]. intros x. rewrite H3, negb_inb_true. reflexivity.
Qed.
Print Assumptions C11_difference_by_characterised.

(* the code before  fix: IntersectionBy de-duplicates on the item  looks the
   IMAGE up among the result VALUES: an element whose image equals an earlier
   result value is lost, and a value is repeated when its image differs from it *)
Theorem C11_intersection_by_unrepaired_refuted :
  let fn := fun x => Z.rem x 2 in
  intersection_by_unrepaired Z.eq_dec fn [[1; 3; 5]; [7]] = Ok [1] /\
  intersection_by Z.eq_dec fn [[1; 3; 5]; [7]] = Ok [1; 3; 5] /\
  intersection_by_unrepaired Z.eq_dec fn [[2; 2]] = Ok [2; 2] /\
  intersection_by Z.eq_dec fn [[2; 2]] = Ok [2].
Proof. repeat split; reflexivity. Qed.
Print Assumptions C11_intersection_by_unrepaired_refuted.

(* ===== no result contains a value absent from the first input ===== *)

Theorem C11_results_within_first_argument :
  forall A (ed : dec_eq A) (fn : A -> A) (s1 s2 : list A) others (n : nest A) r x,
  (In x (unique ed s1) -> In x s1) /\
  (In x (unique_by ed fn s1) -> In x s1) /\
  (union ed n = Ok r -> In x r -> In x (leaves n)) /\
  (intersection ed (s1 :: others) = Ok r -> In x r -> In x s1) /\
  (intersection_by ed fn (s1 :: others) = Ok r -> In x r -> In x s1) /\
  (In x (difference ed s1 s2) -> In x s1) /\
  (In x (difference_by ed fn s1 s2) -> In x s1) /\
  (In x (without ed s1 s2) -> In x s1) /\
  (forall m, Permutation m (key_count ed s1) -> In x (dup_of_map m) -> In x s1) /\
  (forall m i, Permutation m (dwi_map ed s1) -> In (x, i) (dwi_of_map m) -> In x s1).
Proof.
  intros A ed fn s1 s2 others n r x.
  assert (F : forall P, In x (filter P (unique ed s1)) -> In x s1).
  { intros P H. apply filter_In in H as [H _]. now apply (unique_In ed). }
  repeat split.
  - apply unique_In.
  - apply unique_by_incl.
  - rewrite union_spec. destruct (wf_nest n); [|discriminate]. intros E. injection E as <-. apply unique_In.
  - rewrite intersection_spec. intros E. injection E as <-. apply F.
  - rewrite intersection_by_spec. intros E. injection E as <-. apply F.
  - rewrite difference_spec. apply F.
  - rewrite difference_by_spec. apply F.
  - rewrite without_spec. apply F.
  - intros m HP H. apply (duplicate_spec ed s1 m HP) in H. apply (count_occ_In ed). lia.
  - intros m i HP H. apply (duplicate_with_index_spec ed s1 m HP) in H as [H _].
    apply (count_occ_In ed). lia.
Qed.
Print Assumptions C11_results_within_first_argument.

(* ===== the plain functions never repeat a value (nor do, after the repair, the …By ones) ===== *)

Theorem C11_results_never_repeat :
  forall A (ed : dec_eq A) (fn : A -> A) (s1 s2 : list A) others (n : nest A) r,
  NoDup (unique ed s1) /\
  (union ed n = Ok r -> NoDup r) /\
  (intersection ed (s1 :: others) = Ok r -> NoDup r) /\
  NoDup (difference ed s1 s2) /\
  NoDup (without ed s1 s2) /\
  (forall m, Permutation m (key_count ed s1) -> NoDup (dup_of_map m)) /\
  (intersection_by ed fn (s1 :: others) = Ok r -> NoDup r) /\
  NoDup (difference_by ed fn s1 s2).
Proof.
  intros A ed fn s1 s2 others n r.
  assert (F : forall P, NoDup (filter P (unique ed s1))) by (intros; apply NoDup_filter, unique_NoDup).
  repeat split.
  - apply unique_NoDup.
  - rewrite union_spec. destruct (wf_nest n); [|discriminate]. intros E. injection E as <-. apply unique_NoDup.
  - rewrite intersection_spec. intros E. injection E as <-. apply F.
  - rewrite difference_spec. apply F.
  - rewrite without_spec. apply F.
  - intros m HP. apply (duplicate_spec ed s1 m HP).
  - rewrite intersection_by_spec. intros E. injection E as <-. apply F.
  - rewrite difference_by_spec. apply F.
Qed.
Print Assumptions C11_results_never_repeat.

(* ===== the model agrees with the reference definitions the property checker
         [c11_holds] (C11_Wire.v) judges observations against ===== *)

Theorem C11_model_is_reference :
  forall A (ed : dec_eq A) (fn : A -> A) (s1 s2 : list A) (params : list (list A)) (n : nest A),
  unique ed s1 = uniq_ref ed s1 /\
  unique_by ed fn s1 = unique_by_ref ed fn s1 /\
  union ed n = union_ref ed n /\
  intersection ed params = intersection_ref ed params /\
  intersection_by ed fn params = intersection_by_ref ed fn params /\
  difference ed s1 s2 = difference_ref ed s1 s2 /\
  difference_by ed fn s1 s2 = difference_by_ref ed fn s1 s2 /\
  without ed s1 s2 = difference_ref ed s1 s2 /\
  Permutation (duplicate ed s1) (duplicate_ref ed s1) /\
  Permutation (duplicate_with_index ed s1) (duplicate_with_index_ref ed s1).
Proof.
  intros A ed fn s1 s2 params n. repeat split.
  - apply unique_is_ref.
  - apply unique_by_is_ref.
  - apply union_is_ref.
  - destruct params as [|p0 others]; [reflexivity|].
    rewrite intersection_spec. unfold intersection_ref. now rewrite unique_is_ref.
  - destruct params as [|p0 others]; [reflexivity|].
    rewrite intersection_by_spec. unfold intersection_by_ref. now rewrite unique_is_ref.
  - rewrite difference_spec. unfold difference_ref. now rewrite unique_is_ref.
  - rewrite difference_by_spec. unfold difference_by_ref. now rewrite unique_is_ref.
  - rewrite without_spec. unfold difference_ref. now rewrite unique_is_ref.
  - apply duplicate_perm. apply Permutation_refl.
  - apply duplicate_with_index_perm. apply Permutation_refl.
Qed.
Print Assumptions C11_model_is_reference.

(* non-vacuity: the hypotheses above are met by concrete, non-trivial inputs
   (an iteration order that differs from the insertion order; a nesting with
   and without a wrong-typed node), and the model computes the expected answers *)
Example C11_examples :
  unique Z.eq_dec [2; 1; 2; 3; 1] = [2; 1; 3] /\
  unique_by Z.eq_dec (fun x => Z.rem x 2) [2; 1; 4; 3] = [2; 1] /\
  union Z.eq_dec (NAny [NLeaf 1; NAny [NSlice [2; 1]; NAny [NLeaf 3]]; NSlice [2; 4]]) = Ok [1; 2; 3; 4] /\
  ~ has_bad (NAny [NLeaf 1; NSlice [2; 1]]) /\ has_bad (NAny [NAny [NLeaf 1; NBad]]) /\
  intersection Z.eq_dec [[1; 2; 1; 3]; [3; 1]; [1; 3; 5]] = Ok [1; 3] /\
  difference Z.eq_dec [1; 2; 1; 3; 2] [2] = [1; 3] /\
  key_count Z.eq_dec [1; 2; 2; 3; 1] = [(1, 2); (2, 2); (3, 1)] /\
  Permutation [(3, 1); (2, 2); (1, 2)] (key_count Z.eq_dec [1; 2; 2; 3; 1]) /\
  dup_of_map [(3, 1); (2, 2); (1, 2)] = [2; 1] /\
  dwi_map Z.eq_dec [1; 2; 2; 1; 3] = [(1, (0, 3)); (2, (1, 2)); (3, (4, 1))] /\
  duplicate_with_index Z.eq_dec [1; 2; 2; 1; 3] = [(1, 0); (2, 1)].
Proof.
  repeat split; try reflexivity.
  - intros H. inversion H as [|cs c Hin Hb]; subst.
    destruct Hin as [<-|[<-|[]]]; inversion Hb.
  - eapply hb_child; [left; reflexivity|]. eapply hb_child; [right; left; reflexivity | constructor].
  - cbn. apply Permutation_sym. apply Permutation_rev with (l := [(1, 2); (2, 2); (3, 1)]).
Qed.

(* ================= added by the session-3 audit ================= *)

(* ===== how the "…By" clause is read: DISTINCT VALUES, not distinct images ===== *)

Theorem C11_by_results_are_unique_of_literal_reading :
  forall A (ed : dec_eq A) (fn : A -> A) (p0 s2 : list A) others,
  intersection_by ed fn (p0 :: others) =
    Ok (unique ed (filter (fun x => image_in_every ed fn others x) p0)) /\
  difference_by ed fn p0 s2 =
    unique ed (filter (fun x => negb (inb ed (fn x) (map fn s2))) p0) /\
  intersection ed (p0 :: others) = Ok (unique ed (filter (in_every ed others) p0)) /\
  difference ed p0 s2 = unique ed (filter (fun x => negb (inb ed x s2)) p0) /\
  (NoDup p0 ->
     intersection_by ed fn (p0 :: others) = Ok (filter (image_in_every ed fn others) p0) /\
     difference_by ed fn p0 s2 = filter (fun x => negb (inb ed (fn x) (map fn s2))) p0).
Proof.
  intros A ed fn p0 s2 others.
  split; [apply intersection_by_literal|]. split; [apply difference_by_literal|].
  split; [apply intersection_literal|]. split; [apply difference_literal|].
  intros ND. rewrite intersection_by_spec, difference_by_spec, (unique_NoDup_id ed p0 ND). now split.
Qed.
Print Assumptions C11_by_results_are_unique_of_literal_reading.

Example C11_by_values_not_images :
  let fn := fun x => Z.rem x 2 in
  (* two different values with one image are BOTH kept; a repeated value is kept once *)
  intersection_by Z.eq_dec fn [[1; 3; 1; 5; 3]; [7]] = Ok [1; 3; 5] /\
  difference_by Z.eq_dec fn [1; 3; 1; 2; 5; 3] [4] = [1; 3; 5] /\
  (* … whereas UniqueBy keeps one element per image *)
  unique_by Z.eq_dec fn [1; 3; 1; 2; 5; 3] = [1; 2].
Proof. repeat split; reflexivity. Qed.

(* ===== the order is the first argument's; the other arguments only matter as sets ===== *)

Theorem C11_intersection_order_is_first_arguments :
  forall A (ed : dec_eq A) (p0 : list A) others others',
  (exists r, intersection ed (p0 :: others) = Ok r /\ subseq r p0) /\
  ((forall x, In x p0 ->
      ((forall p, In p others -> In x p) <-> (forall p, In p others' -> In x p))) ->
   intersection ed (p0 :: others) = intersection ed (p0 :: others')).
Proof.
  intros A ed p0 others others'. split.
  - eexists. split; [apply intersection_spec|].
    eapply subseq_trans; [apply subseq_filter | apply unique_subseq].
  - apply intersection_others_members.
Qed.
Print Assumptions C11_intersection_order_is_first_arguments.

Example C11_intersection_shorter_later_argument :
  intersection Z.eq_dec [[1; 2; 3; 2]; [3; 1]] = Ok [1; 3] /\
  intersection Z.eq_dec [[1; 2; 3; 2]; [1; 3]] = Ok [1; 3] /\
  intersection Z.eq_dec [[3; 2; 1]; [1; 3]; [3; 3; 1; 1; 9]] = Ok [3; 1] /\
  intersection_by Z.eq_dec (fun x => Z.quot x 2) [[5; 2; 7]; [6; 4]] = Ok [5; 7].
Proof. repeat split; reflexivity. Qed.

(* ===== Union: Ok exactly on well-formed nestings; an empty result only when there is no leaf ===== *)

Theorem C11_union_ok_iff : forall A (ed : dec_eq A) (n : nest A) r,
  (union ed n = Ok r <-> ~ has_bad n /\ r = unique ed (leaves n)) /\
  (union ed n = Ok [] <-> ~ has_bad n /\ leaves n = []).
Proof. intros. split; [apply union_ok_iff | apply union_empty_iff]. Qed.
Print Assumptions C11_union_ok_iff.

Example C11_union_error_at_depth :
  (* the wrong-typed node is the LAST leaf of a depth-3 nesting: everything gathered so far is discarded *)
  union Z.eq_dec (NAny [NLeaf 1; NAny [NSlice [2]; NAny [NLeaf 3; NBad]]]) = Err 1 /\
  has_bad (NAny [NLeaf 1; NAny [NSlice [2]; NAny [NLeaf 3; NBad]]]) /\
  union_unrepaired Z.eq_dec (NAny [NLeaf 1; NAny [NSlice [2]; NAny [NLeaf 3; NBad]]]) = Ok [] /\
  union Z.eq_dec (NAny [NAny []; NSlice []]) = Ok [] /\ ~ has_bad (NAny [NAny []; NSlice [] : nest Z]).
Proof.
  repeat split; try reflexivity.
  - eapply hb_child; [right; left; reflexivity|].
    eapply hb_child; [right; left; reflexivity|].
    eapply hb_child; [right; left; reflexivity | constructor].
  - intros H. inversion H as [|cs c Hin Hb]; subst.
    destruct Hin as [<-|[<-|[]]]; inversion Hb as [|cs' c' Hin' Hb']; subst. destruct Hin'.
Qed.
