(* C11_PropsNaN.v — property C11 for element types whose `==` is not the identity
   of values: float64, where NaN != NaN and +0 == -0 (C11_ModelNaN.v).  Only
   statements here; every proof is an application of lemmas of C11_ProofsNaN.v.

   Every theorem is for ALL element types A, ALL [eq : A -> A -> bool] that are
   symmetric and transitive ([per eq] — nothing else is assumed: not reflexive,
   not "== implies identical"), all slices / tuples / nestings of every length.
   The clauses are read in the `==` sense:
     * "x occurs in l"  = some element of l is == to x           ([gin x l]);
     * an element with x != x (a NaN) therefore occurs in NO slice, not even the
       one it stands in, and is == to no other element: each NaN is a distinct
       value of its own — it is never a repetition, never in an intersection
       with another slice, never removed by Difference/Without;
     * +0 and -0 are ONE value with two representatives; "the first occurrence"
       is that very element (sign included), and the theorems are equalities of
       lists of elements, so they fix which representative comes back;
     * "never repeats a value" = no two positions hold == elements ([pairwise_ne]).
   Vocabulary (C11_ModelNaN.v): [guniq_ref], [gin_every], [gimage_in_every],
   [gcount], [gfirst_index], [glast], [irr] (x != x), [respects] (a callback that
   maps == elements to == images), [subseq], [has_bad], [leaves] as in part 1. *)

From Gogu Require Import Base C11_Model C11_Proofs C11_ModelNaN C11_ProofsNaN.
From Coq Require Import Permutation.
Local Open Scope Z_scope.

Notation dec_eq A := (forall x y : A, {x = y} + {x <> y}).

(* ===== the equality that is assumed, and what follows from it ===== *)

(* reflexivity holds exactly on the elements that are == to something; an
   element that is not == to itself is == to nothing; == elements cannot be told
   apart by == *)
Theorem C11_nan_equality : forall A (eq : A -> A -> bool), per eq ->
  (forall a b, eq a b = eq b a) /\
  (forall a b, eq a b = true -> eq a a = true /\ eq b b = true) /\
  (forall a b, eq a a = false -> eq a b = false /\ eq b a = false) /\
  (forall a b c, eq a b = true -> eq a c = eq b c /\ eq c a = eq c b).
Proof.
  intros A eq H. split; [apply (eq_comm eq H)|]. split; [|split].
  - intros a b E. split; [exact (eq_refl_l eq H a b E) | exact (eq_refl_r eq H a b E)].
  - intros a b E. split; [exact (eq_irr_l eq H a b E) | exact (eq_irr_r eq H a b E)].
  - intros a b c E. split; [exact (eq_compat_l eq H a b c E) | exact (eq_compat_r eq H a b c E)].
Qed.
Print Assumptions C11_nan_equality.

(* both intended instances meet the assumption: Go's == on float64 (as codes:
   NaN != NaN, +0 == -0 although the codes differ), and the == of every type
   with decidable Leibniz equality (ints, strings), which is also reflexive *)
Theorem C11_nan_instances :
  per feq /\ feq nan_code nan_code = false /\ feq 0 negz_code = true /\ 0 <> negz_code /\
  (forall z, z <> nan_code -> feq z z = true) /\
  (forall A (ed : dec_eq A), per (deq ed) /\ (forall x y, deq ed x y = true <-> x = y)).
Proof.
  destruct feq_facts as (F1 & F2 & _ & F4 & F5).
  split; [exact feq_per|]. split; [exact F1|]. split; [exact F2|]. split; [exact F4|]. split; [exact F5|].
  intros A ed. split; [apply deq_per | apply deq_true].
Qed.
Print Assumptions C11_nan_instances.

(* ===== Contains ===== *)

Theorem C11_nan_contains : forall A (eq : A -> A -> bool) (l : list A) x, per eq ->
  (gcontains eq l x = true <-> exists y, In y l /\ eq y x = true) /\
  (eq x x = false -> gcontains eq l x = false) /\
  (eq x x = true -> In x l -> gcontains eq l x = true).
Proof.
  intros A eq l x H. rewrite (gcontains_gin eq). split; [apply gin_iff|]. split.
  - apply (gin_irr eq H).
  - intros E I. now apply gin_In.
Qed.
Print Assumptions C11_nan_contains.

(* ===== Unique keeps the first occurrence of each distinct value in order ===== *)

(* the defining law: an element is appended iff nothing == to it was seen before
   — so a NaN is always appended, and of +0, -0 the one that comes first *)
Theorem C11_nan_unique_law : forall A (eq : A -> A -> bool) (l : list A) x, per eq ->
  gunique eq [] = [] /\
  gunique eq (l ++ [x]) = if gin eq x l then gunique eq l else gunique eq l ++ [x].
Proof. intros A eq l x H. split; [reflexivity | now apply gunique_snoc]. Qed.
Print Assumptions C11_nan_unique_law.

Theorem C11_nan_unique_reference : forall A (eq : A -> A -> bool) (l : list A), per eq ->
  gunique eq l = guniq_ref eq l.
Proof. intros. now apply gunique_is_ref. Qed.
Print Assumptions C11_nan_unique_reference.

(* no two == elements, an order-preserving selection of the input, the same
   values occur, an element is kept iff it stands where nothing == came before,
   and every NaN of the input is there (as many, in the same order) *)
Theorem C11_nan_unique_set : forall A (eq : A -> A -> bool) (l : list A), per eq ->
  pairwise_ne eq (gunique eq l) /\ subseq (gunique eq l) l /\
  (forall x, gin eq x (gunique eq l) = gin eq x l) /\
  (forall x, In x (gunique eq l) <-> exists l1 l2, l = l1 ++ x :: l2 /\ gin eq x l1 = false) /\
  filter (irr eq) (gunique eq l) = filter (irr eq) l.
Proof.
  intros A eq l H. split; [now apply gunique_pairwise_ne|]. split; [now apply gunique_subseq|].
  split; [intros; now apply gin_gunique|]. split; [intros; now apply gunique_first | now apply gunique_irr].
Qed.
Print Assumptions C11_nan_unique_set.

Theorem C11_nan_unique_idempotent : forall A (eq : A -> A -> bool) (l : list A), per eq ->
  gunique eq (gunique eq l) = gunique eq l /\ (pairwise_ne eq l -> gunique eq l = l).
Proof. intros A eq l H. split; [now apply gunique_idem | now apply gunique_pairwise_id]. Qed.
Print Assumptions C11_nan_unique_idempotent.

(* ===== Union = Unique of the left-to-right flattening; malformed nesting is an error ===== *)

Theorem C11_nan_union_spec : forall A (eq : A -> A -> bool) (n : nest A) r, per eq ->
  (gunion eq n = gunion_ref eq n) /\
  (gunion eq n = Ok r <-> ~ has_bad n /\ r = gunique eq (leaves n)) /\
  (has_bad n -> gunion eq n = Err 1) /\
  gunion eq n <> Panic.
Proof.
  intros A eq n r H. split; [now apply gunion_is_ref|]. split; [now apply gunion_ok_iff|].
  rewrite (gunion_spec eq). split.
  - intros Hb. apply wf_nest_false_iff in Hb. now rewrite Hb.
  - destruct (wf_nest n); discriminate.
Qed.
Print Assumptions C11_nan_union_spec.

(* ===== Intersection: the distinct values of the first argument, in its order, that
   occur in every other argument ===== *)

Theorem C11_nan_intersection_spec : forall A (eq : A -> A -> bool) (p0 : list A) others, per eq ->
  gintersection eq (p0 :: others) = Ok (filter (gin_every eq others) (guniq_ref eq p0)) /\
  gintersection eq (p0 :: others) = Ok (gunique eq (filter (gin_every eq others) p0)) /\
  gintersection eq (@nil (list A)) = Panic.
Proof.
  intros A eq p0 others H. split; [|split; [now apply gintersection_literal | reflexivity]].
  rewrite <- (gunique_is_ref eq H). now apply gintersection_spec.
Qed.
Print Assumptions C11_nan_intersection_spec.

Theorem C11_nan_intersection_characterised :
  forall A (eq : A -> A -> bool) (p0 : list A) others r, per eq ->
  gintersection eq (p0 :: others) = Ok r ->
  pairwise_ne eq r /\ subseq r p0 /\
  (forall x, In x r <->
     (exists l1 l2, p0 = l1 ++ x :: l2 /\ gin eq x l1 = false) /\
     (forall p, In p others -> exists y, In y p /\ eq y x = true)) /\
  (* a NaN is in no other slice *)
  (others <> [] -> filter (irr eq) r = []) /\
  (others = [] -> r = gunique eq p0).
Proof.
  intros A eq p0 others r H E. pose proof E as E0.
  rewrite (gintersection_spec eq H) in E. injection E as <-. split; [|split; [|split; [|split]]].
  - apply pairwise_ne_filter, (gunique_pairwise_ne eq H).
  - eapply subseq_trans; [apply subseq_filter | now apply gunique_subseq].
  - intros x. rewrite filter_In, (gunique_first eq H), (gin_every_iff eq). reflexivity.
  - intros Hn. exact (gintersection_irr eq H p0 others _ Hn E0).
  - intros ->. rewrite (gintersection_single eq H) in E0. now injection E0 as <-.
Qed.
Print Assumptions C11_nan_intersection_characterised.

(* the order is the first argument's; the other arguments matter only through what
   occurs in them (reorder, shorten, duplicate them, swap +0 for -0) *)
Theorem C11_nan_intersection_order_is_first_arguments :
  forall A (eq : A -> A -> bool) (p0 : list A) others others', per eq ->
  (forall x, In x p0 -> gin_every eq others x = gin_every eq others' x) ->
  gintersection eq (p0 :: others) = gintersection eq (p0 :: others').
Proof. intros A eq p0 others others' H. now apply gintersection_others_members. Qed.
Print Assumptions C11_nan_intersection_order_is_first_arguments.

(* ===== Difference / Without ===== *)

Theorem C11_nan_difference_spec : forall A (eq : A -> A -> bool) (s1 s2 : list A), per eq ->
  gdifference eq s1 s2 = gdifference_ref eq s1 s2 /\
  gwithout eq s1 s2 = gdifference_ref eq s1 s2 /\
  gdifference eq s1 s2 = gunique eq (filter (fun x => negb (gin eq x s2)) s1).
Proof.
  intros A eq s1 s2 H. unfold gdifference_ref. rewrite <- (gunique_is_ref eq H).
  split; [now apply gdifference_spec|]. split; [now apply gwithout_spec | now apply gwithout_literal].
Qed.
Print Assumptions C11_nan_difference_spec.

Theorem C11_nan_difference_characterised : forall A (eq : A -> A -> bool) (s1 s2 : list A), per eq ->
  pairwise_ne eq (gdifference eq s1 s2) /\ subseq (gdifference eq s1 s2) s1 /\
  (forall x, In x (gdifference eq s1 s2) <->
     (exists l1 l2, s1 = l1 ++ x :: l2 /\ gin eq x l1 = false) /\ gin eq x s2 = false) /\
  (* every NaN of the first argument stays: it occurs in no second argument *)
  filter (irr eq) (gdifference eq s1 s2) = filter (irr eq) s1.
Proof.
  intros A eq s1 s2 H. split; [|split; [|split]].
  - rewrite (gdifference_spec eq H). apply pairwise_ne_filter, (gunique_pairwise_ne eq H).
  - rewrite (gdifference_spec eq H). eapply subseq_trans; [apply subseq_filter | now apply gunique_subseq].
  - intros x. rewrite (gdifference_spec eq H), filter_In, (gunique_first eq H), negb_true_iff. reflexivity.
  - now apply gdifference_irr.
Qed.
Print Assumptions C11_nan_difference_characterised.

(* ===== Duplicate: exactly the values occurring more than once, each once ===== *)

(* for EVERY iteration order m of the counting map.  The map files a value under
   its LAST occurrence (keyCount[v]++ rewrites the stored key), so of +0, -0 the
   last one comes back; a NaN is counted once per occurrence and never returned *)
Theorem C11_nan_duplicate_spec : forall A (eq : A -> A -> bool) (l : list A) m, per eq ->
  Permutation m (gkey_count eq l) ->
  Permutation (dup_of_map m) (map (glast eq l) (gduplicate_ref eq l)) /\
  pairwise_ne eq (dup_of_map m) /\
  (forall x, In x (dup_of_map m) -> In x l /\ eq x x = true /\ (2 <= gcount eq x l)%nat) /\
  (forall x, (2 <= gcount eq x l)%nat -> gin eq x (dup_of_map m) = true).
Proof.
  intros A eq l m H HP. split; [now apply gduplicate_perm | now apply gduplicate_facts].
Qed.
Print Assumptions C11_nan_duplicate_spec.

(* the reference [gduplicate_ref] and the representative [glast] *)
Theorem C11_nan_duplicate_reference : forall A (eq : A -> A -> bool) (l : list A), per eq ->
  pairwise_ne eq (gduplicate_ref eq l) /\ subseq (gduplicate_ref eq l) l /\
  (forall x, In x (gduplicate_ref eq l) -> eq x x = true /\ (2 <= gcount eq x l)%nat) /\
  (forall x, (2 <= gcount eq x l)%nat -> gin eq x (gduplicate_ref eq l) = true) /\
  (forall x, In x l -> In (glast eq l x) l /\ (forall z, eq (glast eq l x) z = eq x z)) /\
  (forall x y, glast eq (l ++ [y]) x = if eq y x then y else glast eq l x) /\
  gkey_count eq l = map (fun x => (glast eq l x, Z.max 1 (Z.of_nat (gcount eq x l)))) (gunique eq l).
Proof.
  intros A eq l H. destruct (gduplicate_ref_facts eq H l) as (F1 & F2 & F3 & F4).
  split; [exact F1|]. split; [exact F2|]. split; [exact F3|]. split; [exact F4|].
  split; [|split; [intros x y; apply glast_snoc | now apply gkey_count_shape]].
  intros x Hx. split; [now apply glast_mem | intros z; now apply glast_eq_l].
Qed.
Print Assumptions C11_nan_duplicate_reference.

(* ===== DuplicateWithIndex maps each repeated value to its first index ===== *)

(* for EVERY iteration order m of kvMap; the key is the FIRST occurrence *)
Theorem C11_nan_duplicate_with_index_spec : forall A (eq : A -> A -> bool) (l : list A) m, per eq ->
  Permutation m (gdwi_map eq l) ->
  Permutation (dwi_of_map m) (gduplicate_with_index_ref eq l) /\
  gduplicate_with_index eq l = map (fun x => (x, gfirst_index eq l x)) (gduplicate_ref eq l).
Proof.
  intros A eq l m H HP. split; [now apply gduplicate_with_index_perm | now apply gduplicate_with_index_exact].
Qed.
Print Assumptions C11_nan_duplicate_with_index_spec.

Theorem C11_nan_first_index_is_first_occurrence : forall A (eq : A -> A -> bool) (l : list A) x i, per eq ->
  (gfirst_index eq l x = Z.of_nat i <->
   exists l1 y l2, l = l1 ++ y :: l2 /\ eq y x = true /\ gin eq x l1 = false /\ length l1 = i) /\
  (gin eq x l = false -> gfirst_index eq l x = -1) /\
  (gin eq x l = true -> 0 <= gfirst_index eq l x < Z.of_nat (length l)).
Proof.
  intros A eq l x i H. split; [now apply gfirst_index_spec | now apply gfirst_index_range].
Qed.
Print Assumptions C11_nan_first_index_is_first_occurrence.

(* the loop as found in /repo before 1b07b96 (kvMap[v] = make([]int, 2); kvMap[v][0] = idx):
   it panics exactly on the slices that hold a NaN, and is right on the others *)
Theorem C11_nan_duplicate_with_index_asfound_refuted :
  (forall A (eq : A -> A -> bool) (l : list A), per eq ->
     gduplicate_with_index_asfound eq l =
     if forallb (ordinary eq) l then Ok (gduplicate_with_index eq l) else Panic) /\
  gduplicate_with_index_asfound feq [nan_code] = Panic /\
  gduplicate_with_index feq [nan_code] = [] /\
  gduplicate_with_index_asfound feq [1; 1; nan_code] = Panic /\
  gduplicate_with_index feq [1; 1; nan_code] = [(1, 0)].
Proof.
  split; [intros; now apply gduplicate_with_index_asfound_spec|]. repeat split; reflexivity.
Qed.
Print Assumptions C11_nan_duplicate_with_index_asfound_refuted.

(* ===== UniqueBy keeps the first element of each distinct image ===== *)

Theorem C11_nan_unique_by_law : forall A (eq : A -> A -> bool) (fn : A -> A) (l : list A) x, per eq ->
  gunique_by eq fn [] = [] /\
  gunique_by eq fn (l ++ [x]) =
    if gin eq (fn x) (map fn l) then gunique_by eq fn l else gunique_by eq fn l ++ [x].
Proof. intros A eq fn l x H. split; [reflexivity | now apply gunique_by_snoc]. Qed.
Print Assumptions C11_nan_unique_by_law.

(* ... an element whose image is NaN is always kept (each NaN image is distinct) *)
Theorem C11_nan_unique_by_characterised : forall A (eq : A -> A -> bool) (fn : A -> A) (l : list A), per eq ->
  gunique_by eq fn l = gunique_by_ref eq fn l /\
  subseq (gunique_by eq fn l) l /\
  map fn (gunique_by eq fn l) = gunique eq (map fn l) /\
  pairwise_ne eq (map fn (gunique_by eq fn l)) /\
  (forall x, In x (gunique_by eq fn l) <->
     exists l1 l2, l = l1 ++ x :: l2 /\ gin eq (fn x) (map fn l1) = false) /\
  gunique eq l = gunique_by eq (fun x => x) l.
Proof.
  intros A eq fn l H. split; [now apply gunique_by_is_ref|]. split; [now apply gunique_by_subseq|].
  split; [now apply gunique_by_map|]. split; [now apply gunique_by_pairwise_ne_images|].
  split; [intros; now apply gunique_by_first | reflexivity].
Qed.
Print Assumptions C11_nan_unique_by_characterised.

(* ===== IntersectionBy / DifferenceBy =====
   The code tests an element first and de-duplicates (on the VALUE) afterwards:
   the result is Unique of the literal list "every element of the first argument
   whose image does / does not occur among the images of ...", for EVERY callback.
   For a callback that maps == elements to == images this is "the distinct values
   of the first argument whose image passes", as for the plain helpers.  A
   callback that tells +0 from -0 (math.Signbit, 1/x) makes the two differ:
   DifferenceBy([+0 -0], [1], sign) = [-0]. *)

Theorem C11_nan_by_spec : forall A (eq : A -> A -> bool) (fn : A -> A) (p0 s2 : list A) others, per eq ->
  gintersection_by eq fn (p0 :: others) = gintersection_by_ref eq fn (p0 :: others) /\
  gdifference_by eq fn p0 s2 = gdifference_by_ref eq fn p0 s2 /\
  gintersection_by eq fn (@nil (list A)) = Panic /\
  (respects eq fn ->
     gintersection_by eq fn (p0 :: others) = Ok (filter (gimage_in_every eq fn others) (guniq_ref eq p0)) /\
     gdifference_by eq fn p0 s2 = filter (fun x => negb (gin eq (fn x) (map fn s2))) (guniq_ref eq p0)).
Proof.
  intros A eq fn p0 s2 others H. unfold gintersection_by_ref, gdifference_by_ref.
  rewrite <- !(gunique_is_ref eq H).
  split; [now apply gintersection_by_literal|]. split; [now apply gdifference_by_literal|].
  split; [reflexivity|]. intros Hf. split; [now apply gintersection_by_spec | now apply gdifference_by_spec].
Qed.
Print Assumptions C11_nan_by_spec.

Theorem C11_nan_by_characterised : forall A (eq : A -> A -> bool) (fn : A -> A) (p0 s2 : list A) others r, per eq ->
  gintersection_by eq fn (p0 :: others) = Ok r ->
  pairwise_ne eq r /\ subseq r p0 /\
  (forall x, In x r -> forall p, In p others -> exists y, In y p /\ eq (fn y) (fn x) = true) /\
  pairwise_ne eq (gdifference_by eq fn p0 s2) /\ subseq (gdifference_by eq fn p0 s2) p0 /\
  (forall x, In x (gdifference_by eq fn p0 s2) -> forall y, In y s2 -> eq (fn y) (fn x) = false).
Proof.
  intros A eq fn p0 s2 others r H E. rewrite (gintersection_by_literal eq H) in E. injection E as <-.
  rewrite (gdifference_by_literal eq H).
  split; [now apply gunique_pairwise_ne|]. split.
  { eapply subseq_trans; [now apply gunique_subseq | apply subseq_filter]. }
  split.
  { intros x Hx. apply (subseq_In _ _ _ (gunique_subseq eq H _)), filter_In in Hx as [_ Hx].
    now apply (gimage_in_every_iff eq). }
  split; [now apply gunique_pairwise_ne|]. split.
  { eapply subseq_trans; [now apply gunique_subseq | apply subseq_filter]. }
  intros x Hx y Hy. apply (subseq_In _ _ _ (gunique_subseq eq H _)), filter_In in Hx as [_ Hx].
  apply negb_true_iff in Hx. apply (proj1 (gin_false_iff eq _ _) Hx). now apply in_map.
Qed.
Print Assumptions C11_nan_by_characterised.

(* the literal reading and "distinct values first" really differ for a callback that
   tells +0 from -0 — and the code follows the literal one *)
Theorem C11_nan_by_sign_sensitive_callback :
  ~ respects feq (fkey_of 7) /\ respects feq (fkey_of 4) /\
  gdifference_by feq (fkey_of 7) [0; negz_code] [1] = [negz_code] /\
  filter (fun x => negb (gin feq (fkey_of 7 x) (map (fkey_of 7) [1]))) (guniq_ref feq [0; negz_code]) = [] /\
  gintersection_by feq (fkey_of 7) [[0; negz_code]; [-1]] = Ok [negz_code].
Proof.
  split; [exact fkey_sign_not_respects|]. split; [exact fkey_abs_respects|]. repeat split; reflexivity.
Qed.
Print Assumptions C11_nan_by_sign_sensitive_callback.

(* ===== no result contains a value absent from the first input; the helpers never
   repeat a value ===== *)

Theorem C11_nan_results_within_first_argument :
  forall A (eq : A -> A -> bool) (fn : A -> A) (p0 s2 : list A) others (n : nest A) m mi r, per eq ->
  subseq (gunique eq p0) p0 /\ subseq (gunique_by eq fn p0) p0 /\
  subseq (gdifference eq p0 s2) p0 /\ subseq (gwithout eq p0 s2) p0 /\ subseq (gdifference_by eq fn p0 s2) p0 /\
  (gintersection eq (p0 :: others) = Ok r -> subseq r p0) /\
  (gintersection_by eq fn (p0 :: others) = Ok r -> subseq r p0) /\
  (gunion eq n = Ok r -> subseq r (leaves n)) /\
  (Permutation m (gkey_count eq p0) -> forall x, In x (dup_of_map m) -> In x p0) /\
  (Permutation mi (gdwi_map eq p0) -> forall x i, In (x, i) (dwi_of_map mi) -> In x p0).
Proof.
  intros A eq fn p0 s2 others n m mi r H.
  assert (SF : forall P l, subseq (gunique eq (filter P l)) l).
  { intros P l. eapply subseq_trans; [now apply gunique_subseq | apply subseq_filter]. }
  split; [now apply gunique_subseq|]. split; [now apply gunique_by_subseq|].
  split; [rewrite (gwithout_literal eq H); apply SF|].
  split; [rewrite (gwithout_literal eq H); apply SF|].
  split; [rewrite (gdifference_by_literal eq H); apply SF|].
  split; [rewrite (gintersection_literal eq H); intros E; injection E as <-; apply SF|].
  split; [rewrite (gintersection_by_literal eq H); intros E; injection E as <-; apply SF|].
  split.
  { intros E. apply (gunion_ok_iff eq) in E as [_ ->]. now apply gunique_subseq. }
  split.
  { intros HP x Hx. now apply (gduplicate_facts eq H p0 m HP). }
  intros HP x i Hx. apply (Permutation_in _ (gduplicate_with_index_perm eq H p0 mi HP)) in Hx.
  unfold gduplicate_with_index_ref in Hx. apply in_map_iff in Hx as (u & E & Hu). injection E as <- _.
  destruct (gduplicate_ref_facts eq H p0) as (_ & S & _). eapply subseq_In; eauto.
Qed.
Print Assumptions C11_nan_results_within_first_argument.

Theorem C11_nan_results_never_repeat :
  forall A (eq : A -> A -> bool) (fn : A -> A) (p0 s2 : list A) others (n : nest A) m mi r, per eq ->
  pairwise_ne eq (gunique eq p0) /\
  pairwise_ne eq (gdifference eq p0 s2) /\ pairwise_ne eq (gwithout eq p0 s2) /\
  pairwise_ne eq (gdifference_by eq fn p0 s2) /\
  (gintersection eq (p0 :: others) = Ok r -> pairwise_ne eq r) /\
  (gintersection_by eq fn (p0 :: others) = Ok r -> pairwise_ne eq r) /\
  (gunion eq n = Ok r -> pairwise_ne eq r) /\
  (Permutation m (gkey_count eq p0) -> pairwise_ne eq (dup_of_map m)) /\
  (Permutation mi (gdwi_map eq p0) -> pairwise_ne eq (map fst (dwi_of_map mi))).
Proof.
  intros A eq fn p0 s2 others n m mi r H.
  split; [now apply gunique_pairwise_ne|].
  split; [rewrite (gwithout_literal eq H); now apply gunique_pairwise_ne|].
  split; [rewrite (gwithout_literal eq H); now apply gunique_pairwise_ne|].
  split; [rewrite (gdifference_by_literal eq H); now apply gunique_pairwise_ne|].
  split; [rewrite (gintersection_literal eq H); intros E; injection E as <-; now apply gunique_pairwise_ne|].
  split; [rewrite (gintersection_by_literal eq H); intros E; injection E as <-; now apply gunique_pairwise_ne|].
  split.
  { intros E. apply (gunion_ok_iff eq) in E as [_ ->]. now apply gunique_pairwise_ne. }
  split.
  { intros HP. now apply (gduplicate_facts eq H p0 m HP). }
  intros HP. apply (pairwise_ne_perm eq H (map fst (gduplicate_with_index_ref eq p0))).
  - apply Permutation_map, Permutation_sym. now apply gduplicate_with_index_perm.
  - unfold gduplicate_with_index_ref. rewrite map_map. cbn [fst]. rewrite map_id.
    now apply (gduplicate_ref_facts eq H p0).
Qed.
Print Assumptions C11_nan_results_never_repeat.

(* ===== part 1 is the instance without NaN: at the == of a type with decidable
   Leibniz equality every generic helper EQUALS the helper of C11_Model.v, and the
   specification vocabulary coincides — so the theorems of C11_Props.v and the
   ones above are about the same code ===== *)

Theorem C11_nan_conservative :
  forall A (ed : dec_eq A) (fn : A -> A) (s1 s2 : list A) (params : list (list A)) (n : nest A) x,
  gcontains (deq ed) s1 x = contains ed s1 x /\
  gunique (deq ed) s1 = unique ed s1 /\
  gunique_by (deq ed) fn s1 = unique_by ed fn s1 /\
  gunion (deq ed) n = union ed n /\
  gintersection (deq ed) params = intersection ed params /\
  gintersection_by (deq ed) fn params = intersection_by ed fn params /\
  gdifference (deq ed) s1 s2 = difference ed s1 s2 /\
  gdifference_by (deq ed) fn s1 s2 = difference_by ed fn s1 s2 /\
  gwithout (deq ed) s1 s2 = without ed s1 s2 /\
  gkey_count (deq ed) s1 = key_count ed s1 /\ gduplicate (deq ed) s1 = duplicate ed s1 /\
  gdwi_map (deq ed) s1 = dwi_map ed s1 /\ gduplicate_with_index (deq ed) s1 = duplicate_with_index ed s1 /\
  gduplicate_with_index_asfound (deq ed) s1 = Ok (duplicate_with_index ed s1).
Proof.
  intros A ed fn s1 s2 params n x.
  split; [apply gcontains_deq|]. split; [apply gunique_deq|]. split; [apply gunique_by_deq|].
  split; [apply gunion_deq|]. split; [apply gintersection_deq|]. split; [apply gintersection_by_deq|].
  split; [apply gdifference_deq|]. split; [apply gdifference_by_deq|]. split; [apply gwithout_deq|].
  split; [apply gkey_count_deq|]. split; [apply gduplicate_deq|]. split; [apply gdwi_map_deq|].
  split; [apply gduplicate_with_index_deq|].
  rewrite (gduplicate_with_index_asfound_spec _ (deq_per ed)), gduplicate_with_index_deq.
  replace (forallb (ordinary (deq ed)) s1) with true; [reflexivity|].
  symmetry. apply forallb_forall. intros y _. apply deq_reflexive.
Qed.
Print Assumptions C11_nan_conservative.

Theorem C11_nan_conservative_spec : forall A (ed : dec_eq A) (l : list A) x,
  gin (deq ed) x l = inb ed x l /\
  guniq_ref (deq ed) l = uniq_ref ed l /\
  gcount (deq ed) x l = count_occ ed l x /\
  gfirst_index (deq ed) l x = first_index ed l x /\
  glast (deq ed) l x = x /\
  (pairwise_ne (deq ed) l <-> NoDup l) /\
  (forall fn : A -> A, respects (deq ed) fn) /\
  irr (deq ed) x = false.
Proof.
  intros A ed l x.
  split; [apply gin_deq|]. split; [apply guniq_ref_deq|]. split; [apply gcount_deq|].
  split; [apply gfirst_index_deq|]. split; [apply glast_deq|]. split; [|split].
  - apply pairwise_ne_deq.
  - apply respects_deq.
  - unfold irr. now rewrite deq_reflexive.
Qed.
Print Assumptions C11_nan_conservative_spec.

(* ===== the checker judges against the specification: the reference functions that
   [c11_holds] dispatches to at ty = 3 (C11_Wire.v) are what the model computes
   (Duplicate: up to the representative, which [c11_holds] normalises) ===== *)

Theorem C11_nan_model_is_reference :
  forall A (eq : A -> A -> bool) (fn : A -> A) (s1 s2 : list A) (params : list (list A)) (n : nest A), per eq ->
  gunique eq s1 = guniq_ref eq s1 /\
  gunique_by eq fn s1 = gunique_by_ref eq fn s1 /\
  gunion eq n = gunion_ref eq n /\
  gintersection eq params = gintersection_ref eq params /\
  gintersection_by eq fn params = gintersection_by_ref eq fn params /\
  gdifference eq s1 s2 = gdifference_ref eq s1 s2 /\
  gdifference_by eq fn s1 s2 = gdifference_by_ref eq fn s1 s2 /\
  gwithout eq s1 s2 = gdifference_ref eq s1 s2 /\
  gduplicate eq s1 = map (glast eq s1) (gduplicate_ref eq s1) /\
  gduplicate_with_index eq s1 = gduplicate_with_index_ref eq s1.
Proof.
  intros A eq fn s1 s2 params n H.
  split; [now apply gunique_is_ref|]. split; [now apply gunique_by_is_ref|]. split; [now apply gunion_is_ref|].
  split.
  { destruct params as [|p0 others]; [reflexivity|]. apply (C11_nan_intersection_spec A eq p0 others H). }
  split.
  { destruct params as [|p0 others]; [reflexivity|]. apply (C11_nan_by_spec A eq fn p0 s2 others H). }
  split; [apply (C11_nan_difference_spec A eq s1 s2 H)|].
  split; [apply (C11_nan_by_spec A eq fn s1 s2 [] H)|].
  split; [apply (C11_nan_difference_spec A eq s1 s2 H)|].
  split; [now apply gduplicate_exact | now apply gduplicate_with_index_exact].
Qed.
Print Assumptions C11_nan_model_is_reference.

(* non-vacuity: a float64 slice with two NaNs and both zeros through every helper *)
Example C11_nan_examples :
  let N := nan_code in let nz := negz_code in
  gunique feq [N; 1; N; 0; nz; 1] = [N; 1; N; 0] /\
  gunique feq [nz; 0] = [nz] /\
  gunique_by feq (fkey_of 3) [0; nz; 1; N; N] = [0; 1; N; N] /\
  gunique_by feq (fkey_of 5) [1; 1; 2] = [1; 1; 2] /\
  gunion feq (NAny [NSlice [N; nz]; NLeaf N; NLeaf 0; NLeaf 1]) = Ok [N; nz; N; 1] /\
  gintersection feq [[N; 1; N; 0; nz]] = Ok [N; 1; N; 0] /\
  gintersection feq [[N; 1; nz; 0]; [N; 0; 1]] = Ok [1; nz] /\
  gintersection_by feq (fkey_of 4) [[N; -1; nz; 0; 1]; [N; 0; 1]] = Ok [-1; nz; 1] /\
  gintersection_by feq (fkey_of 5) [[1; 2]; [1; 2]] = Ok [] /\
  gdifference feq [N; 1; N; nz; 0; 2] [N; 1] = [N; N; nz; 2] /\
  gdifference feq [nz; 2] [0] = [2] /\
  gwithout feq [N; 1; N; nz; 0; 2] [N; 1] = [N; N; nz; 2] /\
  gdifference_by feq (fkey_of 4) [N; 1; -1; nz; 0; 2] [N; 1] = [N; nz; 2] /\
  gkey_count feq [0; nz; N; 1; N; 1; nz] = [(nz, 3); (N, 1); (1, 2); (N, 1)] /\
  gduplicate feq [0; nz; N; 1; N; 1; nz] = [nz; 1] /\
  gduplicate_ref feq [0; nz; N; 1; N; 1; nz] = [0; 1] /\
  Permutation [(1, 2); (N, 1); (nz, 3); (N, 1)] (gkey_count feq [0; nz; N; 1; N; 1; nz]) /\
  gdwi_map feq [1; nz; 0; N; nz] = [(1, (0, 1)); (nz, (1, 2)); (N, (3, 1))] /\
  gduplicate_with_index feq [1; nz; 0; N; nz] = [(nz, 1)] /\
  (2 <= gcount feq 0%Z [0%Z; nz; N])%nat /\ gcount feq N [N; N] = 0%nat /\
  pairwise_ne feq [N; 1; N; 0].
Proof.
  cbv zeta. repeat match goal with |- _ /\ _ => split end; try reflexivity.
  - change [(1, 2); (nan_code, 1); (negz_code, 3); (nan_code, 1)]
      with ([(1, 2); (nan_code, 1)] ++ [(negz_code, 3); (nan_code, 1)]).
    change (gkey_count feq [0; negz_code; nan_code; 1; nan_code; 1; negz_code])
      with ([(negz_code, 3); (nan_code, 1)] ++ [(1, 2); (nan_code, 1)]).
    apply Permutation_app_comm.
  - cbn [pairwise_ne]. repeat split; intros y Hy; cbn [In] in Hy; intuition (subst; reflexivity).
Qed.
