(* C11_Wire.v — wire glue for C11 (no proofs; exercised by the correspondence).

   input  = fn :: ty :: args       (table in harness/c11.go, kept in step)
     fn  1 Unique zs            2 UniqueBy k zs          3 Union tree
         4 Intersection zss     5 IntersectionBy k zss   6 Difference zs zs
         7 DifferenceBy k zs zs 8 Without zs vals        9 Duplicate zs
        10 DuplicateWithIndex zs
     ty  0 int, 1 string, 2 float64 — the element type the harness instantiates
         the generic function at (values are an injective renaming of the
         integers on the wire); the model is the same for these three, and for
         4 *int (the harness's pointers 2k, 2k+1 point to equal ints; == is
         pointer identity, so the renaming is still injective).
         3 float64 WITH NaN and signed zeros (stream `nan`, harness/c11nan.go):
         the words are float CODES (C11_ModelNaN.v: n, negz_code, nan_code), the
         model is the generic transcription at [feq], the key functions are
         [fkey_of].
     k   key function: 0 id, 1 x%2, 2 const 0, 3 x/2, 4 |x|
         at ty 3: 0 id, 1 math.Mod(x,2), 2 const +0, 3 -x, 4 math.Abs, 5 const NaN,
         6 x*0, 7 (NaN -> NaN, Signbit -> -1, else 1)
     tree (prefix code): 0 v = a T;  1 n v1..vn = a []T;  2 n t1..tn = a []any;
                         3 / 4 / 5 = a scalar of another type / nil / a slice of another
                         type: a value of some other dynamic type
   output: slices as enc_zs; (slice, error) / panicking calls as enc_res with
           every error kind collapsed to 1; Duplicate sorted ascending (the Go
           result is in map-iteration order); DuplicateWithIndex as the
           key-sorted list of (key, index) pairs.  At ty 3 the sorts are by code
           and [c11_holds] compares Duplicate's result up to the sign of zero
           (the clause does not say which of two == values stands for both; the
           model, hence [c11_agree], says the last occurrence). *)

From Gogu Require Import Base C11_Model C11_ModelNaN.

Definition key_of (c : Z) : Z -> Z :=
  match c with
  | 0 => fun x => x
  | 1 => fun x => Z.rem x 2        (* Go % truncates toward zero *)
  | 2 => fun _ => 0
  | 3 => fun x => Z.quot x 2       (* Go / truncates toward zero *)
  | _ => fun x => Z.abs x
  end.

Fixpoint rd_nest (fuel : nat) (w : list Z) : option (nest Z * list Z) :=
  match fuel with
  | O => None
  | S f =>
      match w with
      | 0 :: v :: w' => Some (NLeaf v, w')
      | 1 :: w' => match rd_zs w' with
                   | Some (l, w'') => Some (NSlice l, w'')
                   | None => None
                   end
      | 2 :: w' => match rd_len w' with
                   | Some (n, w'') =>
                       match rd_n (rd_nest f) n w'' with
                       | Some (cs, w3) => Some (NAny cs, w3)
                       | None => None
                       end
                   | None => None
                   end
      | 3 :: w' | 4 :: w' | 5 :: w' => Some (NBad, w')
      | _ => None
      end
  end.

(* canonical forms for results that come out of a Go map *)
Fixpoint zinsert (x : Z) (l : list Z) : list Z :=
  match l with
  | [] => [x]
  | y :: r => if x <=? y then x :: l else y :: zinsert x r
  end.
Definition zsort (l : list Z) : list Z := fold_right zinsert [] l.
Fixpoint pinsert (x : Z * Z) (l : list (Z * Z)) : list (Z * Z) :=
  match l with
  | [] => [x]
  | y :: r => if (fst x <? fst y) || ((fst x =? fst y) && (snd x <=? snd y)) then x :: l else y :: pinsert x r
  end.
Definition psort (l : list (Z * Z)) : list (Z * Z) := fold_right pinsert [] l.
Definition enc_pairs (l : list (Z * Z)) : list Z :=
  Z.of_nat (length l) :: flat_map (fun kv => [fst kv; snd kv]) l.

Definition enc_r1 {A} (f : A -> list Z) (r : res A) : list Z :=
  match r with Ok a => 0 :: f a | Err _ => [1; 1] | Panic => [2] end.

Definition ed := Z.eq_dec.

(* one dispatcher, instantiated with the model functions ([c11_run]) and with
   the reference definitions of the specification ([c11_spec]) *)
Section Dispatch.
  Context (key_of : Z -> Z -> Z)
          (f_unique : list Z -> list Z)
          (f_unique_by : (Z -> Z) -> list Z -> list Z)
          (f_union : nest Z -> res (list Z))
          (f_inter : list (list Z) -> res (list Z))
          (f_inter_by : (Z -> Z) -> list (list Z) -> res (list Z))
          (f_diff : list Z -> list Z -> list Z)
          (f_diff_by : (Z -> Z) -> list Z -> list Z -> list Z)
          (f_without : list Z -> list Z -> list Z)
          (f_dup : list Z -> list Z)
          (f_dwi : list Z -> list (Z * Z)).

  Definition dispatch (w : list Z) : list Z :=
    match w with
    | fn :: _ty :: a =>
        match fn with
        | 1 => match rd_zs a with Some (l, []) => enc_zs (f_unique l) | _ => wire_error end
        | 2 => match a with
               | k :: a' => match rd_zs a' with Some (l, []) => enc_zs (f_unique_by (key_of k) l) | _ => wire_error end
               | _ => wire_error end
        | 3 => match rd_nest (S (length a)) a with
               | Some (t, []) => enc_r1 enc_zs (f_union t)
               | _ => wire_error end
        | 4 => match rd_zss a with Some (ps, []) => enc_r1 enc_zs (f_inter ps) | _ => wire_error end
        | 5 => match a with
               | k :: a' => match rd_zss a' with Some (ps, []) => enc_r1 enc_zs (f_inter_by (key_of k) ps) | _ => wire_error end
               | _ => wire_error end
        | 6 => match rd_zs a with
               | Some (s1, a') => match rd_zs a' with Some (s2, []) => enc_zs (f_diff s1 s2) | _ => wire_error end
               | _ => wire_error end
        | 7 => match a with
               | k :: a' =>
                   match rd_zs a' with
                   | Some (s1, a'') => match rd_zs a'' with Some (s2, []) => enc_zs (f_diff_by (key_of k) s1 s2) | _ => wire_error end
                   | _ => wire_error end
               | _ => wire_error end
        | 8 => match rd_zs a with
               | Some (s1, a') => match rd_zs a' with Some (s2, []) => enc_zs (f_without s1 s2) | _ => wire_error end
               | _ => wire_error end
        | 9 => match rd_zs a with Some (l, []) => enc_zs (zsort (f_dup l)) | _ => wire_error end
        | 10 => match rd_zs a with Some (l, []) => enc_pairs (psort (f_dwi l)) | _ => wire_error end
        | _ => wire_error
        end
    | _ => wire_error
    end.
End Dispatch.

(* the model (the Go code after the repairs), at a type with reflexive == ... *)
Definition c11_run_refl : list Z -> list Z :=
  dispatch key_of (unique ed) (unique_by ed) (union ed) (intersection ed) (intersection_by ed)
           (difference ed) (difference_by ed) (without ed) (duplicate ed) (duplicate_with_index ed).
(* ... and at float64 with NaN and signed zeros: the generic transcription at [feq] *)
Definition c11_run_nan : list Z -> list Z :=
  dispatch fkey_of (gunique feq) (gunique_by feq) (gunion feq) (gintersection feq) (gintersection_by feq)
           (gdifference feq) (gdifference_by feq) (gwithout feq) (gduplicate feq) (gduplicate_with_index feq).

Definition is_nan_ty (w : list Z) : bool := match w with _ :: 3 :: _ => true | _ => false end.

Definition c11_run (w : list Z) : list Z := if is_nan_ty w then c11_run_nan w else c11_run_refl w.

(* the specification: the reference definitions the theorems of C11_Props.v /
   C11_PropsNaN.v relate the model to (uniq_ref, filter, leaves, count_occ,
   first_index and their == versions) *)
Definition c11_spec_refl : list Z -> list Z :=
  dispatch key_of (uniq_ref ed) (unique_by_ref ed) (union_ref ed) (intersection_ref ed) (intersection_by_ref ed)
           (difference_ref ed) (difference_by_ref ed) (difference_ref ed) (duplicate_ref ed)
           (duplicate_with_index_ref ed).
Definition c11_spec_nan : list Z -> list Z :=
  dispatch fkey_of (guniq_ref feq) (gunique_by_ref feq) (gunion_ref feq) (gintersection_ref feq)
           (gintersection_by_ref feq) (gdifference_ref feq) (gdifference_by_ref feq) (gdifference_ref feq)
           (gduplicate_ref feq) (gduplicate_with_index_ref feq).
Definition c11_spec (w : list Z) : list Z := if is_nan_ty w then c11_spec_nan w else c11_spec_refl w.

Definition c11_agree (w obs : list Z) : bool := zlist_eqb obs (c11_run w).

(* Duplicate at ty 3, up to the sign of zero *)
Definition norm_dup (o : list Z) : list Z :=
  match o with n :: l => n :: zsort (map fnorm l) | [] => [] end.

(* Every clause of C11 determines the (canonicalised) observable uniquely —
   Duplicate/DuplicateWithIndex up to the order of a Go map, which the harness
   and [dispatch] remove by sorting, Duplicate at float64 also up to the sign of
   a zero — so the property holds of an observation iff it is the one the
   reference definitions give. *)
Definition c11_holds (w obs : list Z) : bool :=
  match w with
  | 9 :: 3 :: _ => zlist_eqb (norm_dup obs) (norm_dup (c11_spec w))
  | _ => zlist_eqb obs (c11_spec w)
  end.
