(* C12_Model.v — executable model of the reshaping helpers of /repo/slice.go
   (Map, ForEach, ForEachRight, Reduce, Reverse, Partition, Merge, Flatten,
   Chunk, Drop, DropWhile, DropRightWhile, mapByIndex/GroupBy, Zip, Unzip),
   /repo/filter.go (Filter, Reject), /repo/shuffle.go (Shuffle) and
   /repo/string.go (ReverseStr) — transcribed loop by loop.  No proofs here.

   Conventions (DESIGN §3; see also the head of C11_Model.v):
   * [for _, v := range s { body }] is [fold_left body s init];
     [for i := len(s)-1; i >= 0; i-- { … s[i] … }] is the same fold over [rev s];
     [result = append(result, v)] is [result ++ [v]];
   * loops that move indices around and write into the slice (Reverse, Reject,
     Shuffle, the double loop of Zip/Unzip) keep their index arithmetic:
     [nth_error] reads, [set_nth] writes, and a [loop] result says how the loop
     ended — [Fin v], an out-of-range index ([Oob], the Go index panic) or
     exhausted fuel ([NoFuel]); the theorems prove that neither of the latter
     two ever happens;
   * a callback whose invocations matter (Map, ForEach, ForEachRight, Reduce)
     is modelled by returning, next to the result, the LOG of the argument
     tuples it was called with, in call order;
   * Shuffle takes the sequence of values returned by [rand.Int()] as an
     argument ([stream k] = the value of the (k+1)-th call; rand.Int() is
     non-negative, so Go's [%] is [mod]);
   * ReverseStr is modelled on the rune sequence: the conversions
     [[]rune(str)] and [T(res)] are Go's UTF-8 decoder/encoder (modelled, not
     verified; mutually inverse on valid scalar values);
   * Flatten is [flatten] of C11_Model.v (it shares baseFlatten with Union);
   * Go's int is 64 bits wide: where the code does arithmetic on an int
     ARGUMENT (Chunk: [i+size]; Drop: [-len(slice)], [len(slice)+n]) the model
     wraps explicitly ([wrap64], [abs64]) and a slice expression with an
     out-of-range bound is [Panic]; lengths and indices below [len] are [nat];
   * the last part of the section ("loop forms at index level") re-states the
     iterating helpers with their own index arithmetic and an arbitrary
     stateful callback; C12_Props.v proves them equal to the folds above. *)

From Gogu Require Import Base C11_Model.

Inductive loop (R : Type) : Type :=
| Fin (r : R)      (* the loop ran to its end with this state *)
| Oob              (* an index out of range: Go panics *)
| NoFuel.          (* the model's fuel ran out before the loop condition failed *)
Arguments Fin {R} r.
Arguments Oob {R}.
Arguments NoFuel {R}.

(* s[i] = v  (no effect when i is out of range: callers read s[i] first) *)
Fixpoint set_nth {B : Type} (l : list B) (i : nat) (v : B) : list B :=
  match l, i with
  | [], _ => []
  | _ :: r, O => v :: r
  | x :: r, S i' => x :: set_nth r i' v
  end.

(* Go's int is 64 bits wide on every platform the library is tested on:
   arithmetic on an int ARGUMENT (Chunk's size, Drop's count) wraps around.
   Lengths and indices below len(slice) are naturals; where the code adds such
   an argument to an index or subtracts it from a length the wrap is explicit.
   [Z.to_nat] is only ever applied to values already compared (in Z) with a
   length, so that no huge unary number is built when the model is run. *)
Definition max_int64 : Z := 9223372036854775807.
Definition min_int64 : Z := -9223372036854775808.
Definition wrap64 (z : Z) : Z := (z + 9223372036854775808) mod 18446744073709551616 - 9223372036854775808.
(* math.go:38 Abs:  if x < 0 { return -x }; return x   — Abs(MinInt) = MinInt (used by [drop_unrepaired]) *)
Definition abs64 (n : Z) : Z := if n <? 0 then wrap64 (- n) else n.

Section Reshape.
  Context {A : Type}.

  (* ---------- slice.go:59-92  Map / ForEach / ForEachRight / Reduce ---------- *)
  (* result[idx] = fn(v) for idx = 0, 1, … on a fresh slice of len(slice): an append *)
  Definition map_go {B : Type} (fn : A -> B) (slice : list A) : list B * list A :=
    fold_left (fun (st : list B * list A) v => (fst st ++ [fn v], snd st ++ [v])) slice ([], []).
  Definition for_each (slice : list A) : list A :=
    fold_left (fun log v => log ++ [v]) slice [].
  Definition for_each_right (slice : list A) : list A :=
    fold_left (fun log v => log ++ [v]) (rev slice) [].
  (* actual = fn(v, actual); the log records the pair (v, actual) passed *)
  Definition reduce_go {B : Type} (fn : A -> B -> B) (slice : list A) (init : B) : B * list (A * B) :=
    fold_left (fun (st : B * list (A * B)) v => (fn v (fst st), snd st ++ [(v, fst st)])) slice (init, []).

  (* ---------- slice.go:96  Reverse (in place, two indices) ----------
       for i, j := 0, len(sl)-1; i < j; i, j = i+1, j-1 { sl[i], sl[j] = sl[j], sl[i] } *)
  Fixpoint reverse_loop (fuel : nat) (sl : list A) (i j : nat) : loop (list A) :=
    if (i <? j)%nat then
      match fuel with
      | O => NoFuel
      | S f =>
          match nth_error sl i, nth_error sl j with
          | Some a, Some b => reverse_loop f (set_nth (set_nth sl i b) j a) (S i) (pred j)
          | _, _ => Oob
          end
      end
    else Fin sl.
  Definition reverse (sl : list A) : loop (list A) :=
    reverse_loop (length sl) sl 0 (length sl - 1).
  (* string.go:322 ReverseStr: the same loop on []rune(str) *)
  Definition reverse_str (runes : list A) : loop (list A) := reverse runes.

  (* ---------- slice.go:157  Partition ---------- *)
  Definition partition_go (fn : A -> bool) (slice : list A) : list A * list A :=
    fold_left (fun (r : list A * list A) v =>
                 if fn v then (fst r ++ [v], snd r) else (fst r, snd r ++ [v])) slice ([], []).

  (* ---------- filter.go:4 Filter, slice.go:438 DropWhile, slice.go:452 DropRightWhile ---------- *)
  Definition filter_go (fn : A -> bool) (slice : list A) : list A :=
    fold_left (fun r v => if fn v then r ++ [v] else r) slice [].
  (* DropWhile appends every v with !fn(v) — it does NOT stop at the first kept element *)
  Definition drop_while (fn : A -> bool) (slice : list A) : list A :=
    fold_left (fun r v => if negb (fn v) then r ++ [v] else r) slice [].
  Definition drop_right_while (fn : A -> bool) (slice : list A) : list A :=
    fold_left (fun r v => if negb (fn v) then r ++ [v] else r) (rev slice) [].

  (* ---------- filter.go:18  Reject (removes in place, steps the index back) ----------
       for i := 0; i < len(slice); i++ {
         if fn(slice[i]) { slice = append(slice[:i], slice[i+1:]...); i-- } } *)
  Fixpoint reject_loop (fuel : nat) (fn : A -> bool) (slice : list A) (i : nat) : loop (list A) :=
    match nth_error slice i with
    | None => Fin slice                          (* i >= len(slice) *)
    | Some x =>
        match fuel with
        | O => NoFuel
        | S f =>
            if fn x then reject_loop f fn (firstn i slice ++ skipn (S i) slice) i   (* i-- then i++ *)
            else reject_loop f fn slice (S i)
        end
    end.
  Definition reject (fn : A -> bool) (slice : list A) : loop (list A) :=
    reject_loop (length slice) fn slice 0.

  (* ---------- slice.go:236  Merge ---------- *)
  Definition merge (s : list A) (params : list (list A)) : list A :=
    s ++ fold_left (fun merged p => merged ++ p) params [].

  (* ---------- slice.go:405  Chunk ----------
       if size <= 0 { panic }
       for i := 0; i < len(slice); i++ {
         if i%size == 0 { if i+size < len(slice) { append slice[i:i+size] } else { append slice[i:] } } } *)
  (* the loop body; [i < len(slice)], [size > 0]:  i%size on non-negative operands is [mod];
     i+size wraps; slice[i:hi] panics unless i <= hi (hi < len <= cap is known in that branch) *)
  Definition chunk_step (slice : list A) (size : Z) (st : res (list (list A))) (i : nat) : res (list (list A)) :=
    match st with
    | Ok result =>
        if Z.of_nat i mod size =? 0 then
          let hi := wrap64 (Z.of_nat i + size) in
          if hi <? Z.of_nat (length slice) then
            if Z.of_nat i <=? hi
            then Ok (result ++ [firstn (Z.to_nat (hi - Z.of_nat i)) (skipn i slice)])
            else Panic
          else Ok (result ++ [skipn i slice])
        else Ok result
    | other => other
    end.
  Definition chunk (slice : list A) (size : Z) : res (list (list A)) :=
    if size <=? 0 then Panic
    else fold_left (chunk_step slice size) (seq 0 (length slice)) (Ok []).

  (* ---------- slice.go:425  Drop, after  fix: Drop no longer panics for n = math.MinInt (0f1558a) ----------
       if n > 0 && n < len(slice) { return slice[n:] }
       if n <= 0 && n > -len(slice) { return slice[:len(slice)+n] }
       return []T{}
     -len(slice) and len(slice)+n are int arithmetic: written with the wrap; a slice expression with
     an out-of-range bound is [Panic] (the theorems prove it never happens) *)
  Definition drop (slice : list A) (n : Z) : res (list A) :=
    let len := Z.of_nat (length slice) in
    if (n >? 0) && (n <? len) then Ok (skipn (Z.to_nat n) slice)     (* slice[n:], 0 < n < len *)
    else if (n <=? 0) && (n >? wrap64 (- len)) then
      let hi := wrap64 (len + n) in                                  (* slice[:len(slice)+n] *)
      if (0 <=? hi) && (hi <=? len) then Ok (firstn (Z.to_nat hi) slice)
      else Panic
    else Ok [].

  (* the code BEFORE the repair (kept only for C12_drop_min_int_unrepaired_refuted):
       if Abs(n) < len(slice) { if n > 0 { return slice[n:] } else { return slice[:len(slice)-Abs(n)] } }
       return []T{}
     Abs(math.MinInt) wraps to math.MinInt, which IS < len(slice): the else branch then slices
     up to len(slice)-MinInt, a wrapped negative bound — an index panic for every slice *)
  Definition drop_unrepaired (slice : list A) (n : Z) : res (list A) :=
    let len := Z.of_nat (length slice) in
    if abs64 n <? len then
      if n >? 0 then Ok (skipn (Z.to_nat n) slice)
      else
        let hi := wrap64 (len - abs64 n) in
        if (0 <=? hi) && (hi <=? len) then Ok (firstn (Z.to_nat hi) slice)
        else Panic
    else Ok [].

  (* ---------- slice.go:465 mapByIndex, slice.go:481 GroupBy ----------
       for idx, v := range mapSlice { result[v] = append(result[v], origSlice[idx]) }
     the map is an association list in insertion order; the two slices are
     walked in step, [origSlice[idx]] beyond the end is the index panic *)
  Section Keyed.
    Context {K : Type} (k_eq_dec : forall x y : K, {x = y} + {x <> y}).
    Fixpoint group_add (m : list (K * list A)) (k : K) (x : A) : list (K * list A) :=
      match m with
      | [] => [(k, [x])]
      | (k', g) :: m' => if k_eq_dec k' k then (k', g ++ [x]) :: m' else (k', g) :: group_add m' k x
      end.
    Fixpoint map_by_index (orig : list A) (map_slice : list K) (result : list (K * list A))
      : res (list (K * list A)) :=
      match map_slice with
      | [] => Ok result
      | v :: ms' =>
          match orig with
          | [] => Panic
          | x :: orig' => map_by_index orig' ms' (group_add result v x)
          end
      end.
    Definition group_by (fn : A -> K) (slice : list A) : res (list (K * list A)) :=
      map_by_index slice (fst (map_go fn slice)) [].

    (* reference: one group per distinct key, holding the elements with that key in order *)
    Definition group_by_ref (fn : A -> K) (slice : list A) : list (K * list A) :=
      map (fun k => (k, filter (fun x => if k_eq_dec (fn x) k then true else false) slice))
          (uniq_ref k_eq_dec (map fn slice)).
  End Keyed.

  (* ---------- slice.go:486 Zip, slice.go:516 Unzip ---------- *)
  Section Matrix.
    Context (zero : A).                       (* the zero value make([]T, n) fills with *)
    Definition get2 (m : list (list A)) (i j : nat) : A := nth j (nth i m []) zero.   (* m[i][j] *)
    Definition set2 (m : list (list A)) (i j : nat) (v : A) : list (list A) :=         (* m[i][j] = v *)
      set_nth m i (set_nth (nth i m []) j v).

    Definition slice_len (slices : list (list A)) : nat :=
      match slices with [] => O | s0 :: _ => length s0 end.
    (* both shape panics; result[idx] = make([]T, len(sl)) *)
    Definition shape_ok (slices : list (list A)) : bool :=
      (slice_len slices =? length slices)%nat &&
      forallb (fun sl => (slice_len slices =? length sl)%nat) slices.
    Definition fresh (slices : list (list A)) : list (list A) :=
      map (fun sl => repeat zero (length sl)) slices.

    (*  for x := 0; x < sliceLen; x++ { for i := 0; i < len(slices); i++ { result[i][x] = slices[x][i] } } *)
    Definition zip (slices : list (list A)) : res (list (list A)) :=
      if negb (shape_ok slices) then Panic
      else Ok (fold_left (fun result x =>
                 fold_left (fun result i => set2 result i x (get2 slices x i))
                           (seq 0 (length slices)) result)
               (seq 0 (slice_len slices)) (fresh slices)).
    (*  … { result[x][i] = slices[i][x] } *)
    Definition unzip (slices : list (list A)) : res (list (list A)) :=
      if negb (shape_ok slices) then Panic
      else Ok (fold_left (fun result x =>
                 fold_left (fun result i => set2 result x i (get2 slices i x))
                           (seq 0 (length slices)) result)
               (seq 0 (slice_len slices)) (fresh slices)).

    (* reference: row i of the transpose is column i of the input *)
    Definition transpose (m : list (list A)) : list (list A) :=
      map (fun i => map (fun row => nth i row zero) m) (seq 0 (length m)).
  End Matrix.

  (* ---------- shuffle.go:8  Shuffle (Fisher–Yates on a copy) ----------
       for i := len(src) - 1; i >= 0; i-- { j := rand.Int() % (i + 1); swap(&dst[i], &dst[j]) }
     [n] = i + 1;  [call] = number of rand.Int() calls made so far *)
  Fixpoint shuffle_loop (n : nat) (dst : list A) (stream : nat -> Z) (call : nat) : loop (list A) :=
    match n with
    | O => Fin dst
    | S i =>
        let j := Z.to_nat (stream call mod (Z.of_nat i + 1)) in
        match nth_error dst i, nth_error dst j with
        | Some a, Some b => shuffle_loop i (set_nth (set_nth dst i b) j a) stream (S call)
        | _, _ => Oob
        end
    end.
  Definition shuffle (src : list A) (stream : nat -> Z) : loop (list A) :=
    shuffle_loop (length src) src stream 0.

  (* ================= specification vocabulary ================= *)

  (* the argument pairs Reduce's callback must see: each element with the value
     accumulated from the elements before it *)
  Fixpoint reduce_log {B : Type} (fn : A -> B -> B) (l : list A) (acc : B) : list (A * B) :=
    match l with
    | [] => []
    | v :: r => (v, acc) :: reduce_log fn r (fn v acc)
    end.

  (* cut off n elements at a time *)
  Fixpoint chunk_ref (fuel n : nat) (l : list A) : list (list A) :=
    match fuel with
    | O => []
    | S f => match l with
             | [] => []
             | _ => firstn n l :: chunk_ref f n (skipn n l)
             end
    end.

  (* l is an interleaving of a and b: every element of l goes to exactly one
     of the two parts, each part keeps the order of l *)
  Inductive interleave : list A -> list A -> list A -> Prop :=
  | il_nil : interleave [] [] []
  | il_left : forall x a b l, interleave a b l -> interleave (x :: a) b (x :: l)
  | il_right : forall x a b l, interleave a b l -> interleave a (x :: b) (x :: l).

  (* an n × n matrix *)
  Definition square (n : nat) (m : list (list A)) : Prop :=
    length m = n /\ Forall (fun row => length row = n) m.
  (* m[i][j] without a default *)
  Definition cell (m : list (list A)) (i j : nat) : option A :=
    match nth_error m i with Some row => nth_error row j | None => None end.

  (* ---------- the two loop forms of the iterators, at index level ----------
     [for idx, v := range slice { body }] evaluates len(slice) once and reads
     slice[idx] for idx = 0, 1, …; [for i := len(slice)-1; i >= 0; i-- { … slice[i] … }]
     reads downwards.  The body gets the state, the index and the element. *)
  Fixpoint range_loop {St : Type} (body : St -> nat -> A -> St) (fuel : nat) (slice : list A)
           (idx : nat) (st : St) : loop St :=
    if (idx <? length slice)%nat then
      match fuel with
      | O => NoFuel
      | S f => match nth_error slice idx with
               | Some v => range_loop body f slice (S idx) (body st idx v)
               | None => Oob
               end
      end
    else Fin st.
  (* [n] = i + 1 *)
  Fixpoint down_loop {St : Type} (body : St -> nat -> A -> St) (n : nat) (slice : list A) (st : St) : loop St :=
    match n with
    | O => Fin st
    | S i => match nth_error slice i with
             | Some v => down_loop body i slice (body st i v)
             | None => Oob
             end
    end.

  (* the five iterating helpers written with their own index arithmetic; the
     callback of Map/ForEach/ForEachRight/Reduce is an arbitrary state
     transformer [cb] (its "side effect"), Map's also returns the image *)
  Definition for_each_cb {St : Type} (cb : St -> A -> St) (slice : list A) (s0 : St) : loop St :=
    range_loop (fun s _ v => cb s v) (length slice) slice 0 s0.
  Definition for_each_right_cb {St : Type} (cb : St -> A -> St) (slice : list A) (s0 : St) : loop St :=
    down_loop (fun s _ v => cb s v) (length slice) slice s0.
  (* result[idx] = fn(v): the state is (callback state, result) *)
  Definition map_cb {St B : Type} (cb : St -> A -> St * B) (zero : B) (slice : list A) (s0 : St) : loop (St * list B) :=
    range_loop (fun (st : St * list B) idx v =>
                  let (s', b) := cb (fst st) v in (s', set_nth (snd st) idx b))
               (length slice) slice 0 (s0, repeat zero (length slice)).
  (* actual = fn(v, actual) *)
  Definition reduce_cb {St B : Type} (cb : St -> A -> B -> St * B) (slice : list A) (s0 : St) (init : B) : loop (St * B) :=
    range_loop (fun (st : St * B) _ v => cb (fst st) v (snd st)) (length slice) slice 0 (s0, init).
  Definition drop_right_while_idx (fn : A -> bool) (slice : list A) : loop (list A) :=
    down_loop (fun r _ v => if negb (fn v) then r ++ [v] else r) (length slice) slice [].

  (* the (index, element) pairs of a slice in index order *)
  Definition indexed (l : list A) : list (nat * A) := combine (seq 0 (length l)) l.

  (* the textbook drop-while (remove the longest prefix satisfying fn) — NOT
     what DropWhile of this code base does *)
  Fixpoint drop_prefix_while (fn : A -> bool) (l : list A) : list A :=
    match l with
    | [] => []
    | x :: r => if fn x then drop_prefix_while fn r else l
    end.

  (* ReverseStr on the string itself, for an arbitrary decoder/encoder pair
     ([]rune(str) / T(res)) *)
  Definition reverse_str_via {B : Type} (dec : list B -> list A) (enc : list A -> list B) (s : list B) : loop (list B) :=
    match reverse_str (dec s) with
    | Fin r => Fin (enc r)
    | Oob => Oob
    | NoFuel => NoFuel
    end.

  (* ---------- reference results used by the property checker of C12_Wire.v ---------- *)
  Definition is_square (m : list (list A)) : bool :=
    forallb (fun row => (length row =? length m)%nat) m.
  (* cutting more than len(l) at a time is cutting max 1 len(l) at a time: the guard keeps
     [Z.to_nat] away from huge sizes *)
  Definition chunk_spec_ref (l : list A) (size : Z) : res (list (list A)) :=
    if size <=? 0 then Panic
    else Ok (chunk_ref (length l) (Z.to_nat (Z.min size (Z.max 1 (Z.of_nat (length l))))) l).
  (* remove n from the front / -n from the back, everything when there are not that many *)
  Definition drop_ref (l : list A) (n : Z) : list A :=
    let len := Z.of_nat (length l) in
    if 0 <=? n then (if n <? len then skipn (Z.to_nat n) l else [])
    else (if - n <? len then firstn (length l - Z.to_nat (- n)) l else []).
  Definition transpose_ref (zero : A) (m : list (list A)) : res (list (list A)) :=
    if is_square m then Ok (transpose zero m) else Panic.
  Definition round_trip_ref (m : list (list A)) : res (list (list A)) :=
    if is_square m then Ok m else Panic.
  Definition flatten_ref (n : nest A) : res (list A) :=
    if wf_nest n then Ok (leaves n) else Err 1.
End Reshape.
