(* C12_ModelNaN.v — the reshaping helpers over key and element types whose `==` is
   NOT the identity of values: float64, where NaN != NaN (not reflexive) and
   +0 == -0 although the two are different values.

   Of the helpers of C12 exactly ONE compares anything: mapByIndex, the worker of
   GroupBy, files the elements in a Go map keyed by the callback's result.  Every
   other helper (Chunk, Partition, Filter, Reject, DropWhile, DropRightWhile, Zip,
   Unzip, Flatten, Merge, Drop, Reverse, Shuffle, Map, ForEach, ForEachRight,
   Reduce) neither compares elements nor uses a map: its model in C12_Model.v is
   polymorphic in the element type and in the callbacks, and the theorems of
   C12_Props.v already quantify over EVERY element type and EVERY predicate —
   float64 with NaN and both zeros included.  What this file adds for them is the
   executable instance (float codes, float callbacks) that the `nan` stream of the
   correspondence check runs against the code, so that the code is tied to those
   generic models on that part of the domain as well.

   GroupBy is transcribed again, generic in the `==` of the key type.  As in
   C11_ModelNaN.v only this is assumed of it ([per], "partial equivalence"):

        eq a b = true -> eq b a = true                       (symmetric)
        eq a b = true -> eq b c = true -> eq a c = true      (transitive)

   NOT assumed: reflexivity (a key with [eq k k = false] — a NaN — is equal to
   nothing, itself included) and NOT assumed: [eq a b = true -> a = b] (+0 and -0
   are two keys that [eq] identifies).  A Go map is the list of its entries in
   insertion order; `m[k]` finds the entry whose stored key is == to k, so an
   entry under a NaN key is found by no look-up and every assignment under a NaN
   key adds an entry; an ASSIGNMENT `m[k] = v` to an existing entry REPLACES THE
   STORED KEY by k (the runtime does that for key types where equal keys can
   differ), so the key of a group is the key of its LAST element: grouping
   [+0, -0] by the identity gives the key -0.

   The loop is the one of /repo after  fix: GroupBy no longer adds an empty group
   for every element whose key is not equal to itself (e39968e); the loop as
   found is kept as [ggroup_by_asfound] for the refutation witness only.
   At the `==` of a type with decidable Leibniz equality ([deq]) the generic
   GroupBy EQUALS [group_by] of C12_Model.v (C12_nan_conservative).
   No proofs in this file. *)

From Gogu Require Import Base C11_Model C11_ModelNaN C12_Model.
Local Open Scope Z_scope.

Section GKeyed.
  Context {A K : Type} (eq : K -> K -> bool).

  (* group, ok := result[v] *)
  Fixpoint gm_get (m : list (K * list A)) (k : K) : option (list A) :=
    match m with
    | [] => None
    | (k', g) :: m' => if eq k' k then Some g else gm_get m' k
    end.

  (* result[v] = g : an existing (==) key keeps its slot and its stored key becomes v;
     any other key takes a new slot *)
  Fixpoint gm_put (m : list (K * list A)) (k : K) (g : list A) : list (K * list A) :=
    match m with
    | [] => [(k, g)]
    | (k', g') :: m' => if eq k' k then (k, g) :: m' else (k', g') :: gm_put m' k g
    end.

  (* slice.go:463 mapByIndex, the loop body (e39968e):
       group, ok := result[v]
       if !ok { group = make([]T2, 0, len(mapSlice)) }
       result[v] = append(group, origSlice[idx]) *)
  Definition ggroup_step (result : list (K * list A)) (v : K) (x : A) : list (K * list A) :=
    let group := match gm_get result v with Some g => g | None => [] end in
    gm_put result v (group ++ [x]).

  (* the two slices are walked in step; origSlice[idx] beyond the end is the index panic *)
  Fixpoint gmap_by_index (orig : list A) (map_slice : list K) (result : list (K * list A))
    : res (list (K * list A)) :=
    match map_slice with
    | [] => Ok result
    | v :: ms' =>
        match orig with
        | [] => Panic
        | x :: orig' => gmap_by_index orig' ms' (ggroup_step result v x)
        end
    end.
  (* slice.go:479 GroupBy:  mapByIndex(slice, Map(slice, fn)) *)
  Definition ggroup_by (fn : A -> K) (slice : list A) : res (list (K * list A)) :=
    gmap_by_index slice (fst (map_go fn slice)) [].

  (* the loop body AS FOUND (1b07b96):
       if _, ok := result[v]; !ok { result[v] = make([]T2, 0, len(mapSlice)) }
       result[v] = append(result[v], origSlice[idx])
     — result[v] is looked up again after the store; under a key with v != v the
     look-up yields the nil slice and the append goes to a second new entry *)
  Definition ggroup_step_asfound (result : list (K * list A)) (v : K) (x : A) : list (K * list A) :=
    let result1 := match gm_get result v with Some _ => result | None => gm_put result v [] end in
    gm_put result1 v (match gm_get result1 v with Some g => g | None => [] end ++ [x]).
  Fixpoint gmap_by_index_asfound (orig : list A) (map_slice : list K) (result : list (K * list A))
    : res (list (K * list A)) :=
    match map_slice with
    | [] => Ok result
    | v :: ms' =>
        match orig with
        | [] => Panic
        | x :: orig' => gmap_by_index_asfound orig' ms' (ggroup_step_asfound result v x)
        end
    end.
  Definition ggroup_by_asfound (fn : A -> K) (slice : list A) : res (list (K * list A)) :=
    gmap_by_index_asfound slice (fst (map_go fn slice)) [].

  (* ================= specification vocabulary ================= *)

  (* one step of the loop said without the map operations: the element joins the
     group whose key is == to its key (which takes over the element's key), or
     opens a group of its own *)
  Fixpoint gadd (m : list (K * list A)) (k : K) (x : A) : list (K * list A) :=
    match m with
    | [] => [(k, [x])]
    | (k', g) :: m' => if eq k' k then (k, g ++ [x]) :: m' else (k', g) :: gadd m' k x
    end.

  (* reference (not a loop over a map): the group of the first element x is x and
     every later element whose key is == to the key of x, filed under the key of
     its last member; the other groups are those of the rest that are not filed
     under a key == to the key of x.  For a key with k != k nothing is == to it:
     the group is [x] alone and no other group is removed. *)
  Definition gkey_ne (k0 : K) (kg : K * list A) : bool := negb (eq k0 (fst kg)).
  Fixpoint ggroup_ref (fn : A -> K) (l : list A) : list (K * list A) :=
    match l with
    | [] => []
    | x :: r =>
        let g := x :: filter (fun y => eq (fn y) (fn x)) r in
        (fn (last g x), g) :: filter (gkey_ne (fn x)) (ggroup_ref fn r)
    end.

  (* the keys of the groups are pairwise unequal under == *)
  Definition gkeys_ne (g : list (K * list A)) : Prop := pairwise_ne eq (map fst g).
End GKeyed.

(* ================= the executable instance: float codes =================
   As in C11_ModelNaN.v a float64 on the wire is its CODE: the integer n for
   float64(n) (0 is +0), [negz_code] for -0, [nan_code] for NaN; [feq] is Go's ==
   on codes; the key functions are [fkey_of].  Only small integers travel, so
   every float operation of the callbacks below is exact.  (mirrored in
   harness/c12nan.go) *)

Definition fis_nan (x : Z) : bool := x =? nan_code.
(* -x *)
Definition fneg (x : Z) : Z :=
  if x =? nan_code then nan_code else if x =? negz_code then 0 else if x =? 0 then negz_code else - x.
(* x + y in IEEE 754 (round to nearest): a zero sum is -0 only when both operands are -0 *)
Definition fadd (x y : Z) : Z :=
  if (x =? nan_code) || (y =? nan_code) then nan_code
  else let s := fnorm x + fnorm y in
       if s =? 0 then (if (x =? negz_code) && (y =? negz_code) then negz_code else 0) else s.
(* x < y *)
Definition flt (x y : Z) : bool :=
  if (x =? nan_code) || (y =? nan_code) then false else fnorm x <? fnorm y.

(* predicates (p, pa):  0 true, 1 false, 2 math.Mod(x,2) == 0, 3 x < pa, 4 x == pa,
   5 x != x, 6 math.Signbit(x) (tells -0 from +0; the NaN on the wire has sign bit 0) *)
Definition fpred_of (c a : Z) : Z -> bool :=
  match c with
  | 0 => fun _ => true
  | 1 => fun _ => false
  | 2 => fun x => if x =? nan_code then false else Z.rem (fnorm x) 2 =? 0
  | 3 => fun x => flt x a
  | 4 => fun x => feq x a
  | 5 => fun x => negb (feq x x)
  | _ => fun x => if x =? nan_code then false else (x =? negz_code) || (x <? 0)
  end.

(* Reduce callbacks fn(v, acc):  0 acc+v, 1 2*acc+v, 2 v-acc *)
Definition fop_of (c : Z) : Z -> Z -> Z :=
  match c with
  | 0 => fun v acc => fadd acc v
  | 1 => fun v acc => fadd (fadd acc acc) v
  | _ => fun v acc => fadd v (fneg acc)
  end.
