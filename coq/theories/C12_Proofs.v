(* C12_Proofs.v — lemmas for property C12 (statements collected in C12_Props.v). *)
From Gogu Require Import Base C11_Model C11_Proofs C12_Model.
From Coq Require Import Permutation.

(* ---------- writes into a slice ---------- *)

Lemma set_nth_length {B} (l : list B) i v : length (set_nth l i v) = length l.
Proof. revert i; induction l as [|x l IH]; intros [|i]; cbn; auto. Qed.

Lemma nth_error_set_nth_eq {B} (l : list B) i v :
  (i < length l)%nat -> nth_error (set_nth l i v) i = Some v.
Proof. revert i; induction l as [|x l IH]; intros [|i]; cbn; intros H; try lia; auto. apply IH. lia. Qed.

Lemma nth_error_set_nth_neq {B} (l : list B) i j v :
  i <> j -> nth_error (set_nth l i v) j = nth_error l j.
Proof.
  revert i j; induction l as [|x l IH]; intros [|i] [|j] H; cbn; auto; try congruence.
Qed.

Lemma nth_set_nth {B} (l : list B) i j v d :
  (i < length l)%nat -> nth j (set_nth l i v) d = if (j =? i)%nat then v else nth j l d.
Proof.
  revert i j; induction l as [|x l IH]; intros [|i] [|j] H; cbn in *; try lia; auto.
  apply IH. lia.
Qed.

Lemma set_nth_app_r {B} (pre l : list B) i v :
  set_nth (pre ++ l) (length pre + i) v = pre ++ set_nth l i v.
Proof. induction pre as [|x pre IH]; cbn; [reflexivity|]. now rewrite IH. Qed.

Lemma set_nth_app_here {B} (pre : list B) a rest v :
  set_nth (pre ++ a :: rest) (length pre) v = pre ++ v :: rest.
Proof. rewrite <- (Nat.add_0_r (length pre)). now rewrite set_nth_app_r. Qed.

Lemma nth_error_app_here {B} (pre : list B) a rest :
  nth_error (pre ++ a :: rest) (length pre) = Some a.
Proof. rewrite nth_error_app2 by lia. now rewrite Nat.sub_diag. Qed.

(* replacing the element at position i by v *)
Lemma set_nth_perm {B} (l : list B) i a v :
  nth_error l i = Some a -> Permutation (v :: l) (a :: set_nth l i v).
Proof.
  revert i; induction l as [|x l IH]; intros [|i] H; cbn in *; try discriminate.
  - injection H as ->. apply perm_swap.
  - specialize (IH i H). rewrite perm_swap. rewrite (perm_swap x a). now apply perm_skip.
Qed.

Lemma list_ends {B} (l : list B) :
  l = [] \/ (exists a, l = [a]) \/ exists a m b, l = a :: m ++ [b].
Proof.
  destruct l as [|a l]; [now left|]. right.
  destruct l as [|b l] using rev_ind; [left; now exists a|].
  right. now exists a, l, b.
Qed.

Section Proofs.
  Context {A : Type}.

  Lemma fold_append_filter (p : A -> bool) l acc :
    fold_left (fun r v => if p v then r ++ [v] else r) l acc = acc ++ filter p l.
  Proof.
    revert acc; induction l as [|x l IH]; intros acc; cbn; [now rewrite app_nil_r|].
    rewrite IH. destruct (p x); [now rewrite <- app_assoc | reflexivity].
  Qed.

  (* ---------- Map / ForEach / ForEachRight / Reduce ---------- *)

  Lemma map_go_fold {B} (fn : A -> B) l r lg :
    fold_left (fun (st : list B * list A) v => (fst st ++ [fn v], snd st ++ [v])) l (r, lg) =
    (r ++ map fn l, lg ++ l).
  Proof.
    revert r lg; induction l as [|x l IH]; intros r lg; cbn; [now rewrite !app_nil_r|].
    rewrite IH. now rewrite <- !app_assoc.
  Qed.

  Lemma map_go_spec {B} (fn : A -> B) l : map_go fn l = (map fn l, l).
  Proof. unfold map_go. now rewrite map_go_fold. Qed.

  Lemma for_each_fold (l acc : list A) : fold_left (fun log v => log ++ [v]) l acc = acc ++ l.
  Proof.
    revert acc; induction l as [|x l IH]; intros acc; cbn; [now rewrite app_nil_r|].
    rewrite IH. now rewrite <- app_assoc.
  Qed.

  Lemma for_each_spec (l : list A) : for_each l = l.
  Proof. unfold for_each. now rewrite for_each_fold. Qed.

  Lemma for_each_right_spec (l : list A) : for_each_right l = rev l.
  Proof. unfold for_each_right. now rewrite for_each_fold. Qed.

  Lemma reduce_go_fold {B} (fn : A -> B -> B) l acc lg :
    fold_left (fun (st : B * list (A * B)) v => (fn v (fst st), snd st ++ [(v, fst st)])) l (acc, lg) =
    (fold_left (fun a v => fn v a) l acc, lg ++ reduce_log fn l acc).
  Proof.
    revert acc lg; induction l as [|x l IH]; intros acc lg; cbn; [now rewrite app_nil_r|].
    rewrite IH. now rewrite <- app_assoc.
  Qed.

  Lemma reduce_go_spec {B} (fn : A -> B -> B) l init :
    reduce_go fn l init = (fold_left (fun a v => fn v a) l init, reduce_log fn l init).
  Proof. unfold reduce_go. now rewrite reduce_go_fold. Qed.

  Lemma reduce_log_fst {B} (fn : A -> B -> B) l acc : map fst (reduce_log fn l acc) = l.
  Proof. revert acc; induction l as [|x l IH]; intros acc; cbn; [reflexivity|]. now rewrite IH. Qed.

  Lemma reduce_log_nth {B} (fn : A -> B -> B) pre x post acc :
    nth_error (reduce_log fn (pre ++ x :: post) acc) (length pre) =
    Some (x, fold_left (fun a v => fn v a) pre acc).
  Proof. revert acc; induction pre as [|y pre IH]; intros acc; cbn; [reflexivity|]. apply IH. Qed.

  (* ---------- Reverse ---------- *)

  Lemma reverse_loop_spec fuel : forall (mid pre post : list A) i j,
    i = length pre -> j = (length pre + length mid - 1)%nat -> (length mid <= fuel)%nat ->
    reverse_loop fuel (pre ++ mid ++ post) i j = Fin (pre ++ rev mid ++ post).
  Proof.
    induction fuel as [|f IH]; intros mid pre post i j Hi Hj Hf.
    - destruct mid; [|cbn in Hf; lia]. cbn [reverse_loop]. subst.
      destruct (length pre <? length pre + length (@nil A) - 1)%nat eqn:E; [|reflexivity].
      apply Nat.ltb_lt in E. cbn in E. lia.
    - destruct (list_ends mid) as [->|[[a ->]|(a & m & b & ->)]].
      + cbn [reverse_loop]. subst.
        destruct (length pre <? length pre + length (@nil A) - 1)%nat eqn:E; [|reflexivity].
        apply Nat.ltb_lt in E. cbn in E. lia.
      + cbn [reverse_loop]. subst.
        destruct (length pre <? length pre + length [a] - 1)%nat eqn:E; [|reflexivity].
        apply Nat.ltb_lt in E. cbn in E. lia.
      + cbn [reverse_loop].
        assert (Hlen : length (a :: m ++ [b]) = S (S (length m))).
        { cbn. rewrite app_length. cbn. lia. }
        rewrite Hlen in *.
        assert (E : (i <? j)%nat = true) by (apply Nat.ltb_lt; lia). rewrite E.
        assert (L : pre ++ (a :: m ++ [b]) ++ post = pre ++ a :: m ++ b :: post).
        { cbn. now rewrite <- app_assoc. }
        rewrite L. subst i. rewrite nth_error_app_here.
        assert (Hj' : j = length (pre ++ a :: m)) by (rewrite app_length; cbn; lia).
        assert (L2 : pre ++ a :: m ++ b :: post = (pre ++ a :: m) ++ b :: post).
        { now rewrite <- app_assoc. }
        rewrite L2 at 1. rewrite Hj', nth_error_app_here.
        rewrite set_nth_app_here.
        assert (L3 : pre ++ b :: m ++ b :: post = (pre ++ b :: m) ++ b :: post).
        { now rewrite <- app_assoc. }
        assert (Hj2 : length (pre ++ a :: m) = length (pre ++ b :: m)) by (rewrite !app_length; reflexivity).
        rewrite L3, Hj2, set_nth_app_here.
        assert (L4 : (pre ++ b :: m) ++ a :: post = (pre ++ [b]) ++ m ++ (a :: post)).
        { now rewrite <- !app_assoc. }
        rewrite L4. rewrite (IH m (pre ++ [b]) (a :: post)).
        * f_equal. cbn. rewrite rev_app_distr. cbn. now rewrite <- !app_assoc.
        * rewrite app_length. cbn. lia.
        * rewrite !app_length. cbn. lia.
        * lia.
  Qed.

  Lemma reverse_spec (l : list A) : reverse l = Fin (rev l).
  Proof.
    unfold reverse. pose proof (reverse_loop_spec (length l) l [] [] 0%nat (length l - 1)%nat) as H.
    rewrite !app_nil_r in H. cbn in H. apply H; auto; lia.
  Qed.

  (* ---------- Partition / Filter / DropWhile / DropRightWhile / Reject ---------- *)

  Lemma partition_go_fold (p : A -> bool) l a b :
    fold_left (fun (r : list A * list A) v =>
                 if p v then (fst r ++ [v], snd r) else (fst r, snd r ++ [v])) l (a, b) =
    (a ++ filter p l, b ++ filter (fun x => negb (p x)) l).
  Proof.
    revert a b; induction l as [|x l IH]; intros a b; cbn; [now rewrite !app_nil_r|].
    destruct (p x); cbn; rewrite IH; now rewrite <- app_assoc.
  Qed.

  Lemma partition_go_spec (p : A -> bool) l :
    partition_go p l = (filter p l, filter (fun x => negb (p x)) l).
  Proof. unfold partition_go. now rewrite partition_go_fold. Qed.

  Lemma filter_go_spec (p : A -> bool) l : filter_go p l = filter p l.
  Proof. unfold filter_go. now rewrite fold_append_filter. Qed.

  Lemma drop_while_spec (p : A -> bool) l : drop_while p l = filter (fun x => negb (p x)) l.
  Proof. unfold drop_while. now rewrite (fold_append_filter (fun x => negb (p x))). Qed.

  Lemma drop_right_while_spec (p : A -> bool) l :
    drop_right_while p l = filter (fun x => negb (p x)) (rev l).
  Proof. unfold drop_right_while. now rewrite (fold_append_filter (fun x => negb (p x))). Qed.

  Lemma filter_rev (p : A -> bool) l : filter p (rev l) = rev (filter p l).
  Proof.
    induction l as [|x l IH]; cbn; [reflexivity|]. rewrite filter_app, IH. cbn.
    destruct (p x); cbn; [reflexivity | now rewrite app_nil_r].
  Qed.

  Lemma interleave_filter (p : A -> bool) l :
    interleave (filter p l) (filter (fun x => negb (p x)) l) l.
  Proof.
    induction l as [|x l IH]; cbn; [constructor|].
    destruct (p x); cbn; [now apply il_left | now apply il_right].
  Qed.

  Lemma interleave_perm (a b l : list A) : interleave a b l -> Permutation (a ++ b) l.
  Proof.
    induction 1 as [|x a b l H IH|x a b l H IH]; cbn.
    - constructor.
    - now apply perm_skip.
    - rewrite <- Permutation_middle. now apply perm_skip.
  Qed.

  Lemma interleave_length (a b l : list A) : interleave a b l -> (length a + length b = length l)%nat.
  Proof. induction 1; cbn; lia. Qed.

  Lemma interleave_subseq (a b l : list A) : interleave a b l -> subseq a l /\ subseq b l.
  Proof.
    induction 1 as [|x a b l H [IH1 IH2]|x a b l H [IH1 IH2]]; split;
      try (now apply subseq_nil); try (now apply subseq_keep); try (now apply subseq_skip).
  Qed.

  Lemma remove_at (done : list A) x rest :
    firstn (length done) (done ++ x :: rest) ++ skipn (S (length done)) (done ++ x :: rest) = done ++ rest.
  Proof.
    rewrite firstn_app, Nat.sub_diag, firstn_all, firstn_O, app_nil_r. f_equal.
    induction done as [|y done IH]; [reflexivity|]. exact IH.
  Qed.

  Lemma reject_loop_spec (p : A -> bool) : forall rest done fuel,
    (length rest <= fuel)%nat ->
    reject_loop fuel p (done ++ rest) (length done) = Fin (done ++ filter (fun x => negb (p x)) rest).
  Proof.
    induction rest as [|x rest IH]; intros done fuel Hf.
    - cbn [filter]. rewrite !app_nil_r. destruct fuel; cbn [reject_loop];
        (replace (nth_error done (length done)) with (@None A)
          by (symmetry; apply nth_error_None; lia)); reflexivity.
    - destruct fuel as [|f]; [cbn in Hf; lia|]. cbn [reject_loop].
      rewrite nth_error_app_here. cbn [filter]. destruct (p x); cbn [negb].
      + replace (firstn (length done) (done ++ x :: rest) ++ skipn (S (length done)) (done ++ x :: rest))
          with (done ++ rest).
        * apply IH. cbn in Hf. lia.
        * symmetry. apply remove_at.
      + replace (done ++ x :: rest) with ((done ++ [x]) ++ rest) by now rewrite <- app_assoc.
        replace (S (length done)) with (length (done ++ [x])) by (rewrite app_length; cbn; lia).
        rewrite IH by (cbn in Hf; lia). now rewrite <- app_assoc.
  Qed.

  Lemma reject_spec (p : A -> bool) l : reject p l = Fin (filter (fun x => negb (p x)) l).
  Proof. unfold reject. apply (reject_loop_spec p l [] (length l)). lia. Qed.

  (* ---------- Merge ---------- *)

  Lemma merge_fold (ps : list (list A)) acc :
    fold_left (fun merged p => merged ++ p) ps acc = acc ++ concat ps.
  Proof.
    revert acc; induction ps as [|p ps IH]; intros acc; cbn; [now rewrite app_nil_r|].
    rewrite IH. now rewrite <- app_assoc.
  Qed.

  Lemma merge_spec (s : list A) ps : merge s ps = s ++ concat ps.
  Proof. unfold merge. now rewrite merge_fold. Qed.

End Proofs.

(* ---------- Chunk ---------- *)

Section Chunk.
  Context {A : Type}.

  Lemma chunk_ref_nil fuel n : chunk_ref fuel n (@nil A) = [].
  Proof. destruct fuel; reflexivity. Qed.

  Lemma skipn_cons_length (x : A) l n : (1 <= n)%nat -> (length (skipn n (x :: l)) <= length l)%nat.
  Proof. intros H. rewrite skipn_length. cbn [length]. lia. Qed.

  (* enough fuel is as good as any other sufficient amount *)
  Lemma chunk_ref_fuel n : (1 <= n)%nat -> forall f f' (l : list A),
    (length l <= f)%nat -> (length l <= f')%nat -> chunk_ref f n l = chunk_ref f' n l.
  Proof.
    intros Hn. induction f as [|f IH]; intros f' l Hf Hf'.
    - destruct l; [|cbn in Hf; lia]. now rewrite !chunk_ref_nil.
    - destruct l as [|x l]; [now rewrite !chunk_ref_nil|].
      destruct f' as [|f']; [cbn in Hf'; lia|]. cbn [chunk_ref]. f_equal.
      pose proof (skipn_cons_length x l n Hn). cbn [length] in Hf, Hf'. apply IH; lia.
  Qed.

  Lemma chunk_ref_concat n : (1 <= n)%nat -> forall f (l : list A),
    (length l <= f)%nat -> concat (chunk_ref f n l) = l.
  Proof.
    intros Hn. induction f as [|f IH]; intros l Hf.
    - destruct l; [reflexivity | cbn in Hf; lia].
    - destruct l as [|x l]; [reflexivity|]. cbn [chunk_ref concat].
      pose proof (skipn_cons_length x l n Hn). cbn [length] in Hf.
      rewrite IH by lia. apply firstn_skipn.
  Qed.

  (* every chunk has length n, except the last: non-empty and at most n *)
  Lemma chunk_ref_shape n : (1 <= n)%nat -> forall f (l : list A),
    (length l <= f)%nat -> l <> [] ->
    exists full last_chunk,
      chunk_ref f n l = full ++ [last_chunk] /\
      Forall (fun c => length c = n) full /\
      (1 <= length last_chunk <= n)%nat.
  Proof.
    intros Hn. induction f as [|f IH]; intros l Hf Hne.
    - destruct l; [congruence | cbn in Hf; lia].
    - destruct l as [|x l]; [congruence|]. cbn [chunk_ref].
      destruct (skipn n (x :: l)) as [|y t] eqn:Es.
      + exists [], (firstn n (x :: l)). rewrite chunk_ref_nil. split; [reflexivity|]. split; [constructor|].
        assert (length (x :: l) <= n)%nat.
        { apply (f_equal (@length A)) in Es. rewrite skipn_length in Es. cbn [length] in *. lia. }
        rewrite firstn_all2 by lia. cbn [length] in *. lia.
      + pose proof (skipn_cons_length x l n Hn) as Hs. rewrite Es in Hs. cbn [length] in Hf.
        destruct (IH (y :: t)) as (full & lc & E & Hfull & Hlc); [lia | congruence|].
        exists (firstn n (x :: l) :: full), lc. rewrite E. split; [reflexivity|]. split; [|exact Hlc].
        constructor; [|exact Hfull]. apply firstn_length_le.
        apply (f_equal (@length A)) in Es. rewrite skipn_length in Es. cbn [length] in *. lia.
  Qed.

  (* the loop body over unbounded naturals (no wrap-around): what [chunk_step] is on Go's domain *)
  Definition chunk_step_nat (slice : list A) (size : nat) (result : list (list A)) (i : nat) : list (list A) :=
    if (i mod size =? 0)%nat then
      if (i + size <? length slice)%nat
      then result ++ [firstn size (skipn i slice)]
      else result ++ [skipn i slice]
    else result.

  Lemma chunk_noop (l : list A) n js acc :
    (forall j, In j js -> (j mod n =? 0)%nat = false) -> fold_left (chunk_step_nat l n) js acc = acc.
  Proof.
    revert acc; induction js as [|j js IH]; intros acc H; cbn; [reflexivity|].
    unfold chunk_step_nat at 2. rewrite (H j) by now left. apply IH. intros; apply H; now right.
  Qed.

  Lemma mod_between a t n : (a mod n = 0)%nat -> (0 < t < n)%nat -> ((a + t) mod n =? 0)%nat = false.
  Proof.
    intros Ha Ht. apply Nat.eqb_neq. rewrite Nat.add_mod by lia. rewrite Ha. cbn [Nat.add].
    rewrite Nat.mod_mod by lia. rewrite Nat.mod_small by lia. lia.
  Qed.

  Lemma skipn_add (l : list A) a b : skipn b (skipn a l) = skipn (a + b) l.
  Proof.
    revert l; induction a as [|a IH]; intros l; [reflexivity|].
    destruct l as [|x l]; cbn; [now rewrite skipn_nil|]. apply IH.
  Qed.

  Lemma chunk_fold (l : list A) n : (1 <= n)%nat -> forall m a acc,
    (length l - a <= m)%nat -> (a mod n = 0)%nat -> (a <= length l)%nat ->
    fold_left (chunk_step_nat l n) (seq a (length l - a)) acc =
    acc ++ chunk_ref (length l - a) n (skipn a l).
  Proof.
    intros Hn. induction m as [|m IH]; intros a acc Hm Hmod Ha.
    - replace (length l - a)%nat with 0%nat by lia. cbn. now rewrite app_nil_r.
    - destruct (length l - a)%nat as [|d] eqn:Ed; [cbn; now rewrite app_nil_r|].
      cbn [seq fold_left]. unfold chunk_step_nat at 2.
      replace (a mod n =? 0)%nat with true by (symmetry; now apply Nat.eqb_eq).
      assert (Hsk : length (skipn a l) = S d) by (rewrite skipn_length; lia).
      destruct (skipn a l) as [|x t] eqn:Es; [discriminate|]. cbn [chunk_ref].
      destruct (a + n <? length l)%nat eqn:E.
      + apply Nat.ltb_lt in E.
        replace d with ((n - 1) + (length l - (a + n)))%nat by lia.
        rewrite seq_app, fold_left_app. rewrite (chunk_noop l n (seq (S a) (n - 1))).
        * replace (S a + (n - 1))%nat with (a + n)%nat by lia.
          rewrite IH; try lia.
          -- rewrite <- app_assoc. cbn [app]. do 2 f_equal.
             rewrite <- Es, skipn_add.
             apply chunk_ref_fuel; auto; rewrite skipn_length; lia.
          -- rewrite Nat.add_mod by lia. rewrite Hmod, Nat.mod_same by lia. cbn. apply Nat.mod_0_l. lia.
        * intros j Hj. apply in_seq in Hj. replace j with (a + (j - a))%nat by lia.
          apply mod_between; [exact Hmod | lia].
      + apply Nat.ltb_ge in E. rewrite chunk_noop.
        * rewrite firstn_all2 by (rewrite Hsk; lia).
          rewrite skipn_all2 by (rewrite Hsk; lia). now rewrite chunk_ref_nil.
        * intros j Hj. apply in_seq in Hj. replace j with (a + (j - a))%nat by lia.
          apply mod_between; [exact Hmod | lia].
  Qed.

  Lemma wrap64_id z : min_int64 <= z <= max_int64 -> wrap64 z = z.
  Proof. unfold wrap64, min_int64, max_int64. intros H. rewrite Z.mod_small; lia. Qed.

  Lemma wrap64_high z : 9223372036854775808 <= z < 27670116110564327424 -> wrap64 z = z - 18446744073709551616.
  Proof.
    unfold wrap64. intros H.
    rewrite <- (Z.mod_unique (z + 9223372036854775808) 18446744073709551616 1 (z - 9223372036854775808)); lia.
  Qed.

  (* on Go's domain — size an int, len(slice) <= 2^62 — the wrapping body is the plain one *)
  Lemma chunk_step_64 (l : list A) size r i :
    1 <= size <= max_int64 -> 2 * Z.of_nat (length l) <= max_int64 -> (i < length l)%nat ->
    chunk_step l size (Ok r) i = Ok (chunk_step_nat l (Z.to_nat size) r i).
  Proof.
    intros Hs Hl Hi. unfold chunk_step, chunk_step_nat.
    assert (Hmod : (Z.of_nat i mod size =? 0) = (i mod Z.to_nat size =? 0)%nat).
    { apply eq_iff_eq_true. rewrite Z.eqb_eq, Nat.eqb_eq.
      replace size with (Z.of_nat (Z.to_nat size)) at 1 by lia.
      rewrite <- Nat2Z.inj_mod. lia. }
    rewrite <- Hmod. destruct (Z.of_nat i mod size =? 0) eqn:E; [|reflexivity].
    apply Z.eqb_eq in E.
    assert (Hi0 : Z.of_nat i = 0 \/ size <= Z.of_nat i).
    { destruct (Z_lt_ge_dec (Z.of_nat i) size) as [Hlt|Hge]; [left|right; lia].
      rewrite Z.mod_small in E by lia. exact E. }
    unfold max_int64 in *.
    rewrite wrap64_id by (unfold min_int64, max_int64; lia).
    replace (Z.of_nat i + size <? Z.of_nat (length l)) with (i + Z.to_nat size <? length l)%nat
      by (apply eq_iff_eq_true; rewrite Z.ltb_lt, Nat.ltb_lt; lia).
    destruct (i + Z.to_nat size <? length l)%nat; [|reflexivity].
    replace (Z.of_nat i <=? Z.of_nat i + size) with true by (symmetry; apply Z.leb_le; lia).
    now replace (Z.to_nat (Z.of_nat i + size - Z.of_nat i)) with (Z.to_nat size) by lia.
  Qed.

  Lemma chunk_fold_64 (l : list A) size : 1 <= size <= max_int64 -> 2 * Z.of_nat (length l) <= max_int64 ->
    forall js acc, (forall j, In j js -> (j < length l)%nat) ->
    fold_left (chunk_step l size) js (Ok acc) = Ok (fold_left (chunk_step_nat l (Z.to_nat size)) js acc).
  Proof.
    intros Hs Hl. induction js as [|j js IH]; intros acc Hj; cbn [fold_left]; [reflexivity|].
    rewrite chunk_step_64 by (auto; apply Hj; now left). apply IH. intros; apply Hj; now right.
  Qed.

  (* [size] an int, len(l) <= 2^62 (true of every slice whose loop can terminate) *)
  Lemma chunk_spec (l : list A) size :
    size <= max_int64 -> 2 * Z.of_nat (length l) <= max_int64 ->
    chunk l size = if size <=? 0 then Panic else Ok (chunk_ref (length l) (Z.to_nat size) l).
  Proof.
    intros Hs Hl. unfold chunk. destruct (size <=? 0) eqn:E; [reflexivity|]. apply Z.leb_gt in E.
    rewrite chunk_fold_64 by (try lia; intros j Hj; apply in_seq in Hj; lia). f_equal.
    pose proof (chunk_fold l (Z.to_nat size) ltac:(lia) (length l) 0%nat [] ltac:(lia)) as H.
    rewrite Nat.sub_0_r in H. cbn [app skipn] in H. apply H; [|lia].
    apply Nat.mod_0_l. lia.
  Qed.

  (* cutting at least len(l) at a time gives the same chunks whatever the amount *)
  Lemma chunk_ref_big f n n' (l : list A) :
    (length l <= n)%nat -> (length l <= n')%nat -> chunk_ref f n l = chunk_ref f n' l.
  Proof.
    intros H H'. destruct f as [|f]; [reflexivity|]. destruct l as [|x l]; [reflexivity|].
    cbn [chunk_ref]. rewrite !firstn_all2, !skipn_all2 by assumption. now rewrite !chunk_ref_nil.
  Qed.

  Lemma chunk_is_ref (l : list A) size :
    size <= max_int64 -> 2 * Z.of_nat (length l) <= max_int64 -> chunk l size = chunk_spec_ref l size.
  Proof.
    intros Hs Hl. rewrite chunk_spec by assumption. unfold chunk_spec_ref.
    destruct (size <=? 0) eqn:E; [reflexivity|]. apply Z.leb_gt in E. f_equal.
    destruct (Z_le_gt_dec size (Z.max 1 (Z.of_nat (length l)))) as [H|H].
    - now rewrite Z.min_l by lia.
    - rewrite Z.min_r by lia. apply chunk_ref_big; lia.
  Qed.

  (* ---------- Drop ---------- *)

  Lemma abs64_min : abs64 min_int64 = min_int64.
  Proof. reflexivity. Qed.

  (* the repaired Drop, for EVERY n; len(l) an int *)
  Lemma drop_front (l : list A) n :
    0 <= n -> Z.of_nat (length l) <= max_int64 -> drop l n = Ok (skipn (Z.to_nat n) l).
  Proof.
    intros Hn Hl. unfold drop. unfold max_int64 in Hl.
    destruct (Z.eq_dec n 0) as [->|Hn0].
    - cbn [Z.gtb Z.compare andb Z.leb]. rewrite Z.add_0_r.
      destruct (length l) as [|k] eqn:Ek.
      + cbn. destruct l; [reflexivity|discriminate].
      + rewrite !wrap64_id by (unfold min_int64, max_int64; lia).
        replace (0 >? - Z.of_nat (S k)) with true by (symmetry; rewrite Z.gtb_ltb; apply Z.ltb_lt; lia).
        replace ((0 <=? Z.of_nat (S k)) && (Z.of_nat (S k) <=? Z.of_nat (S k))) with true
          by (symmetry; apply andb_true_iff; split; apply Z.leb_le; lia).
        rewrite Nat2Z.id, <- Ek. cbn. now rewrite firstn_all.
    - replace (n >? 0) with true by (symmetry; rewrite Z.gtb_ltb; apply Z.ltb_lt; lia).
      replace (n <=? 0) with false by (symmetry; apply Z.leb_gt; lia). cbn [andb].
      destruct (n <? Z.of_nat (length l)) eqn:E; [reflexivity|].
      apply Z.ltb_ge in E. f_equal. symmetry. apply skipn_all2. lia.
  Qed.

  Lemma drop_back (l : list A) n :
    n <= 0 -> Z.of_nat (length l) <= max_int64 ->
    drop l n = Ok (firstn (length l - Z.to_nat (- n)) l).
  Proof.
    intros Hn Hl. destruct (Z.eq_dec n 0) as [->|Hn0].
    { rewrite drop_front by lia. cbn. now rewrite Nat.sub_0_r, firstn_all. }
    unfold drop. unfold max_int64 in Hl.
    replace (n >? 0) with false by (symmetry; rewrite Z.gtb_ltb; apply Z.ltb_ge; lia).
    replace (n <=? 0) with true by (symmetry; apply Z.leb_le; lia). cbn [andb].
    rewrite (wrap64_id (- Z.of_nat (length l))) by (unfold min_int64, max_int64; lia).
    destruct (n >? - Z.of_nat (length l)) eqn:E.
    - rewrite Z.gtb_ltb in E. apply Z.ltb_lt in E.
      rewrite wrap64_id by (unfold min_int64, max_int64; lia).
      replace ((0 <=? Z.of_nat (length l) + n) && (Z.of_nat (length l) + n <=? Z.of_nat (length l))) with true
        by (symmetry; apply andb_true_iff; split; apply Z.leb_le; lia).
      f_equal. f_equal. lia.
    - rewrite Z.gtb_ltb in E. apply Z.ltb_ge in E.
      replace (length l - Z.to_nat (- n))%nat with 0%nat by lia. reflexivity.
  Qed.

  (* the shipped code before the repair: the one int for which it failed.
     Abs(MinInt) = MinInt < len, then slice[:len-MinInt] *)
  Lemma drop_unrepaired_min_int (l : list A) :
    Z.of_nat (length l) <= max_int64 -> drop_unrepaired l min_int64 = Panic.
  Proof.
    intros Hl. unfold drop_unrepaired. rewrite abs64_min. unfold min_int64, max_int64 in *.
    replace (-9223372036854775808 <? Z.of_nat (length l)) with true by (symmetry; apply Z.ltb_lt; lia).
    cbn [Z.gtb Z.compare]. rewrite wrap64_high by lia.
    replace (0 <=? Z.of_nat (length l) - -9223372036854775808 - 18446744073709551616) with false
      by (symmetry; apply Z.leb_gt; lia).
    reflexivity.
  Qed.

  Lemma drop_ref_spec (l : list A) n :
    (0 <= n -> drop_ref l n = skipn (Z.to_nat n) l) /\
    (n <= 0 -> drop_ref l n = firstn (length l - Z.to_nat (- n)) l).
  Proof.
    unfold drop_ref. split; intros Hn.
    - replace (0 <=? n) with true by (symmetry; apply Z.leb_le; lia).
      destruct (n <? Z.of_nat (length l)) eqn:E; [reflexivity|].
      apply Z.ltb_ge in E. symmetry. apply skipn_all2. lia.
    - destruct (Z.eq_dec n 0) as [->|Hn0].
      + cbn. rewrite Nat.sub_0_r, firstn_all. now destruct l.
      + replace (0 <=? n) with false by (symmetry; apply Z.leb_gt; lia).
        destruct (- n <? Z.of_nat (length l)) eqn:E; [reflexivity|].
        apply Z.ltb_ge in E. replace (length l - Z.to_nat (- n))%nat with 0%nat by lia. reflexivity.
  Qed.

End Chunk.

(* ---------- mapByIndex / GroupBy ---------- *)

Section Group.
  Context {A K : Type} (kd : forall x y : K, {x = y} + {x <> y}).

  Lemma map_by_index_lockstep (fn : A -> K) l acc :
    map_by_index kd l (map fn l) acc = Ok (fold_left (fun m x => group_add kd m (fn x) x) l acc).
  Proof. revert acc; induction l as [|x l IH]; intros acc; cbn; [reflexivity | apply IH]. Qed.

  (* group_add on a table given by a function of the key *)
  Lemma group_add_table (g : K -> list A) ks k0 x :
    NoDup ks ->
    group_add kd (map (fun k => (k, g k)) ks) k0 x =
    if inb kd k0 ks
    then map (fun k => (k, if kd k k0 then g k ++ [x] else g k)) ks
    else map (fun k => (k, g k)) ks ++ [(k0, [x])].
  Proof.
    induction ks as [|k ks IH]; intros ND; [reflexivity|].
    inversion ND as [|? ? Hn ND']; subst. cbn [map group_add].
    destruct (kd k k0) as [->|Hne].
    - replace (inb kd k0 (k0 :: ks)) with true by (symmetry; apply inb_iff; now left).
      cbn [map]. destruct (kd k0 k0); [|congruence]. f_equal.
      apply map_ext_in. intros k Hk. destruct (kd k k0); [subst; contradiction | reflexivity].
    - rewrite (IH ND').
      replace (inb kd k0 (k :: ks)) with (inb kd k0 ks).
      + destruct (inb kd k0 ks); cbn [map app]; [|reflexivity].
        destruct (kd k k0); [contradiction | reflexivity].
      + apply inb_ext. cbn. split; [now right | intros [H|H]; [congruence | exact H]].
  Qed.

  Lemma filter_none (p : A -> bool) l : (forall y, In y l -> p y = false) -> filter p l = [].
  Proof.
    induction l as [|y l IH]; intros H; cbn; [reflexivity|].
    rewrite (H y) by now left. apply IH. intros; apply H; now right.
  Qed.

  Lemma group_by_ref_snoc (fn : A -> K) l x :
    group_by_ref kd fn (l ++ [x]) = group_add kd (group_by_ref kd fn l) (fn x) x.
  Proof.
    unfold group_by_ref. rewrite map_app. cbn [map]. rewrite <- !unique_is_ref, unique_snoc.
    rewrite group_add_table by apply unique_NoDup.
    rewrite (inb_ext kd (fn x) (unique kd (map fn l)) (map fn l)) by apply unique_In.
    destruct (inb kd (fn x) (map fn l)) eqn:E.
    - apply map_ext. intros k. rewrite filter_app. cbn [filter].
      destruct (kd (fn x) k) as [Ek|Hne]; destruct (kd k (fn x)) as [E'|Hne']; try congruence.
      now rewrite app_nil_r.
    - rewrite map_app. cbn [map]. f_equal.
      + apply map_ext_in. intros k Hk. rewrite filter_app. cbn [filter].
        destruct (kd (fn x) k) as [<-|Hne]; [|now rewrite app_nil_r].
        apply (proj1 (unique_In _ _ _)) in Hk. apply inb_false_iff in E. contradiction.
      + rewrite filter_app. cbn [filter]. destruct (kd (fn x) (fn x)); [|congruence].
        rewrite filter_none; [reflexivity|]. intros y Hy.
        destruct (kd (fn y) (fn x)) as [E'|]; [|reflexivity].
        apply inb_false_iff in E. exfalso. apply E. rewrite <- E'. now apply in_map.
  Qed.

  Lemma group_by_spec (fn : A -> K) l : group_by kd fn l = Ok (group_by_ref kd fn l).
  Proof.
    unfold group_by. rewrite map_go_spec. cbn [fst]. rewrite map_by_index_lockstep. f_equal.
    induction l as [|x l IH] using rev_ind; [reflexivity|].
    now rewrite fold_left_app, IH, group_by_ref_snoc.
  Qed.

  Lemma group_by_ref_keys (fn : A -> K) l : map fst (group_by_ref kd fn l) = unique kd (map fn l).
  Proof. unfold group_by_ref. rewrite map_map. cbn. rewrite map_id. symmetry. apply unique_is_ref. Qed.

  Lemma group_by_ref_groups (fn : A -> K) l k g :
    In (k, g) (group_by_ref kd fn l) ->
    g = filter (fun x => if kd (fn x) k then true else false) l /\ g <> [] /\ In k (map fn l).
  Proof.
    unfold group_by_ref. rewrite in_map_iff. intros (k' & E & Hin). injection E as -> <-.
    rewrite <- unique_is_ref in Hin. apply (proj1 (unique_In _ _ _)) in Hin.
    split; [reflexivity|]. split; [|exact Hin].
    apply in_map_iff in Hin as (y & Ey & Hy). intros Hnil.
    assert (In y (filter (fun x => if kd (fn x) k then true else false) l)) as H.
    { apply filter_In. split; [exact Hy|]. destruct (kd (fn y) k); [reflexivity | contradiction]. }
    rewrite Hnil in H. contradiction.
  Qed.

  Lemma flat_map_nil {B C} (ks : list B) : flat_map (fun _ => @nil C) ks = [].
  Proof. induction ks; cbn; auto. Qed.

  Definition grp (fn : A -> K) (l : list A) (k : K) : list A :=
    filter (fun y => if kd (fn y) k then true else false) l.

  Lemma grp_cons fn x l k :
    grp fn (x :: l) k = if kd (fn x) k then x :: grp fn l k else grp fn l k.
  Proof. unfold grp. cbn [filter]. now destruct (kd (fn x) k). Qed.

  Lemma groups_noinsert (fn : A -> K) x l ks :
    ~ In (fn x) ks -> flat_map (grp fn (x :: l)) ks = flat_map (grp fn l) ks.
  Proof.
    induction ks as [|k ks IH]; intros Hn; cbn [flat_map]; [reflexivity|].
    rewrite IH by (intros H; apply Hn; now right). rewrite grp_cons.
    destruct (kd (fn x) k) as [E|]; [|reflexivity]. exfalso. apply Hn. now left.
  Qed.

  Lemma groups_insert (fn : A -> K) x l ks :
    NoDup ks -> In (fn x) ks ->
    Permutation (flat_map (grp fn (x :: l)) ks) (x :: flat_map (grp fn l) ks).
  Proof.
    induction ks as [|k ks IH]; intros ND Hin; [contradiction|].
    inversion ND as [|? ? Hn ND']; subst. cbn [flat_map]. rewrite grp_cons.
    destruct (kd (fn x) k) as [E|Hne].
    - subst k. rewrite groups_noinsert by exact Hn. reflexivity.
    - destruct Hin as [H|H]; [congruence|].
      rewrite (IH ND' H). symmetry. apply Permutation_middle.
  Qed.

  (* every element lands in exactly one group *)
  Lemma groups_perm (fn : A -> K) l ks :
    NoDup ks -> (forall y, In y l -> In (fn y) ks) -> Permutation (flat_map (grp fn l) ks) l.
  Proof.
    intros ND. induction l as [|x l IH]; intros H.
    - unfold grp. cbn [filter]. now rewrite flat_map_nil.
    - rewrite groups_insert; [|exact ND | apply H; now left].
      apply perm_skip. apply IH. intros; apply H; now right.
  Qed.

  Lemma group_by_ref_conserves (fn : A -> K) l :
    Permutation (concat (map snd (group_by_ref kd fn l))) l.
  Proof.
    unfold group_by_ref. rewrite map_map. cbn [snd]. rewrite <- flat_map_concat_map.
    apply (groups_perm fn l).
    - rewrite <- unique_is_ref. apply unique_NoDup.
    - intros y Hy. rewrite <- unique_is_ref. apply unique_In. now apply in_map.
  Qed.

End Group.

(* ---------- Zip / Unzip ---------- *)

Lemma fold_left_map {S B C} (f : S -> C -> S) (g : B -> C) l s :
  fold_left f (map g l) s = fold_left (fun s x => f s (g x)) l s.
Proof. revert s; induction l as [|x l IH]; intros s; cbn; auto. Qed.

Lemma fold_nested {S} (F : S -> nat -> nat -> S) xs js r0 :
  fold_left (fun r x => fold_left (fun r i => F r x i) js r) xs r0 =
  fold_left (fun r c => F r (fst c) (snd c)) (list_prod xs js) r0.
Proof.
  revert r0; induction xs as [|x xs IH]; intros r0; cbn [fold_left list_prod]; [reflexivity|].
  rewrite fold_left_app, fold_left_map. cbn [fst snd]. apply IH.
Qed.

Lemma Forall_set_nth {B} (P : B -> Prop) m i r :
  Forall P m -> ((i < length m)%nat -> P r) -> Forall P (set_nth m i r).
Proof.
  revert i; induction m as [|x m IH]; intros [|i] H Hr; cbn; auto.
  - inversion H; subst. constructor; auto. apply Hr. cbn. lia.
  - inversion H; subst. constructor; auto. apply IH; auto. intros; apply Hr. cbn. lia.
Qed.

Lemma nth_map_seq {B} (h : nat -> B) n i d : (i < n)%nat -> nth i (map h (seq 0 n)) d = h i.
Proof.
  intros H. rewrite (nth_indep _ d (h 0%nat)) by (rewrite map_length, seq_length; lia).
  rewrite map_nth, seq_nth by lia. reflexivity.
Qed.

Lemma nth_map_any {B C} (f : B -> C) l j d d' : (j < length l)%nat -> nth j (map f l) d = f (nth j l d').
Proof.
  intros H. rewrite (nth_indep _ d (f d')) by (rewrite map_length; lia). apply map_nth.
Qed.

Lemma pair_dec (x y : nat * nat) : {x = y} + {x <> y}.
Proof. decide equality; apply Nat.eq_dec. Qed.

Section Matrix.
  Context {A : Type} (zero : A).
  Notation get2 := (get2 zero).

  Lemma square_row n (m : list (list A)) i : square n m -> (i < n)%nat -> length (nth i m []) = n.
  Proof.
    intros [Hl Hr] Hi. rewrite Forall_forall in Hr. apply Hr. apply nth_In. lia.
  Qed.

  Lemma set2_square n (m : list (list A)) i j v : square n m -> square n (set2 m i j v).
  Proof.
    intros [Hl Hr]. unfold set2. split; [now rewrite set_nth_length|].
    apply Forall_set_nth; [exact Hr|]. intros Hi. rewrite set_nth_length.
    apply (square_row n m i); [now split | lia].
  Qed.

  Lemma get2_set2 n (m : list (list A)) i j v i' j' :
    square n m -> (i < n)%nat -> (j < n)%nat ->
    get2 (set2 m i j v) i' j' = if ((i' =? i) && (j' =? j))%nat then v else get2 m i' j'.
  Proof.
    intros Hsq Hi Hj. unfold C12_Model.get2, set2. destruct Hsq as [Hl Hr].
    rewrite (nth_set_nth m i i' _ []) by lia.
    destruct (i' =? i)%nat eqn:E; cbn [andb]; [|reflexivity].
    apply Nat.eqb_eq in E. subst i'. rewrite nth_set_nth; [reflexivity|].
    rewrite (square_row n m i); [lia | now split | lia].
  Qed.

  (* a sequence of assignments result[a][b] = T a b to in-range cells *)
  Lemma assign_cells (T : nat -> nat -> A) n cells : forall r,
    square n r -> (forall c, In c cells -> (fst c < n)%nat /\ (snd c < n)%nat) ->
    let r' := fold_left (fun r c => set2 r (fst c) (snd c) (T (fst c) (snd c))) cells r in
    square n r' /\
    forall i j, (In (i, j) cells -> get2 r' i j = T i j) /\
                (~ In (i, j) cells -> get2 r' i j = get2 r i j).
  Proof.
    induction cells as [|[a b] cells IH]; intros r Hs Hc; cbn [fold_left fst snd].
    - split; [exact Hs|]. intros i j. split; [intros [] | reflexivity].
    - destruct (Hc (a, b) (or_introl eq_refl)) as [Ha Hb]. cbn [fst snd] in Ha, Hb.
      destruct (IH (set2 r a b (T a b))) as [Hs' Hg].
      + now apply set2_square.
      + intros c Hin. apply Hc. now right.
      + split; [exact Hs'|]. intros i j. destruct (Hg i j) as [G1 G2]. split.
        * intros [E|Hin]; [|now apply G1]. injection E as <- <-.
          destruct (in_dec pair_dec (a, b) cells) as [Hin|Hn]; [now apply G1|].
          rewrite (G2 Hn), (get2_set2 n) by auto. now rewrite !Nat.eqb_refl.
        * intros Hn. rewrite G2 by (intros H; apply Hn; now right).
          rewrite (get2_set2 n) by auto.
          destruct ((i =? a) && (j =? b))%nat eqn:E; [|reflexivity].
          apply andb_prop in E as [E1 E2]. apply Nat.eqb_eq in E1, E2. subst.
          exfalso. apply Hn. now left.
  Qed.

  Lemma matrix_ext n (a b : list (list A)) :
    square n a -> square n b ->
    (forall i j, (i < n)%nat -> (j < n)%nat -> get2 a i j = get2 b i j) -> a = b.
  Proof.
    intros Ha Hb H. apply (nth_ext a b [] []).
    - destruct Ha, Hb. congruence.
    - intros i Hi. assert (Hi' : (i < n)%nat) by (destruct Ha; lia).
      apply (nth_ext _ _ zero zero).
      + now rewrite (square_row n a i), (square_row n b i).
      + intros j Hj. rewrite (square_row n a i) in Hj by auto. now apply H.
  Qed.

  Lemma transpose_row (m : list (list A)) i :
    (i < length m)%nat -> nth i (transpose zero m) [] = map (fun row => nth i row zero) m.
  Proof.
    intros Hi. unfold transpose. now rewrite nth_map_seq.
  Qed.

  Lemma transpose_square n (m : list (list A)) : square n m -> square n (transpose zero m).
  Proof.
    intros [Hl Hr]. unfold transpose. split; [now rewrite map_length, seq_length|].
    apply Forall_forall. intros row Hin. apply in_map_iff in Hin as (i & <- & _).
    now rewrite map_length.
  Qed.

  Lemma transpose_get2 n (m : list (list A)) i j :
    square n m -> (i < n)%nat -> (j < n)%nat -> get2 (transpose zero m) i j = get2 m j i.
  Proof.
    intros [Hl Hr] Hi Hj. unfold C12_Model.get2. rewrite transpose_row by lia.
    now rewrite (nth_map_any _ m j zero []) by lia.
  Qed.

  Lemma transpose_involutive n (m : list (list A)) :
    square n m -> transpose zero (transpose zero m) = m.
  Proof.
    intros Hs. apply (matrix_ext n).
    - now apply transpose_square, transpose_square.
    - exact Hs.
    - intros i j Hi Hj. rewrite (transpose_get2 n) by (auto using transpose_square).
      now apply (transpose_get2 n).
  Qed.

  Lemma shape_ok_iff (m : list (list A)) : shape_ok m = true <-> square (length m) m.
  Proof.
    unfold shape_ok, square. rewrite andb_true_iff, Nat.eqb_eq, forallb_forall, Forall_forall. split.
    - intros [H1 H2]. split; [reflexivity|]. intros row Hin. specialize (H2 row Hin).
      apply Nat.eqb_eq in H2. lia.
    - intros [_ H]. assert (E : slice_len m = length m).
      { destruct m as [|r0 m']; [reflexivity|]. cbn [slice_len]. apply H. now left. }
      split; [exact E|]. intros row Hin. apply Nat.eqb_eq. rewrite E. symmetry. now apply H.
  Qed.

  Lemma fresh_square n (m : list (list A)) : square n m -> square n (fresh zero m).
  Proof.
    intros [Hl Hr]. unfold fresh. split; [now rewrite map_length|].
    apply Forall_forall. intros row Hin. apply in_map_iff in Hin as (sl & <- & Hsl).
    rewrite repeat_length. rewrite Forall_forall in Hr. now apply Hr.
  Qed.

  Lemma in_cells n i j : In (i, j) (list_prod (seq 0 n) (seq 0 n)) <-> (i < n)%nat /\ (j < n)%nat.
  Proof. rewrite in_prod_iff, !in_seq. lia. Qed.

  Lemma zip_spec (m : list (list A)) :
    zip zero m = if shape_ok m then Ok (transpose zero m) else Panic.
  Proof.
    unfold zip. destruct (shape_ok m) eqn:E; [|reflexivity]. cbn [negb]. f_equal.
    assert (Hsq : square (length m) m) by now apply shape_ok_iff.
    assert (Hsl : slice_len m = length m).
    { unfold shape_ok in E. apply andb_prop in E as [E _]. now apply Nat.eqb_eq. }
    rewrite Hsl. set (n := length m) in *.
    rewrite (fold_nested (fun r x i => set2 r i x (get2 m x i))).
    set (T := fun a b => get2 m b a).
    assert (Hfold : forall cells r,
      fold_left (fun r c => set2 r (snd c) (fst c) (get2 m (fst c) (snd c))) cells r =
      fold_left (fun r c => set2 r (fst c) (snd c) (T (fst c) (snd c)))
                (map (fun c => (snd c, fst c)) cells) r).
    { intros cells r. now rewrite fold_left_map. }
    rewrite Hfold.
    destruct (assign_cells T n (map (fun c => (snd c, fst c)) (list_prod (seq 0 n) (seq 0 n)))
                (fresh zero m)) as [Hs Hg].
    - now apply fresh_square.
    - intros c Hin. apply in_map_iff in Hin as ([x i] & <- & Hin). apply in_cells in Hin. cbn. lia.
    - apply (matrix_ext n); [exact Hs | now apply transpose_square|].
      intros i j Hi Hj. rewrite (transpose_get2 n) by auto.
      apply (proj1 (Hg i j)). apply in_map_iff. exists (j, i). split; [reflexivity|].
      apply in_cells. lia.
  Qed.

  Lemma unzip_spec (m : list (list A)) :
    unzip zero m = if shape_ok m then Ok (transpose zero m) else Panic.
  Proof.
    unfold unzip. destruct (shape_ok m) eqn:E; [|reflexivity]. cbn [negb]. f_equal.
    assert (Hsq : square (length m) m) by now apply shape_ok_iff.
    assert (Hsl : slice_len m = length m).
    { unfold shape_ok in E. apply andb_prop in E as [E _]. now apply Nat.eqb_eq. }
    rewrite Hsl. set (n := length m) in *.
    rewrite (fold_nested (fun r x i => set2 r x i (get2 m i x))).
    set (T := fun a b => get2 m b a).
    destruct (assign_cells T n (list_prod (seq 0 n) (seq 0 n)) (fresh zero m)) as [Hs Hg].
    - now apply fresh_square.
    - intros [x i] Hin. apply in_cells in Hin. cbn. lia.
    - apply (matrix_ext n); [exact Hs | now apply transpose_square|].
      intros i j Hi Hj. rewrite (transpose_get2 n) by auto.
      apply (proj1 (Hg i j)). apply in_cells. lia.
  Qed.

  Lemma cell_get2 n (m : list (list A)) i j :
    square n m -> (i < n)%nat -> (j < n)%nat -> cell m i j = Some (get2 m i j).
  Proof.
    intros Hs Hi Hj. unfold cell, C12_Model.get2. destruct Hs as [Hl Hr].
    rewrite (nth_error_nth' m []) by lia.
    apply nth_error_nth'. rewrite (square_row n m i); [lia | now split | lia].
  Qed.

  Lemma cell_out n (m : list (list A)) i j :
    square n m -> (n <= i)%nat \/ (n <= j)%nat -> cell m i j = None.
  Proof.
    intros Hs H. unfold cell. destruct (nth_error m i) as [row|] eqn:E; [|reflexivity].
    assert (Hi : (i < n)%nat).
    { destruct Hs as [Hl _]. rewrite <- Hl. apply nth_error_Some. congruence. }
    apply nth_error_None. apply nth_error_nth with (d := []) in E. subst row.
    rewrite (square_row n m i) by auto. lia.
  Qed.

  Lemma transpose_cell n (m : list (list A)) i j :
    square n m -> cell (transpose zero m) i j = cell m j i.
  Proof.
    intros Hs. destruct (lt_dec i n) as [Hi|Hi]; [destruct (lt_dec j n) as [Hj|Hj]|].
    - rewrite (cell_get2 n), (cell_get2 n) by (auto using transpose_square).
      f_equal. now apply (transpose_get2 n).
    - rewrite (cell_out n), (cell_out n) by (auto using transpose_square; lia). reflexivity.
    - rewrite (cell_out n), (cell_out n) by (auto using transpose_square; lia). reflexivity.
  Qed.

End Matrix.

(* ---------- Shuffle ---------- *)

Section Shuffle.
  Context {A : Type}.

  (* swap(&dst[i], &dst[j]) rearranges *)
  Lemma swap_perm (l : list A) i j a b :
    nth_error l i = Some a -> nth_error l j = Some b ->
    Permutation (set_nth (set_nth l i b) j a) l.
  Proof.
    intros Hi Hj.
    assert (H1 : Permutation (b :: l) (a :: set_nth l i b)) by now apply set_nth_perm.
    assert (Hj' : nth_error (set_nth l i b) j = Some b).
    { destruct (Nat.eq_dec i j) as [->|Hne].
      - apply nth_error_set_nth_eq. apply nth_error_Some. congruence.
      - now rewrite nth_error_set_nth_neq. }
    assert (H2 : Permutation (a :: set_nth l i b) (b :: set_nth (set_nth l i b) j a))
      by now apply set_nth_perm.
    apply Permutation_cons_inv with (a := b). symmetry.
    transitivity (a :: set_nth l i b); assumption.
  Qed.

  Lemma shuffle_loop_perm n : forall (dst : list A) stream call,
    (n <= length dst)%nat ->
    exists r, shuffle_loop n dst stream call = Fin r /\ Permutation r dst.
  Proof.
    induction n as [|i IH]; intros dst stream call Hn.
    - exists dst. split; [reflexivity | apply Permutation_refl].
    - cbn [shuffle_loop].
      set (j := Z.to_nat (stream call mod (Z.of_nat i + 1))).
      assert (Hj : (j < length dst)%nat).
      { pose proof (Z.mod_pos_bound (stream call) (Z.of_nat i + 1) ltac:(lia)). unfold j. lia. }
      destruct (nth_error dst i) as [a|] eqn:Ei; [|apply nth_error_None in Ei; lia].
      destruct (nth_error dst j) as [b|] eqn:Ej; [|apply nth_error_None in Ej; lia].
      destruct (IH (set_nth (set_nth dst i b) j a) stream (S call)) as (r & Hr & Hp).
      + rewrite !set_nth_length. lia.
      + exists r. split; [exact Hr|]. rewrite Hp. now apply swap_perm.
  Qed.

  Lemma shuffle_perm (src : list A) stream :
    exists r, shuffle src stream = Fin r /\ Permutation r src.
  Proof. unfold shuffle. apply shuffle_loop_perm. lia. Qed.

End Shuffle.

(* ================= session 3 (audit) ================= *)

(* ---------- the loop forms at index level ---------- *)

Definition fbody {A St : Type} (body : St -> nat -> A -> St) : St -> nat * A -> St :=
  fun st iv => body st (fst iv) (snd iv).

Lemma combine_app {B C} (a a' : list B) (b b' : list C) :
  length a = length b -> combine (a ++ a') (b ++ b') = combine a b ++ combine a' b'.
Proof.
  revert b; induction a as [|x a IH]; intros [|y b] H; cbn in *; try discriminate; [reflexivity|].
  f_equal. apply IH. lia.
Qed.

Lemma map_snd_combine_seq {A} (l : list A) a : map snd (combine (seq a (length l)) l) = l.
Proof. revert a; induction l as [|x l IH]; intros a; cbn; [reflexivity|]. now rewrite IH. Qed.

Lemma map_fst_combine_seq {A} (l : list A) a : map fst (combine (seq a (length l)) l) = seq a (length l).
Proof. revert a; induction l as [|x l IH]; intros a; cbn; [reflexivity|]. now rewrite IH. Qed.

Lemma fold_log {B C} (g : B -> C) (L : list B) acc :
  fold_left (fun log x => log ++ [g x]) L acc = acc ++ map g L.
Proof.
  revert acc; induction L as [|x L IH]; intros acc; cbn; [now rewrite app_nil_r|].
  rewrite IH. now rewrite <- app_assoc.
Qed.

Section Loops.
  Context {A St : Type} (body : St -> nat -> A -> St).

  Lemma range_loop_gen : forall (rest pre : list A) fuel st,
    (length rest <= fuel)%nat ->
    range_loop body fuel (pre ++ rest) (length pre) st =
    Fin (fold_left (fbody body) (combine (seq (length pre) (length rest)) rest) st).
  Proof.
    induction rest as [|x rest IH]; intros pre fuel st Hf.
    - rewrite app_nil_r. destruct fuel; cbn [range_loop]; rewrite Nat.ltb_irrefl; reflexivity.
    - destruct fuel as [|f]; [cbn in Hf; lia|]. cbn [range_loop].
      replace (length pre <? length (pre ++ x :: rest))%nat with true
        by (symmetry; apply Nat.ltb_lt; rewrite app_length; cbn; lia).
      rewrite nth_error_app_here.
      replace (pre ++ x :: rest) with ((pre ++ [x]) ++ rest) by (now rewrite <- app_assoc).
      replace (S (length pre)) with (length (pre ++ [x])) by (rewrite app_length; cbn; lia).
      rewrite IH by (cbn in Hf; lia). cbn [length seq combine fold_left]. unfold fbody at 3. cbn [fst snd].
      rewrite app_length. cbn [length]. now rewrite Nat.add_1_r.
  Qed.

  Lemma range_loop_spec (l : list A) st :
    range_loop body (length l) l 0 st = Fin (fold_left (fbody body) (indexed l) st).
  Proof. exact (range_loop_gen l [] (length l) st (le_n _)). Qed.

  Lemma firstn_S_nth (l : list A) i v : nth_error l i = Some v -> firstn (S i) l = firstn i l ++ [v].
  Proof.
    revert i; induction l as [|x l IH]; intros [|i] H; cbn in *; try discriminate.
    - now injection H as ->.
    - f_equal. now apply IH.
  Qed.

  Lemma down_loop_gen : forall n (l : list A) st, (n <= length l)%nat ->
    down_loop body n l st = Fin (fold_left (fbody body) (rev (combine (seq 0 n) (firstn n l))) st).
  Proof.
    induction n as [|i IH]; intros l st Hn; [reflexivity|].
    cbn [down_loop]. destruct (nth_error l i) as [v|] eqn:E.
    2:{ apply nth_error_None in E. lia. }
    rewrite IH by lia. rewrite seq_S, (firstn_S_nth l i v E). cbn [plus].
    rewrite combine_app by (rewrite seq_length, firstn_length; lia).
    cbn [combine]. rewrite rev_app_distr. reflexivity.
  Qed.

  Lemma down_loop_spec (l : list A) st :
    down_loop body (length l) l st = Fin (fold_left (fbody body) (rev (indexed l)) st).
  Proof. rewrite down_loop_gen by lia. now rewrite firstn_all. Qed.
End Loops.

Section Iterators.
  Context {A : Type}.

  Lemma fold_indexed_ignore {St} (g : St -> A -> St) (l : list A) st :
    fold_left (fbody (fun s _ v => g s v)) (indexed l) st = fold_left g l st /\
    fold_left (fbody (fun s _ v => g s v)) (rev (indexed l)) st = fold_left g (rev l) st.
  Proof.
    unfold fbody, indexed. cbn [fst snd]. split.
    - rewrite <- (fold_left_map g snd). now rewrite map_snd_combine_seq.
    - rewrite <- (fold_left_map g snd). now rewrite map_rev, map_snd_combine_seq.
  Qed.

  Lemma for_each_cb_spec {St} (cb : St -> A -> St) l s0 :
    for_each_cb cb l s0 = Fin (fold_left cb l s0).
  Proof. unfold for_each_cb. rewrite range_loop_spec. f_equal. apply fold_indexed_ignore. Qed.

  Lemma for_each_right_cb_spec {St} (cb : St -> A -> St) l s0 :
    for_each_right_cb cb l s0 = Fin (fold_left cb (rev l) s0).
  Proof. unfold for_each_right_cb. rewrite down_loop_spec. f_equal. apply fold_indexed_ignore. Qed.

  Lemma reduce_cb_spec {St B} (cb : St -> A -> B -> St * B) l s0 init :
    reduce_cb cb l s0 init = Fin (fold_left (fun st v => cb (fst st) v (snd st)) l (s0, init)).
  Proof.
    unfold reduce_cb. rewrite range_loop_spec. f_equal.
    apply (fold_indexed_ignore (fun st v => cb (fst st) v (snd st))).
  Qed.

  Lemma drop_right_while_idx_spec (p : A -> bool) l :
    drop_right_while_idx p l = Fin (drop_right_while p l).
  Proof.
    unfold drop_right_while_idx, drop_right_while. rewrite down_loop_spec. f_equal.
    apply (fold_indexed_ignore (fun r v => if negb (p v) then r ++ [v] else r)).
  Qed.

  (* Map: the state is (callback state, result slice); position idx is written at step idx *)
  Definition map_step {St B} (cb : St -> A -> St * B) (st : St * list B) (v : A) : St * list B :=
    let (s', b) := cb (fst st) v in (s', snd st ++ [b]).

  Lemma map_cb_gen {St B} (cb : St -> A -> St * B) (zero : B) : forall (rest pre : list A) s imgs,
    length imgs = length pre ->
    fold_left (fbody (fun (st : St * list B) idx v =>
                        let (s', b) := cb (fst st) v in (s', set_nth (snd st) idx b)))
              (combine (seq (length pre) (length rest)) rest) (s, imgs ++ repeat zero (length rest)) =
    fold_left (map_step cb) rest (s, imgs).
  Proof.
    induction rest as [|x rest IH]; intros pre s imgs Hl; cbn [length seq combine fold_left repeat].
    - now rewrite app_nil_r.
    - unfold fbody at 2. cbn [fst snd]. unfold map_step at 2. cbn [fst snd].
      destruct (cb s x) as [s' b]. rewrite <- Hl, set_nth_app_here.
      replace (imgs ++ b :: repeat zero (length rest)) with ((imgs ++ [b]) ++ repeat zero (length rest))
        by (now rewrite <- app_assoc).
      replace (S (length imgs)) with (length (pre ++ [x])) by (rewrite app_length; cbn; lia).
      apply IH. rewrite !app_length. cbn. lia.
  Qed.

  Lemma map_cb_spec {St B} (cb : St -> A -> St * B) (zero : B) l s0 :
    map_cb cb zero l s0 = Fin (fold_left (map_step cb) l (s0, [])).
  Proof.
    unfold map_cb. rewrite range_loop_spec. f_equal. unfold indexed.
    exact (map_cb_gen cb zero l [] s0 [] eq_refl).
  Qed.

  (* what a logging callback sees *)
  Lemma map_step_log {B} (fn : A -> B) l lg out :
    fold_left (map_step (fun (log : list A) v => (log ++ [v], fn v))) l (lg, out) = (lg ++ l, out ++ map fn l).
  Proof.
    revert lg out; induction l as [|x l IH]; intros lg out; cbn [fold_left map].
    - now rewrite !app_nil_r.
    - unfold map_step at 2. cbn [fst snd]. rewrite IH. now rewrite <- !app_assoc.
  Qed.

  (* the indices visited *)
  Lemma range_loop_indices (l : list A) :
    range_loop (fun (log : list nat) i _ => log ++ [i]) (length l) l 0 [] = Fin (seq 0 (length l)).
  Proof.
    rewrite range_loop_spec. f_equal. unfold fbody, indexed. cbn [fst snd].
    rewrite (fold_log fst). cbn. apply map_fst_combine_seq.
  Qed.

  Lemma down_loop_indices (l : list A) :
    down_loop (fun (log : list nat) i _ => log ++ [i]) (length l) l [] = Fin (rev (seq 0 (length l))).
  Proof.
    rewrite down_loop_spec. f_equal. unfold fbody, indexed. cbn [fst snd].
    rewrite (fold_log fst). cbn. now rewrite map_rev, map_fst_combine_seq.
  Qed.

  (* ---------- DropWhile versus the textbook drop-while ---------- *)

  Lemma filter_drop_prefix_while (p : A -> bool) l :
    filter (fun x => negb (p x)) (drop_prefix_while p l) = filter (fun x => negb (p x)) l.
  Proof.
    induction l as [|x l IH]; [reflexivity|]. cbn [drop_prefix_while].
    destruct (p x) eqn:E; [|reflexivity]. cbn [filter]. now rewrite E.
  Qed.

  Lemma filter_id_iff (f : A -> bool) L : filter f L = L <-> Forall (fun x => f x = true) L.
  Proof.
    induction L as [|x L IH]; [split; constructor|]. cbn. destruct (f x) eqn:E.
    - split.
      + intros H. injection H as H. constructor; [exact E | now apply IH].
      + intros H. inversion H; subst. f_equal. now apply IH.
    - split.
      + intros H. assert (Hin : In x (filter f L)) by (rewrite H; now left).
        apply filter_In in Hin as [_ Hx]. congruence.
      + intros H. inversion H; subst. congruence.
  Qed.

  Lemma drop_while_vs_prefix (p : A -> bool) l :
    drop_while p l = filter (fun x => negb (p x)) (drop_prefix_while p l) /\
    subseq (drop_while p l) (drop_prefix_while p l) /\
    (drop_while p l = drop_prefix_while p l <->
     Forall (fun x => p x = false) (drop_prefix_while p l)).
  Proof.
    rewrite drop_while_spec, <- filter_drop_prefix_while.
    split; [reflexivity|]. split; [apply subseq_filter|].
    rewrite filter_id_iff. split; intros H; eapply Forall_impl; try exact H; cbn; intros a Ha.
    - now apply negb_true_iff.
    - now apply negb_true_iff.
  Qed.
End Iterators.

(* ---------- ReverseStr on the string, for any decoder/encoder pair ---------- *)

Section Codec.
  Context {A B : Type} (dec : list B -> list A) (enc : list A -> list B) (valid : A -> Prop).
  Hypothesis dec_enc : forall rs, Forall valid rs -> dec (enc rs) = rs.
  Hypothesis dec_valid : forall s, Forall valid (dec s).

  Lemma reverse_str_via_spec s : reverse_str_via dec enc s = Fin (enc (rev (dec s))).
  Proof. unfold reverse_str_via, reverse_str. now rewrite reverse_spec. Qed.

  Lemma reverse_str_via_twice s :
    exists r, reverse_str_via dec enc s = Fin r /\ reverse_str_via dec enc r = Fin (enc (dec s)).
  Proof.
    exists (enc (rev (dec s))). split; [apply reverse_str_via_spec|].
    rewrite reverse_str_via_spec, dec_enc by (apply Forall_rev, dec_valid).
    now rewrite rev_involutive.
  Qed.
End Codec.

(* ---------- Chunk: the number of chunks ---------- *)

Lemma concat_full_length {A} (full : list (list A)) n :
  Forall (fun c => length c = n) full -> length (concat full) = (n * length full)%nat.
Proof.
  induction 1 as [|c full Hc _ IH]; cbn; [lia|]. rewrite app_length, IH, Hc. lia.
Qed.

Lemma chunk_count {A} (l : list A) n : (1 <= n)%nat ->
  length (chunk_ref (length l) n l) = ((length l + n - 1) / n)%nat.
Proof.
  intros Hn. destruct l as [|x l0] eqn:El.
  - rewrite chunk_ref_nil. cbn. symmetry. apply Nat.div_small. lia.
  - rewrite <- El. assert (Hne : l <> []) by (rewrite El; discriminate).
    destruct (chunk_ref_shape n Hn (length l) l (le_n _) Hne) as (full & lc & E & Hf & Hl).
    pose proof (chunk_ref_concat n Hn (length l) l (le_n _)) as Hc.
    rewrite E in Hc |- *. rewrite app_length. cbn [length].
    assert (Hlen : length l = (n * length full + length lc)%nat).
    { rewrite <- Hc at 1. rewrite concat_app, app_length. cbn. rewrite app_nil_r.
      now rewrite (concat_full_length full n Hf). }
    rewrite Hlen.
    apply (Nat.div_unique _ n (length full + 1) (length lc - 1)); lia.
Qed.

(* ---------- the model functions equal the references of the property checker ---------- *)

Section Refs.
  Context {A : Type} (zero : A).

  Lemma is_square_iff (m : list (list A)) : is_square m = true <-> square (length m) m.
  Proof.
    unfold is_square, square. rewrite forallb_forall, Forall_forall. split.
    - intros H. split; [reflexivity|]. intros row Hin. now apply Nat.eqb_eq, H.
    - intros [_ H] row Hin. now apply Nat.eqb_eq, H.
  Qed.

  Lemma is_square_shape_ok (m : list (list A)) : shape_ok m = is_square m.
  Proof. apply eq_iff_eq_true. now rewrite shape_ok_iff, is_square_iff. Qed.

  Lemma zip_is_ref (m : list (list A)) :
    zip zero m = transpose_ref zero m /\ unzip zero m = transpose_ref zero m.
  Proof. rewrite zip_spec, unzip_spec. unfold transpose_ref. now rewrite is_square_shape_ok. Qed.

  Lemma round_trip_is_ref (m : list (list A)) :
    match zip zero m with Ok r => unzip zero r | Err k => Err k | Panic => Panic end = round_trip_ref m /\
    match unzip zero m with Ok r => zip zero r | Err k => Err k | Panic => Panic end = round_trip_ref m.
  Proof.
    destruct (zip_is_ref m) as [-> ->]. unfold transpose_ref, round_trip_ref.
    destruct (is_square m) eqn:E; [|split; reflexivity].
    apply is_square_iff in E.
    assert (Ht : square (length m) (transpose zero m)) by now apply transpose_square.
    assert (Hl : length (transpose zero m) = length m) by (destruct Ht; auto).
    assert (Hsq : is_square (transpose zero m) = true) by (apply is_square_iff; now rewrite Hl).
    destruct (zip_is_ref (transpose zero m)) as [-> ->]. unfold transpose_ref. rewrite Hsq.
    rewrite (transpose_involutive zero (length m)) by exact E. now split.
  Qed.

  Lemma drop_is_ref (l : list A) n :
    Z.of_nat (length l) <= max_int64 -> drop l n = Ok (drop_ref l n).
  Proof.
    intros Hl. destruct (Z_le_gt_dec 0 n) as [H|H].
    - rewrite drop_front by lia. f_equal. symmetry. now apply drop_ref_spec.
    - rewrite drop_back by lia. f_equal. symmetry. apply drop_ref_spec. lia.
  Qed.
End Refs.
