(* C12_ProofsNaN.v — lemmas about GroupBy over a key type whose `==` is only a
   partial equivalence (C12_ModelNaN.v); the statements are in C12_PropsNaN.v. *)

From Gogu Require Import Base C11_Model C11_Proofs C11_ModelNaN C11_ProofsNaN C12_Model C12_Proofs C12_ModelNaN.
From Coq Require Import Permutation.
Local Open Scope Z_scope.

Lemma last_In_ne {A} (l : list A) d : l <> [] -> In (last l d) l.
Proof.
  induction l as [|a l IH]; [congruence|]. intros _.
  destruct l as [|b l]; [now left|]. right. apply IH. discriminate.
Qed.

Lemma filter_all_false {A} (p : A -> bool) l : (forall y, In y l -> p y = false) -> filter p l = [].
Proof.
  induction l as [|y l IH]; intros H; cbn; [reflexivity|].
  rewrite (H y) by now left. apply IH. intros; apply H; now right.
Qed.

Ltac pair_eq H Ek Eg :=
  pose proof (f_equal fst H) as Ek; pose proof (f_equal snd H) as Eg; cbn [fst snd] in Ek, Eg; clear H.

Section GroupNaN.
  Context {A K : Type} (eq : K -> K -> bool).
  Hypothesis Hper : per eq.

  Notation gadd := (gadd eq).
  Notation gkey_ne := (gkey_ne (A := A) eq).
  Notation ggroup_ref := (ggroup_ref eq).

  (* ---------- the loop body is [gadd] ---------- *)

  Lemma ggroup_step_gadd (m : list (K * list A)) v x : ggroup_step eq m v x = gadd m v x.
  Proof.
    unfold ggroup_step. induction m as [|[k g] m IH]; cbn; [reflexivity|].
    destruct (eq k v); cbn; [reflexivity|]. f_equal. exact IH.
  Qed.

  Lemma gmap_by_index_lockstep (fn : A -> K) l acc :
    gmap_by_index eq l (map fn l) acc = Ok (fold_left (fun m x => gadd m (fn x) x) l acc).
  Proof.
    revert acc; induction l as [|x l IH]; intros acc; cbn [map gmap_by_index fold_left]; [reflexivity|].
    rewrite ggroup_step_gadd. apply IH.
  Qed.

  (* ---------- [gadd] and the removal of the groups filed under a key == k0 ---------- *)

  Lemma gadd_filter_out k0 (m : list (K * list A)) k x : eq k0 k = true ->
    filter (gkey_ne k0) (gadd m k x) = filter (gkey_ne k0) m.
  Proof.
    intros E. induction m as [|[k1 g1] m IH]; cbn [C12_ModelNaN.gadd filter].
    - unfold C12_ModelNaN.gkey_ne. cbn [fst]. rewrite E. reflexivity.
    - destruct (eq k1 k) eqn:E1.
      + cbn [filter].
        replace (gkey_ne k0 (k, g1 ++ [x])) with false
          by (unfold C12_ModelNaN.gkey_ne; cbn [fst]; now rewrite E).
        replace (gkey_ne k0 (k1, g1)) with false
          by (unfold C12_ModelNaN.gkey_ne; cbn [fst]; now rewrite (eq_compat_r eq Hper k1 k k0 E1), E).
        reflexivity.
      + cbn [filter]. rewrite IH. reflexivity.
  Qed.

  Lemma gadd_filter_in k0 (m : list (K * list A)) k x : eq k0 k = false ->
    filter (gkey_ne k0) (gadd m k x) = gadd (filter (gkey_ne k0) m) k x.
  Proof.
    intros E. induction m as [|[k1 g1] m IH]; cbn [C12_ModelNaN.gadd filter].
    - unfold C12_ModelNaN.gkey_ne. cbn [fst]. rewrite E. reflexivity.
    - destruct (eq k1 k) eqn:E1.
      + assert (H : eq k0 k1 = false) by (rewrite (eq_compat_r eq Hper k1 k k0 E1); exact E).
        cbn [filter].
        replace (gkey_ne k0 (k, g1 ++ [x])) with true
          by (unfold C12_ModelNaN.gkey_ne; cbn [fst]; now rewrite E).
        replace (gkey_ne k0 (k1, g1)) with true
          by (unfold C12_ModelNaN.gkey_ne; cbn [fst]; now rewrite H).
        cbn [C12_ModelNaN.gadd]. rewrite E1. reflexivity.
      + cbn [filter]. rewrite IH. destruct (gkey_ne k0 (k1, g1)); [|reflexivity].
        cbn [C12_ModelNaN.gadd]. rewrite E1. reflexivity.
  Qed.

  (* ---------- the key a group is filed under behaves like the key of its first element ---------- *)

  Lemma last_key (fn : A -> K) x r k :
    eq (fn (last (x :: filter (fun y => eq (fn y) (fn x)) r) x)) k = eq (fn x) k.
  Proof.
    set (g := filter (fun y => eq (fn y) (fn x)) r).
    destruct (last_In_ne (x :: g) x) as [E|Hin]; [discriminate | rewrite <- E; reflexivity |].
    apply filter_In in Hin as [_ Q]. apply (eq_compat_l eq Hper). exact Q.
  Qed.

  Lemma last_key_self (fn : A -> K) x r :
    let kl := fn (last (x :: filter (fun y => eq (fn y) (fn x)) r) x) in
    eq (fn x) kl = eq (fn x) (fn x) /\ eq kl kl = eq (fn x) (fn x).
  Proof.
    intros kl. assert (E : eq (fn x) kl = eq (fn x) (fn x)).
    { rewrite (eq_comm eq Hper). unfold kl. apply last_key. }
    split; [exact E|]. unfold kl at 1. rewrite last_key. exact E.
  Qed.

  (* ---------- the reference, one element later ---------- *)

  Lemma ggroup_ref_snoc (fn : A -> K) l y :
    ggroup_ref fn (l ++ [y]) = gadd (ggroup_ref fn l) (fn y) y.
  Proof.
    induction l as [|x r IH]; [reflexivity|].
    cbn [app C12_ModelNaN.ggroup_ref]. rewrite IH, filter_app. cbn [filter].
    destruct (eq (fn y) (fn x)) eqn:E.
    - assert (E' : eq (fn x) (fn y) = true) by (rewrite (eq_comm eq Hper); exact E).
      rewrite (gadd_filter_out _ _ _ _ E'). cbn [C12_ModelNaN.gadd]. rewrite last_key, E'.
      change (x :: filter (fun y0 : A => eq (fn y0) (fn x)) r ++ [y])
        with ((x :: filter (fun y0 : A => eq (fn y0) (fn x)) r) ++ [y]).
      now rewrite last_last.
    - assert (E' : eq (fn x) (fn y) = false) by (rewrite (eq_comm eq Hper); exact E).
      rewrite app_nil_r, (gadd_filter_in _ _ _ _ E'). cbn [C12_ModelNaN.gadd]. rewrite last_key, E'. reflexivity.
  Qed.

  Lemma ggroup_by_spec (fn : A -> K) l : ggroup_by eq fn l = Ok (ggroup_ref fn l).
  Proof.
    unfold ggroup_by. rewrite map_go_spec. cbn [fst]. rewrite gmap_by_index_lockstep. f_equal.
    induction l as [|x l IH] using rev_ind; [reflexivity|].
    now rewrite fold_left_app, IH, ggroup_ref_snoc.
  Qed.

  (* ---------- one group per distinct key ---------- *)

  Lemma pairwise_ne_filter_keys (P : K * list A -> bool) G :
    pairwise_ne eq (map fst G) -> pairwise_ne eq (map fst (filter P G)).
  Proof.
    induction G as [|[k g] G IH]; cbn [map filter fst pairwise_ne]; [auto|]. intros [H1 H2].
    destruct (P (k, g)); [|now apply IH]. cbn [map fst pairwise_ne]. split; [|now apply IH].
    intros k' Hk'. apply H1. apply in_map_iff in Hk' as (e & <- & He). apply filter_In in He as [He _].
    now apply in_map.
  Qed.

  Lemma ggroup_ref_keys_ne (fn : A -> K) l : gkeys_ne eq (ggroup_ref fn l).
  Proof.
    unfold gkeys_ne. induction l as [|x r IH]; [exact I|].
    cbn [C12_ModelNaN.ggroup_ref map fst pairwise_ne]. split.
    - intros k Hk. apply in_map_iff in Hk as ([k' g'] & <- & Hin). apply filter_In in Hin as [_ Hn].
      unfold C12_ModelNaN.gkey_ne in Hn. cbn [fst] in *. rewrite last_key. now apply negb_true_iff in Hn.
    - apply pairwise_ne_filter_keys, IH.
  Qed.

  (* ---------- what a group holds ---------- *)

  Lemma ggroup_ref_subseq (fn : A -> K) l k grp : In (k, grp) (ggroup_ref fn l) -> subseq grp l.
  Proof.
    induction l as [|x r IH]; [contradiction|]. cbn [C12_ModelNaN.ggroup_ref]. intros [H|H].
    - pair_eq H Ek Eg. subst grp. apply subseq_keep, subseq_filter.
    - apply filter_In in H as [H _]. apply subseq_skip, IH, H.
  Qed.

  Lemma ggroup_ref_last_key (fn : A -> K) l k grp :
    In (k, grp) (ggroup_ref fn l) -> exists g' z, grp = g' ++ [z] /\ k = fn z.
  Proof.
    induction l as [|x r IH]; [contradiction|]. cbn [C12_ModelNaN.ggroup_ref]. intros [H|H].
    - pair_eq H Ek Eg. subst k grp.
      destruct (exists_last (l := x :: filter (fun y => eq (fn y) (fn x)) r)) as (g' & z & E); [discriminate|].
      rewrite E. exists g', z. split; [reflexivity|]. now rewrite last_last.
    - apply filter_In in H as [H _]. apply IH, H.
  Qed.

  Lemma ggroup_ref_ordinary (fn : A -> K) l k grp :
    In (k, grp) (ggroup_ref fn l) -> eq k k = true -> grp = filter (fun y => eq (fn y) k) l.
  Proof.
    induction l as [|x r IH]; [contradiction|]. cbn [C12_ModelNaN.ggroup_ref]. intros [H|H] Hord.
    - pair_eq H Ek Eg. subst grp. destruct (last_key_self fn x r) as [E1 E2]. cbn zeta in E1, E2.
      rewrite Ek in E1, E2. cbn [filter]. rewrite E1, <- E2, Hord. f_equal.
      apply filter_ext. intros y. apply (eq_compat_r eq Hper). rewrite E1, <- E2. exact Hord.
    - apply filter_In in H as [H Hn]. unfold C12_ModelNaN.gkey_ne in Hn. cbn [fst] in Hn.
      apply negb_true_iff in Hn. cbn [filter]. rewrite Hn. now apply IH.
  Qed.

  Lemma ggroup_ref_irr (fn : A -> K) l k grp :
    In (k, grp) (ggroup_ref fn l) -> eq k k = false -> exists z, grp = [z] /\ fn z = k.
  Proof.
    induction l as [|x r IH]; [contradiction|]. cbn [C12_ModelNaN.ggroup_ref]. intros [H|H] Hirr.
    - destruct (last_key_self fn x r) as [_ E2]. cbn zeta in E2.
      pair_eq H Ek Eg. rewrite Ek, Hirr in E2.
      assert (N : filter (fun y => eq (fn y) (fn x)) r = []).
      { apply filter_all_false. intros y _. apply (eq_irr_r eq Hper). now symmetry. }
      rewrite N in Ek, Eg. cbn [last] in Ek. exists x. now split.
    - apply filter_In in H as [H _]. now apply IH.
  Qed.

  (* every element whose key is not equal to itself forms a group of its own *)
  Lemma ggroup_ref_singletons (fn : A -> K) l x :
    In x l -> eq (fn x) (fn x) = false -> In (fn x, [x]) (ggroup_ref fn l).
  Proof.
    intros Hin Hirr. induction l as [|x0 r IH]; [contradiction|]. cbn [C12_ModelNaN.ggroup_ref].
    destruct Hin as [->|Hin].
    - left. rewrite (filter_all_false (fun y => eq (fn y) (fn x)) r); [reflexivity|].
      intros y _. now apply (eq_irr_r eq Hper).
    - right. apply filter_In. split; [now apply IH|].
      unfold C12_ModelNaN.gkey_ne. cbn [fst]. now rewrite (eq_irr_r eq Hper).
  Qed.

  (* ---------- conservation ---------- *)

  Lemma gadd_perm (m : list (K * list A)) k x :
    Permutation (concat (map snd (gadd m k x))) (concat (map snd m) ++ [x]).
  Proof.
    induction m as [|[k1 g1] m IH]; cbn [C12_ModelNaN.gadd map snd concat]; [reflexivity|].
    destruct (eq k1 k); cbn [map snd concat]; rewrite <- !app_assoc; apply Permutation_app_head.
    - apply Permutation_app_comm.
    - exact IH.
  Qed.

  Lemma ggroup_ref_conserves (fn : A -> K) l : Permutation (concat (map snd (ggroup_ref fn l))) l.
  Proof.
    induction l as [|y l IH] using rev_ind; [reflexivity|].
    rewrite ggroup_ref_snoc, gadd_perm. now apply Permutation_app_tail.
  Qed.

  (* ---------- the loop as found: the same for a key that equals itself ---------- *)

  Lemma gm_put_get_none (m : list (K * list A)) v g g2 :
    eq v v = true -> gm_get eq m v = None ->
    gm_get eq (gm_put eq m v g) v = Some g /\ gm_put eq (gm_put eq m v g) v g2 = gm_put eq m v g2.
  Proof.
    intros Hv. induction m as [|[k1 g1] m IH]; cbn [gm_get gm_put].
    - intros _. rewrite Hv. split; reflexivity.
    - destruct (eq k1 v) eqn:E; [discriminate|]. intros Hn. cbn [gm_get gm_put]. rewrite E.
      destruct (IH Hn) as [I1 I2]. split; [exact I1 | now rewrite I2].
  Qed.

  Lemma ggroup_step_asfound_ordinary (m : list (K * list A)) v x :
    eq v v = true -> ggroup_step_asfound eq m v x = ggroup_step eq m v x.
  Proof.
    intros Hv. unfold ggroup_step_asfound, ggroup_step.
    destruct (gm_get eq m v) as [g|] eqn:G.
    - rewrite G. reflexivity.
    - destruct (gm_put_get_none m v [] ([] ++ [x]) Hv G) as [I1 I2]. rewrite I1. exact I2.
  Qed.

  Lemma ggroup_by_asfound_ordinary (fn : A -> K) l :
    (forall x, In x l -> eq (fn x) (fn x) = true) -> ggroup_by_asfound eq fn l = ggroup_by eq fn l.
  Proof.
    unfold ggroup_by_asfound, ggroup_by. rewrite map_go_spec. cbn [fst].
    generalize (@nil (K * list A)). induction l as [|x l IH]; intros acc H; [reflexivity|].
    cbn [map gmap_by_index gmap_by_index_asfound].
    rewrite ggroup_step_asfound_ordinary by (apply H; now left).
    apply IH. intros; apply H; now right.
  Qed.
End GroupNaN.

(* ---------- conservativity: at the == of a type with decidable Leibniz equality the generic
   GroupBy IS [group_by] of C12_Model.v ---------- *)
Section Conservative.
  Context {A K : Type} (kd : forall x y : K, {x = y} + {x <> y}).

  Lemma gadd_deq (m : list (K * list A)) k x : gadd (deq kd) m k x = group_add kd m k x.
  Proof.
    induction m as [|[k1 g1] m IH]; cbn [gadd group_add]; [reflexivity|].
    unfold deq at 1. destruct (kd k1 k) as [->|]; [reflexivity|]. now rewrite IH.
  Qed.

  Lemma gmap_by_index_deq (orig : list A) ms acc :
    gmap_by_index (deq kd) orig ms acc = map_by_index kd orig ms acc.
  Proof.
    revert orig acc. induction ms as [|v ms IH]; intros orig acc; [destruct orig; reflexivity|].
    destruct orig as [|x orig]; [reflexivity|]. cbn [gmap_by_index map_by_index].
    now rewrite ggroup_step_gadd, gadd_deq, IH.
  Qed.

  Lemma ggroup_by_deq (fn : A -> K) l : ggroup_by (deq kd) fn l = group_by kd fn l.
  Proof. unfold ggroup_by, group_by. apply gmap_by_index_deq. Qed.
End Conservative.
