(* C12_Props.v — property C12 "Reshaping helpers conserve elements and order",
   stated over the model of C12_Model.v (slice.go, filter.go, shuffle.go,
   string.go:ReverseStr).  Only statements here; every proof is an application
   of lemmas of C12_Proofs.v.  All theorems hold for every element type and
   for slices of every length.

   Vocabulary (C12_Model.v): [loop] results [Fin v | Oob | NoFuel] of the
   index-moving loops — every theorem below that says [= Fin …] also says
   "no index panic, and the fuel of the model suffices";
   [chunk_ref f n l] — cut n elements at a time; [interleave a b l] — l is a
   merge of a and b that keeps both orders (every element of l goes to
   exactly one side); [square n m]; [cell m i j] — m[i][j] as an option;
   [transpose]; [reduce_log]; from C11_Model.v: [subseq], [leaves], [has_bad]
   (C11_Proofs.v), [uniq_ref].
   Go's int is 64 bits wide: [max_int64], [min_int64], [wrap64], [abs64]
   (Abs(MinInt) = MinInt, used by the unrepaired Drop only); Chunk's [i+size] and Drop's
   [-len(slice)], [len(slice)+n] wrap in the model as they do in the code, and [chunk],
   [drop] return [res] ([Panic] = a Go panic).  The theorems about them state
   their domain (an int [size] / [n], a length that is an int) as hypotheses.
   Added by the session-3 audit (second half of the file): [range_loop],
   [down_loop] — the two loop forms with their own index arithmetic;
   [indexed l] — the (index, element) pairs; [for_each_cb] … — the iterators
   with an arbitrary stateful callback; [drop_prefix_while] — the textbook
   drop-while; [reverse_str_via dec enc] — ReverseStr on the string;
   [chunk_spec_ref], [drop_ref], [transpose_ref], [round_trip_ref],
   [flatten_ref] — the references the property checker uses. *)

From Gogu Require Import Base C11_Model C11_Proofs C12_Model C12_Proofs.
From Coq Require Import Permutation.
Local Open Scope Z_scope.

Notation dec_eq A := (forall x y : A, {x = y} + {x <> y}).

(* ===== Chunk(s, n) concatenates back to s; every chunk has length n except a
         shorter, non-empty last one; a size <= 0 panics ===== *)

(* Domain: [size] is a Go int (<= max_int64; the model's i+size wraps like Go's) and
   len(s) <= 2^62 — true of every slice with elements of non-zero size, and the
   loop over a longer slice of zero-size elements does not terminate in practice. *)
Theorem C12_chunk_spec : forall A (l : list A) size,
  size <= max_int64 -> 2 * Z.of_nat (length l) <= max_int64 ->
  chunk l size = if size <=? 0 then Panic else Ok (chunk_ref (length l) (Z.to_nat size) l).
Proof. intros. now apply chunk_spec. Qed.
Print Assumptions C12_chunk_spec.

Theorem C12_chunk_concat_lengths : forall A (l : list A) size,
  1 <= size <= max_int64 -> 2 * Z.of_nat (length l) <= max_int64 ->
  exists cs, chunk l size = Ok cs /\
    concat cs = l /\
    (l = [] -> cs = []) /\
    (l <> [] -> exists full last_chunk,
        cs = full ++ [last_chunk] /\
        Forall (fun c => Z.of_nat (length c) = size) full /\
        1 <= Z.of_nat (length last_chunk) <= size).
Proof.
  intros A l size Hs Hlen. eexists. split.
  - rewrite chunk_spec by (auto; lia). replace (size <=? 0) with false by (symmetry; apply Z.leb_gt; lia). reflexivity.
  - split; [apply chunk_ref_concat; lia|]. split.
    + intros ->. reflexivity.
    + intros Hne. destruct (chunk_ref_shape (Z.to_nat size) ltac:(lia) (length l) l (le_n _) Hne)
        as (full & lc & E & Hf & Hl).
      exists full, lc. split; [exact E|]. split; [|lia].
      eapply Forall_impl; [|exact Hf]. cbn. intros c Hc. lia.
Qed.
Print Assumptions C12_chunk_concat_lengths.

Theorem C12_chunk_panics : forall A (l : list A) size, size <= 0 -> chunk l size = Panic.
Proof.
  intros A l size H. unfold chunk.
  now replace (size <=? 0) with true by (symmetry; apply Z.leb_le; lia).
Qed.
Print Assumptions C12_chunk_panics.

(* ===== element-conserving splits: what an interleaving guarantees ===== *)

Theorem C12_interleave_conserves : forall A (a b l : list A), interleave a b l ->
  Permutation (a ++ b) l /\ (length a + length b = length l)%nat /\ subseq a l /\ subseq b l.
Proof.
  intros A a b l H. split; [now apply interleave_perm|]. split; [now apply interleave_length|].
  now apply interleave_subseq.
Qed.
Print Assumptions C12_interleave_conserves.

(* Partition: both parts in one call *)
Theorem C12_partition : forall A (p : A -> bool) (l : list A),
  partition_go p l = (filter p l, filter (fun x => negb (p x)) l) /\
  interleave (fst (partition_go p l)) (snd (partition_go p l)) l /\
  (forall x, In x (fst (partition_go p l)) <-> In x l /\ p x = true) /\
  (forall x, In x (snd (partition_go p l)) <-> In x l /\ p x = false).
Proof.
  intros A p l. rewrite partition_go_spec. cbn [fst snd].
  split; [reflexivity|]. split; [apply interleave_filter|].
  split; intros x; rewrite filter_In; [reflexivity|]. now rewrite negb_true_iff.
Qed.
Print Assumptions C12_partition.

(* Filter keeps exactly the elements satisfying the predicate; Reject and
   DropWhile keep exactly the others (DropWhile in this code base does not stop
   at the first kept element); kept and dropped elements interleave to s *)
Theorem C12_filter_reject_drop_while : forall A (p : A -> bool) (l : list A),
  filter_go p l = filter p l /\
  reject p l = Fin (filter (fun x => negb (p x)) l) /\
  drop_while p l = filter (fun x => negb (p x)) l /\
  interleave (filter_go p l) (drop_while p l) l /\
  (forall x, In x (filter_go p l) <-> In x l /\ p x = true) /\
  (forall x, In x (drop_while p l) <-> In x l /\ p x = false).
Proof.
  intros A p l. rewrite filter_go_spec, drop_while_spec.
  split; [reflexivity|]. split; [apply reject_spec|]. split; [reflexivity|].
  split; [apply interleave_filter|].
  split; intros x; rewrite filter_In; [reflexivity|]. now rewrite negb_true_iff.
Qed.
Print Assumptions C12_filter_reject_drop_while.

(* DropRightWhile: the same split, read from the right: the result is the
   reverse of DropWhile's *)
Theorem C12_drop_right_while : forall A (p : A -> bool) (l : list A),
  drop_right_while p l = rev (drop_while p l) /\
  drop_right_while p l = filter (fun x => negb (p x)) (rev l) /\
  interleave (rev (filter_go p l)) (drop_right_while p l) (rev l).
Proof.
  intros A p l. rewrite drop_right_while_spec, drop_while_spec, filter_go_spec.
  split; [apply filter_rev|]. split; [reflexivity|].
  rewrite <- filter_rev. apply interleave_filter.
Qed.
Print Assumptions C12_drop_right_while.

(* GroupBy: one group per distinct key (keys in first-occurrence order, none
   twice), each group = the elements with that key in the order of s, no empty
   group, and together the groups contain every element exactly once *)
Theorem C12_group_by : forall A K (kd : dec_eq K) (fn : A -> K) (l : list A),
  exists g, group_by kd fn l = Ok g /\
    g = group_by_ref kd fn l /\
    map fst g = uniq_ref kd (map fn l) /\ NoDup (map fst g) /\
    (forall k grp, In (k, grp) g ->
        grp = filter (fun x => if kd (fn x) k then true else false) l /\ grp <> [] /\ subseq grp l) /\
    Permutation (concat (map snd g)) l.
Proof.
  intros A K kd fn l. exists (group_by_ref kd fn l). split; [apply group_by_spec|].
  split; [reflexivity|]. rewrite group_by_ref_keys.
  split; [apply unique_is_ref|]. split; [apply unique_NoDup|]. split.
  - intros k grp Hin. destruct (group_by_ref_groups kd fn l k grp Hin) as (E & Hne & _).
    split; [exact E|]. split; [exact Hne|]. rewrite E. apply subseq_filter.
  - apply group_by_ref_conserves.
Qed.
Print Assumptions C12_group_by.

(* ===== Zip and Unzip transpose a square matrix and undo each other; any
         other shape panics ===== *)

Theorem C12_shape_check : forall A (m : list (list A)), shape_ok m = true <-> square (length m) m.
Proof. intros. apply shape_ok_iff. Qed.
Print Assumptions C12_shape_check.

Theorem C12_zip_unzip_transpose : forall A (zero : A) n (m : list (list A)), square n m ->
  zip zero m = Ok (transpose zero m) /\ unzip zero m = Ok (transpose zero m) /\
  square n (transpose zero m) /\
  (forall i j, cell (transpose zero m) i j = cell m j i).
Proof.
  intros A zero n m Hs. assert (Hn : n = length m) by (destruct Hs; auto). subst n.
  rewrite zip_spec, unzip_spec. replace (shape_ok m) with true by (symmetry; now apply shape_ok_iff).
  split; [reflexivity|]. split; [reflexivity|]. split; [now apply transpose_square|].
  intros i j. now apply (transpose_cell zero (length m)).
Qed.
Print Assumptions C12_zip_unzip_transpose.

Theorem C12_zip_unzip_inverse : forall A (zero : A) n (m : list (list A)), square n m ->
  (exists r, zip zero m = Ok r /\ unzip zero r = Ok m) /\
  (exists r, unzip zero m = Ok r /\ zip zero r = Ok m).
Proof.
  intros A zero n m Hs. assert (Hn : n = length m) by (destruct Hs; auto). subst n.
  assert (Ht : square (length m) (transpose zero m)) by now apply transpose_square.
  assert (Hl : length (transpose zero m) = length m) by (destruct Ht; auto).
  assert (Hok : shape_ok (transpose zero m) = true) by (apply shape_ok_iff; now rewrite Hl).
  split; exists (transpose zero m); rewrite zip_spec, unzip_spec;
    replace (shape_ok m) with true by (symmetry; now apply shape_ok_iff);
    (split; [reflexivity|]); rewrite Hok; f_equal; now apply (transpose_involutive zero (length m)).
Qed.
Print Assumptions C12_zip_unzip_inverse.

Theorem C12_zip_unzip_panic : forall A (zero : A) (m : list (list A)),
  ~ square (length m) m -> zip zero m = Panic /\ unzip zero m = Panic.
Proof.
  intros A zero m H. rewrite zip_spec, unzip_spec. destruct (shape_ok m) eqn:E; [|split; reflexivity].
  exfalso. apply H. now apply shape_ok_iff.
Qed.
Print Assumptions C12_zip_unzip_panic.

(* ===== Flatten lists the leaves of any nesting left to right (an error on a
         node of a wrong dynamic type) ===== *)

Theorem C12_flatten_leaves : forall A (n : nest A),
  (~ has_bad n -> flatten n = Ok (leaves n)) /\ (has_bad n -> flatten n = Err 1) /\
  (forall cs : list (nest A), leaves (NAny cs) = flat_map leaves cs).
Proof.
  intros A n. rewrite flatten_spec. split; [|split].
  - intros H. destruct (wf_nest n) eqn:E; [reflexivity|]. exfalso. now apply H, wf_nest_false_iff.
  - intros H. apply wf_nest_false_iff in H. now rewrite H.
  - apply leaves_any.
Qed.
Print Assumptions C12_flatten_leaves.

(* ===== Merge concatenates ===== *)

Theorem C12_merge_concat : forall A (s : list A) ps, merge s ps = concat (s :: ps).
Proof. intros. apply merge_spec. Qed.
Print Assumptions C12_merge_concat.

(* ===== Drop removes exactly |n| elements from the front (n > 0) or the back
         (n < 0) — all of them when |n| >= len ===== *)

(* For EVERY count n (every int, math.MinInt included — and indeed every integer); the
   only domain hypothesis is that len(s) is a Go int.  The model is Drop after the repair
   0f1558a; [-len(slice)] and [len(slice)+n] carry the 64-bit wrap and the out-of-range
   slice bound is [Panic] in the model: [= Ok …] says neither happens. *)
Theorem C12_drop_spec : forall A (l : list A) n, Z.of_nat (length l) <= max_int64 ->
  (0 <= n -> drop l n = Ok (skipn (Z.to_nat n) l)) /\
  (n <= 0 -> drop l n = Ok (firstn (length l - Z.to_nat (- n)) l)).
Proof. intros A l n Hl. split; intros Hn; [now apply drop_front | now apply drop_back]. Qed.
Print Assumptions C12_drop_spec.

Theorem C12_drop_removes : forall A (l : list A) n,
  Z.of_nat (length l) <= max_int64 ->
  exists kept removed,
    drop l n = Ok kept /\
    length removed = Nat.min (Z.to_nat (Z.abs n)) (length l) /\
    (0 <= n -> l = removed ++ kept) /\
    (n <= 0 -> l = kept ++ removed).
Proof.
  intros A l n Hl. destruct (Z_le_gt_dec 0 n) as [Hn|Hn].
  - exists (skipn (Z.to_nat n) l), (firstn (Z.to_nat n) l). rewrite firstn_length.
    split; [now apply drop_front|].
    split; [now replace (Z.abs n) with n by lia|]. split.
    + intros _. symmetry. apply firstn_skipn.
    + intros Hn'. assert (n = 0) as -> by lia. cbn. now rewrite app_nil_r.
  - exists (firstn (length l - Z.to_nat (- n)) l), (skipn (length l - Z.to_nat (- n)) l).
    rewrite skipn_length. split; [apply drop_back; lia|].
    split; [lia|]. split; [lia|].
    intros _. symmetry. apply firstn_skipn.
Qed.
Print Assumptions C12_drop_removes.

(* math.MinInt in particular: everything is dropped, no panic *)
Theorem C12_drop_min_int : forall A (l : list A),
  Z.of_nat (length l) <= max_int64 -> drop l min_int64 = Ok [] /\ drop l max_int64 = Ok [].
Proof.
  intros A l Hl. unfold max_int64 in Hl. split.
  - rewrite drop_back by (unfold min_int64, max_int64; lia). unfold min_int64.
    now replace (length l - Z.to_nat (- -9223372036854775808))%nat with 0%nat by lia.
  - rewrite drop_front by (unfold max_int64; lia). f_equal. apply skipn_all2. unfold max_int64. lia.
Qed.
Print Assumptions C12_drop_min_int.

(* ABOUT THE SHIPPED, UNREPAIRED CODE ONLY ([drop_unrepaired] = Drop before commit 0f1558a; the
   model [drop] above is the repaired function): Abs(math.MinInt) wraps to math.MinInt, which
   passes the test Abs(n) < len(slice); the bound len(slice)-Abs(n) then wraps to a negative
   number: Drop(s, math.MinInt) panicked for EVERY slice where the specification drops everything *)
Theorem C12_drop_min_int_unrepaired_refuted :
  (forall A (l : list A), Z.of_nat (length l) <= max_int64 -> drop_unrepaired l min_int64 = Panic) /\
  (exists (l : list Z) n, min_int64 <= n <= max_int64 /\
     drop_unrepaired l n = Panic /\ drop_ref l n = [] /\ drop l n = Ok []).
Proof.
  split; [intros; now apply drop_unrepaired_min_int|].
  exists [1; 2; 3], min_int64. split; [unfold min_int64, max_int64; lia|]. repeat split; reflexivity.
Qed.
Print Assumptions C12_drop_min_int_unrepaired_refuted.

(* ===== Reverse and ReverseStr (on the rune sequence) reverse, hence are involutions ===== *)

Theorem C12_reverse_involutive : forall A (l : list A),
  reverse l = Fin (rev l) /\ reverse_str l = Fin (rev l) /\
  (forall r, reverse l = Fin r -> reverse r = Fin l) /\
  (forall r, reverse_str l = Fin r -> reverse_str r = Fin l).
Proof.
  intros A l. unfold reverse_str. rewrite reverse_spec. split; [reflexivity|]. split; [reflexivity|].
  split; intros r E; injection E as <-; rewrite reverse_spec; now rewrite rev_involutive.
Qed.
Print Assumptions C12_reverse_involutive.

(* ===== Shuffle returns a permutation — for EVERY sequence of values
         rand.Int() may return ===== *)

Theorem C12_shuffle_perm : forall A (l : list A) (stream : nat -> Z),
  exists r, shuffle l stream = Fin r /\ Permutation r l.
Proof. intros. apply shuffle_perm. Qed.
Print Assumptions C12_shuffle_perm.

(* ===== Map, ForEach, ForEachRight and Reduce visit every element exactly
         once, in index (ForEachRight: reverse) order: the call log ===== *)

Theorem C12_map_visit_log : forall A B (fn : A -> B) (l : list A),
  map_go fn l = (map fn l, l).
Proof. intros. apply map_go_spec. Qed.
Print Assumptions C12_map_visit_log.

Theorem C12_for_each_visit_log : forall A (l : list A),
  for_each l = l /\ for_each_right l = rev l.
Proof. intros. split; [apply for_each_spec | apply for_each_right_spec]. Qed.
Print Assumptions C12_for_each_visit_log.

Theorem C12_reduce_visit_log : forall A B (fn : A -> B -> B) (l : list A) (init : B),
  reduce_go fn l init = (fold_left (fun acc v => fn v acc) l init, reduce_log fn l init) /\
  map fst (reduce_log fn l init) = l /\
  (forall pre x post, l = pre ++ x :: post ->
     nth_error (reduce_log fn l init) (length pre) = Some (x, fold_left (fun acc v => fn v acc) pre init)).
Proof.
  intros A B fn l init. split; [apply reduce_go_spec|]. split; [apply reduce_log_fst|].
  intros pre x post ->. apply reduce_log_nth.
Qed.
Print Assumptions C12_reduce_visit_log.

(* non-vacuity and sanity: concrete non-trivial inputs meet the hypotheses and
   the model computes the expected answers *)
Example C12_examples :
  chunk [1; 2; 3; 4; 5] 2 = Ok [[1; 2]; [3; 4]; [5]] /\ chunk [1; 2; 3; 4] 2 = Ok [[1; 2]; [3; 4]] /\
  chunk [1; 2] 5 = Ok [[1; 2]] /\ chunk [1] 0 = Panic /\
  drop [1; 2; 3] 1 = Ok [2; 3] /\ drop [1; 2; 3] (-1) = Ok [1; 2] /\ drop [1; 2; 3] 3 = Ok [] /\ drop [1; 2; 3] (-7) = Ok [] /\
  drop_while (fun x => x <? 2) [1; 3; 1; 4] = [3; 4] /\
  drop_right_while (fun x => x <? 2) [1; 3; 1; 4] = [4; 3] /\
  reject (fun x => x <? 2) [1; 3; 1; 4] = Fin [3; 4] /\
  group_by Z.eq_dec (fun x => Z.rem x 2) [1; 2; 3; 4] = Ok [(1, [1; 3]); (0, [2; 4])] /\
  square 2 [[1; 2]; [3; 4]] /\ zip 0 [[1; 2]; [3; 4]] = Ok [[1; 3]; [2; 4]] /\
  ~ square 2 [[1; 2]; [3]] /\ zip 0 [[1; 2]; [3]] = Panic /\ unzip 0 [[1; 2; 3]] = Panic /\
  reverse [1; 2; 3; 4; 5] = Fin [5; 4; 3; 2; 1] /\
  shuffle [1; 2; 3] (fun k => nth k [4; 6; 0] 0) = Fin [3; 1; 2] /\
  reduce_go (fun v acc => 2 * acc + v) [1; 2; 3] 0 = (11, [(1, 0); (2, 1); (3, 4)]) /\
  interleave [1; 1] [3; 4] [1; 3; 1; 4].
Proof.
  repeat split; try reflexivity.
  - repeat constructor.
  - intros [_ H]. inversion H as [|? ? _ H']; subst. inversion H' as [|? ? E _]; subst. discriminate.
  - apply il_left, il_right, il_left, il_right, il_nil.
Qed.

(* ================= added by the session-3 audit ================= *)

(* ===== Chunk: the number of chunks is ceil(len / size) — in particular none for the empty slice ===== *)

Theorem C12_chunk_count : forall A (l : list A) size,
  1 <= size <= max_int64 -> 2 * Z.of_nat (length l) <= max_int64 ->
  exists cs, chunk l size = Ok cs /\
    Z.of_nat (length cs) = (Z.of_nat (length l) + size - 1) / size /\
    (cs = [] <-> l = []) /\ ~ In [] cs.
Proof.
  intros A l size Hs Hlen. eexists. split.
  - rewrite chunk_spec by (auto; lia). replace (size <=? 0) with false by (symmetry; apply Z.leb_gt; lia). reflexivity.
  - assert (Hn : (1 <= Z.to_nat size)%nat) by lia.
    split; [|split].
    + rewrite (chunk_count l (Z.to_nat size) Hn). rewrite Nat2Z.inj_div.
      f_equal; lia.
    + split.
      * intros E. destruct l as [|x l']; [reflexivity|].
        destruct (chunk_ref_shape (Z.to_nat size) Hn (length (x :: l')) (x :: l') (le_n _) ltac:(discriminate))
          as (full & lc & E' & _). rewrite E' in E. now destruct full.
      * intros ->. apply chunk_ref_nil.
    + intros Hin. destruct l as [|x l']; [now rewrite chunk_ref_nil in Hin|].
      destruct (chunk_ref_shape (Z.to_nat size) Hn (length (x :: l')) (x :: l') (le_n _) ltac:(discriminate))
        as (full & lc & E' & Hf & Hl). rewrite E' in Hin. apply in_app_or in Hin as [Hin|[Elc|[]]].
      * rewrite Forall_forall in Hf. specialize (Hf [] Hin). cbn in Hf. lia.
      * subst lc. cbn in Hl. lia.
Qed.
Print Assumptions C12_chunk_count.

(* ===== DropWhile / DropRightWhile AS IMPLEMENTED are filters: they drop every
   element satisfying the predicate, not only the leading (trailing) run.
   [drop_prefix_while] is the textbook drop-while; the code's result is what
   the textbook one gives after the remaining matching elements are removed
   as well, and the two coincide exactly when no kept element is followed by a
   matching one.  (The clause of C12 — a conserving split into the part the
   predicate dictates — is the filter reading, which is what is proved above.) ===== *)

Theorem C12_drop_while_drops_every_match : forall A (p : A -> bool) (l : list A),
  drop_while p l = filter (fun x => negb (p x)) (drop_prefix_while p l) /\
  subseq (drop_while p l) (drop_prefix_while p l) /\
  (drop_while p l = drop_prefix_while p l <-> Forall (fun x => p x = false) (drop_prefix_while p l)) /\
  (forall x, In x (drop_while p l) -> p x = false).
Proof.
  intros A p l. destruct (drop_while_vs_prefix p l) as (H1 & H2 & H3).
  split; [exact H1|]. split; [exact H2|]. split; [exact H3|].
  intros x. rewrite drop_while_spec, filter_In. intros [_ H]. now apply negb_true_iff.
Qed.
Print Assumptions C12_drop_while_drops_every_match.

Example C12_drop_while_is_not_the_textbook_one :
  let p := fun x => x <? 2 in
  drop_while p [1; 3; 1; 4] = [3; 4] /\ drop_prefix_while p [1; 3; 1; 4] = [3; 1; 4] /\
  drop_right_while p [1; 3; 1; 4; 0] = [4; 3] /\
  drop_while p [1; 0; 3; 4] = drop_prefix_while p [1; 0; 3; 4].
Proof. repeat split; reflexivity. Qed.

(* ===== the two loop forms, with their index arithmetic: a [range] loop visits
   the indices 0, 1, …, len-1 — each once, in this order, never out of range,
   the fuel suffices — and the downward loop visits len-1, …, 0; for EVERY
   loop body (a state transformer that sees the index and the element) ===== *)

Theorem C12_loop_forms : forall A St (body : St -> nat -> A -> St) (l : list A) (st : St),
  range_loop body (length l) l 0 st =
    Fin (fold_left (fun s iv => body s (fst iv) (snd iv)) (indexed l) st) /\
  down_loop body (length l) l st =
    Fin (fold_left (fun s iv => body s (fst iv) (snd iv)) (rev (indexed l)) st) /\
  map fst (indexed l) = seq 0 (length l) /\ map snd (indexed l) = l /\
  range_loop (fun log i _ => log ++ [i]) (length l) l 0 [] = Fin (seq 0 (length l)) /\
  down_loop (fun log i _ => log ++ [i]) (length l) l [] = Fin (rev (seq 0 (length l))).
Proof.
  intros A St body l st.
  split; [apply range_loop_spec|]. split; [apply down_loop_spec|].
  split; [apply map_fst_combine_seq|]. split; [apply map_snd_combine_seq|].
  split; [apply range_loop_indices | apply down_loop_indices].
Qed.
Print Assumptions C12_loop_forms.

(* ===== Map, ForEach, ForEachRight, Reduce written with those loops and an
   ARBITRARY stateful callback: the effect on the callback's state is that of
   calling it once per element, in index (ForEachRight: reverse index) order ===== *)

Theorem C12_iterators_any_callback :
  forall A B St (l : list A) (s0 : St) (zero init : B)
         (cb : St -> A -> St) (cbm : St -> A -> St * B) (cbr : St -> A -> B -> St * B),
  for_each_cb cb l s0 = Fin (fold_left cb l s0) /\
  for_each_right_cb cb l s0 = Fin (fold_left cb (rev l) s0) /\
  map_cb cbm zero l s0 =
    Fin (fold_left (fun st v => let (s', b) := cbm (fst st) v in (s', snd st ++ [b])) l (s0, [])) /\
  reduce_cb cbr l s0 init = Fin (fold_left (fun st v => cbr (fst st) v (snd st)) l (s0, init)).
Proof.
  intros. split; [apply for_each_cb_spec|]. split; [apply for_each_right_cb_spec|].
  split; [apply map_cb_spec | apply reduce_cb_spec].
Qed.
Print Assumptions C12_iterators_any_callback.

(* … and with the LOGGING callbacks of the harness they are the log models of
   C12_Model.v that the differential run compares with the real functions *)
Theorem C12_iterators_logging_callback : forall A B (fn : A -> B) (op : A -> B -> B) (zero init : B) (l : list A),
  for_each_cb (fun log v => log ++ [v]) l [] = Fin (for_each l) /\
  for_each_right_cb (fun log v => log ++ [v]) l [] = Fin (for_each_right l) /\
  map_cb (fun log v => (log ++ [v], fn v)) zero l [] = Fin (snd (map_go fn l), fst (map_go fn l)) /\
  reduce_cb (fun log v acc => (log ++ [(v, acc)], op v acc)) l [] init =
    Fin (snd (reduce_go op l init), fst (reduce_go op l init)).
Proof.
  intros A B fn op zero init l.
  split; [apply for_each_cb_spec|]. split; [apply for_each_right_cb_spec|]. split.
  - rewrite map_cb_spec, map_go_spec. cbn [fst snd]. f_equal. apply (map_step_log fn l [] []).
  - rewrite reduce_cb_spec, reduce_go_spec. cbn [fst snd]. f_equal.
    assert (G : forall l lg acc,
      fold_left (fun (st : list (A * B) * B) v => (fst st ++ [(v, snd st)], op v (snd st))) l (lg, acc) =
      (lg ++ reduce_log op l acc, fold_left (fun acc v => op v acc) l acc)).
    { induction l0 as [|x l0 IH]; intros lg acc; cbn [fold_left reduce_log fst snd].
      - now rewrite app_nil_r.
      - rewrite IH. now rewrite <- app_assoc. }
    apply (G l [] init).
Qed.
Print Assumptions C12_iterators_logging_callback.

(* DropRightWhile with its own index arithmetic (i := len-1; i >= 0; i--) *)
Theorem C12_drop_right_while_index_loop : forall A (p : A -> bool) (l : list A),
  drop_right_while_idx p l = Fin (drop_right_while p l).
Proof. intros. apply drop_right_while_idx_spec. Qed.
Print Assumptions C12_drop_right_while_index_loop.

(* ===== ReverseStr on the STRING: for every decoder/encoder pair ([]rune(str),
   string(runes)) such that decoding only yields valid code points and
   re-decoding an encoded valid sequence gives it back, reversing twice
   re-encodes the decoded string; hence ReverseStr is an involution exactly on
   the strings that decoding + encoding leaves unchanged (valid UTF-8) ===== *)

Theorem C12_reverse_str_codec :
  forall A B (dec : list B -> list A) (enc : list A -> list B) (valid : A -> Prop),
  (forall rs, Forall valid rs -> dec (enc rs) = rs) ->
  (forall s, Forall valid (dec s)) ->
  forall s,
    reverse_str_via dec enc s = Fin (enc (rev (dec s))) /\
    (exists r, reverse_str_via dec enc s = Fin r /\ reverse_str_via dec enc r = Fin (enc (dec s))) /\
    ((exists r, reverse_str_via dec enc s = Fin r /\ reverse_str_via dec enc r = Fin s) <-> enc (dec s) = s).
Proof.
  intros A B dec enc valid H1 H2 s.
  split; [now apply (reverse_str_via_spec dec enc)|].
  destruct (reverse_str_via_twice dec enc valid H1 H2 s) as (r & Hr & Hrr).
  split; [now exists r|]. split.
  - intros (r' & Hr' & Hrr'). rewrite Hr in Hr'. injection Hr' as <-. rewrite Hrr in Hrr'. now injection Hrr'.
  - intros E. exists r. split; [exact Hr|]. now rewrite Hrr, E.
Qed.
Print Assumptions C12_reverse_str_codec.

(* non-vacuity of the codec hypotheses: a decoder that replaces every invalid
   unit by a replacement value (as Go's does with U+FFFD); the invalid string
   [7] is NOT restored, the valid one is *)
Example C12_reverse_str_codec_example :
  let valid := fun x => 0 <= x < 5 in
  let dec := map (fun b => if (0 <=? b) && (b <? 5) then b else 4) in
  let enc := fun rs : list Z => rs in
  (forall rs, Forall valid rs -> dec (enc rs) = rs) /\ (forall s, Forall valid (dec s)) /\
  reverse_str_via dec enc [1; 7; 2] = Fin [2; 4; 1] /\ reverse_str_via dec enc [2; 4; 1] = Fin [1; 4; 2] /\
  reverse_str_via dec enc [1; 3; 2] = Fin [2; 3; 1] /\ reverse_str_via dec enc [2; 3; 1] = Fin [1; 3; 2].
Proof.
  cbv zeta. split; [|split; [|repeat split; reflexivity]].
  - induction 1 as [|x rs Hx _ IH]; [reflexivity|]. cbn [map]. rewrite IH.
    replace ((0 <=? x) && (x <? 5)) with true; [reflexivity|].
    symmetry. apply andb_true_iff. split; [apply Z.leb_le | apply Z.ltb_lt]; lia.
  - induction s as [|b s IH]; constructor; [|exact IH].
    destruct ((0 <=? b) && (b <? 5)) eqn:E; [|lia].
    apply andb_true_iff in E as [E1 E2]. apply Z.leb_le in E1. apply Z.ltb_lt in E2. lia.
Qed.

(* ===== the model agrees with the reference definitions the property checker
         [c12_holds] (C12_Wire.v) judges observations against ===== *)

Theorem C12_model_is_reference :
  forall A K (kd : dec_eq K) (zero : A) (p : A -> bool) (fn : A -> K) B (op : A -> B -> B) (init : B)
         (l : list A) (ps m : list (list A)) (n : nest A) (size : Z),
  (size <= max_int64 -> 2 * Z.of_nat (length l) <= max_int64 -> chunk l size = chunk_spec_ref l size) /\
  partition_go p l = (filter p l, filter (fun x => negb (p x)) l) /\
  filter_go p l = filter p l /\
  reject p l = Fin (filter (fun x => negb (p x)) l) /\
  drop_while p l = filter (fun x => negb (p x)) l /\
  drop_right_while p l = rev (filter (fun x => negb (p x)) l) /\
  group_by kd fn l = Ok (group_by_ref kd fn l) /\
  zip zero m = transpose_ref zero m /\ unzip zero m = transpose_ref zero m /\
  match zip zero m with Ok r => unzip zero r | Err k => Err k | Panic => Panic end = round_trip_ref m /\
  match unzip zero m with Ok r => zip zero r | Err k => Err k | Panic => Panic end = round_trip_ref m /\
  flatten n = flatten_ref n /\
  merge l ps = concat (l :: ps) /\
  (Z.of_nat (length l) <= max_int64 -> drop l size = Ok (drop_ref l size)) /\
  reverse l = Fin (rev l) /\ reverse_str l = Fin (rev l) /\
  map_go fn l = (map fn l, l) /\ for_each l = l /\ for_each_right l = rev l /\
  reduce_go op l init = (fold_left (fun acc v => op v acc) l init, reduce_log op l init).
Proof.
  intros. split; [apply chunk_is_ref|]. split; [apply partition_go_spec|]. split; [apply filter_go_spec|].
  split; [apply reject_spec|]. split; [apply drop_while_spec|].
  split; [rewrite drop_right_while_spec; apply filter_rev|].
  split; [apply group_by_spec|]. split; [apply zip_is_ref|]. split; [apply zip_is_ref|].
  split; [apply round_trip_is_ref|]. split; [apply round_trip_is_ref|].
  split; [apply flatten_spec|]. split; [apply merge_spec|]. split; [apply drop_is_ref|].
  split; [apply reverse_spec|]. split; [apply reverse_spec|]. split; [apply map_go_spec|].
  split; [apply for_each_spec|]. split; [apply for_each_right_spec | apply reduce_go_spec].
Qed.
Print Assumptions C12_model_is_reference.

(* boundary cases named in the audit *)
Example C12_boundary_examples :
  chunk (@nil Z) 3 = Ok [] /\ chunk [1; 2; 3] 3 = Ok [[1; 2; 3]] /\ chunk [1; 2; 3; 4] 3 = Ok [[1; 2; 3]; [4]] /\
  (* interleaved keys: every group keeps the order of s *)
  group_by Z.eq_dec (fun x => Z.rem x 2) [1; 2; 3; 4; 5; 6; 1] = Ok [(1, [1; 3; 5; 1]); (0, [2; 4; 6])] /\
  (* non-square shapes: rows of equal length but not as many as rows; ragged; one long row *)
  zip 0 [[1; 2; 3]; [4; 5; 6]] = Panic /\ unzip 0 [[1; 2]; [3; 4; 5]] = Panic /\ zip 0 [[1; 2]; [3]] = Panic /\
  zip 0 [[]] = Panic /\ zip (A := Z) 0 [] = Ok [] /\ unzip 0 [[7]] = Ok [[7]] /\
  drop [1; 2; 3] 0 = Ok [1; 2; 3] /\ drop [1; 2; 3] (-3) = Ok [] /\ drop (@nil Z) 1 = Ok [] /\
  (* extreme arguments: one chunk however large the size; Drop at the ends of the int range *)
  chunk [1; 2; 3] max_int64 = Ok [[1; 2; 3]] /\ chunk (@nil Z) max_int64 = Ok [] /\ chunk [1; 2] min_int64 = Panic /\
  chunk_spec_ref [1; 2; 3] max_int64 = Ok [[1; 2; 3]] /\
  drop [1; 2; 3] max_int64 = Ok [] /\ drop [1; 2; 3] (min_int64 + 1) = Ok [] /\ drop [1; 2; 3] min_int64 = Ok [] /\
  drop (@nil Z) min_int64 = Ok [] /\ drop_unrepaired (@nil Z) min_int64 = Panic /\ drop [1; 2; 3] 4294967297 = Ok [] /\
  range_loop (fun log i v => log ++ [(i, v)]) 3 [7; 8; 9] 0 [] = Fin [(0%nat, 7); (1%nat, 8); (2%nat, 9)] /\
  down_loop (fun log i v => log ++ [(i, v)]) 3 [7; 8; 9] [] = Fin [(2%nat, 9); (1%nat, 8); (0%nat, 7)].
Proof. repeat split; reflexivity. Qed.
