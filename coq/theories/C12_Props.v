(* C12_Props.v — property C12 "Reshaping helpers conserve elements and order",
   stated over the model of C12_Model.v (slice.go, filter.go, shuffle.go,
   string.go:ReverseStr).  Only statements here; every proof is an application
   of lemmas of C12_Proofs.v.  All theorems hold for every element type and
   for slices of every length.

   Vocabulary (C12_Model.v): [loop] results [Fin v | Oob | NoFuel] of the
   index-moving loops — every theorem below that says [= Fin …] also says
   "no index panic, and the fuel of the model suffices";
   [chunk_ref f n l] — cut n elements at a time; [interleave a b l] — l is a
   merge of a and b that keeps both orders (every element of l goes to
   exactly one side); [square n m]; [cell m i j] — m[i][j] as an option;
   [transpose]; [reduce_log]; from C11_Model.v: [subseq], [leaves], [has_bad]
   (C11_Proofs.v), [uniq_ref]. *)

From Gogu Require Import Base C11_Model C11_Proofs C12_Model C12_Proofs.
From Coq Require Import Permutation.
Local Open Scope Z_scope.

Notation dec_eq A := (forall x y : A, {x = y} + {x <> y}).

(* ===== Chunk(s, n) concatenates back to s; every chunk has length n except a
         shorter, non-empty last one; a size <= 0 panics ===== *)

Theorem C12_chunk_spec : forall A (l : list A) size,
  chunk l size = if size <=? 0 then Panic else Ok (chunk_ref (length l) (Z.to_nat size) l).
Proof. intros. apply chunk_spec. Qed.
Print Assumptions C12_chunk_spec.

Theorem C12_chunk_concat_lengths : forall A (l : list A) size, 1 <= size ->
  exists cs, chunk l size = Ok cs /\
    concat cs = l /\
    (l = [] -> cs = []) /\
    (l <> [] -> exists full last_chunk,
        cs = full ++ [last_chunk] /\
        Forall (fun c => Z.of_nat (length c) = size) full /\
        1 <= Z.of_nat (length last_chunk) <= size).
Proof.
  intros A l size Hs. eexists. split.
  - rewrite chunk_spec. replace (size <=? 0) with false by (symmetry; apply Z.leb_gt; lia). reflexivity.
  - split; [apply chunk_ref_concat; lia|]. split.
    + intros ->. reflexivity.
    + intros Hne. destruct (chunk_ref_shape (Z.to_nat size) ltac:(lia) (length l) l (le_n _) Hne)
        as (full & lc & E & Hf & Hl).
      exists full, lc. split; [exact E|]. split; [|lia].
      eapply Forall_impl; [|exact Hf]. cbn. intros c Hc. lia.
Qed.
Print Assumptions C12_chunk_concat_lengths.

Theorem C12_chunk_panics : forall A (l : list A) size, size <= 0 -> chunk l size = Panic.
Proof.
  intros A l size H. rewrite chunk_spec.
  now replace (size <=? 0) with true by (symmetry; apply Z.leb_le; lia).
Qed.
Print Assumptions C12_chunk_panics.

(* ===== element-conserving splits: what an interleaving guarantees ===== *)

Theorem C12_interleave_conserves : forall A (a b l : list A), interleave a b l ->
  Permutation (a ++ b) l /\ (length a + length b = length l)%nat /\ subseq a l /\ subseq b l.
Proof.
  intros A a b l H. split; [now apply interleave_perm|]. split; [now apply interleave_length|].
  now apply interleave_subseq.
Qed.
Print Assumptions C12_interleave_conserves.

(* Partition: both parts in one call *)
Theorem C12_partition : forall A (p : A -> bool) (l : list A),
  partition_go p l = (filter p l, filter (fun x => negb (p x)) l) /\
  interleave (fst (partition_go p l)) (snd (partition_go p l)) l /\
  (forall x, In x (fst (partition_go p l)) <-> In x l /\ p x = true) /\
  (forall x, In x (snd (partition_go p l)) <-> In x l /\ p x = false).
Proof.
  intros A p l. rewrite partition_go_spec. cbn [fst snd].
  split; [reflexivity|]. split; [apply interleave_filter|].
  split; intros x; rewrite filter_In; [reflexivity|]. now rewrite negb_true_iff.
Qed.
Print Assumptions C12_partition.

(* Filter keeps exactly the elements satisfying the predicate; Reject and
   DropWhile keep exactly the others (DropWhile in this code base does not stop
   at the first kept element); kept and dropped elements interleave to s *)
Theorem C12_filter_reject_drop_while : forall A (p : A -> bool) (l : list A),
  filter_go p l = filter p l /\
  reject p l = Fin (filter (fun x => negb (p x)) l) /\
  drop_while p l = filter (fun x => negb (p x)) l /\
  interleave (filter_go p l) (drop_while p l) l /\
  (forall x, In x (filter_go p l) <-> In x l /\ p x = true) /\
  (forall x, In x (drop_while p l) <-> In x l /\ p x = false).
Proof.
  intros A p l. rewrite filter_go_spec, drop_while_spec.
  split; [reflexivity|]. split; [apply reject_spec|]. split; [reflexivity|].
  split; [apply interleave_filter|].
  split; intros x; rewrite filter_In; [reflexivity|]. now rewrite negb_true_iff.
Qed.
Print Assumptions C12_filter_reject_drop_while.

(* DropRightWhile: the same split, read from the right: the result is the
   reverse of DropWhile's *)
Theorem C12_drop_right_while : forall A (p : A -> bool) (l : list A),
  drop_right_while p l = rev (drop_while p l) /\
  drop_right_while p l = filter (fun x => negb (p x)) (rev l) /\
  interleave (rev (filter_go p l)) (drop_right_while p l) (rev l).
Proof.
  intros A p l. rewrite drop_right_while_spec, drop_while_spec, filter_go_spec.
  split; [apply filter_rev|]. split; [reflexivity|].
  rewrite <- filter_rev. apply interleave_filter.
Qed.
Print Assumptions C12_drop_right_while.

(* GroupBy: one group per distinct key (keys in first-occurrence order, none
   twice), each group = the elements with that key in the order of s, no empty
   group, and together the groups contain every element exactly once *)
Theorem C12_group_by : forall A K (kd : dec_eq K) (fn : A -> K) (l : list A),
  exists g, group_by kd fn l = Ok g /\
    g = group_by_ref kd fn l /\
    map fst g = uniq_ref kd (map fn l) /\ NoDup (map fst g) /\
    (forall k grp, In (k, grp) g ->
        grp = filter (fun x => if kd (fn x) k then true else false) l /\ grp <> [] /\ subseq grp l) /\
    Permutation (concat (map snd g)) l.
Proof.
  intros A K kd fn l. exists (group_by_ref kd fn l). split; [apply group_by_spec|].
  split; [reflexivity|]. rewrite group_by_ref_keys.
  split; [apply unique_is_ref|]. split; [apply unique_NoDup|]. split.
  - intros k grp Hin. destruct (group_by_ref_groups kd fn l k grp Hin) as (E & Hne & _).
    split; [exact E|]. split; [exact Hne|]. rewrite E. apply subseq_filter.
  - apply group_by_ref_conserves.
Qed.
Print Assumptions C12_group_by.

(* ===== Zip and Unzip transpose a square matrix and undo each other; any
         other shape panics ===== *)

Theorem C12_shape_check : forall A (m : list (list A)), shape_ok m = true <-> square (length m) m.
Proof. intros. apply shape_ok_iff. Qed.
Print Assumptions C12_shape_check.

Theorem C12_zip_unzip_transpose : forall A (zero : A) n (m : list (list A)), square n m ->
  zip zero m = Ok (transpose zero m) /\ unzip zero m = Ok (transpose zero m) /\
  square n (transpose zero m) /\
  (forall i j, cell (transpose zero m) i j = cell m j i).
Proof.
  intros A zero n m Hs. assert (Hn : n = length m) by (destruct Hs; auto). subst n.
  rewrite zip_spec, unzip_spec. replace (shape_ok m) with true by (symmetry; now apply shape_ok_iff).
  split; [reflexivity|]. split; [reflexivity|]. split; [now apply transpose_square|].
  intros i j. now apply (transpose_cell zero (length m)).
Qed.
Print Assumptions C12_zip_unzip_transpose.

Theorem C12_zip_unzip_inverse : forall A (zero : A) n (m : list (list A)), square n m ->
  (exists r, zip zero m = Ok r /\ unzip zero r = Ok m) /\
  (exists r, unzip zero m = Ok r /\ zip zero r = Ok m).
Proof.
  intros A zero n m Hs. assert (Hn : n = length m) by (destruct Hs; auto). subst n.
  assert (Ht : square (length m) (transpose zero m)) by now apply transpose_square.
  assert (Hl : length (transpose zero m) = length m) by (destruct Ht; auto).
  assert (Hok : shape_ok (transpose zero m) = true) by (apply shape_ok_iff; now rewrite Hl).
  split; exists (transpose zero m); rewrite zip_spec, unzip_spec;
    replace (shape_ok m) with true by (symmetry; now apply shape_ok_iff);
    (split; [reflexivity|]); rewrite Hok; f_equal; now apply (transpose_involutive zero (length m)).
Qed.
Print Assumptions C12_zip_unzip_inverse.

Theorem C12_zip_unzip_panic : forall A (zero : A) (m : list (list A)),
  ~ square (length m) m -> zip zero m = Panic /\ unzip zero m = Panic.
Proof.
  intros A zero m H. rewrite zip_spec, unzip_spec. destruct (shape_ok m) eqn:E; [|split; reflexivity].
  exfalso. apply H. now apply shape_ok_iff.
Qed.
Print Assumptions C12_zip_unzip_panic.

(* ===== Flatten lists the leaves of any nesting left to right (an error on a
         node of a wrong dynamic type) ===== *)

Theorem C12_flatten_leaves : forall A (n : nest A),
  (~ has_bad n -> flatten n = Ok (leaves n)) /\ (has_bad n -> flatten n = Err 1) /\
  (forall cs : list (nest A), leaves (NAny cs) = flat_map leaves cs).
Proof.
  intros A n. rewrite flatten_spec. split; [|split].
  - intros H. destruct (wf_nest n) eqn:E; [reflexivity|]. exfalso. now apply H, wf_nest_false_iff.
  - intros H. apply wf_nest_false_iff in H. now rewrite H.
  - apply leaves_any.
Qed.
Print Assumptions C12_flatten_leaves.

(* ===== Merge concatenates ===== *)

Theorem C12_merge_concat : forall A (s : list A) ps, merge s ps = concat (s :: ps).
Proof. intros. apply merge_spec. Qed.
Print Assumptions C12_merge_concat.

(* ===== Drop removes exactly |n| elements from the front (n > 0) or the back
         (n < 0) — all of them when |n| >= len ===== *)

Theorem C12_drop_spec : forall A (l : list A) n,
  (0 <= n -> drop l n = skipn (Z.to_nat n) l) /\
  (n <= 0 -> drop l n = firstn (length l - Z.to_nat (- n)) l).
Proof. intros. split; [apply drop_front | apply drop_back]. Qed.
Print Assumptions C12_drop_spec.

Theorem C12_drop_removes : forall A (l : list A) n,
  exists removed,
    length removed = Nat.min (Z.to_nat (Z.abs n)) (length l) /\
    (0 <= n -> l = removed ++ drop l n) /\
    (n <= 0 -> l = drop l n ++ removed).
Proof.
  intros A l n. destruct (Z_le_gt_dec 0 n) as [Hn|Hn].
  - exists (firstn (Z.to_nat n) l). rewrite firstn_length.
    split; [now replace (Z.abs n) with n by lia|]. split.
    + intros _. rewrite drop_front by lia. symmetry. apply firstn_skipn.
    + intros Hn'. assert (n = 0) as -> by lia. rewrite drop_front by lia. cbn. now rewrite app_nil_r.
  - exists (skipn (length l - Z.to_nat (- n)) l). rewrite skipn_length.
    split; [lia|]. split; [lia|].
    intros _. rewrite drop_back by lia. symmetry. apply firstn_skipn.
Qed.
Print Assumptions C12_drop_removes.

(* ===== Reverse and ReverseStr (on the rune sequence) reverse, hence are involutions ===== *)

Theorem C12_reverse_involutive : forall A (l : list A),
  reverse l = Fin (rev l) /\ reverse_str l = Fin (rev l) /\
  (forall r, reverse l = Fin r -> reverse r = Fin l) /\
  (forall r, reverse_str l = Fin r -> reverse_str r = Fin l).
Proof.
  intros A l. unfold reverse_str. rewrite reverse_spec. split; [reflexivity|]. split; [reflexivity|].
  split; intros r E; injection E as <-; rewrite reverse_spec; now rewrite rev_involutive.
Qed.
Print Assumptions C12_reverse_involutive.

(* ===== Shuffle returns a permutation — for EVERY sequence of values
         rand.Int() may return ===== *)

Theorem C12_shuffle_perm : forall A (l : list A) (stream : nat -> Z),
  exists r, shuffle l stream = Fin r /\ Permutation r l.
Proof. intros. apply shuffle_perm. Qed.
Print Assumptions C12_shuffle_perm.

(* ===== Map, ForEach, ForEachRight and Reduce visit every element exactly
         once, in index (ForEachRight: reverse) order: the call log ===== *)

Theorem C12_map_visit_log : forall A B (fn : A -> B) (l : list A),
  map_go fn l = (map fn l, l).
Proof. intros. apply map_go_spec. Qed.
Print Assumptions C12_map_visit_log.

Theorem C12_for_each_visit_log : forall A (l : list A),
  for_each l = l /\ for_each_right l = rev l.
Proof. intros. split; [apply for_each_spec | apply for_each_right_spec]. Qed.
Print Assumptions C12_for_each_visit_log.

Theorem C12_reduce_visit_log : forall A B (fn : A -> B -> B) (l : list A) (init : B),
  reduce_go fn l init = (fold_left (fun acc v => fn v acc) l init, reduce_log fn l init) /\
  map fst (reduce_log fn l init) = l /\
  (forall pre x post, l = pre ++ x :: post ->
     nth_error (reduce_log fn l init) (length pre) = Some (x, fold_left (fun acc v => fn v acc) pre init)).
Proof.
  intros A B fn l init. split; [apply reduce_go_spec|]. split; [apply reduce_log_fst|].
  intros pre x post ->. apply reduce_log_nth.
Qed.
Print Assumptions C12_reduce_visit_log.

(* non-vacuity and sanity: concrete non-trivial inputs meet the hypotheses and
   the model computes the expected answers *)
Example C12_examples :
  chunk [1; 2; 3; 4; 5] 2 = Ok [[1; 2]; [3; 4]; [5]] /\ chunk [1; 2; 3; 4] 2 = Ok [[1; 2]; [3; 4]] /\
  chunk [1; 2] 5 = Ok [[1; 2]] /\ chunk [1] 0 = Panic /\
  drop [1; 2; 3] 1 = [2; 3] /\ drop [1; 2; 3] (-1) = [1; 2] /\ drop [1; 2; 3] 3 = [] /\ drop [1; 2; 3] (-7) = [] /\
  drop_while (fun x => x <? 2) [1; 3; 1; 4] = [3; 4] /\
  drop_right_while (fun x => x <? 2) [1; 3; 1; 4] = [4; 3] /\
  reject (fun x => x <? 2) [1; 3; 1; 4] = Fin [3; 4] /\
  group_by Z.eq_dec (fun x => Z.rem x 2) [1; 2; 3; 4] = Ok [(1, [1; 3]); (0, [2; 4])] /\
  square 2 [[1; 2]; [3; 4]] /\ zip 0 [[1; 2]; [3; 4]] = Ok [[1; 3]; [2; 4]] /\
  ~ square 2 [[1; 2]; [3]] /\ zip 0 [[1; 2]; [3]] = Panic /\ unzip 0 [[1; 2; 3]] = Panic /\
  reverse [1; 2; 3; 4; 5] = Fin [5; 4; 3; 2; 1] /\
  shuffle [1; 2; 3] (fun k => nth k [4; 6; 0] 0) = Fin [3; 1; 2] /\
  reduce_go (fun v acc => 2 * acc + v) [1; 2; 3] 0 = (11, [(1, 0); (2, 1); (3, 4)]) /\
  interleave [1; 1] [3; 4] [1; 3; 1; 4].
Proof.
  repeat split; try reflexivity.
  - repeat constructor.
  - intros [_ H]. inversion H as [|? ? _ H']; subst. inversion H' as [|? ? E _]; subst. discriminate.
  - apply il_left, il_right, il_left, il_right, il_nil.
Qed.
