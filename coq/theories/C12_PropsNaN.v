(* C12_PropsNaN.v — property C12 for key and element types whose `==` is not the
   identity of values: float64, where NaN != NaN and +0 == -0 (C12_ModelNaN.v).
   Only statements here; every proof is an application of lemmas of
   C12_ProofsNaN.v / C12_Proofs.v.

   GroupBy is the one helper of C12 that compares anything (its groups live in a
   Go map keyed by the callback's result).  Its theorems are for ALL element
   types A, ALL key types K, ALL [eq : K -> K -> bool] that are symmetric and
   transitive ([per eq] — nothing else is assumed: not reflexive, not "==
   implies identical"), all callbacks and all slices.  The clause "GroupBy splits
   s into sub-sequences that together contain every element exactly once, each
   in the part its key dictates" is read in the `==` sense:
     * two elements belong together when their keys are ==;
     * a key with k != k (a NaN) is == to nothing, itself included: an element
       with such a key belongs together with NO other element — it forms a group
       of its own, filed under its own key, and the map holds as many entries
       under NaN as there are such elements;
     * +0 and -0 are ONE key with two representatives: their elements share a
       group, and the map files it under the key of the group's LAST element
       (an assignment replaces the stored key);
     * "one group per distinct key" = the keys of the groups are pairwise unequal
       under == ([gkeys_ne]); no group is empty.
   Every other helper of C12 compares nothing: the theorems of C12_Props.v
   quantify over every element type and every callback, so they already cover
   float64 with NaN and both zeros; [C12_nan_helpers_at_float_codes] instantiates
   the reference equalities at the float-code callbacks the `nan` stream of the
   correspondence check runs. *)

From Gogu Require Import Base C11_Model C11_Proofs C11_ModelNaN C11_ProofsNaN
                         C12_Model C12_Proofs C12_ModelNaN C12_ProofsNaN.
From Coq Require Import Permutation.
Local Open Scope Z_scope.

Notation dec_eq A := (forall x y : A, {x = y} + {x <> y}).

(* ===== the equality that is assumed: both intended instances meet it ===== *)

(* Go's == on float64 (as codes: NaN != NaN, +0 == -0 although the codes differ)
   and the == of every type with decidable Leibniz equality (ints, strings),
   which is also reflexive *)
Theorem C12_nan_instances :
  per feq /\ feq nan_code nan_code = false /\ feq 0 negz_code = true /\ 0 <> negz_code /\
  (forall z, z <> nan_code -> feq z z = true) /\
  (forall K (kd : dec_eq K), per (deq kd) /\ (forall x y, deq kd x y = true <-> x = y)).
Proof.
  destruct feq_facts as (F1 & F2 & _ & F4 & F5).
  split; [exact feq_per|]. split; [exact F1|]. split; [exact F2|]. split; [exact F4|]. split; [exact F5|].
  intros K kd. split; [apply deq_per | apply deq_true].
Qed.
Print Assumptions C12_nan_instances.

(* ===== GroupBy ===== *)

(* the loop over the map is the reference [ggroup_ref]: the group of the first
   element x is x followed by every later element whose key is == to the key of
   x, filed under the key of its last member; then the groups of the rest that
   are not filed under a key == to the key of x.  ([c12_holds] judges the `nan`
   stream against this reference.)  No panic: origSlice[idx] is never out of range. *)
Theorem C12_nan_group_by_is_reference : forall A K (eq : K -> K -> bool), per eq ->
  forall (fn : A -> K) (l : list A), ggroup_by eq fn l = Ok (ggroup_ref eq fn l).
Proof. intros A K eq H fn l. exact (ggroup_by_spec eq H fn l). Qed.
Print Assumptions C12_nan_group_by_is_reference.

(* the clause: one group per distinct key (keys pairwise unequal under ==); every
   group is a non-empty sub-sequence of s filed under the key of its last
   element; a group under a key that equals itself holds EXACTLY the elements of
   s whose key is == to it, in the order of s (so +0- and -0-keyed elements share
   a group, interleaved keys included); a group under a key with k != k is one
   element with that very key; every element with such a key has a group of its
   own; and together the groups contain every element exactly once *)
Theorem C12_nan_group_by : forall A K (eq : K -> K -> bool), per eq ->
  forall (fn : A -> K) (l : list A),
  exists g, ggroup_by eq fn l = Ok g /\
    gkeys_ne eq g /\
    (forall k grp, In (k, grp) g ->
        subseq grp l /\
        (exists g' z, grp = g' ++ [z] /\ k = fn z) /\
        (eq k k = true -> grp = filter (fun y => eq (fn y) k) l) /\
        (eq k k = false -> exists z, grp = [z] /\ fn z = k)) /\
    (forall x, In x l -> eq (fn x) (fn x) = false -> In (fn x, [x]) g) /\
    Permutation (concat (map snd g)) l.
Proof.
  intros A K eq H fn l. exists (ggroup_ref eq fn l). split; [apply (ggroup_by_spec eq H)|].
  split; [apply (ggroup_ref_keys_ne eq H)|]. split; [|split].
  - intros k grp Hin. split; [exact (ggroup_ref_subseq eq fn l k grp Hin)|].
    split; [exact (ggroup_ref_last_key eq fn l k grp Hin)|].
    split; [exact (ggroup_ref_ordinary eq H fn l k grp Hin) | exact (ggroup_ref_irr eq H fn l k grp Hin)].
  - intros x. apply (ggroup_ref_singletons eq H).
  - apply (ggroup_ref_conserves eq H).
Qed.
Print Assumptions C12_nan_group_by.

(* the hypotheses are satisfiable by a non-trivial input, and the theorem speaks
   about what the code returns there: float64 elements grouped by themselves —
   both zeros share the group filed under the zero that came last, each NaN has
   a group of its own; grouped by a constant NaN key every element is alone *)
Example C12_nan_examples :
  ggroup_by feq (fkey_of 0) [0; negz_code; 1; nan_code; negz_code; nan_code; 0]
    = Ok [(0, [0; negz_code; negz_code; 0]); (1, [1]); (nan_code, [nan_code]); (nan_code, [nan_code])] /\
  ggroup_by feq (fkey_of 0) [0; negz_code] = Ok [(negz_code, [0; negz_code])] /\
  ggroup_by feq (fkey_of 0) [negz_code; 0] = Ok [(0, [negz_code; 0])] /\
  ggroup_by feq (fkey_of 5) [3; 6] = Ok [(nan_code, [3]); (nan_code, [6])] /\
  ggroup_by feq (fkey_of 1) [1; nan_code; 2; 3; nan_code; -2]
    = Ok [(1, [1; 3]); (nan_code, [nan_code]); (negz_code, [2; -2]); (nan_code, [nan_code])] /\
  ggroup_ref feq (fkey_of 1) [1; nan_code; 2; 3; nan_code; -2]
    = [(1, [1; 3]); (nan_code, [nan_code]); (negz_code, [2; -2]); (nan_code, [nan_code])].
Proof. repeat split; reflexivity. Qed.

(* ===== part 1 is the instance without NaN ===== *)

(* at the == of a type with decidable Leibniz equality (ints, strings) the generic
   GroupBy EQUALS [group_by] of C12_Model.v, groups in the same order: C12_group_by
   is about the same code *)
Theorem C12_nan_conservative : forall A K (kd : dec_eq K) (fn : A -> K) (l : list A),
  ggroup_by (deq kd) fn l = group_by kd fn l.
Proof. intros. apply ggroup_by_deq. Qed.
Print Assumptions C12_nan_conservative.

(* ===== the loop as found (1b07b96, before the repair e39968e) ===== *)

(* `if _, ok := result[v]; !ok { result[v] = make(...) }; result[v] = append(result[v], ...)`:
   under a key with v != v the second look-up does not find the entry the first
   store made, so every such element leaves an EMPTY group next to its own —
   GroupBy([]float64{3}, constNaN) = {NaN: [], NaN: [3]} — against "no group is
   empty" / "one group per distinct key" *)
Theorem C12_nan_group_by_asfound_refuted :
  ggroup_by_asfound feq (fkey_of 5) [3] = Ok [(nan_code, []); (nan_code, [3])] /\
  ggroup_by_asfound feq (fkey_of 5) [3; 6] = Ok [(nan_code, []); (nan_code, [3]); (nan_code, []); (nan_code, [6])] /\
  ~ (forall A K (eq : K -> K -> bool), per eq -> forall (fn : A -> K) l g,
       ggroup_by_asfound eq fn l = Ok g -> forall k grp, In (k, grp) g -> grp <> []).
Proof.
  split; [reflexivity|]. split; [reflexivity|]. intros H.
  apply (H Z Z feq feq_per (fkey_of 5) [3] _ eq_refl nan_code []); [now left | reflexivity].
Qed.
Print Assumptions C12_nan_group_by_asfound_refuted.

(* the repair changed nothing where every key equals itself (ints, strings, floats
   without NaN): there the loop as found and the repaired loop are the same function *)
Theorem C12_nan_group_by_asfound_ordinary : forall A K (eq : K -> K -> bool), per eq ->
  forall (fn : A -> K) (l : list A),
  (forall x, In x l -> eq (fn x) (fn x) = true) -> ggroup_by_asfound eq fn l = ggroup_by eq fn l.
Proof. intros A K eq _ fn l. apply ggroup_by_asfound_ordinary. Qed.
Print Assumptions C12_nan_group_by_asfound_ordinary.

(* ===== the helpers that compare nothing, at the float-code callbacks of the `nan` stream ===== *)

(* the models the `nan` stream runs ([c12_run_nan]: the polymorphic loops of C12_Model.v at float
   codes with the float predicates [fpred_of], key functions [fkey_of] and Reduce callbacks
   [fop_of]) equal the references [c12_spec_nan] judges with — the instance of
   C12_model_is_reference; the element type plays no role in any of them *)
Theorem C12_nan_helpers_at_float_codes :
  forall (c a k o init : Z) (l : list Z) (ps m : list (list Z)) (n : nest Z) (size : Z),
  let p := fpred_of c a in
  (size <= max_int64 -> 2 * Z.of_nat (length l) <= max_int64 -> chunk l size = chunk_spec_ref l size) /\
  partition_go p l = (filter p l, filter (fun x => negb (p x)) l) /\
  filter_go p l = filter p l /\
  reject p l = Fin (filter (fun x => negb (p x)) l) /\
  drop_while p l = filter (fun x => negb (p x)) l /\
  drop_right_while p l = rev (filter (fun x => negb (p x)) l) /\
  ggroup_by feq (fkey_of k) l = Ok (ggroup_ref feq (fkey_of k) l) /\
  zip 0 m = transpose_ref 0 m /\ unzip 0 m = transpose_ref 0 m /\
  match zip 0 m with Ok r => unzip 0 r | Err e => Err e | Panic => Panic end = round_trip_ref m /\
  match unzip 0 m with Ok r => zip 0 r | Err e => Err e | Panic => Panic end = round_trip_ref m /\
  flatten n = flatten_ref n /\
  merge l ps = concat (l :: ps) /\
  (Z.of_nat (length l) <= max_int64 -> drop l size = Ok (drop_ref l size)) /\
  reverse l = Fin (rev l) /\
  map_go (fkey_of k) l = (map (fkey_of k) l, l) /\ for_each l = l /\ for_each_right l = rev l /\
  reduce_go (fop_of o) l init = (fold_left (fun acc v => fop_of o v acc) l init, reduce_log (fop_of o) l init) /\
  (forall stream, exists r, shuffle l stream = Fin r /\ Permutation r l).
Proof.
  intros. split; [apply chunk_is_ref|]. split; [apply partition_go_spec|]. split; [apply filter_go_spec|].
  split; [apply reject_spec|]. split; [apply drop_while_spec|].
  split; [rewrite drop_right_while_spec; apply filter_rev|].
  split; [apply (ggroup_by_spec feq feq_per)|]. split; [apply zip_is_ref|]. split; [apply zip_is_ref|].
  split; [apply round_trip_is_ref|]. split; [apply round_trip_is_ref|].
  split; [apply flatten_spec|]. split; [apply merge_spec|]. split; [apply drop_is_ref|].
  split; [apply reverse_spec|]. split; [apply map_go_spec|].
  split; [apply for_each_spec|]. split; [apply for_each_right_spec|]. split; [apply reduce_go_spec|].
  intros stream. apply shuffle_perm.
Qed.
Print Assumptions C12_nan_helpers_at_float_codes.
