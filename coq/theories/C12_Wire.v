(* C12_Wire.v — wire glue for C12 (no proofs; exercised by the correspondence).

   input = fn :: args      (table in harness/c12.go, kept in step)
      1 Chunk zs n            2 Partition p pa zs       3 Filter p pa zs
      4 Reject p pa zs        5 DropWhile p pa zs       6 DropRightWhile p pa zs
      7 GroupBy k zs          8 Zip zss                 9 Unzip zss
     10 Flatten tree         11 Merge zs zss           12 Drop zs n
     13 Reverse zs           14 ReverseStr runes       15 Shuffle seed zs stream
     16 Map k zs             17 ForEach zs             18 ForEachRight zs
     19 Reduce op init zs    20 Unzip(Zip(zss)...)     21 Zip(Unzip(zss)...)
     22 Chunk zs hi lo       23 Drop zs hi lo    (size / count = hi*2^32 + lo)
   predicates (p, pa): 0 true, 1 false, 2 even, 3 (< pa), 4 (== pa)
   key functions k: as in C11_Wire.  Reduce ops: 0 acc+v, 1 2*acc+v, 2 v-acc
   Shuffle: stream = enc_zs of (hi, lo) pairs, the k-th rand.Int() = hi*2^32+lo
   tree: the prefix code of C11_Wire.
   fn = 100 + f (f = 1..13, 15..21): helper f at float64 — the `nan` stream.  Every element,
   predicate argument, Reduce init on the wire is the CODE of a float64 (C11_ModelNaN.v: the
   integer n, [negz_code] for -0, [nan_code] for NaN); Chunk sizes / Drop counts stay ints.
   predicates [fpred_of] (0..4 as above on floats, 5 x != x, 6 math.Signbit), key functions
   [fkey_of], Reduce ops [fop_of] (C12_ModelNaN.v); GroupBy is [ggroup_by feq]: its groups are
   observed as the records key :: group sorted lexicographically (several groups may stand
   under NaN; the sign of a zero key is observed).
   output: slices enc_zs, matrices enc_zss; panicking calls (Chunk, Drop, Zip, Unzip) / in-place loops as
   0 :: payload | [2] (panic) | [3] (model out of fuel: never); Flatten as
   enc_r1; GroupBy as the key-sorted list of (key, group); iterators return
   the result followed by the callback's call log. *)

From Gogu Require Import Base C11_Model C11_ModelNaN C11_Wire C12_Model C12_ModelNaN.

Definition pred_of (c a : Z) : Z -> bool :=
  match c with
  | 0 => fun _ => true
  | 1 => fun _ => false
  | 2 => fun x => Z.rem x 2 =? 0
  | 3 => fun x => x <? a
  | _ => fun x => x =? a
  end.

Definition op_of (c : Z) : Z -> Z -> Z :=      (* fn(v, acc) *)
  match c with
  | 0 => fun v acc => acc + v
  | 1 => fun v acc => 2 * acc + v
  | _ => fun v acc => v - acc
  end.

Definition enc_loop {A} (f : A -> list Z) (r : loop A) : list Z :=
  match r with Fin a => 0 :: f a | Oob => [2] | NoFuel => [3] end.

(* (hi, lo) pairs -> the stream of rand.Int() values (0 beyond the recorded calls) *)
Fixpoint stream_vals (l : list Z) : list Z :=
  match l with
  | hi :: lo :: r => (hi * 4294967296 + lo) :: stream_vals r
  | _ => []
  end.
(* the values are computed once per case, not once per call *)
Definition stream_of (l : list Z) : nat -> Z := let vs := stream_vals l in fun k => nth k vs 0.

Fixpoint ginsert (x : Z * list Z) (l : list (Z * list Z)) : list (Z * list Z) :=
  match l with
  | [] => [x]
  | y :: r => if fst x <=? fst y then x :: l else y :: ginsert x r
  end.
Definition gsort (l : list (Z * list Z)) : list (Z * list Z) := fold_right ginsert [] l.
Definition enc_groups (l : list (Z * list Z)) : list Z :=
  Z.of_nat (length l) :: flat_map (fun kg => fst kg :: enc_zs (snd kg)) l.

(* the `nan` stream: the groups as records key :: group, sorted lexicographically *)
Fixpoint lex_leb (a b : list Z) : bool :=
  match a, b with
  | [], _ => true
  | _ :: _, [] => false
  | x :: a', y :: b' => if x <? y then true else if y <? x then false else lex_leb a' b'
  end.
Fixpoint linsert (x : list Z) (l : list (list Z)) : list (list Z) :=
  match l with
  | [] => [x]
  | y :: r => if lex_leb x y then x :: l else y :: linsert x r
  end.
Definition lsort (l : list (list Z)) : list (list Z) := fold_right linsert [] l.
Definition enc_groups_lex (l : list (Z * list Z)) : list Z :=
  Z.of_nat (length l) :: concat (lsort (map (fun kg => fst kg :: enc_zs (snd kg)) l)).

(* an int argument sent as two words (the runner's words are 63-bit): hi*2^32 + lo *)
Definition wide (hi lo : Z) : Z := hi * 4294967296 + lo.

Definition bind_res {A B} (r : res A) (f : A -> res B) : res B :=
  match r with Ok a => f a | Err k => Err k | Panic => Panic end.

Definition with_pred_of (pf : Z -> Z -> Z -> bool) (a : list Z) (f : (Z -> bool) -> list Z -> list Z) : list Z :=
  match a with
  | c :: pa :: a' => match rd_zs a' with Some (l, []) => f (pf c pa) l | _ => wire_error end
  | _ => wire_error
  end.
Definition with_zs (a : list Z) (f : list Z -> list Z) : list Z :=
  match rd_zs a with Some (l, []) => f l | _ => wire_error end.
Definition with_zss (a : list Z) (f : list (list Z) -> list Z) : list Z :=
  match rd_zss a with Some (m, []) => f m | _ => wire_error end.

(* one dispatcher, instantiated with the model functions ([c12_run]) and with
   the reference definitions of the specification ([c12_spec]) *)
Section Dispatch.
  (* the callback families and the encoding of GroupBy's result: ints ([key_of], [pred_of],
     [op_of], groups sorted by key) or float codes ([fkey_of], [fpred_of], [fop_of], records) *)
  Context (key_of : Z -> Z -> Z) (pred_of : Z -> Z -> Z -> bool) (op_of : Z -> Z -> Z -> Z)
          (enc_g : list (Z * list Z) -> list Z).
  Let with_pred := with_pred_of pred_of.
  Context (f_chunk : list Z -> Z -> res (list (list Z)))
          (f_partition : (Z -> bool) -> list Z -> list Z * list Z)
          (f_filter : (Z -> bool) -> list Z -> list Z)
          (f_reject : (Z -> bool) -> list Z -> loop (list Z))
          (f_drop_while f_drop_right_while : (Z -> bool) -> list Z -> list Z)
          (f_group_by : (Z -> Z) -> list Z -> res (list (Z * list Z)))
          (f_zip f_unzip : list (list Z) -> res (list (list Z)))
          (f_flatten : nest Z -> res (list Z))
          (f_merge : list Z -> list (list Z) -> list Z)
          (f_drop : list Z -> Z -> res (list Z))
          (f_reverse f_reverse_str : list Z -> loop (list Z))
          (f_shuffle : list Z -> (nat -> Z) -> loop (list Z))
          (f_map : (Z -> Z) -> list Z -> list Z * list Z)
          (f_for_each f_for_each_right : list Z -> list Z)
          (f_reduce : (Z -> Z -> Z) -> list Z -> Z -> Z * list (Z * Z))
          (f_unzip_zip f_zip_unzip : list (list Z) -> res (list (list Z))).

  Definition dispatch12 (w : list Z) : list Z :=
    match w with
    | fn :: a =>
        match fn with
        | 1 => match rd_zs a with Some (l, [n]) => enc_res enc_zss (f_chunk l n) | _ => wire_error end
        | 2 => with_pred a (fun p l => let r := f_partition p l in enc_zs (fst r) ++ enc_zs (snd r))
        | 3 => with_pred a (fun p l => enc_zs (f_filter p l))
        | 4 => with_pred a (fun p l => enc_loop enc_zs (f_reject p l))
        | 5 => with_pred a (fun p l => enc_zs (f_drop_while p l))
        | 6 => with_pred a (fun p l => enc_zs (f_drop_right_while p l))
        | 7 => match a with
               | k :: a' => with_zs a' (fun l => enc_res enc_g (f_group_by (key_of k) l))
               | _ => wire_error end
        | 8 => with_zss a (fun m => enc_res enc_zss (f_zip m))
        | 9 => with_zss a (fun m => enc_res enc_zss (f_unzip m))
        | 10 => match rd_nest (S (length a)) a with
                | Some (t, []) => enc_r1 enc_zs (f_flatten t)
                | _ => wire_error end
        | 11 => match rd_zs a with
                | Some (s, a') => with_zss a' (fun ps => enc_zs (f_merge s ps))
                | _ => wire_error end
        | 12 => match rd_zs a with Some (l, [n]) => enc_res enc_zs (f_drop l n) | _ => wire_error end
        | 13 => with_zs a (fun l => enc_loop enc_zs (f_reverse l))
        | 14 => with_zs a (fun l => enc_loop enc_zs (f_reverse_str l))
        | 15 => match a with
                | _seed :: a' =>
                    match rd_zs a' with
                    | Some (l, a'') => with_zs a'' (fun st => enc_loop enc_zs (f_shuffle l (stream_of st)))
                    | _ => wire_error end
                | _ => wire_error end
        | 16 => match a with
                | k :: a' => with_zs a' (fun l => let r := f_map (key_of k) l in enc_zs (fst r) ++ enc_zs (snd r))
                | _ => wire_error end
        | 17 => with_zs a (fun l => enc_zs (f_for_each l))
        | 18 => with_zs a (fun l => enc_zs (f_for_each_right l))
        | 19 => match a with
                | op :: init :: a' =>
                    with_zs a' (fun l => let r := f_reduce (op_of op) l init in fst r :: enc_pairs (snd r))
                | _ => wire_error end
        | 20 => with_zss a (fun m => enc_res enc_zss (f_unzip_zip m))
        | 21 => with_zss a (fun m => enc_res enc_zss (f_zip_unzip m))
        | 22 => match rd_zs a with Some (l, [hi; lo]) => enc_res enc_zss (f_chunk l (wide hi lo)) | _ => wire_error end
        | 23 => match rd_zs a with Some (l, [hi; lo]) => enc_res enc_zs (f_drop l (wide hi lo)) | _ => wire_error end
        | _ => wire_error
        end
    | [] => wire_error
    end.
End Dispatch.

(* the model (the Go loops of C12_Model.v) *)
Definition c12_run_int : list Z -> list Z :=
  dispatch12 key_of pred_of op_of (fun g => enc_groups (gsort g))
             chunk partition_go filter_go reject drop_while drop_right_while
             (group_by Z.eq_dec) (zip 0) (unzip 0) flatten merge drop reverse reverse_str shuffle
             map_go for_each for_each_right reduce_go
             (fun m => bind_res (zip 0 m) (unzip 0)) (fun m => bind_res (unzip 0 m) (zip 0)).
(* the same loops at float codes; GroupBy with Go's == on float64 (C12_ModelNaN.v) *)
Definition c12_run_nan : list Z -> list Z :=
  dispatch12 fkey_of fpred_of fop_of enc_groups_lex
             chunk partition_go filter_go reject drop_while drop_right_while
             (ggroup_by feq) (zip 0) (unzip 0) flatten merge drop reverse reverse_str shuffle
             map_go for_each for_each_right reduce_go
             (fun m => bind_res (zip 0 m) (unzip 0)) (fun m => bind_res (unzip 0 m) (zip 0)).
(* fn > 100: the `nan` stream *)
Definition on_stream (f_int f_nan : list Z -> list Z) (w : list Z) : list Z :=
  match w with
  | fn :: a => if 100 <? fn then f_nan ((fn - 100) :: a) else f_int w
  | [] => f_int w
  end.
Definition c12_run : list Z -> list Z := on_stream c12_run_int c12_run_nan.

(* the specification: the reference definitions the theorems of C12_Props.v
   relate the model to (cut-n-at-a-time, filter, rev, one group per key,
   transpose of a square matrix, leaves, concat, skipn/firstn, the call logs) —
   none of them is written as a loop over indices.  Shuffle has no reference
   result: the property only asks for a permutation (see [c12_holds]). *)
Definition np (p : Z -> bool) : Z -> bool := fun x => negb (p x).
Section Spec.
  Context (key_of : Z -> Z -> Z) (pred_of : Z -> Z -> Z -> bool) (op_of : Z -> Z -> Z -> Z)
          (enc_g : list (Z * list Z) -> list Z)
          (f_group_by : (Z -> Z) -> list Z -> res (list (Z * list Z))).
  Definition spec12 : list Z -> list Z :=
    dispatch12 key_of pred_of op_of enc_g
             chunk_spec_ref
             (fun p l => (filter p l, filter (np p) l))
             (fun p l => filter p l)
             (fun p l => Fin (filter (np p) l))
             (fun p l => filter (np p) l)
             (fun p l => rev (filter (np p) l))
             f_group_by
             (transpose_ref 0) (transpose_ref 0) flatten_ref
             (fun s ps => concat (s :: ps)) (fun l n => Ok (drop_ref l n))
             (fun l => Fin (rev l)) (fun l => Fin (rev l))
             shuffle
             (fun k l => (map k l, l)) (fun l => l) (fun l => rev l)
             (fun op l init => (fold_left (fun acc v => op v acc) l init, reduce_log op l init))
             round_trip_ref round_trip_ref.
End Spec.
Definition c12_spec_int : list Z -> list Z :=
  spec12 key_of pred_of op_of (fun g => enc_groups (gsort g)) (fun k l => Ok (group_by_ref Z.eq_dec k l)).
(* the same references at float codes (they never compare elements); GroupBy: [ggroup_ref feq]
   (C12_nan_group_by_is_reference proves the model equal to it) *)
Definition c12_spec_nan : list Z -> list Z :=
  spec12 fkey_of fpred_of fop_of enc_groups_lex (fun k l => Ok (ggroup_ref feq k l)).
Definition c12_spec : list Z -> list Z := on_stream c12_spec_int c12_spec_nan.

Definition c12_agree (w obs : list Z) : bool := zlist_eqb obs (c12_run w).

(* The property determines every observable uniquely — except for Shuffle, of
   which it only demands a permutation of the input.  So an observation
   satisfies the property iff it is the one the REFERENCE definitions give
   ([c12_spec]; C12_model_is_reference proves the model equal to them), and for
   Shuffle iff it is a panic-free rearrangement of the input. *)
Definition shuffle_holds (a' obs : list Z) : bool :=
  match rd_zs a', obs with
  | Some (l, _), 0 :: obs' =>
      match rd_zs obs' with
      | Some (r, []) => zlist_eqb (zsort r) (zsort l)
      | _ => false
      end
  | _, _ => false
  end.
(* GroupBy at float64: WHICH zero the map keeps as the key of the group of the zero-keyed
   elements (+0 and -0 are one key) is not something the property fixes — the model says "the
   key of the group's last element" and [c12_agree] checks exactly that, but the property holds
   on an observation whatever the sign of a zero KEY is.  The elements keep their signs. *)
Fixpoint rd_groups (fuel : nat) (w : list Z) : option (list (Z * list Z)) :=
  match w with
  | [] => Some []
  | k :: w' =>
      match fuel with
      | O => None
      | S f =>
          match rd_zs w' with
          | Some (g, w'') =>
              match rd_groups f w'' with Some r => Some ((k, g) :: r) | None => None end
          | None => None
          end
      end
  end.
Definition norm_groups (o : list Z) : list Z :=
  match o with
  | 0 :: n :: w =>
      match rd_groups (length w) w with
      | Some gs => if n =? Z.of_nat (length gs)
                   then 0 :: enc_groups_lex (map (fun kg => (fnorm (fst kg), snd kg)) gs) else o
      | None => o
      end
  | _ => o
  end.
Definition c12_holds (w obs : list Z) : bool :=
  match w with
  | 15 :: _seed :: a' => shuffle_holds a' obs
  | 115 :: _seed :: a' => shuffle_holds a' obs      (* float codes: the same multiset of codes *)
  | 107 :: _ => zlist_eqb (norm_groups obs) (norm_groups (c12_spec w))
  | _ => zlist_eqb obs (c12_spec w)
  end.
