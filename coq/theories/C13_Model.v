(* C13_Model.v — search, selection, aggregate and numeric helpers.
   Transcribed statement by statement from /repo: slice.go (Sum, SumBy, Mean,
   IndexOf, LastIndexOf, Contains, Some, Every), find.go (FindIndex,
   FindLastIndex, FindAll, FindMin/Max(+By,+ByKey), Nth, Bound.Enclose),
   math.go (Min, Max, Abs, Clamp, InRange), generic.go (Compare, Less, Equal),
   range.go (Range, RangeRight).

   Go [int] is unbounded [Z] here (see DESIGN §3); the one place where the
   element type's wrap-around is the subject (Sum "in the element type") has an
   explicit wrap.  No proofs in this file. *)

From Gogu Require Import Base.

(* ---------- slice.go ---------- *)

(* for _, v := range slice { acc += v } *)
Definition sum (l : list Z) : Z := fold_left Z.add l 0.

(* the same loop in a w-bit signed element type: every += wraps *)
Definition wrap (w : Z) (z : Z) : Z := (z + 2 ^ (w - 1)) mod 2 ^ w - 2 ^ (w - 1).
(* the same function with a shortcut for a value that is already in range (no
   division): used in the loops that wrap at every iteration; equal to [wrap]
   (C13_Props.C13_wrapf_eq) *)
Definition wrapf (w : Z) (z : Z) : Z :=
  let h := 2 ^ (w - 1) in if (- h <=? z) && (z <? h) then z else wrap w z.
Definition sum_w (w : Z) (l : list Z) : Z := fold_left (fun acc v => wrap w (acc + v)) l 0.

Definition sum_by (f : Z -> Z) (l : list Z) : Z := fold_left (fun acc v => acc + f v) l 0.
(* in a w-bit type ([f] already returns a value of the type) *)
Definition sum_by_w (w : Z) (f : Z -> Z) (l : list Z) : Z :=
  fold_left (fun acc v => wrap w (acc + f v)) l 0.

(* result / T(len(slice)); Go integer division truncates toward zero (Z.quot);
   division by zero panics *)
Definition mean (l : list Z) : res Z :=
  match l with
  | [] => Panic
  | _ => Ok (Z.quot (sum l) (Z.of_nat (length l)))
  end.

(* Mean in a w-bit signed element type: the accumulation wraps as in [sum_w],
   and so does the conversion T(len(slice)) of the divisor: a slice whose length
   is a multiple of 2^w divides by zero (run-time panic), a length in
   [2^(w-1), 2^w) becomes a NEGATIVE divisor.  Go defines MinInt / -1 = MinInt
   (no panic): the outer [wrap]. *)
Definition mean_w (w : Z) (l : list Z) : res Z :=
  let d := wrap w (Z.of_nat (length l)) in
  if d =? 0 then Panic else Ok (wrap w (Z.quot (sum_w w l) d)).

(* for k, v := range s { if v == val { return k } } return -1 *)
Fixpoint index_from (p : Z -> bool) (l : list Z) (k : Z) : Z :=
  match l with
  | [] => -1
  | v :: l' => if p v then k else index_from p l' (k + 1)
  end.
Definition find_index (p : Z -> bool) (l : list Z) : Z := index_from p l 0.
Definition index_of (l : list Z) (x : Z) : Z := find_index (Z.eqb x) l.

(* for i := len(s)-1; i >= 0; i-- { if fn(s[i]) { return i } } return -1:
   a forward pass that remembers the last hit visits the same elements and
   returns the same index; the loop is written backwards here too, on the
   reversed list, to stay close to the code *)
Fixpoint last_from (p : Z -> bool) (rl : list Z) (i : Z) : Z :=
  match rl with
  | [] => -1
  | v :: rl' => if p v then i else last_from p rl' (i - 1)
  end.
Definition find_last_index (p : Z -> bool) (l : list Z) : Z :=
  last_from p (rev_append l []) (Z.of_nat (length l) - 1).   (* rev_append l [] = rev l, in linear time *)
Definition last_index_of (l : list Z) (x : Z) : Z := find_last_index (Z.eqb x) l.

(* FindAll: map[int]T of the matching positions; as an index-sorted
   association list (the harness sorts the Go map by key) *)
Fixpoint find_all_from (p : Z -> bool) (l : list Z) (k : Z) : list (Z * Z) :=
  match l with
  | [] => []
  | v :: l' => if p v then (k, v) :: find_all_from p l' (k + 1) else find_all_from p l' (k + 1)
  end.
Definition find_all (p : Z -> bool) (l : list Z) : list (Z * Z) := find_all_from p l 0.

Definition contains (l : list Z) (x : Z) : bool := existsb (Z.eqb x) l.
Definition some (p : Z -> bool) (l : list Z) : bool := existsb p l.
Definition every (p : Z -> bool) (l : list Z) : bool := forallb p l.

(* ---------- find.go ---------- *)

(* var min T; if len(s) > 0 { min = s[0] }; for i … { if s[i] < min { min = s[i] } } *)
Definition find_min (l : list Z) : Z :=
  fold_left (fun m x => if x <? m then x else m) l (hd 0 l).
Definition find_max (l : list Z) : Z :=
  fold_left (fun m x => if x >? m then x else m) l (hd 0 l).
Definition find_min_by (f : Z -> Z) (l : list Z) : Z :=
  fold_left (fun m x => if f x <? f m then x else m) l (hd 0 l).
Definition find_max_by (f : Z -> Z) (l : list Z) : Z :=
  fold_left (fun m x => if f x >? f m then x else m) l (hd 0 l).

(* math.go Min/Max(values ...T): acc = values[0] then the same loop.  The
   repaired code returns the zero value for no arguments (fix: C13 Min/Max). *)
Definition min_of (l : list Z) : Z := find_min l.
Definition max_of (l : list Z) : Z := find_max l.

(* maps as association lists with unique keys *)
Definition amap := list (Z * Z).
Fixpoint alookup (m : amap) (k : Z) : option Z :=
  match m with
  | [] => None
  | (k', v) :: m' => if Z.eqb k k' then Some v else alookup m' k
  end.

(* FindMinByKey (repaired): empty slice ↦ (zero, nil);
   first map lacks the key ↦ (zero, error "key not found");
   otherwise the least value under [key] among the maps that have it *)
Definition find_ext_by_key (better : Z -> Z -> bool) (ms : list amap) (key : Z) : res Z :=
  match ms with
  | [] => Ok 0
  | m0 :: _ =>
      match alookup m0 key with
      | None => Err 1
      | Some v0 =>
          Ok (fold_left (fun acc m =>
                match alookup m key with
                | Some v => if better v acc then v else acc
                | None => acc
                end) ms v0)
      end
  end.
Definition find_min_by_key := find_ext_by_key Z.ltb.
Definition find_max_by_key := find_ext_by_key Z.gtb.

(* Bound{0,len}.Enclose(nth) *)
Definition enclose (lo hi nth : Z) : bool := (Z.abs nth >=? lo) && (Z.abs nth <=? hi).

(* Nth (repaired: the first disjunct tests nth >= 0).  The index expressions
   are the Go ones; [nth_error] returning None is the index panic. *)
Definition nth_go (l : list Z) (n : Z) : res Z :=
  let len := Z.of_nat (length l) in
  if ((n >=? 0) && (n >? len - 1)) || ((n <? 0) && (len - Z.abs n <? 0)) then Err 1
  else
    let idx := if enclose 0 len n && (n >=? 0) then n else len - Z.abs n in
    if idx <? 0 then Panic
    else match nth_error l (Z.to_nat idx) with
         | Some v => Ok v
         | None => Panic
         end.

(* ---------- math.go ---------- *)

Definition abs_go (x : Z) : Z := if x <? 0 then - x else x.
(* the same in a w-bit signed type: -x wraps, so abs(min) = min *)
Definition abs_w (w x : Z) : Z := if x <? 0 then wrap w (- x) else x.

(* Nth with Go's w-bit [int] (w = 64): the arithmetic the code does on its index
   argument wraps — Abs(nth) (= nth for the most negative value) and
   bounds.Max - Abs(nth).  len(slice) - 1 cannot overflow.  The index
   expressions are guarded so that no huge [Z.to_nat] is ever evaluated: an index
   outside [0, len) is the Go index panic. *)
Definition enclose_w (w lo hi nth : Z) : bool := (abs_w w nth >=? lo) && (abs_w w nth <=? hi).
Definition nth_w (w : Z) (l : list Z) (n : Z) : res Z :=
  let len := Z.of_nat (length l) in
  let a := abs_w w n in
  if ((n >=? 0) && (n >? len - 1)) || ((n <? 0) && (wrap w (len - a) <? 0)) then Err 1
  else
    let idx := if enclose_w w 0 len n && (n >=? 0) then n else wrap w (len - a) in
    if (idx <? 0) || (idx >=? len) then Panic
    else match nth_error l (Z.to_nat idx) with
         | Some v => Ok v
         | None => Panic
         end.
Definition clamp (num lo hi : Z) : Z :=
  if num <=? lo then lo else if num >=? hi then hi else num.
Definition in_range (num lo hi : Z) : bool := (num >=? lo) && (num <=? hi).

(* ---------- generic.go ---------- *)

Definition compare_go (comp : Z -> Z -> bool) (a b : Z) : Z :=
  if comp a b then 1 else if comp b a then -1 else 0.
Definition less_go (a b : Z) : bool := a <? b.
Definition equal_go (a b : Z) : bool := a =? b.

(* ---------- range.go ---------- *)

(* for i := start; i < end; i += step { append i } — fuel-bounded *)
Fixpoint range_up (fuel : nat) (i step e : Z) : list Z :=
  match fuel with
  | O => []
  | S f => if i <? e then i :: range_up f (i + step) step e else []
  end.
(* for i := start; end < i; i -= Abs(step) { append i } *)
Fixpoint range_down (fuel : nat) (i astep e : Z) : list Z :=
  match fuel with
  | O => []
  | S f => if e <? i then i :: range_down f (i - astep) astep e else []
  end.

(* error kinds: 1 too many arguments, 2 start > end > 0, 3 step = 0,
   4 negative step with end > start *)
Definition range_go (args : list Z) : res (list Z) :=
  let go (start step e : Z) : res (list Z) :=
      if e >? 0 then Ok (range_up (Z.to_nat (e - start)) start step e)
      else Ok (range_down (Z.to_nat (start - e)) start (Z.abs step) e) in
  match args with
  | [] => go 0 0 0
  | [e] => go 0 1 e
  | [s; e] => go s 1 e
  | [s; st; e] =>
      if (s >? e) && (e >? 0) then Err 2
      else if st =? 0 then Err 3
      else if (st <? 0) && (e >? s) then Err 4
      else go s st e
  | _ => Err 1
  end.

(* The same in a bounded element type, AFTER the repair 07bbafa (fix: Range stops
   when the next term does not fit into the element type).  [wr] is the type's
   wrap-around (signed w bits: [wrapf w]; unsigned: [mod 2^w]), [absf] its Abs.

     for i := start; i < end; i += step {            for i := start; end < i; i -= Abs(step) {
         append i                                         append i
         if i+step < i { break }                          if i-Abs(step) > i { break }
     }                                                }

   Since a549427 (the float64 repair, modelled in C13_ModelFloat) the source reads

         n := N(NumToString(i)); if !(T(n) < end) { break }; append n; if !(i+step > i) { break }

   (resp. !(end < T(n)), !(i-Abs(step) < i)).  For an integer T this is the loop
   above: n = i (printing and parsing an integer is the identity) and i < end has
   just been tested, so the first break never fires; and !(i+step > i) is
   i+step < i because a wrapped i+step is never equal to i for a non-zero step
   of the type (C13_Props.C13_range_break_tests_int / _uint). 

   (In the unbounded reading [range_go] the two break tests are never true —
   step >= 1 whenever a body runs — so they do not appear there.)  The fuel is
   the constant [cap], never a function of the arguments: nothing huge is ever
   enumerated; a loop that uses it up answers [None] (↦ Panic). *)
Fixpoint range_up_g (wr : Z -> Z) (fuel : nat) (i step e : Z) : option (list Z) :=
  match fuel with
  | O => if i <? e then None else Some []
  | S f => if i <? e
           then (if wr (i + step) <? i then Some [i]
                 else option_map (cons i) (range_up_g wr f (wr (i + step)) step e))
           else Some []
  end.
Fixpoint range_down_g (wr : Z -> Z) (fuel : nat) (i astep e : Z) : option (list Z) :=
  match fuel with
  | O => if e <? i then None else Some []
  | S f => if e <? i
           then (if wr (i - astep) >? i then Some [i]
                 else option_map (cons i) (range_down_g wr f (wr (i - astep)) astep e))
           else Some []
  end.

Definition range_g (wr absf : Z -> Z) (cap : nat) (args : list Z) : res (list Z) :=
  let go (start step e : Z) : res (list Z) :=
      match (if e >? 0 then range_up_g wr cap start step e
             else range_down_g wr cap start (absf step) e) with
      | Some l => Ok l
      | None => Panic
      end in
  match args with
  | [] => go 0 0 0
  | [e] => go 0 1 e
  | [s; e] => go s 1 e
  | [s; st; e] =>
      if (s >? e) && (e >? 0) then Err 2
      else if st =? 0 then Err 3
      else if (st <? 0) && (e >? s) then Err 4
      else go s st e
  | _ => Err 1
  end.

(* signed w-bit ints (Go int: w = 64; int8: w = 8) and unsigned w-bit ints *)
Definition range_w (w : Z) (cap : nat) (args : list Z) : res (list Z) :=
  range_g (wrapf w) (abs_w w) cap args.
Definition range_u (w : Z) (cap : nat) (args : list Z) : res (list Z) :=
  range_g (fun z => z mod 2 ^ w) (fun x => if x <? 0 then (- x) mod 2 ^ w else x) cap args.

(* Reverse(ran): [rev_append l []] is [rev l] (List.rev_alt), in linear time *)
Definition rev_res (r : res (list Z)) : res (list Z) :=
  match r with
  | Ok l => Ok (rev_append l [])
  | Err k => Err k
  | Panic => Panic
  end.
Definition range_right_w (w : Z) (cap : nat) (args : list Z) : res (list Z) := rev_res (range_w w cap args).
Definition range_right_u (w : Z) (cap : nat) (args : list Z) : res (list Z) := rev_res (range_u w cap args).

(* THE CODE AS FOUND (before 07bbafa): the same loops without the break tests —
   a counter that wraps does not stop where the progression stops.  Kept only
   for the witness C13_Props.C13_range_overflow_unrepaired_refuted. *)
Fixpoint range_up_asfound (w : Z) (fuel : nat) (i step e : Z) : option (list Z) :=
  match fuel with
  | O => if i <? e then None else Some []
  | S f => if i <? e then option_map (cons i) (range_up_asfound w f (wrapf w (i + step)) step e) else Some []
  end.

Definition range_right (args : list Z) : res (list Z) :=
  match range_go args with
  | Ok l => Ok (rev l)
  | Err k => Err k
  | Panic => Panic
  end.
