(* C13_ModelFloat.v — the float64 instantiations of the C13 helpers, with exact
   IEEE-754 binary64 semantics.

   Modelling choice (a) of the brief: a float64 is a Flocq
   [BinarySingleNaN.binary_float 53 1024] (sign / mantissa / exponent in binary
   integers plus a validity proof, one NaN), [+], [/] are Flocq's [Bplus] /
   [Bdiv] with [mode_NE] (round to nearest, ties to even — the only mode Go
   uses), [<], [<=], [==] are [Bltb], [Bleb], [Beqb].  No primitive floats, no
   new extraction directive: the operations are plain Gallina over [positive] /
   [Z]; extraction erases the validity proofs.  Flocq's correctness theorems
   ([Bplus_correct] …) relate them to the reals; they (and the validity proofs
   stored inside values) rest on the standard library's axioms for the classical
   reals, which [Print Assumptions] lists for every theorem of C13_PropsFloat.

   NaN payloads are not represented (Go does not define them either: the
   payload of a computed NaN is whatever the hardware produces); on the wire
   every NaN is the one pattern 0x7FF8000000000000 (the harness canonicalises).

   Transcribed statement by statement from /repo: slice.go (Sum, SumBy, Mean),
   find.go (FindMin/Max(+By,+ByKey)), math.go (Min, Max, Abs, Clamp, InRange),
   generic.go (Compare, Less, Equal), range.go (Range, RangeRight, N,
   NumToString) at T = float64.  No proofs in this file. *)

From Gogu Require Import Base.
From Flocq Require Import BinarySingleNaN Bits.
From Flocq Require Binary.

Definition f64 : Type := binary_float 53 1024.

#[global] Instance f64_prec_gt_0 : FLX.Prec_gt_0 53 := eq_refl.
#[global] Instance f64_prec_lt_emax : Prec_lt_emax 53 1024 := eq_refl.

Definition fpz : f64 := B754_zero false.       (* +0: the zero value of float64 *)
Definition fnz : f64 := B754_zero true.        (* -0 *)
Definition fnan : f64 := B754_nan.
Definition finf (s : bool) : f64 := B754_infinity s.

(* ---------- the wire: a float64 travels as its 64-bit pattern, read as int64 ----------
   math.Float64frombits / math.Float64bits: sign (bit 63), biased exponent E
   (bits 52..62), fraction M (bits 0..51).  E = 2047: infinity (M = 0) or NaN;
   E = 0: zero or subnormal M * 2^-1074; otherwise (2^52 + M) * 2^(E - 1075).
   [binary_normalize] builds the Flocq value (with its validity proof) from the
   integer mantissa and exponent; nothing is rounded here (the mantissa has at
   most 53 bits).  C13_PropsFloat: [bits_of_f64] is Flocq's [bits_of_b64]
   (Bits.v) read as a signed word, and [f64_of_bits] inverts it. *)
Definition two52 : Z := 4503599627370496.
Definition two63 : Z := 9223372036854775808.
Definition two64 : Z := 18446744073709551616.
Definition f64_of_bits (z : Z) : f64 :=
  let u := Z.land z (Z.ones 64) in               (* z mod 2^64: the int64 read as uint64 *)
  let s := Z.testbit u 63 in
  let E := Z.land (Z.shiftr u 52) (Z.ones 11) in (* (u / 2^52) mod 2^11 *)
  let M := Z.land u (Z.ones 52) in               (* u mod 2^52 *)
  if E =? 2047 then (if M =? 0 then B754_infinity s else B754_nan)
  else if E =? 0 then binary_normalize 53 1024 _ _ mode_NE (if s then - M else M) (-1074) s
  else binary_normalize 53 1024 _ _ mode_NE (if s then - (M + two52) else M + two52) (E - 1075) s.
(* every NaN is written as the one pattern 0x7FF8000000000000 *)
Definition bits_of_f64 (x : f64) : Z :=
  match x with
  | B754_zero s => if s then - two63 else 0
  | B754_infinity s => if s then 2047 * two52 - two63 else 2047 * two52
  | B754_nan => 2047 * two52 + 2251799813685248
  | B754_finite s m e _ =>
      let b := if Z.pos m <? two52 then Z.pos m else (e + 1075) * two52 + (Z.pos m - two52) in
      if s then b - two63 else b
  end.

(* ---------- Go's operators at float64 ---------- *)

Definition fadd : f64 -> f64 -> f64 := Bplus mode_NE.      (* x + y *)
Definition fsub : f64 -> f64 -> f64 := Bminus mode_NE.     (* x - y *)
Definition fdiv : f64 -> f64 -> f64 := Bdiv mode_NE.       (* x / y *)
Definition fneg : f64 -> f64 := Bopp.                      (* -x: flips the sign bit *)
Definition fabs_bit : f64 -> f64 := Babs.                  (* math.Abs: clears the sign bit (harness key function) *)
Definition flt (x y : f64) : bool := Bltb x y.             (* x < y: false when either is NaN *)
Definition fle (x y : f64) : bool := Bleb x y.             (* x <= y *)
Definition fgt (x y : f64) : bool := Bltb y x.             (* x > y *)
Definition fge (x y : f64) : bool := Bleb y x.             (* x >= y *)
Definition feq (x y : f64) : bool := Beqb x y.             (* x == y: NaN != NaN, -0 == +0 *)

(* float64(n) for an int n: rounded to nearest even (exact for |n| <= 2^53) *)
Definition f_of_int (n : Z) : f64 := binary_normalize 53 1024 _ _ mode_NE n 0 false.

(* ---------- slice.go ---------- *)

(* var acc T; for _, v := range slice { acc += v } *)
Definition fsum (l : list f64) : f64 := fold_left fadd l fpz.
Definition fsum_by (k : f64 -> f64) (l : list f64) : f64 :=
  fold_left (fun acc v => fadd acc (k v)) l fpz.
(* result / T(len(slice)): no panic at float64 — 0/0 is NaN *)
Definition fmean (l : list f64) : f64 := fdiv (fsum l) (f_of_int (Z.of_nat (length l))).

(* ---------- find.go, math.go: running extremum seeded with s[0] ---------- *)

Definition ffind_min (l : list f64) : f64 :=
  fold_left (fun m x => if flt x m then x else m) l (hd fpz l).
Definition ffind_max (l : list f64) : f64 :=
  fold_left (fun m x => if fgt x m then x else m) l (hd fpz l).
Definition ffind_min_by (k : f64 -> f64) (l : list f64) : f64 :=
  fold_left (fun m x => if flt (k x) (k m) then x else m) l (hd fpz l).
Definition ffind_max_by (k : f64 -> f64) (l : list f64) : f64 :=
  fold_left (fun m x => if fgt (k x) (k m) then x else m) l (hd fpz l).
Definition fmin_of := ffind_min.
Definition fmax_of := ffind_max.

(* FindMinByKey / FindMaxByKey at map[int]float64 (see C13_Model.find_ext_by_key) *)
Definition famap := list (Z * f64).
Fixpoint falookup (m : famap) (k : Z) : option f64 :=
  match m with
  | [] => None
  | (k', v) :: m' => if Z.eqb k k' then Some v else falookup m' k
  end.
Definition ffind_ext_by_key (better : f64 -> f64 -> bool) (ms : list famap) (key : Z) : res f64 :=
  match ms with
  | [] => Ok fpz
  | m0 :: _ =>
      match falookup m0 key with
      | None => Err 1
      | Some v0 =>
          Ok (fold_left (fun acc m =>
                match falookup m key with
                | Some v => if better v acc then v else acc
                | None => acc
                end) ms v0)
      end
  end.
Definition ffind_min_by_key := ffind_ext_by_key flt.
Definition ffind_max_by_key := ffind_ext_by_key fgt.

(* ---------- math.go ---------- *)

(* if x < 0 { return -x }; return x *)
Definition fabs_go (x : f64) : f64 := if flt x fpz then fneg x else x.
(* if num <= min { return min } else if num >= max { return max }; return num *)
Definition fclamp (num lo hi : f64) : f64 :=
  if fle num lo then lo else if fge num hi then hi else num.
Definition fin_range (num lo hi : f64) : bool := fge num lo && fle num hi.

(* ---------- generic.go ---------- *)

Definition fcompare_go (comp : f64 -> f64 -> bool) (a b : f64) : Z :=
  if comp a b then 1 else if comp b a then -1 else 0.
Definition fless_go (a b : f64) : bool := flt a b.
Definition fequal_go (a b : f64) : bool := feq a b.

(* ---------- range.go at float64 ---------- *)

(* n, _ := N[T](NumToString(i)):  fmt.Sprintf("%.2f", i) followed by
   strconv.ParseFloat(s, 64).  Both are correctly rounded:
   - "%.2f" prints the decimal with two fractional digits nearest to the exact
     binary value, ties to the even last digit (strconv: decimal.Round /
     shouldRoundUp), i.e. the integer number of hundredths
         cents = rne(|i| * 100),     with the sign of i ("-0.00" for -0 and for
     small negatives), and "NaN", "+Inf", "-Inf";
   - ParseFloat returns the float64 nearest (ties to even) to cents/100, and
     accepts "NaN" / "+Inf" / "-Inf" / "-0.00". *)
Definition cents (m : positive) (e : Z) : Z :=
  match e with
  | Zneg p =>
      let d := 2 ^ (Zpos p) in
      let n := Zpos m * 100 in
      let q := n / d in
      let r := n mod d in
      if 2 * r <? d then q
      else if 2 * r =? d then (if Z.even q then q else q + 1)
      else q + 1
  | _ => Zpos m * 100 * 2 ^ e
  end.

(* the float64 nearest to n/d (ties to even), with sign s: Flocq's division
   kernel on the integers themselves (exponents 0) *)
Definition fquot (s : bool) (n d : positive) : f64 :=
  SF2B _ (proj1 (Bdiv_correct_aux 53 1024 _ _ mode_NE s n 0 false d 0)).

Definition round2 (x : f64) : f64 :=
  match x with
  | B754_finite s m e _ =>
      match cents m e with
      | Zpos n => fquot s n 100
      | _ => B754_zero s
      end
  | _ => x
  end.

(* outcome of a Range call: a slice or an error; [FFuel]: the model's iteration
   budget is used up (nothing is claimed about such a call; the harness sends
   none). *)
Inductive fres : Type :=
| FOk (l : list f64)
| FErr (kind : Z)
| FFuel.

(* range.go after a549427 (fix: Range tests the term it appends against end and
   stops when the counter no longer moves):

   for i := start; i < end; i += step {
       n, _ := N[T](NumToString(i))
       if !(T(n) < end) { break }       // a float term rounded to two decimals has reached end
       result = append(result, T(n))
       if !(i+step > i) { break }       // the counter would wrap / step too small to change a float counter
   }

   [acc] is the result so far, newest term first.  A NaN counter (NaN step,
   Inf - Inf) fails [i < end] at the next test. *)
Fixpoint frange_up (fuel : nat) (i step e : f64) (acc : list f64) : fres :=
  if flt i e then
    let n := round2 i in
    if negb (flt n e) then FOk (rev_append acc [])
    else
      let acc' := n :: acc in
      let nx := fadd i step in
      if negb (fgt nx i) then FOk (rev_append acc' [])
      else match fuel with
           | O => FFuel
           | S f => frange_up f nx step e acc'
           end
  else FOk (rev_append acc []).

(* for i := start; end < i; i -= Abs(step) {
       n, _ := N[T](NumToString(i))
       if !(end < T(n)) { break }
       result = append(result, T(n))
       if !(i-Abs(step) < i) { break }
   } *)
Fixpoint frange_down (fuel : nat) (i astep e : f64) (acc : list f64) : fres :=
  if flt e i then
    let n := round2 i in
    if negb (flt e n) then FOk (rev_append acc [])
    else
      let acc' := n :: acc in
      let nx := fsub i astep in
      if negb (flt nx i) then FOk (rev_append acc' [])
      else match fuel with
           | O => FFuel
           | S f => frange_down f nx astep e acc'
           end
  else FOk (rev_append acc []).

(* THE CODE BEFORE a549427 (ascending loop): the raw counter was tested against
   end, the term appended was its two-decimal rounding, and the only break test
   was [i+step < i].  [None]: the counter is stationary (i+step == i) while
   i < end — that loop never returned.  Kept only for the witnesses in
   C13_PropsFloat (what the repair changed). *)
Fixpoint frange_up_asfound (fuel : nat) (i step e : f64) (acc : list f64) : option fres :=
  if flt i e then
    let acc' := round2 i :: acc in
    let nx := fadd i step in
    if flt nx i then Some (FOk (rev_append acc' []))
    else if feq nx i then None
    else match fuel with
         | O => Some FFuel
         | S f => frange_up_asfound f nx step e acc'
         end
  else Some (FOk (rev_append acc [])).

Definition fone : f64 := f_of_int 1.

(* error kinds as in C13_Model.range_go; every test is false on a NaN *)
Definition frange (cap : nat) (args : list f64) : fres :=
  let go (start step e : f64) : fres :=
      if fgt e fpz then frange_up cap start step e []
      else frange_down cap start (fabs_go step) e [] in
  match args with
  | [] => go fpz fpz fpz
  | [e] => go fpz fone e
  | [s; e] => go s fone e
  | [s; st; e] =>
      if fgt s e && fgt e fpz then FErr 2
      else if feq st fpz then FErr 3
      else if flt st fpz && fgt e s then FErr 4
      else go s st e
  | _ => FErr 1
  end.

Definition frange_right (cap : nat) (args : list f64) : fres :=
  match frange cap args with
  | FOk l => FOk (rev_append l [])
  | r => r
  end.
