(* C13_ModelNum.v — the decimal codec of range.go at the integer kinds: NumToString
   (strconv.FormatInt / FormatUint, base 10) and N (strconv.ParseInt / ParseUint,
   base 10, bitSize = the width of T).  Range sends every counter value through
   N(NumToString(i)); C13_PropsNum proves that this is the identity on every value of
   the type, which is what the integer Range model (C13_Model.range_g) takes for granted.

   A string is the list of its bytes (as Z); only ASCII matters here.  No proofs. *)

From Gogu Require Import Base.

Definition ch_minus : Z := 45.
Definition ch_plus : Z := 43.
Definition ch_zero : Z := 48.

(* digits of a non-negative number, most significant first; [fuel] bounds the number of
   digits (bits_fuel n always suffices: C13_ProofsNum.digits_parse) *)
Fixpoint digits (fuel : nat) (n : Z) : list Z :=
  match fuel with
  | O => [ch_zero + n]
  | S f => if n <? 10 then [ch_zero + n] else digits f (n / 10) ++ [ch_zero + n mod 10]
  end.

Definition bits_fuel (n : Z) : nat := Z.to_nat (Z.log2 n).

(* strconv.FormatInt(x, 10) / FormatUint(x, 10): "0", "123", "-123" *)
Definition num_to_string (x : Z) : list Z :=
  if x <? 0 then ch_minus :: digits (bits_fuel (- x)) (- x) else digits (bits_fuel x) x.

Definition is_digit (c : Z) : bool := (ch_zero <=? c) && (c <=? ch_zero + 9).

(* value of a run of decimal digits; None on an empty run or on any other byte
   (base 10 given explicitly: no underscores, no prefixes) *)
Fixpoint parse_digits_from (acc : Z) (s : list Z) : option Z :=
  match s with
  | [] => Some acc
  | c :: s' => if is_digit c then parse_digits_from (10 * acc + (c - ch_zero)) s' else None
  end.
Definition parse_digits (s : list Z) : option Z :=
  match s with [] => None | _ => parse_digits_from 0 s end.

(* strconv.ParseUint(s, 10, w): no sign; ErrRange beyond 2^w - 1.  Errors collapse to None
   (N returns the zero value and the error). *)
Definition parse_uint (w : Z) (s : list Z) : option Z :=
  match parse_digits s with
  | Some v => if v <? 2 ^ w then Some v else None
  | None => None
  end.

(* strconv.ParseInt(s, 10, w): one optional sign, then ParseUint; ErrRange outside
   [-2^(w-1), 2^(w-1) - 1]  ("-0" is 0, "+" and "-" alone are syntax errors) *)
Definition parse_int (w : Z) (s : list Z) : option Z :=
  let signed (neg : bool) (r : list Z) :=
      match parse_digits r with
      | Some v => if neg then (if v <=? 2 ^ (w - 1) then Some (- v) else None)
                  else (if v <? 2 ^ (w - 1) then Some v else None)
      | None => None
      end in
  match s with
  | c :: r => if c =? ch_minus then signed true r
              else if c =? ch_plus then signed false r
              else signed false s
  | [] => None
  end.

(* N[T] at a signed / unsigned integer kind of width w *)
Definition n_signed (w : Z) (s : list Z) : res Z :=
  match parse_int w s with Some v => Ok v | None => Err 1 end.
Definition n_unsigned (w : Z) (s : list Z) : res Z :=
  match parse_uint w s with Some v => Ok v | None => Err 1 end.
