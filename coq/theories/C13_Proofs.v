(* C13_Proofs.v — lemmas behind C13_Props.v *)

From Gogu Require Import Base C13_Model.
From Coq Require Import Sorted Permutation.

Local Open Scope Z_scope.

(* ---------- first index ---------- *)

Lemma index_from_spec p l k :
  (index_from p l k = -1 /\ forallb (fun x => negb (p x)) l = true) \/
  (exists i x, index_from p l k = k + Z.of_nat i /\ nth_error l i = Some x /\ p x = true /\
               forall j y, (j < i)%nat -> nth_error l j = Some y -> p y = false).
Proof.
  revert k; induction l as [|v l IH]; intros k; cbn [index_from forallb].
  - left; auto.
  - destruct (p v) eqn:Hv.
    + right. exists 0%nat, v. repeat split; auto; try lia.
    + destruct (IH (k + 1)) as [[H1 H2] | (i & x & H1 & H2 & H3 & H4)].
      * left. cbn. now rewrite H1, H2.
      * right. exists (S i), x. repeat split; auto; try lia.
        intros [|j] y Hj Hy; cbn in Hy.
        -- now injection Hy as <-.
        -- apply (H4 j y); [lia | exact Hy].
Qed.

Lemma index_from_ge p l k : 0 <= k -> index_from p l k = -1 \/ k <= index_from p l k.
Proof.
  intros Hk. destruct (index_from_spec p l k) as [[H _] | (i & x & H & _)]; [now left | right; lia].
Qed.

(* FindIndex returns the least matching index, -1 iff none *)
Lemma find_index_least p l :
  (find_index p l = -1 /\ forall x, In x l -> p x = false) \/
  (exists i x, find_index p l = Z.of_nat i /\ nth_error l i = Some x /\ p x = true /\
               forall j y, (j < i)%nat -> nth_error l j = Some y -> p y = false).
Proof.
  unfold find_index. destruct (index_from_spec p l 0) as [[H1 H2] | (i & x & H1 & H2 & H3 & H4)].
  - left. split; [exact H1|]. intros x Hx. rewrite forallb_forall in H2.
    specialize (H2 x Hx). now destruct (p x).
  - right. exists i, x. repeat split; auto; lia.
Qed.

(* ---------- last index ---------- *)

Lemma last_from_spec p rl i :
  (last_from p rl i = -1 /\ forall x, In x rl -> p x = false) \/
  (exists j x, last_from p rl i = i - Z.of_nat j /\ nth_error rl j = Some x /\ p x = true /\
               forall j' y, (j' < j)%nat -> nth_error rl j' = Some y -> p y = false).
Proof.
  revert i; induction rl as [|v rl IH]; intros i; cbn [last_from].
  - left; split; auto. intros x [].
  - destruct (p v) eqn:Hv.
    + right. exists 0%nat, v. repeat split; auto; try lia.
    + destruct (IH (i - 1)) as [[H1 H2] | (j & x & H1 & H2 & H3 & H4)].
      * left. split; [exact H1|]. intros x [<- | Hx]; auto.
      * right. exists (S j), x. repeat split; auto; try lia.
        intros [|j'] y Hj Hy; cbn in Hy.
        -- now injection Hy as <-.
        -- apply (H4 j' y); [lia | exact Hy].
Qed.

Lemma nth_error_rev {A} (l : list A) j :
  (j < length l)%nat -> nth_error (rev l) j = nth_error l (length l - 1 - j).
Proof.
  intros Hj.
  destruct (nth_error l (length l - 1 - j)) eqn:E.
  - pose proof (nth_error_nth l _ a E) as Hn.
    rewrite <- Hn at 1.
    assert (nth_error (rev l) j = Some (nth j (rev l) a)) as ->.
    { apply nth_error_nth'. now rewrite rev_length. }
    f_equal. rewrite rev_nth by lia. f_equal. lia.
  - apply nth_error_None in E. lia.
Qed.

(* FindLastIndex returns the greatest matching index, -1 iff none *)
Lemma find_last_index_greatest p l :
  (find_last_index p l = -1 /\ forall x, In x l -> p x = false) \/
  (exists i x, find_last_index p l = Z.of_nat i /\ nth_error l i = Some x /\ p x = true /\
               forall j y, (i < j)%nat -> nth_error l j = Some y -> p y = false).
Proof.
  unfold find_last_index.
  destruct (last_from_spec p (rev l) (Z.of_nat (length l) - 1))
    as [[H1 H2] | (j & x & H1 & H2 & H3 & H4)].
  - left; split; [exact H1|]. intros x Hx. apply H2. now apply -> in_rev.
  - right.
    assert (Hj : (j < length l)%nat).
    { rewrite <- (rev_length l). apply nth_error_Some. congruence. }
    exists (length l - 1 - j)%nat, x. repeat split; auto.
    + lia.
    + now rewrite <- nth_error_rev.
    + intros j' y Hj' Hy.
      assert (Hlt : (j' < length l)%nat) by (apply nth_error_Some; congruence).
      apply (H4 (length l - 1 - j')%nat y); [lia|].
      rewrite nth_error_rev by lia. rewrite <- Hy. f_equal. lia.
Qed.

(* ---------- FindAll ---------- *)

Lemma find_all_from_spec p l k i v :
  In (i, v) (find_all_from p l k) <->
  exists n, i = k + Z.of_nat n /\ nth_error l n = Some v /\ p v = true.
Proof.
  revert k; induction l as [|x l IH]; intros k; cbn [find_all_from].
  - split; [intros [] | intros (n & _ & H & _); destruct n; discriminate].
  - assert (Hrec : In (i, v) (find_all_from p l (k + 1)) <->
                   exists n, i = k + Z.of_nat (S n) /\ nth_error l n = Some v /\ p v = true).
    { rewrite IH. split; intros (n & H1 & H2); exists n; split; auto; lia. }
    destruct (p x) eqn:Hx.
    + cbn [In]. rewrite Hrec. split.
      * intros [H | (n & H1 & H2 & H3)].
        -- injection H as <- <-. exists 0%nat. repeat split; auto. lia.
        -- exists (S n). auto.
      * intros ([|n] & H1 & H2 & H3); cbn in H2.
        -- left. injection H2 as <-. f_equal. lia.
        -- right. exists n. auto.
    + rewrite Hrec. split.
      * intros (n & H1 & H2 & H3). exists (S n). auto.
      * intros ([|n] & H1 & H2 & H3); cbn in H2.
        -- injection H2 as <-. congruence.
        -- exists n. auto.
Qed.

Lemma find_all_exact p l i v :
  In (i, v) (find_all p l) <-> exists n, i = Z.of_nat n /\ nth_error l n = Some v /\ p v = true.
Proof.
  unfold find_all. rewrite find_all_from_spec. split; intros (n & H1 & H2); exists n; split; auto; lia.
Qed.

Lemma find_all_from_sorted p l k :
  StronglySorted (fun a b => fst a < fst b) (find_all_from p l k).
Proof.
  revert k; induction l as [|x l IH]; intros k; cbn [find_all_from]; [constructor|].
  destruct (p x); [|apply IH].
  constructor; [apply IH|].
  apply Forall_forall. intros [i v] Hin. apply find_all_from_spec in Hin as (n & -> & _). cbn. lia.
Qed.

(* ---------- Contains / Some / Every ---------- *)

Lemma contains_iff l x : contains l x = true <-> In x l.
Proof.
  unfold contains. rewrite existsb_exists. split.
  - intros (y & Hy & E). apply Z.eqb_eq in E. now subst.
  - intros H. exists x. split; [exact H | apply Z.eqb_refl].
Qed.

Lemma some_iff p l : some p l = true <-> exists x, In x l /\ p x = true.
Proof. apply existsb_exists. Qed.

Lemma every_iff p l : every p l = true <-> forall x, In x l -> p x = true.
Proof. apply forallb_forall. Qed.

(* ---------- running extremum ---------- *)

Section Extremum.
  (* [better x m = true]: x strictly precedes the running extremum m *)
  Variable key : Z -> Z.
  Variable lt : Z -> Z -> bool.           (* Z.ltb for min, Z.gtb for max *)
  Hypothesis lt_irrefl : forall a, lt a a = false.
  Hypothesis lt_trans : forall a b c, lt a b = true -> lt b c = true -> lt a c = true.
  Hypothesis lt_total : forall a b, lt a b = false -> lt b a = false -> a = b.

  Let stepf (m x : Z) : Z := if lt (key x) (key m) then x else m.

  (* the fold returns a member (of the seed or the list) that no element
     strictly precedes, and every EARLIER element with the same key loses to it:
     it is the FIRST extremal one *)
  Lemma fold_ext_inv l m :
    let r := fold_left stepf l m in
    (r = m \/ In r l) /\
    lt (key m) (key r) = false /\
    (forall x, In x l -> lt (key x) (key r) = false).
  Proof.
    revert m; induction l as [|x l IH]; intros m; cbn [fold_left].
    - repeat split; auto. intros x [].
    - destruct (IH (stepf m x)) as (H1 & H2 & H3). cbn zeta in *.
      set (r := fold_left stepf l (stepf m x)) in *.
      assert (Hm : lt (key m) (key r) = false /\ lt (key x) (key r) = false).
      { unfold stepf in H2 |- *. destruct (lt (key x) (key m)) eqn:E.
        - split; [|exact H2].
          destruct (lt (key m) (key r)) eqn:E2; [|reflexivity].
          now rewrite (lt_trans _ _ _ E E2) in H2.
        - split; [exact H2|].
          destruct (lt (key x) (key r)) eqn:E2; [|reflexivity].
          destruct (lt (key r) (key m)) eqn:E3.
          + now rewrite (lt_trans _ _ _ E2 E3) in E.
          + rewrite (lt_total _ _ H2 E3) in E. congruence. }
      destruct Hm as [Hm Hx].
      repeat split.
      + destruct H1 as [H1 | H1].
        * unfold stepf in H1. destruct (lt (key x) (key m)); [right; left; auto | left; auto].
        * right; right; exact H1.
      + exact Hm.
      + intros y [<- | Hy]; auto.
  Qed.

  (* first among equals: if the result is not the seed, every element before
     its first occurrence has a strictly worse key than it *)
  Lemma fold_ext_first l m :
    let r := fold_left stepf l m in
    (r = m /\ forall x, In x l -> lt (key x) (key m) = false) \/
    (exists l1 l2, l = l1 ++ r :: l2 /\ lt (key r) (key m) = true /\
                   forall x, In x l1 -> lt (key r) (key x) = true).
  Proof.
    revert m; induction l as [|x l IH]; intros m; cbn [fold_left].
    - left; split; auto. intros x [].
    - cbn zeta. destruct (IH (stepf m x)) as [[H1 H2] | (l1 & l2 & H1 & H2 & H3)]; cbn zeta in *.
      + unfold stepf in *. destruct (lt (key x) (key m)) eqn:E.
        * right. exists [], l. rewrite H1. repeat split; auto; try (intros y []).
        * left. split; [exact H1|]. intros y [<- | Hy]; auto.
      + set (r := fold_left stepf l (stepf m x)) in *.
        right. exists (x :: l1), l2. split; [cbn; now rewrite <- H1|].
        unfold stepf in H2. destruct (lt (key x) (key m)) eqn:E.
        * split; [exact (lt_trans _ _ _ H2 E)|]. intros y [<- | Hy]; auto.
        * split; [exact H2|]. intros y [<- | Hy]; auto.
          destruct (lt (key r) (key x)) eqn:E2; [reflexivity|].
          destruct (lt (key x) (key r)) eqn:E3.
          -- now rewrite (lt_trans _ _ _ E3 H2) in E.
          -- rewrite <- (lt_total _ _ E2 E3) in E. congruence.
  Qed.
End Extremum.

Lemma ltb_irrefl a : (a <? a) = false. Proof. apply Z.ltb_irrefl. Qed.
Lemma ltb_trans a b c : (a <? b) = true -> (b <? c) = true -> (a <? c) = true.
Proof. rewrite !Z.ltb_lt; lia. Qed.
Lemma ltb_total a b : (a <? b) = false -> (b <? a) = false -> a = b.
Proof. rewrite !Z.ltb_ge; lia. Qed.
Lemma gtb_irrefl a : (a >? a) = false. Proof. rewrite Z.gtb_ltb. apply Z.ltb_irrefl. Qed.
Lemma gtb_trans a b c : (a >? b) = true -> (b >? c) = true -> (a >? c) = true.
Proof. rewrite !Z.gtb_ltb, !Z.ltb_lt; lia. Qed.
Lemma gtb_total a b : (a >? b) = false -> (b >? a) = false -> a = b.
Proof. rewrite !Z.gtb_ltb, !Z.ltb_ge; lia. Qed.

Lemma find_min_by_spec f l :
  match l with
  | [] => find_min_by f l = 0
  | _ => In (find_min_by f l) l /\ (forall x, In x l -> f (find_min_by f l) <= f x)
  end.
Proof.
  destruct l as [|a l]; [reflexivity|].
  unfold find_min_by. cbn [hd].
  pose proof (fold_ext_inv f Z.ltb ltb_irrefl ltb_trans ltb_total (a :: l) a) as (H1 & H2 & H3).
  cbn zeta in *. split.
  - destruct H1 as [-> | H1]; [now left | exact H1].
  - intros x Hx. specialize (H3 x Hx). apply Z.ltb_ge in H3. exact H3.
Qed.

Lemma find_max_by_spec f l :
  match l with
  | [] => find_max_by f l = 0
  | _ => In (find_max_by f l) l /\ (forall x, In x l -> f x <= f (find_max_by f l))
  end.
Proof.
  destruct l as [|a l]; [reflexivity|].
  unfold find_max_by. cbn [hd].
  pose proof (fold_ext_inv f Z.gtb gtb_irrefl gtb_trans gtb_total (a :: l) a) as (H1 & H2 & H3).
  cbn zeta in *. split.
  - destruct H1 as [-> | H1]; [now left | exact H1].
  - intros x Hx. specialize (H3 x Hx). rewrite Z.gtb_ltb in H3. apply Z.ltb_ge in H3. exact H3.
Qed.

(* "the first such one under a key function" *)
Lemma find_min_by_first f l l1 l2 :
  l = l1 ++ find_min_by f l :: l2 -> ~ In (find_min_by f l) l1 ->
  forall x, In x l1 -> f (find_min_by f l) < f x.
Proof.
  destruct l as [|a l]; [intros H; destruct l1; discriminate|].
  unfold find_min_by; cbn [hd].
  set (r := fold_left _ (a :: l) a).
  intros Hsplit Hnotin x Hx.
  pose proof (fold_ext_first f Z.ltb ltb_irrefl ltb_trans ltb_total (a :: l) a) as H.
  cbn zeta in H. fold r in H. clearbody r.
  destruct H as [[Hr _] | (k1 & k2 & Hk & _ & Hall)].
  - (* r = a, the head: l1 must be empty *)
    destruct l1 as [|b l1]; [destruct Hx|].
    cbn in Hsplit. injection Hsplit as Hb _. exfalso. apply Hnotin. left. congruence.
  - (* both decompositions put r first-occurrence?  k1 has all keys strictly worse *)
    assert (Hk1 : ~ In r k1).
    { intros Hin. specialize (Hall r Hin). rewrite Z.ltb_irrefl in Hall. discriminate. }
    assert (l1 = k1) as ->.
    { clear -Hsplit Hk Hnotin Hk1. rewrite Hk in Hsplit. clear Hk.
      revert k1 Hsplit Hk1 Hnotin. induction l1 as [|b l1 IH]; intros [|c k1] Hs Hk1 Hn; auto.
      - cbn in Hs. injection Hs as Hc _. exfalso. apply Hk1. left. congruence.
      - cbn in Hs. injection Hs as Hb _. exfalso. apply Hn. left. congruence.
      - cbn in Hs. injection Hs as -> Hs. f_equal. apply IH; auto.
        + intros Hin; apply Hk1; now right.
        + intros Hin; apply Hn; now right. }
    specialize (Hall x Hx). now apply Z.ltb_lt in Hall.
Qed.

Lemma find_min_spec l :
  match l with
  | [] => find_min l = 0
  | _ => In (find_min l) l /\ (forall x, In x l -> find_min l <= x)
  end.
Proof. exact (find_min_by_spec (fun x => x) l). Qed.

Lemma find_max_spec l :
  match l with
  | [] => find_max l = 0
  | _ => In (find_max l) l /\ (forall x, In x l -> x <= find_max l)
  end.
Proof. exact (find_max_by_spec (fun x => x) l). Qed.

(* ---------- ByKey ---------- *)

Lemma find_min_by_key_spec ms key :
  match ms with
  | [] => find_min_by_key ms key = Ok 0
  | m0 :: _ =>
      match alookup m0 key with
      | None => exists k, find_min_by_key ms key = Err k
      | Some _ =>
          exists r, find_min_by_key ms key = Ok r /\
                    (exists m, In m ms /\ alookup m key = Some r) /\
                    (forall m v, In m ms -> alookup m key = Some v -> r <= v)
      end
  end.
Proof.
  destruct ms as [|m0 ms]; [reflexivity|].
  unfold find_min_by_key, find_ext_by_key.
  destruct (alookup m0 key) as [v0|] eqn:E0; [|now exists 1].
  eexists; split; [reflexivity|].
  set (stepf := fun acc m => match alookup m key with Some v => if v <? acc then v else acc | None => acc end).
  assert (G : forall l acc,
             ((fold_left stepf l acc = acc) \/ exists m, In m l /\ alookup m key = Some (fold_left stepf l acc)) /\
             fold_left stepf l acc <= acc /\
             forall m v, In m l -> alookup m key = Some v -> fold_left stepf l acc <= v).
  { induction l as [|m l IH]; intros acc; cbn [fold_left].
    - repeat split; auto; try lia. intros m v [].
    - destruct (IH (stepf acc m)) as (H1 & H2 & H3).
      assert (Hs : stepf acc m <= acc /\ forall v, alookup m key = Some v -> stepf acc m <= v).
      { unfold stepf. destruct (alookup m key) as [v|]; [|split; [lia|discriminate]].
        destruct (Z.ltb_spec v acc); split; try lia; intros v' [= <-]; lia. }
      destruct Hs as [Hs1 Hs2]. repeat split.
      + destruct H1 as [H1 | (m' & Hm' & Hl)].
        * rewrite H1. unfold stepf.
          destruct (alookup m key) as [v|] eqn:Ev; [|now left].
          destruct (v <? acc); [right; exists m; split; [now left|exact Ev] | now left].
        * right. exists m'. split; [now right | exact Hl].
      + lia.
      + intros m' v [<- | Hin] Hv; [specialize (Hs2 v Hv); lia | eauto]. }
  destruct (G (m0 :: ms) v0) as (H1 & H2 & H3). split.
  - destruct H1 as [-> | H1]; [exists m0; split; [now left | exact E0] | exact H1].
  - exact H3.
Qed.

Lemma find_max_by_key_spec ms key :
  match ms with
  | [] => find_max_by_key ms key = Ok 0
  | m0 :: _ =>
      match alookup m0 key with
      | None => exists k, find_max_by_key ms key = Err k
      | Some _ =>
          exists r, find_max_by_key ms key = Ok r /\
                    (exists m, In m ms /\ alookup m key = Some r) /\
                    (forall m v, In m ms -> alookup m key = Some v -> v <= r)
      end
  end.
Proof.
  destruct ms as [|m0 ms]; [reflexivity|].
  unfold find_max_by_key, find_ext_by_key.
  destruct (alookup m0 key) as [v0|] eqn:E0; [|now exists 1].
  eexists; split; [reflexivity|].
  set (stepf := fun acc m => match alookup m key with Some v => if v >? acc then v else acc | None => acc end).
  assert (G : forall l acc,
             ((fold_left stepf l acc = acc) \/ exists m, In m l /\ alookup m key = Some (fold_left stepf l acc)) /\
             acc <= fold_left stepf l acc /\
             forall m v, In m l -> alookup m key = Some v -> v <= fold_left stepf l acc).
  { induction l as [|m l IH]; intros acc; cbn [fold_left].
    - repeat split; auto; try lia. intros m v [].
    - destruct (IH (stepf acc m)) as (H1 & H2 & H3).
      assert (Hs : acc <= stepf acc m /\ forall v, alookup m key = Some v -> v <= stepf acc m).
      { unfold stepf. destruct (alookup m key) as [v|]; [|split; [lia|discriminate]].
        rewrite Z.gtb_ltb. destruct (Z.ltb_spec acc v); split; try lia; intros v' [= <-]; lia. }
      destruct Hs as [Hs1 Hs2]. repeat split.
      + destruct H1 as [H1 | (m' & Hm' & Hl)].
        * rewrite H1. unfold stepf.
          destruct (alookup m key) as [v|] eqn:Ev; [|now left].
          destruct (v >? acc); [right; exists m; split; [now left|exact Ev] | now left].
        * right. exists m'. split; [now right | exact Hl].
      + lia.
      + intros m' v [<- | Hin] Hv; [specialize (Hs2 v Hv); lia | eauto]. }
  destruct (G (m0 :: ms) v0) as (H1 & H2 & H3). split.
  - destruct H1 as [-> | H1]; [exists m0; split; [now left | exact E0] | exact H1].
  - exact H3.
Qed.

(* ---------- Nth ---------- *)

Lemma nth_go_spec l n :
  let len := Z.of_nat (length l) in
  (0 <= n < len -> nth_go l n = Ok (nth (Z.to_nat n) l 0)) /\
  (- len <= n < 0 -> nth_go l n = Ok (nth (Z.to_nat (len + n)) l 0)) /\
  (n >= len \/ n < - len -> exists k, nth_go l n = Err k).
Proof.
  cbn zeta. unfold nth_go, enclose. set (len := Z.of_nat (length l)).
  assert (Hlen : 0 <= len) by (unfold len; lia).
  repeat split.
  - intros H.
    replace ((n >=? 0) && (n >? len - 1)) with false by lia.
    replace ((n <? 0) && (len - Z.abs n <? 0)) with false by lia.
    cbn [orb].
    replace ((Z.abs n >=? 0) && (Z.abs n <=? len) && (n >=? 0)) with true by lia.
    replace (n <? 0) with false by lia.
    rewrite (nth_error_nth' l 0) by (unfold len in H; lia). reflexivity.
  - intros H.
    replace ((n >=? 0) && (n >? len - 1)) with false by lia.
    replace ((n <? 0) && (len - Z.abs n <? 0)) with false by lia.
    cbn [orb].
    replace ((Z.abs n >=? 0) && (Z.abs n <=? len) && (n >=? 0)) with false by lia.
    replace (len - Z.abs n <? 0) with false by lia.
    replace (len - Z.abs n) with (len + n) by lia.
    rewrite (nth_error_nth' l 0) by (unfold len in H; lia). reflexivity.
  - intros H.
    replace (((n >=? 0) && (n >? len - 1)) || ((n <? 0) && (len - Z.abs n <? 0))) with true by lia.
    now exists 1.
Qed.

Lemma nth_go_never_panics l n : nth_go l n <> Panic.
Proof.
  pose proof (nth_go_spec l n) as (H1 & H2 & H3). cbn zeta in *.
  set (len := Z.of_nat (length l)) in *.
  destruct (Z_lt_le_dec n (- len)) as [Ha | Ha].
  - destruct H3 as (k & ->); [lia | discriminate].
  - destruct (Z_lt_le_dec n 0) as [Hb | Hb].
    + rewrite H2 by lia. discriminate.
    + destruct (Z_lt_le_dec n len) as [Hc | Hc].
      * rewrite H1 by lia. discriminate.
      * destruct H3 as (k & ->); [lia | discriminate].
Qed.

(* ---------- Sum / SumBy / Mean ---------- *)

Lemma fold_add_acc l a : fold_left Z.add l a = a + fold_left Z.add l 0.
Proof.
  revert a; induction l as [|x l IH]; intros a; cbn [fold_left]; [lia|].
  rewrite (IH (a + x)), (IH (0 + x)). lia.
Qed.

Lemma sum_cons x l : sum (x :: l) = x + sum l.
Proof. unfold sum. cbn [fold_left]. rewrite fold_add_acc. lia. Qed.

Lemma sum_is_list_sum l : sum l = fold_right Z.add 0 l.
Proof. induction l as [|x l IH]; [reflexivity|]. rewrite sum_cons, IH. reflexivity. Qed.

Lemma sum_by_is_sum_map f l : sum_by f l = sum (map f l).
Proof.
  unfold sum_by, sum. generalize 0. induction l as [|x l IH]; intros a; cbn [fold_left map]; auto.
Qed.

Lemma wrap_mod w z : 0 < w -> (wrap w z) mod 2 ^ w = z mod 2 ^ w.
Proof.
  intros Hw. unfold wrap.
  assert (Hp : 0 < 2 ^ w) by (apply Z.pow_pos_nonneg; lia).
  rewrite Zminus_mod, Zmod_mod, <- Zminus_mod. f_equal. lia.
Qed.

Lemma wrap_range w z : 0 < w -> - 2 ^ (w - 1) <= wrap w z < 2 ^ (w - 1).
Proof.
  intros Hw. unfold wrap.
  assert (Hp : 0 < 2 ^ (w - 1)) by (apply Z.pow_pos_nonneg; lia).
  assert (E : 2 ^ w = 2 * 2 ^ (w - 1)).
  { replace w with (1 + (w - 1)) at 1 by lia. rewrite Z.pow_add_r by lia. reflexivity. }
  pose proof (Z.mod_pos_bound (z + 2 ^ (w - 1)) (2 ^ w)). lia.
Qed.

(* the wrapped loop computes the mathematical sum modulo 2^w, in range *)
Lemma sum_w_spec w l : 0 < w ->
  (sum_w w l) mod 2 ^ w = (sum l) mod 2 ^ w /\ - 2 ^ (w - 1) <= sum_w w l < 2 ^ (w - 1).
Proof.
  intros Hw. unfold sum_w, sum.
  assert (Hp : 0 < 2 ^ (w - 1)) by (apply Z.pow_pos_nonneg; lia).
  assert (G : forall l a b, a mod 2 ^ w = b mod 2 ^ w -> - 2 ^ (w - 1) <= a < 2 ^ (w - 1) ->
              (fold_left (fun acc v => wrap w (acc + v)) l a) mod 2 ^ w = (fold_left Z.add l b) mod 2 ^ w /\
              - 2 ^ (w - 1) <= fold_left (fun acc v => wrap w (acc + v)) l a < 2 ^ (w - 1)).
  { clear l. induction l as [|x l IH]; intros a b Hab Ha; cbn [fold_left]; [auto|].
    apply IH; [|apply wrap_range; lia].
    rewrite wrap_mod by lia. rewrite Zplus_mod, Hab, <- Zplus_mod. reflexivity. }
  apply G; [reflexivity | lia].
Qed.

Lemma mean_spec l : l <> [] -> mean l = Ok (Z.quot (sum l) (Z.of_nat (length l))).
Proof. destruct l; [congruence | reflexivity]. Qed.

(* ---------- Abs / Clamp / InRange ---------- *)

Lemma abs_go_spec x : abs_go x = Z.abs x.
Proof. unfold abs_go. destruct (Z.ltb_spec x 0); lia. Qed.

Lemma abs_w_spec w x : 0 < w -> - 2 ^ (w - 1) <= x < 2 ^ (w - 1) ->
  (x <> - 2 ^ (w - 1) -> abs_w w x = Z.abs x) /\ (x = - 2 ^ (w - 1) -> abs_w w x = x).
Proof.
  intros Hw Hx. unfold abs_w, wrap.
  assert (Hp : 0 < 2 ^ (w - 1)) by (apply Z.pow_pos_nonneg; lia).
  assert (E : 2 ^ w = 2 * 2 ^ (w - 1)).
  { replace w with (1 + (w - 1)) at 1 by lia. rewrite Z.pow_add_r by lia. reflexivity. }
  split; intros H; destruct (Z.ltb_spec x 0); try lia.
  - rewrite Z.mod_small by lia. lia.
  - subst x. replace (- - 2 ^ (w - 1) + 2 ^ (w - 1)) with (2 ^ w) by lia.
    rewrite Z_mod_same_full. lia.
Qed.

Lemma clamp_spec num lo hi : lo <= hi ->
  lo <= clamp num lo hi <= hi /\
  (lo <= num <= hi -> clamp num lo hi = num) /\
  (num < lo -> clamp num lo hi = lo) /\ (num > hi -> clamp num lo hi = hi).
Proof.
  intros H. unfold clamp.
  destruct (Z.leb_spec num lo); destruct (Z.geb_spec num hi); repeat split; lia.
Qed.

Lemma in_range_spec num lo hi : in_range num lo hi = true <-> lo <= num <= hi.
Proof. unfold in_range. lia. Qed.

(* ---------- Compare / Less / Equal ---------- *)

Lemma compare_go_spec comp a b :
  (compare_go comp a b = 1 <-> comp a b = true) /\
  (compare_go comp a b = -1 <-> comp a b = false /\ comp b a = true) /\
  (compare_go comp a b = 0 <-> comp a b = false /\ comp b a = false).
Proof.
  unfold compare_go. destruct (comp a b), (comp b a); repeat split; intros; try lia; try tauto; auto;
    try (destruct H; discriminate).
Qed.

Lemma less_go_spec a b : less_go a b = true <-> a < b. Proof. apply Z.ltb_lt. Qed.
Lemma equal_go_spec a b : equal_go a b = true <-> a = b. Proof. apply Z.eqb_eq. Qed.

(* ---------- Range ---------- *)

(* the progression start, start+step, … (n terms) *)
Fixpoint prog (n : nat) (start step : Z) : list Z :=
  match n with O => [] | S n' => start :: prog n' (start + step) step end.

Lemma prog_nth n start step k : (k < n)%nat -> nth k (prog n start step) 0 = start + Z.of_nat k * step.
Proof.
  revert start k; induction n as [|n IH]; intros start k Hk; [lia|].
  destruct k as [|k]; cbn [prog nth]; [lia|]. rewrite IH by lia. lia.
Qed.
Lemma prog_length n start step : length (prog n start step) = n.
Proof. revert start; induction n as [|n IH]; intros; cbn; auto. Qed.

(* ascending loop: with step >= 1 and enough fuel it yields the maximal
   progression strictly below e *)
Lemma range_up_spec fuel i step e :
  1 <= step -> (Z.to_nat (e - i) <= fuel)%nat ->
  exists n, range_up fuel i step e = prog n i step /\
            (forall x, In x (prog n i step) -> x < e) /\
            i + Z.of_nat n * step >= e /\
            (n <= Z.to_nat (e - i))%nat.
Proof.
  intros Hs. revert i; induction fuel as [|f IH]; intros i Hf.
  - exists 0%nat. cbn. repeat split; try lia; try (intros ? []).
  - cbn [range_up]. destruct (Z.ltb_spec i e) as [Hlt | Hge].
    + destruct (IH (i + step)) as (n & H1 & H2 & H3 & H4); [lia|].
      exists (S n). cbn [prog]. rewrite H1. repeat split.
      * intros x [<- | Hx]; auto.
      * lia.
      * lia.
    + exists 0%nat. cbn. repeat split; try lia; try (intros ? []).
Qed.

Lemma range_down_spec fuel i astep e :
  1 <= astep -> (Z.to_nat (i - e) <= fuel)%nat ->
  exists n, range_down fuel i astep e = prog n i (- astep) /\
            (forall x, In x (prog n i (- astep)) -> e < x) /\
            i - Z.of_nat n * astep <= e /\
            (n <= Z.to_nat (i - e))%nat.
Proof.
  intros Hs. revert i; induction fuel as [|f IH]; intros i Hf.
  - exists 0%nat. cbn. repeat split; try lia; try (intros ? []).
  - cbn [range_down]. destruct (Z.ltb_spec e i) as [Hlt | Hge].
    + destruct (IH (i - astep)) as (n & H1 & H2 & H3 & H4); [lia|].
      exists (S n). cbn [prog]. replace (i + - astep) with (i - astep) by lia. rewrite H1. repeat split.
      * intros x [<- | Hx]; auto.
      * lia.
      * lia.
    + exists 0%nat. cbn. repeat split; try lia; try (intros ? []).
Qed.

(* normalised arguments *)
Definition range_args (args : list Z) : option (Z * Z * Z) :=
  match args with
  | [] => Some (0, 0, 0)
  | [e] => Some (0, 1, e)
  | [s; e] => Some (s, 1, e)
  | [s; st; e] => Some (s, st, e)
  | _ => None
  end.

Definition range_invalid (args : list Z) : Prop :=
  (length args > 3)%nat \/
  exists s st e, args = [s; st; e] /\ ((s > e /\ e > 0) \/ st = 0 \/ (st < 0 /\ e > s)).

Lemma range_errors args : (exists k, range_go args = Err k) <-> range_invalid args.
Proof.
  unfold range_invalid, range_go. split.
  - intros (k & H).
    destruct args as [|a [|b [|c [|d args]]]].
    + destruct (0 >? 0); discriminate.
    + destruct (a >? 0); discriminate.
    + destruct (b >? 0); discriminate.
    + right. exists a, b, c. split; [reflexivity|].
      destruct ((a >? c) && (c >? 0)) eqn:E1; [left; lia|].
      destruct (b =? 0) eqn:E2; [right; left; lia|].
      destruct ((b <? 0) && (c >? a)) eqn:E3; [right; right; lia|].
      destruct (c >? 0); discriminate.
    + left. cbn. lia.
  - intros [Hlen | (s & st & e & -> & H)].
    + destruct args as [|a [|b [|c [|d args]]]]; cbn in Hlen; try lia. now exists 1.
    + destruct ((s >? e) && (e >? 0)) eqn:E1; [now exists 2|].
      destruct (st =? 0) eqn:E2; [now exists 3|].
      destruct ((st <? 0) && (e >? s)) eqn:E3; [now exists 4|].
      exfalso. lia.
Qed.

(* On valid arguments: the result is the maximal progression from start by
   |step| toward end, stopping before it: ascending iff end > 0. *)
Lemma range_spec args s st e :
  range_args args = Some (s, st, e) -> ~ range_invalid args ->
  exists n, range_go args = Ok (prog n s (if e >? 0 then Z.abs st else - Z.abs st)) /\
    (if e >? 0
     then (forall x, In x (prog n s (Z.abs st)) -> x < e) /\ (s < e -> s + Z.of_nat n * Z.abs st >= e)
     else (forall x, In x (prog n s (- Z.abs st)) -> e < x) /\ (e < s -> s - Z.of_nat n * Z.abs st <= e)) /\
    (n = 0%nat <-> (if e >? 0 then s >= e else s <= e)).
Proof.
  intros Hargs Hvalid.
  assert (Hgo : forall s st e, (e >? 0 = true -> s < e -> 1 <= st) -> (e >? 0 = false -> e < s -> 1 <= Z.abs st) ->
     exists n, (if e >? 0 then Ok (range_up (Z.to_nat (e - s)) s st e)
                else Ok (range_down (Z.to_nat (s - e)) s (Z.abs st) e))
               = Ok (prog n s (if e >? 0 then Z.abs st else - Z.abs st)) /\
    (if e >? 0
     then (forall x, In x (prog n s (Z.abs st)) -> x < e) /\ (s < e -> s + Z.of_nat n * Z.abs st >= e)
     else (forall x, In x (prog n s (- Z.abs st)) -> e < x) /\ (e < s -> s - Z.of_nat n * Z.abs st <= e)) /\
    (n = 0%nat <-> (if e >? 0 then s >= e else s <= e))).
  { clear. intros s st e Hup Hdown. destruct (e >? 0) eqn:Epos.
    - destruct (Z_lt_le_dec s e) as [Hlt | Hge].
      + specialize (Hup eq_refl Hlt).
        destruct (range_up_spec (Z.to_nat (e - s)) s st e Hup (le_n _)) as (n & H1 & H2 & H3 & H4).
        exists n. rewrite H1. replace (Z.abs st) with st by lia. repeat split; auto; try lia; try (intros ->; cbn in H3; lia).
      + exists 0%nat. replace (Z.to_nat (e - s)) with 0%nat by lia. cbn. repeat split; try lia; try (intros ? []).
    - destruct (Z_lt_le_dec e s) as [Hlt | Hge].
      + specialize (Hdown eq_refl Hlt).
        destruct (range_down_spec (Z.to_nat (s - e)) s (Z.abs st) e Hdown (le_n _)) as (n & H1 & H2 & H3 & H4).
        exists n. rewrite H1. repeat split; auto; try lia; try (intros ->; cbn in H3; lia).
      + exists 0%nat. replace (Z.to_nat (s - e)) with 0%nat by lia. cbn. repeat split; try lia; try (intros ? []). }
  unfold range_args in Hargs. unfold range_go.
  destruct args as [|a [|b [|c [|d args]]]]; try discriminate; injection Hargs as <- <- <-.
  - apply Hgo; intros; lia.
  - apply Hgo; intros; lia.
  - apply Hgo; intros; lia.
  - assert (Hv : ~ ((a > c /\ c > 0) \/ b = 0 \/ (b < 0 /\ c > a))).
    { intros H. apply Hvalid. right. exists a, b, c. auto. }
    replace ((a >? c) && (c >? 0)) with false by lia.
    replace (b =? 0) with false by lia.
    replace ((b <? 0) && (c >? a)) with false by lia.
    apply Hgo; intros; lia.
Qed.

Lemma range_right_spec args :
  match range_go args with
  | Ok l => range_right args = Ok (rev l)
  | Err k => range_right args = Err k
  | Panic => range_right args = Panic
  end.
Proof. unfold range_right. destruct (range_go args); reflexivity. Qed.

Lemma range_never_panics args : range_go args <> Panic.
Proof.
  unfold range_go.
  destruct args as [|a [|b [|c [|d args]]]]; try discriminate;
    repeat match goal with |- context [if ?b then _ else _] => destruct b end; discriminate.
Qed.
