(* C13_Proofs.v — lemmas behind C13_Props.v *)

From Gogu Require Import Base C13_Model.
From Coq Require Import Sorted Permutation.

Local Open Scope Z_scope.

(* ---------- first index ---------- *)

Lemma index_from_spec p l k :
  (index_from p l k = -1 /\ forallb (fun x => negb (p x)) l = true) \/
  (exists i x, index_from p l k = k + Z.of_nat i /\ nth_error l i = Some x /\ p x = true /\
               forall j y, (j < i)%nat -> nth_error l j = Some y -> p y = false).
Proof.
  revert k; induction l as [|v l IH]; intros k; cbn [index_from forallb].
  - left; auto.
  - destruct (p v) eqn:Hv.
    + right. exists 0%nat, v. repeat split; auto; try lia.
    + destruct (IH (k + 1)) as [[H1 H2] | (i & x & H1 & H2 & H3 & H4)].
      * left. cbn. now rewrite H1, H2.
      * right. exists (S i), x. repeat split; auto; try lia.
        intros [|j] y Hj Hy; cbn in Hy.
        -- now injection Hy as <-.
        -- apply (H4 j y); [lia | exact Hy].
Qed.

Lemma index_from_ge p l k : 0 <= k -> index_from p l k = -1 \/ k <= index_from p l k.
Proof.
  intros Hk. destruct (index_from_spec p l k) as [[H _] | (i & x & H & _)]; [now left | right; lia].
Qed.

(* FindIndex returns the least matching index, -1 iff none *)
Lemma find_index_least p l :
  (find_index p l = -1 /\ forall x, In x l -> p x = false) \/
  (exists i x, find_index p l = Z.of_nat i /\ nth_error l i = Some x /\ p x = true /\
               forall j y, (j < i)%nat -> nth_error l j = Some y -> p y = false).
Proof.
  unfold find_index. destruct (index_from_spec p l 0) as [[H1 H2] | (i & x & H1 & H2 & H3 & H4)].
  - left. split; [exact H1|]. intros x Hx. rewrite forallb_forall in H2.
    specialize (H2 x Hx). now destruct (p x).
  - right. exists i, x. repeat split; auto; lia.
Qed.

(* ---------- last index ---------- *)

Lemma last_from_spec p rl i :
  (last_from p rl i = -1 /\ forall x, In x rl -> p x = false) \/
  (exists j x, last_from p rl i = i - Z.of_nat j /\ nth_error rl j = Some x /\ p x = true /\
               forall j' y, (j' < j)%nat -> nth_error rl j' = Some y -> p y = false).
Proof.
  revert i; induction rl as [|v rl IH]; intros i; cbn [last_from].
  - left; split; auto. intros x [].
  - destruct (p v) eqn:Hv.
    + right. exists 0%nat, v. repeat split; auto; try lia.
    + destruct (IH (i - 1)) as [[H1 H2] | (j & x & H1 & H2 & H3 & H4)].
      * left. split; [exact H1|]. intros x [<- | Hx]; auto.
      * right. exists (S j), x. repeat split; auto; try lia.
        intros [|j'] y Hj Hy; cbn in Hy.
        -- now injection Hy as <-.
        -- apply (H4 j' y); [lia | exact Hy].
Qed.

Lemma nth_error_rev {A} (l : list A) j :
  (j < length l)%nat -> nth_error (rev l) j = nth_error l (length l - 1 - j).
Proof.
  intros Hj.
  destruct (nth_error l (length l - 1 - j)) eqn:E.
  - pose proof (nth_error_nth l _ a E) as Hn.
    rewrite <- Hn at 1.
    assert (nth_error (rev l) j = Some (nth j (rev l) a)) as ->.
    { apply nth_error_nth'. now rewrite rev_length. }
    f_equal. rewrite rev_nth by lia. f_equal. lia.
  - apply nth_error_None in E. lia.
Qed.

(* FindLastIndex returns the greatest matching index, -1 iff none *)
Lemma find_last_index_greatest p l :
  (find_last_index p l = -1 /\ forall x, In x l -> p x = false) \/
  (exists i x, find_last_index p l = Z.of_nat i /\ nth_error l i = Some x /\ p x = true /\
               forall j y, (i < j)%nat -> nth_error l j = Some y -> p y = false).
Proof.
  unfold find_last_index. rewrite <- rev_alt.
  destruct (last_from_spec p (rev l) (Z.of_nat (length l) - 1))
    as [[H1 H2] | (j & x & H1 & H2 & H3 & H4)].
  - left; split; [exact H1|]. intros x Hx. apply H2. now apply -> in_rev.
  - right.
    assert (Hj : (j < length l)%nat).
    { rewrite <- (rev_length l). apply nth_error_Some. congruence. }
    exists (length l - 1 - j)%nat, x. repeat split; auto.
    + lia.
    + now rewrite <- nth_error_rev.
    + intros j' y Hj' Hy.
      assert (Hlt : (j' < length l)%nat) by (apply nth_error_Some; congruence).
      apply (H4 (length l - 1 - j')%nat y); [lia|].
      rewrite nth_error_rev by lia. rewrite <- Hy. f_equal. lia.
Qed.

(* ---------- FindAll ---------- *)

Lemma find_all_from_spec p l k i v :
  In (i, v) (find_all_from p l k) <->
  exists n, i = k + Z.of_nat n /\ nth_error l n = Some v /\ p v = true.
Proof.
  revert k; induction l as [|x l IH]; intros k; cbn [find_all_from].
  - split; [intros [] | intros (n & _ & H & _); destruct n; discriminate].
  - assert (Hrec : In (i, v) (find_all_from p l (k + 1)) <->
                   exists n, i = k + Z.of_nat (S n) /\ nth_error l n = Some v /\ p v = true).
    { rewrite IH. split; intros (n & H1 & H2); exists n; split; auto; lia. }
    destruct (p x) eqn:Hx.
    + cbn [In]. rewrite Hrec. split.
      * intros [H | (n & H1 & H2 & H3)].
        -- injection H as <- <-. exists 0%nat. repeat split; auto. lia.
        -- exists (S n). auto.
      * intros ([|n] & H1 & H2 & H3); cbn in H2.
        -- left. injection H2 as <-. f_equal. lia.
        -- right. exists n. auto.
    + rewrite Hrec. split.
      * intros (n & H1 & H2 & H3). exists (S n). auto.
      * intros ([|n] & H1 & H2 & H3); cbn in H2.
        -- injection H2 as <-. congruence.
        -- exists n. auto.
Qed.

Lemma find_all_exact p l i v :
  In (i, v) (find_all p l) <-> exists n, i = Z.of_nat n /\ nth_error l n = Some v /\ p v = true.
Proof.
  unfold find_all. rewrite find_all_from_spec. split; intros (n & H1 & H2); exists n; split; auto; lia.
Qed.

Lemma find_all_from_sorted p l k :
  StronglySorted (fun a b => fst a < fst b) (find_all_from p l k).
Proof.
  revert k; induction l as [|x l IH]; intros k; cbn [find_all_from]; [constructor|].
  destruct (p x); [|apply IH].
  constructor; [apply IH|].
  apply Forall_forall. intros [i v] Hin. apply find_all_from_spec in Hin as (n & -> & _). cbn. lia.
Qed.

(* ---------- Contains / Some / Every ---------- *)

Lemma contains_iff l x : contains l x = true <-> In x l.
Proof.
  unfold contains. rewrite existsb_exists. split.
  - intros (y & Hy & E). apply Z.eqb_eq in E. now subst.
  - intros H. exists x. split; [exact H | apply Z.eqb_refl].
Qed.

Lemma some_iff p l : some p l = true <-> exists x, In x l /\ p x = true.
Proof. apply existsb_exists. Qed.

Lemma every_iff p l : every p l = true <-> forall x, In x l -> p x = true.
Proof. apply forallb_forall. Qed.

(* ---------- running extremum ---------- *)

Section Extremum.
  (* [better x m = true]: x strictly precedes the running extremum m *)
  Variable key : Z -> Z.
  Variable lt : Z -> Z -> bool.           (* Z.ltb for min, Z.gtb for max *)
  Hypothesis lt_irrefl : forall a, lt a a = false.
  Hypothesis lt_trans : forall a b c, lt a b = true -> lt b c = true -> lt a c = true.
  Hypothesis lt_total : forall a b, lt a b = false -> lt b a = false -> a = b.

  Let stepf (m x : Z) : Z := if lt (key x) (key m) then x else m.

  (* the fold returns a member (of the seed or the list) that no element
     strictly precedes, and every EARLIER element with the same key loses to it:
     it is the FIRST extremal one *)
  Lemma fold_ext_inv l m :
    let r := fold_left stepf l m in
    (r = m \/ In r l) /\
    lt (key m) (key r) = false /\
    (forall x, In x l -> lt (key x) (key r) = false).
  Proof.
    revert m; induction l as [|x l IH]; intros m; cbn [fold_left].
    - repeat split; auto. intros x [].
    - destruct (IH (stepf m x)) as (H1 & H2 & H3). cbn zeta in *.
      set (r := fold_left stepf l (stepf m x)) in *.
      assert (Hm : lt (key m) (key r) = false /\ lt (key x) (key r) = false).
      { unfold stepf in H2 |- *. destruct (lt (key x) (key m)) eqn:E.
        - split; [|exact H2].
          destruct (lt (key m) (key r)) eqn:E2; [|reflexivity].
          now rewrite (lt_trans _ _ _ E E2) in H2.
        - split; [exact H2|].
          destruct (lt (key x) (key r)) eqn:E2; [|reflexivity].
          destruct (lt (key r) (key m)) eqn:E3.
          + now rewrite (lt_trans _ _ _ E2 E3) in E.
          + rewrite (lt_total _ _ H2 E3) in E. congruence. }
      destruct Hm as [Hm Hx].
      repeat split.
      + destruct H1 as [H1 | H1].
        * unfold stepf in H1. destruct (lt (key x) (key m)); [right; left; auto | left; auto].
        * right; right; exact H1.
      + exact Hm.
      + intros y [<- | Hy]; auto.
  Qed.

  (* first among equals: if the result is not the seed, every element before
     its first occurrence has a strictly worse key than it *)
  Lemma fold_ext_first l m :
    let r := fold_left stepf l m in
    (r = m /\ forall x, In x l -> lt (key x) (key m) = false) \/
    (exists l1 l2, l = l1 ++ r :: l2 /\ lt (key r) (key m) = true /\
                   forall x, In x l1 -> lt (key r) (key x) = true).
  Proof.
    revert m; induction l as [|x l IH]; intros m; cbn [fold_left].
    - left; split; auto. intros x [].
    - cbn zeta. destruct (IH (stepf m x)) as [[H1 H2] | (l1 & l2 & H1 & H2 & H3)]; cbn zeta in *.
      + unfold stepf in *. destruct (lt (key x) (key m)) eqn:E.
        * right. exists [], l. rewrite H1. repeat split; auto; try (intros y []).
        * left. split; [exact H1|]. intros y [<- | Hy]; auto.
      + set (r := fold_left stepf l (stepf m x)) in *.
        right. exists (x :: l1), l2. split; [cbn; now rewrite <- H1|].
        unfold stepf in H2. destruct (lt (key x) (key m)) eqn:E.
        * split; [exact (lt_trans _ _ _ H2 E)|]. intros y [<- | Hy]; auto.
        * split; [exact H2|]. intros y [<- | Hy]; auto.
          destruct (lt (key r) (key x)) eqn:E2; [reflexivity|].
          destruct (lt (key x) (key r)) eqn:E3.
          -- now rewrite (lt_trans _ _ _ E3 H2) in E.
          -- rewrite <- (lt_total _ _ E2 E3) in E. congruence.
  Qed.
End Extremum.

Lemma ltb_irrefl a : (a <? a) = false. Proof. apply Z.ltb_irrefl. Qed.
Lemma ltb_trans a b c : (a <? b) = true -> (b <? c) = true -> (a <? c) = true.
Proof. rewrite !Z.ltb_lt; lia. Qed.
Lemma ltb_total a b : (a <? b) = false -> (b <? a) = false -> a = b.
Proof. rewrite !Z.ltb_ge; lia. Qed.
Lemma gtb_irrefl a : (a >? a) = false. Proof. rewrite Z.gtb_ltb. apply Z.ltb_irrefl. Qed.
Lemma gtb_trans a b c : (a >? b) = true -> (b >? c) = true -> (a >? c) = true.
Proof. rewrite !Z.gtb_ltb, !Z.ltb_lt; lia. Qed.
Lemma gtb_total a b : (a >? b) = false -> (b >? a) = false -> a = b.
Proof. rewrite !Z.gtb_ltb, !Z.ltb_ge; lia. Qed.

Lemma find_min_by_spec f l :
  match l with
  | [] => find_min_by f l = 0
  | _ => In (find_min_by f l) l /\ (forall x, In x l -> f (find_min_by f l) <= f x)
  end.
Proof.
  destruct l as [|a l]; [reflexivity|].
  unfold find_min_by. cbn [hd].
  pose proof (fold_ext_inv f Z.ltb ltb_irrefl ltb_trans ltb_total (a :: l) a) as (H1 & H2 & H3).
  cbn zeta in *. split.
  - destruct H1 as [-> | H1]; [now left | exact H1].
  - intros x Hx. specialize (H3 x Hx). apply Z.ltb_ge in H3. exact H3.
Qed.

Lemma find_max_by_spec f l :
  match l with
  | [] => find_max_by f l = 0
  | _ => In (find_max_by f l) l /\ (forall x, In x l -> f x <= f (find_max_by f l))
  end.
Proof.
  destruct l as [|a l]; [reflexivity|].
  unfold find_max_by. cbn [hd].
  pose proof (fold_ext_inv f Z.gtb gtb_irrefl gtb_trans gtb_total (a :: l) a) as (H1 & H2 & H3).
  cbn zeta in *. split.
  - destruct H1 as [-> | H1]; [now left | exact H1].
  - intros x Hx. specialize (H3 x Hx). rewrite Z.gtb_ltb in H3. apply Z.ltb_ge in H3. exact H3.
Qed.

(* "the first such one under a key function" *)
Lemma find_min_by_first f l l1 l2 :
  l = l1 ++ find_min_by f l :: l2 -> ~ In (find_min_by f l) l1 ->
  forall x, In x l1 -> f (find_min_by f l) < f x.
Proof.
  destruct l as [|a l]; [intros H; destruct l1; discriminate|].
  unfold find_min_by; cbn [hd].
  set (r := fold_left _ (a :: l) a).
  intros Hsplit Hnotin x Hx.
  pose proof (fold_ext_first f Z.ltb ltb_irrefl ltb_trans ltb_total (a :: l) a) as H.
  cbn zeta in H. fold r in H. clearbody r.
  destruct H as [[Hr _] | (k1 & k2 & Hk & _ & Hall)].
  - (* r = a, the head: l1 must be empty *)
    destruct l1 as [|b l1]; [destruct Hx|].
    cbn in Hsplit. injection Hsplit as Hb _. exfalso. apply Hnotin. left. congruence.
  - (* both decompositions put r first-occurrence?  k1 has all keys strictly worse *)
    assert (Hk1 : ~ In r k1).
    { intros Hin. specialize (Hall r Hin). rewrite Z.ltb_irrefl in Hall. discriminate. }
    assert (l1 = k1) as ->.
    { clear -Hsplit Hk Hnotin Hk1. rewrite Hk in Hsplit. clear Hk.
      revert k1 Hsplit Hk1 Hnotin. induction l1 as [|b l1 IH]; intros [|c k1] Hs Hk1 Hn; auto.
      - cbn in Hs. injection Hs as Hc _. exfalso. apply Hk1. left. congruence.
      - cbn in Hs. injection Hs as Hb _. exfalso. apply Hn. left. congruence.
      - cbn in Hs. injection Hs as -> Hs. f_equal. apply IH; auto.
        + intros Hin; apply Hk1; now right.
        + intros Hin; apply Hn; now right. }
    specialize (Hall x Hx). now apply Z.ltb_lt in Hall.
Qed.

Lemma find_min_spec l :
  match l with
  | [] => find_min l = 0
  | _ => In (find_min l) l /\ (forall x, In x l -> find_min l <= x)
  end.
Proof. exact (find_min_by_spec (fun x => x) l). Qed.

Lemma find_max_spec l :
  match l with
  | [] => find_max l = 0
  | _ => In (find_max l) l /\ (forall x, In x l -> x <= find_max l)
  end.
Proof. exact (find_max_by_spec (fun x => x) l). Qed.

(* ---------- ByKey ---------- *)

Lemma find_min_by_key_spec ms key :
  match ms with
  | [] => find_min_by_key ms key = Ok 0
  | m0 :: _ =>
      match alookup m0 key with
      | None => exists k, find_min_by_key ms key = Err k
      | Some _ =>
          exists r, find_min_by_key ms key = Ok r /\
                    (exists m, In m ms /\ alookup m key = Some r) /\
                    (forall m v, In m ms -> alookup m key = Some v -> r <= v)
      end
  end.
Proof.
  destruct ms as [|m0 ms]; [reflexivity|].
  unfold find_min_by_key, find_ext_by_key.
  destruct (alookup m0 key) as [v0|] eqn:E0; [|now exists 1].
  eexists; split; [reflexivity|].
  set (stepf := fun acc m => match alookup m key with Some v => if v <? acc then v else acc | None => acc end).
  assert (G : forall l acc,
             ((fold_left stepf l acc = acc) \/ exists m, In m l /\ alookup m key = Some (fold_left stepf l acc)) /\
             fold_left stepf l acc <= acc /\
             forall m v, In m l -> alookup m key = Some v -> fold_left stepf l acc <= v).
  { induction l as [|m l IH]; intros acc; cbn [fold_left].
    - repeat split; auto; try lia. intros m v [].
    - destruct (IH (stepf acc m)) as (H1 & H2 & H3).
      assert (Hs : stepf acc m <= acc /\ forall v, alookup m key = Some v -> stepf acc m <= v).
      { unfold stepf. destruct (alookup m key) as [v|]; [|split; [lia|discriminate]].
        destruct (Z.ltb_spec v acc); split; try lia; intros v' [= <-]; lia. }
      destruct Hs as [Hs1 Hs2]. repeat split.
      + destruct H1 as [H1 | (m' & Hm' & Hl)].
        * rewrite H1. unfold stepf.
          destruct (alookup m key) as [v|] eqn:Ev; [|now left].
          destruct (v <? acc); [right; exists m; split; [now left|exact Ev] | now left].
        * right. exists m'. split; [now right | exact Hl].
      + lia.
      + intros m' v [<- | Hin] Hv; [specialize (Hs2 v Hv); lia | eauto]. }
  destruct (G (m0 :: ms) v0) as (H1 & H2 & H3). split.
  - destruct H1 as [-> | H1]; [exists m0; split; [now left | exact E0] | exact H1].
  - exact H3.
Qed.

Lemma find_max_by_key_spec ms key :
  match ms with
  | [] => find_max_by_key ms key = Ok 0
  | m0 :: _ =>
      match alookup m0 key with
      | None => exists k, find_max_by_key ms key = Err k
      | Some _ =>
          exists r, find_max_by_key ms key = Ok r /\
                    (exists m, In m ms /\ alookup m key = Some r) /\
                    (forall m v, In m ms -> alookup m key = Some v -> v <= r)
      end
  end.
Proof.
  destruct ms as [|m0 ms]; [reflexivity|].
  unfold find_max_by_key, find_ext_by_key.
  destruct (alookup m0 key) as [v0|] eqn:E0; [|now exists 1].
  eexists; split; [reflexivity|].
  set (stepf := fun acc m => match alookup m key with Some v => if v >? acc then v else acc | None => acc end).
  assert (G : forall l acc,
             ((fold_left stepf l acc = acc) \/ exists m, In m l /\ alookup m key = Some (fold_left stepf l acc)) /\
             acc <= fold_left stepf l acc /\
             forall m v, In m l -> alookup m key = Some v -> v <= fold_left stepf l acc).
  { induction l as [|m l IH]; intros acc; cbn [fold_left].
    - repeat split; auto; try lia. intros m v [].
    - destruct (IH (stepf acc m)) as (H1 & H2 & H3).
      assert (Hs : acc <= stepf acc m /\ forall v, alookup m key = Some v -> v <= stepf acc m).
      { unfold stepf. destruct (alookup m key) as [v|]; [|split; [lia|discriminate]].
        rewrite Z.gtb_ltb. destruct (Z.ltb_spec acc v); split; try lia; intros v' [= <-]; lia. }
      destruct Hs as [Hs1 Hs2]. repeat split.
      + destruct H1 as [H1 | (m' & Hm' & Hl)].
        * rewrite H1. unfold stepf.
          destruct (alookup m key) as [v|] eqn:Ev; [|now left].
          destruct (v >? acc); [right; exists m; split; [now left|exact Ev] | now left].
        * right. exists m'. split; [now right | exact Hl].
      + lia.
      + intros m' v [<- | Hin] Hv; [specialize (Hs2 v Hv); lia | eauto]. }
  destruct (G (m0 :: ms) v0) as (H1 & H2 & H3). split.
  - destruct H1 as [-> | H1]; [exists m0; split; [now left | exact E0] | exact H1].
  - exact H3.
Qed.

(* ---------- Nth ---------- *)

Lemma nth_go_spec l n :
  let len := Z.of_nat (length l) in
  (0 <= n < len -> nth_go l n = Ok (nth (Z.to_nat n) l 0)) /\
  (- len <= n < 0 -> nth_go l n = Ok (nth (Z.to_nat (len + n)) l 0)) /\
  (n >= len \/ n < - len -> exists k, nth_go l n = Err k).
Proof.
  cbn zeta. unfold nth_go, enclose. set (len := Z.of_nat (length l)).
  assert (Hlen : 0 <= len) by (unfold len; lia).
  repeat split.
  - intros H.
    replace ((n >=? 0) && (n >? len - 1)) with false by lia.
    replace ((n <? 0) && (len - Z.abs n <? 0)) with false by lia.
    cbn [orb].
    replace ((Z.abs n >=? 0) && (Z.abs n <=? len) && (n >=? 0)) with true by lia.
    replace (n <? 0) with false by lia.
    rewrite (nth_error_nth' l 0) by (unfold len in H; lia). reflexivity.
  - intros H.
    replace ((n >=? 0) && (n >? len - 1)) with false by lia.
    replace ((n <? 0) && (len - Z.abs n <? 0)) with false by lia.
    cbn [orb].
    replace ((Z.abs n >=? 0) && (Z.abs n <=? len) && (n >=? 0)) with false by lia.
    replace (len - Z.abs n <? 0) with false by lia.
    replace (len - Z.abs n) with (len + n) by lia.
    rewrite (nth_error_nth' l 0) by (unfold len in H; lia). reflexivity.
  - intros H.
    replace (((n >=? 0) && (n >? len - 1)) || ((n <? 0) && (len - Z.abs n <? 0))) with true by lia.
    now exists 1.
Qed.

Lemma nth_go_never_panics l n : nth_go l n <> Panic.
Proof.
  pose proof (nth_go_spec l n) as (H1 & H2 & H3). cbn zeta in *.
  set (len := Z.of_nat (length l)) in *.
  destruct (Z_lt_le_dec n (- len)) as [Ha | Ha].
  - destruct H3 as (k & ->); [lia | discriminate].
  - destruct (Z_lt_le_dec n 0) as [Hb | Hb].
    + rewrite H2 by lia. discriminate.
    + destruct (Z_lt_le_dec n len) as [Hc | Hc].
      * rewrite H1 by lia. discriminate.
      * destruct H3 as (k & ->); [lia | discriminate].
Qed.

(* ---------- Sum / SumBy / Mean ---------- *)

Lemma fold_add_acc l a : fold_left Z.add l a = a + fold_left Z.add l 0.
Proof.
  revert a; induction l as [|x l IH]; intros a; cbn [fold_left]; [lia|].
  rewrite (IH (a + x)), (IH (0 + x)). lia.
Qed.

Lemma sum_cons x l : sum (x :: l) = x + sum l.
Proof. unfold sum. cbn [fold_left]. rewrite fold_add_acc. lia. Qed.

Lemma sum_is_list_sum l : sum l = fold_right Z.add 0 l.
Proof. induction l as [|x l IH]; [reflexivity|]. rewrite sum_cons, IH. reflexivity. Qed.

Lemma sum_by_is_sum_map f l : sum_by f l = sum (map f l).
Proof.
  unfold sum_by, sum. generalize 0. induction l as [|x l IH]; intros a; cbn [fold_left map]; auto.
Qed.

Lemma wrap_mod w z : 0 < w -> (wrap w z) mod 2 ^ w = z mod 2 ^ w.
Proof.
  intros Hw. unfold wrap.
  assert (Hp : 0 < 2 ^ w) by (apply Z.pow_pos_nonneg; lia).
  rewrite Zminus_mod, Zmod_mod, <- Zminus_mod. f_equal. lia.
Qed.

Lemma wrap_range w z : 0 < w -> - 2 ^ (w - 1) <= wrap w z < 2 ^ (w - 1).
Proof.
  intros Hw. unfold wrap.
  assert (Hp : 0 < 2 ^ (w - 1)) by (apply Z.pow_pos_nonneg; lia).
  assert (E : 2 ^ w = 2 * 2 ^ (w - 1)).
  { replace w with (1 + (w - 1)) at 1 by lia. rewrite Z.pow_add_r by lia. reflexivity. }
  pose proof (Z.mod_pos_bound (z + 2 ^ (w - 1)) (2 ^ w)). lia.
Qed.

(* the wrapped loop computes the mathematical sum modulo 2^w, in range *)
Lemma sum_w_spec w l : 0 < w ->
  (sum_w w l) mod 2 ^ w = (sum l) mod 2 ^ w /\ - 2 ^ (w - 1) <= sum_w w l < 2 ^ (w - 1).
Proof.
  intros Hw. unfold sum_w, sum.
  assert (Hp : 0 < 2 ^ (w - 1)) by (apply Z.pow_pos_nonneg; lia).
  assert (G : forall l a b, a mod 2 ^ w = b mod 2 ^ w -> - 2 ^ (w - 1) <= a < 2 ^ (w - 1) ->
              (fold_left (fun acc v => wrap w (acc + v)) l a) mod 2 ^ w = (fold_left Z.add l b) mod 2 ^ w /\
              - 2 ^ (w - 1) <= fold_left (fun acc v => wrap w (acc + v)) l a < 2 ^ (w - 1)).
  { clear l. induction l as [|x l IH]; intros a b Hab Ha; cbn [fold_left]; [auto|].
    apply IH; [|apply wrap_range; lia].
    rewrite wrap_mod by lia. rewrite Zplus_mod, Hab, <- Zplus_mod. reflexivity. }
  apply G; [reflexivity | lia].
Qed.

Lemma mean_spec l : l <> [] -> mean l = Ok (Z.quot (sum l) (Z.of_nat (length l))).
Proof. destruct l; [congruence | reflexivity]. Qed.

(* ---------- Abs / Clamp / InRange ---------- *)

Lemma abs_go_spec x : abs_go x = Z.abs x.
Proof. unfold abs_go. destruct (Z.ltb_spec x 0); lia. Qed.

Lemma abs_w_spec w x : 0 < w -> - 2 ^ (w - 1) <= x < 2 ^ (w - 1) ->
  (x <> - 2 ^ (w - 1) -> abs_w w x = Z.abs x) /\ (x = - 2 ^ (w - 1) -> abs_w w x = x).
Proof.
  intros Hw Hx. unfold abs_w, wrap.
  assert (Hp : 0 < 2 ^ (w - 1)) by (apply Z.pow_pos_nonneg; lia).
  assert (E : 2 ^ w = 2 * 2 ^ (w - 1)).
  { replace w with (1 + (w - 1)) at 1 by lia. rewrite Z.pow_add_r by lia. reflexivity. }
  split; intros H; destruct (Z.ltb_spec x 0); try lia.
  - rewrite Z.mod_small by lia. lia.
  - subst x. replace (- - 2 ^ (w - 1) + 2 ^ (w - 1)) with (2 ^ w) by lia.
    rewrite Z_mod_same_full. lia.
Qed.

Lemma clamp_spec num lo hi : lo <= hi ->
  lo <= clamp num lo hi <= hi /\
  (lo <= num <= hi -> clamp num lo hi = num) /\
  (num < lo -> clamp num lo hi = lo) /\ (num > hi -> clamp num lo hi = hi).
Proof.
  intros H. unfold clamp.
  destruct (Z.leb_spec num lo); destruct (Z.geb_spec num hi); repeat split; lia.
Qed.

Lemma in_range_spec num lo hi : in_range num lo hi = true <-> lo <= num <= hi.
Proof. unfold in_range. lia. Qed.

(* ---------- Compare / Less / Equal ---------- *)

Lemma compare_go_spec comp a b :
  (compare_go comp a b = 1 <-> comp a b = true) /\
  (compare_go comp a b = -1 <-> comp a b = false /\ comp b a = true) /\
  (compare_go comp a b = 0 <-> comp a b = false /\ comp b a = false).
Proof.
  unfold compare_go. destruct (comp a b), (comp b a); repeat split; intros; try lia; try tauto; auto;
    try (destruct H; discriminate).
Qed.

Lemma less_go_spec a b : less_go a b = true <-> a < b. Proof. apply Z.ltb_lt. Qed.
Lemma equal_go_spec a b : equal_go a b = true <-> a = b. Proof. apply Z.eqb_eq. Qed.

(* ---------- Range ---------- *)

(* the progression start, start+step, … (n terms) *)
Fixpoint prog (n : nat) (start step : Z) : list Z :=
  match n with O => [] | S n' => start :: prog n' (start + step) step end.

Lemma prog_nth n start step k : (k < n)%nat -> nth k (prog n start step) 0 = start + Z.of_nat k * step.
Proof.
  revert start k; induction n as [|n IH]; intros start k Hk; [lia|].
  destruct k as [|k]; cbn [prog nth]; [lia|]. rewrite IH by lia. lia.
Qed.
Lemma prog_length n start step : length (prog n start step) = n.
Proof. revert start; induction n as [|n IH]; intros; cbn; auto. Qed.

(* ascending loop: with step >= 1 and enough fuel it yields the maximal
   progression strictly below e *)
Lemma range_up_spec fuel i step e :
  1 <= step -> (Z.to_nat (e - i) <= fuel)%nat ->
  exists n, range_up fuel i step e = prog n i step /\
            (forall x, In x (prog n i step) -> x < e) /\
            i + Z.of_nat n * step >= e /\
            (n <= Z.to_nat (e - i))%nat.
Proof.
  intros Hs. revert i; induction fuel as [|f IH]; intros i Hf.
  - exists 0%nat. cbn. repeat split; try lia; try (intros ? []).
  - cbn [range_up]. destruct (Z.ltb_spec i e) as [Hlt | Hge].
    + destruct (IH (i + step)) as (n & H1 & H2 & H3 & H4); [lia|].
      exists (S n). cbn [prog]. rewrite H1. repeat split.
      * intros x [<- | Hx]; auto.
      * lia.
      * lia.
    + exists 0%nat. cbn. repeat split; try lia; try (intros ? []).
Qed.

Lemma range_down_spec fuel i astep e :
  1 <= astep -> (Z.to_nat (i - e) <= fuel)%nat ->
  exists n, range_down fuel i astep e = prog n i (- astep) /\
            (forall x, In x (prog n i (- astep)) -> e < x) /\
            i - Z.of_nat n * astep <= e /\
            (n <= Z.to_nat (i - e))%nat.
Proof.
  intros Hs. revert i; induction fuel as [|f IH]; intros i Hf.
  - exists 0%nat. cbn. repeat split; try lia; try (intros ? []).
  - cbn [range_down]. destruct (Z.ltb_spec e i) as [Hlt | Hge].
    + destruct (IH (i - astep)) as (n & H1 & H2 & H3 & H4); [lia|].
      exists (S n). cbn [prog]. replace (i + - astep) with (i - astep) by lia. rewrite H1. repeat split.
      * intros x [<- | Hx]; auto.
      * lia.
      * lia.
    + exists 0%nat. cbn. repeat split; try lia; try (intros ? []).
Qed.

(* normalised arguments *)
Definition range_args (args : list Z) : option (Z * Z * Z) :=
  match args with
  | [] => Some (0, 0, 0)
  | [e] => Some (0, 1, e)
  | [s; e] => Some (s, 1, e)
  | [s; st; e] => Some (s, st, e)
  | _ => None
  end.

Definition range_invalid (args : list Z) : Prop :=
  (length args > 3)%nat \/
  exists s st e, args = [s; st; e] /\ ((s > e /\ e > 0) \/ st = 0 \/ (st < 0 /\ e > s)).

Lemma range_errors args : (exists k, range_go args = Err k) <-> range_invalid args.
Proof.
  unfold range_invalid, range_go. split.
  - intros (k & H).
    destruct args as [|a [|b [|c [|d args]]]].
    + destruct (0 >? 0); discriminate.
    + destruct (a >? 0); discriminate.
    + destruct (b >? 0); discriminate.
    + right. exists a, b, c. split; [reflexivity|].
      destruct ((a >? c) && (c >? 0)) eqn:E1; [left; lia|].
      destruct (b =? 0) eqn:E2; [right; left; lia|].
      destruct ((b <? 0) && (c >? a)) eqn:E3; [right; right; lia|].
      destruct (c >? 0); discriminate.
    + left. cbn. lia.
  - intros [Hlen | (s & st & e & -> & H)].
    + destruct args as [|a [|b [|c [|d args]]]]; cbn in Hlen; try lia. now exists 1.
    + destruct ((s >? e) && (e >? 0)) eqn:E1; [now exists 2|].
      destruct (st =? 0) eqn:E2; [now exists 3|].
      destruct ((st <? 0) && (e >? s)) eqn:E3; [now exists 4|].
      exfalso. lia.
Qed.

(* On valid arguments: the result is the maximal progression from start by
   |step| toward end, stopping before it: ascending iff end > 0. *)
Lemma range_spec args s st e :
  range_args args = Some (s, st, e) -> ~ range_invalid args ->
  exists n, range_go args = Ok (prog n s (if e >? 0 then Z.abs st else - Z.abs st)) /\
    (if e >? 0
     then (forall x, In x (prog n s (Z.abs st)) -> x < e) /\ (s < e -> s + Z.of_nat n * Z.abs st >= e)
     else (forall x, In x (prog n s (- Z.abs st)) -> e < x) /\ (e < s -> s - Z.of_nat n * Z.abs st <= e)) /\
    (n = 0%nat <-> (if e >? 0 then s >= e else s <= e)).
Proof.
  intros Hargs Hvalid.
  assert (Hgo : forall s st e, (e >? 0 = true -> s < e -> 1 <= st) -> (e >? 0 = false -> e < s -> 1 <= Z.abs st) ->
     exists n, (if e >? 0 then Ok (range_up (Z.to_nat (e - s)) s st e)
                else Ok (range_down (Z.to_nat (s - e)) s (Z.abs st) e))
               = Ok (prog n s (if e >? 0 then Z.abs st else - Z.abs st)) /\
    (if e >? 0
     then (forall x, In x (prog n s (Z.abs st)) -> x < e) /\ (s < e -> s + Z.of_nat n * Z.abs st >= e)
     else (forall x, In x (prog n s (- Z.abs st)) -> e < x) /\ (e < s -> s - Z.of_nat n * Z.abs st <= e)) /\
    (n = 0%nat <-> (if e >? 0 then s >= e else s <= e))).
  { clear. intros s st e Hup Hdown. destruct (e >? 0) eqn:Epos.
    - destruct (Z_lt_le_dec s e) as [Hlt | Hge].
      + specialize (Hup eq_refl Hlt).
        destruct (range_up_spec (Z.to_nat (e - s)) s st e Hup (le_n _)) as (n & H1 & H2 & H3 & H4).
        exists n. rewrite H1. replace (Z.abs st) with st by lia. repeat split; auto; try lia; try (intros ->; cbn in H3; lia).
      + exists 0%nat. replace (Z.to_nat (e - s)) with 0%nat by lia. cbn. repeat split; try lia; try (intros ? []).
    - destruct (Z_lt_le_dec e s) as [Hlt | Hge].
      + specialize (Hdown eq_refl Hlt).
        destruct (range_down_spec (Z.to_nat (s - e)) s (Z.abs st) e Hdown (le_n _)) as (n & H1 & H2 & H3 & H4).
        exists n. rewrite H1. repeat split; auto; try lia; try (intros ->; cbn in H3; lia).
      + exists 0%nat. replace (Z.to_nat (s - e)) with 0%nat by lia. cbn. repeat split; try lia; try (intros ? []). }
  unfold range_args in Hargs. unfold range_go.
  destruct args as [|a [|b [|c [|d args]]]]; try discriminate; injection Hargs as <- <- <-.
  - apply Hgo; intros; lia.
  - apply Hgo; intros; lia.
  - apply Hgo; intros; lia.
  - assert (Hv : ~ ((a > c /\ c > 0) \/ b = 0 \/ (b < 0 /\ c > a))).
    { intros H. apply Hvalid. right. exists a, b, c. auto. }
    replace ((a >? c) && (c >? 0)) with false by lia.
    replace (b =? 0) with false by lia.
    replace ((b <? 0) && (c >? a)) with false by lia.
    apply Hgo; intros; lia.
Qed.

Lemma range_right_spec args :
  match range_go args with
  | Ok l => range_right args = Ok (rev l)
  | Err k => range_right args = Err k
  | Panic => range_right args = Panic
  end.
Proof. unfold range_right. destruct (range_go args); reflexivity. Qed.

Lemma range_never_panics args : range_go args <> Panic.
Proof.
  unfold range_go.
  destruct args as [|a [|b [|c [|d args]]]]; try discriminate;
    repeat match goal with |- context [if ?b then _ else _] => destruct b end; discriminate.
Qed.

(* ================================================================== *)
(* Session 3 (audit): corollaries and exact characterisations           *)

(* ---------- LastIndexOf ---------- *)
Lemma last_index_of_greatest l v :
  (last_index_of l v = -1 /\ ~ In v l) \/
  (exists i, last_index_of l v = Z.of_nat i /\ nth_error l i = Some v /\
             forall j, (i < j)%nat -> nth_error l j <> Some v).
Proof.
  unfold last_index_of.
  destruct (find_last_index_greatest (Z.eqb v) l) as [[H1 H2] | (i & x & H1 & H2 & H3 & H4)].
  - left. split; [exact H1|]. intros Hin. specialize (H2 v Hin). now rewrite Z.eqb_refl in H2.
  - right. exists i. apply Z.eqb_eq in H3. subst x. repeat split; auto.
    intros j Hj Hn. specialize (H4 j v Hj Hn). now rewrite Z.eqb_refl in H4.
Qed.

(* ---------- FindAll is a map: positions strictly increasing, hence distinct ---------- *)
Lemma find_all_sorted p l : StronglySorted (fun a b => fst a < fst b) (find_all p l).
Proof. apply find_all_from_sorted. Qed.

Lemma find_all_keys_nodup p l : NoDup (map fst (find_all p l)).
Proof.
  pose proof (find_all_sorted p l) as H. induction H as [|a m Hs IH Hf]; cbn; constructor; auto.
  intros Hin. apply in_map_iff in Hin as (b & Hb & Hin).
  rewrite Forall_forall in Hf. specialize (Hf b Hin). lia.
Qed.

(* ---------- first extremal element, as a decomposition ---------- *)
Lemma find_min_by_split f l : l <> [] ->
  exists l1 l2, l = l1 ++ find_min_by f l :: l2 /\
    (forall x, In x l1 -> f (find_min_by f l) < f x) /\
    (forall x, In x l2 -> f (find_min_by f l) <= f x).
Proof.
  intros Hne. pose proof (find_min_by_spec f l) as Hs.
  destruct l as [|a l]; [congruence|]. destruct Hs as [_ Hle].
  unfold find_min_by in *; cbn [hd] in *.
  pose proof (fold_ext_first f Z.ltb ltb_irrefl ltb_trans ltb_total (a :: l) a) as H.
  cbn zeta in H. set (r := fold_left _ (a :: l) a) in *. clearbody r.
  destruct H as [[Hr _] | (k1 & k2 & Hk & _ & Hall)].
  - exists [], l. subst r. repeat split; auto.
    + intros x [].
    + intros x Hx. apply Hle. now right.
  - exists k1, k2. split; [exact Hk|]. split.
    + intros x Hx. specialize (Hall x Hx). now apply Z.ltb_lt in Hall.
    + intros x Hx. apply Hle. rewrite Hk. apply in_or_app. right. now right.
Qed.

Lemma find_max_by_split f l : l <> [] ->
  exists l1 l2, l = l1 ++ find_max_by f l :: l2 /\
    (forall x, In x l1 -> f x < f (find_max_by f l)) /\
    (forall x, In x l2 -> f x <= f (find_max_by f l)).
Proof.
  intros Hne. pose proof (find_max_by_spec f l) as Hs.
  destruct l as [|a l]; [congruence|]. destruct Hs as [_ Hle].
  unfold find_max_by in *; cbn [hd] in *.
  pose proof (fold_ext_first f Z.gtb gtb_irrefl gtb_trans gtb_total (a :: l) a) as H.
  cbn zeta in H. set (r := fold_left _ (a :: l) a) in *. clearbody r.
  destruct H as [[Hr _] | (k1 & k2 & Hk & _ & Hall)].
  - exists [], l. subst r. repeat split; auto.
    + intros x [].
    + intros x Hx. apply Hle. now right.
  - exists k1, k2. split; [exact Hk|]. split.
    + intros x Hx. specialize (Hall x Hx). rewrite Z.gtb_ltb in Hall. now apply Z.ltb_lt in Hall.
    + intros x Hx. apply Hle. rewrite Hk. apply in_or_app. right. now right.
Qed.

(* the decomposition determines the answer: two "first extremal" splits of one
   list name the same element *)
Lemma first_min_unique (f : Z -> Z) l1 r l2 k1 r' k2 :
  l1 ++ r :: l2 = k1 ++ r' :: k2 ->
  (forall x, In x l1 -> f r < f x) -> (forall x, In x l2 -> f r <= f x) ->
  (forall x, In x k1 -> f r' < f x) -> (forall x, In x k2 -> f r' <= f x) ->
  l1 = k1 /\ r = r' /\ l2 = k2.
Proof.
  revert k1. induction l1 as [|a l1 IH]; intros [|b k1] E H1 H2 H3 H4; cbn in E.
  - injection E as -> ->. auto.
  - injection E as Ea Ek. exfalso.
    assert (f r' < f b) by (apply H3; now left).
    assert (f r <= f r') by (apply H2; rewrite Ek; apply in_or_app; right; now left).
    rewrite <- Ea in *. lia.
  - injection E as Ea Ek. exfalso.
    assert (f r < f a) by (apply H1; now left).
    assert (f r' <= f r) by (apply H4; rewrite <- Ek; apply in_or_app; right; now left).
    rewrite Ea in *. lia.
  - injection E as -> E. destruct (IH k1 E) as (-> & -> & ->); auto.
    + intros x Hx; apply H1; now right.
    + intros x Hx; apply H3; now right.
Qed.

Lemma find_max_by_first f l l1 l2 :
  l = l1 ++ find_max_by f l :: l2 -> ~ In (find_max_by f l) l1 ->
  forall x, In x l1 -> f x < f (find_max_by f l).
Proof.
  intros Hsplit Hnotin x Hx.
  assert (Hne : l <> []) by (intros ->; destruct l1; discriminate).
  destruct (find_max_by_split f l Hne) as (k1 & k2 & Hk & Hall & _).
  set (r := find_max_by f l) in *. clearbody r.
  assert (Hk1 : ~ In r k1) by (intros Hin; specialize (Hall r Hin); lia).
  assert (l1 = k1) as ->; [|auto].
  rewrite Hk in Hsplit. clear - Hsplit Hnotin Hk1.
  revert k1 Hsplit Hk1 Hnotin. induction l1 as [|b l1 IH]; intros [|c k1] Hs Hk1 Hn; auto.
  - cbn in Hs. injection Hs as Hc _. exfalso. apply Hk1. left. congruence.
  - cbn in Hs. injection Hs as Hb _. exfalso. apply Hn. left. congruence.
  - cbn in Hs. injection Hs as -> Hs. f_equal. apply IH; auto.
    + intros Hin; apply Hk1; now right.
    + intros Hin; apply Hn; now right.
Qed.

(* ---------- ByKey: a map that lacks the key takes no part ---------- *)
Definition has_key (key : Z) (m : amap) : bool :=
  match alookup m key with Some _ => true | None => false end.

Lemma find_ext_by_key_ignores_missing better ms key :
  find_ext_by_key better ms key =
  match ms with
  | [] => Ok 0
  | m0 :: _ => if has_key key m0 then find_ext_by_key better (filter (has_key key) ms) key else Err 1
  end.
Proof.
  destruct ms as [|m0 ms]; [reflexivity|].
  unfold find_ext_by_key at 1. unfold has_key at 1.
  destruct (alookup m0 key) as [v0|] eqn:E0; [|reflexivity].
  cbn [filter]. unfold has_key at 1. rewrite E0. unfold find_ext_by_key. rewrite E0. f_equal.
  cbn [fold_left]. rewrite E0. generalize (if better v0 v0 then v0 else v0) as acc.
  induction ms as [|m ms IH]; intros acc; [reflexivity|].
  cbn [filter fold_left]. unfold has_key at 1.
  destruct (alookup m key) as [v|] eqn:E; cbn [fold_left]; rewrite ?E; apply IH.
Qed.

(* ---------- Nth, exactly ---------- *)
Lemma nth_go_ok_iff l n v :
  let len := Z.of_nat (length l) in
  nth_go l n = Ok v <->
  (0 <= n < len /\ nth_error l (Z.to_nat n) = Some v) \/
  (- len <= n < 0 /\ nth_error l (Z.to_nat (len + n)) = Some v).
Proof.
  cbn zeta. pose proof (nth_go_spec l n) as (H1 & H2 & H3). cbn zeta in *.
  set (len := Z.of_nat (length l)) in *.
  assert (Hnth : forall i, (i < length l)%nat -> nth_error l i = Some (nth i l 0)).
  { intros i Hi. apply nth_error_nth'. exact Hi. }
  split.
  - intros H.
    destruct (Z_lt_le_dec n (- len)) as [Ha | Ha]; [destruct H3 as (k & E); [lia | congruence]|].
    destruct (Z_lt_le_dec n 0) as [Hb | Hb].
    + right. split; [lia|]. rewrite H2 in H by lia. injection H as <-. apply Hnth. unfold len in *. lia.
    + destruct (Z_lt_le_dec n len) as [Hc | Hc]; [|destruct H3 as (k & E); [lia | congruence]].
      left. split; [lia|]. rewrite H1 in H by lia. injection H as <-. apply Hnth. unfold len in *. lia.
  - intros [[Hr Hv] | [Hr Hv]].
    + rewrite H1 by exact Hr. f_equal. rewrite Hnth in Hv by (unfold len in *; lia). congruence.
    + rewrite H2 by exact Hr. f_equal. rewrite Hnth in Hv by (unfold len in *; lia). congruence.
Qed.

Lemma nth_go_err_iff l n :
  let len := Z.of_nat (length l) in
  (exists k, nth_go l n = Err k) <-> (n >= len \/ n < - len).
Proof.
  cbn zeta. pose proof (nth_go_spec l n) as (H1 & H2 & H3). cbn zeta in *.
  set (len := Z.of_nat (length l)) in *. split; [|exact H3].
  intros (k & E).
  destruct (Z_lt_le_dec n (- len)) as [Ha | Ha]; [lia|].
  destruct (Z_lt_le_dec n 0) as [Hb | Hb]; [rewrite H2 in E by lia; discriminate|].
  destruct (Z_lt_le_dec n len) as [Hc | Hc]; [rewrite H1 in E by lia; discriminate|lia].
Qed.

(* ---------- Mean ---------- *)
(* the integer mean is the exact mean rounded toward zero *)
Lemma mean_trunc l : l <> [] ->
  exists r, mean l = Ok r /\
    let n := Z.of_nat (length l) in
    Z.abs (r * n) <= Z.abs (sum l) /\ Z.abs (sum l - r * n) < n /\
    (0 <= sum l -> 0 <= r) /\ (sum l <= 0 -> r <= 0).
Proof.
  intros Hne. exists (Z.quot (sum l) (Z.of_nat (length l))). split; [now apply mean_spec|].
  cbn zeta. set (n := Z.of_nat (length l)). set (s := sum l).
  assert (Hn : 0 < n) by (unfold n; destruct l; [congruence | cbn [length]; lia]).
  pose proof (Z.quot_rem' s n) as E.
  destruct (Z_le_gt_dec 0 s) as [Hs | Hs].
  - pose proof (Z.rem_bound_pos s n Hs Hn) as Hr.
    pose proof (Z.quot_pos s n Hs Hn) as Hq.
    repeat split; try nia.
  - assert (Hs' : 0 <= - s) by lia.
    pose proof (Z.rem_bound_pos (- s) n Hs' Hn) as Hr.
    pose proof (Z.quot_pos (- s) n Hs' Hn) as Hq.
    rewrite Z.rem_opp_l' in Hr. rewrite Z.quot_opp_l in Hq by lia.
    repeat split; try nia.
Qed.

Lemma wrap_small w z : 0 < w -> - 2 ^ (w - 1) <= z < 2 ^ (w - 1) -> wrap w z = z.
Proof.
  intros Hw Hz. unfold wrap.
  assert (Hp : 0 < 2 ^ (w - 1)) by (apply Z.pow_pos_nonneg; lia).
  assert (E : 2 ^ w = 2 * 2 ^ (w - 1)).
  { replace w with (1 + (w - 1)) at 1 by lia. rewrite Z.pow_add_r by lia. reflexivity. }
  rewrite Z.mod_small by lia. lia.
Qed.

(* in a w-bit type, for a slice shorter than 2^(w-1): the mean, rounded toward
   zero, of the WRAPPED sum; never a panic; in range *)
Lemma mean_w_spec w l : 0 < w -> l <> [] -> Z.of_nat (length l) < 2 ^ (w - 1) ->
  mean_w w l = Ok (Z.quot (sum_w w l) (Z.of_nat (length l))) /\
  - 2 ^ (w - 1) <= Z.quot (sum_w w l) (Z.of_nat (length l)) < 2 ^ (w - 1).
Proof.
  intros Hw Hne Hlen. unfold mean_w.
  set (n := Z.of_nat (length l)) in *.
  assert (Hn : 0 < n) by (unfold n; destruct l; [congruence | cbn [length]; lia]).
  assert (Hp : 0 < 2 ^ (w - 1)) by (apply Z.pow_pos_nonneg; lia).
  rewrite (wrap_small w n) by lia.
  replace (n =? 0) with false by lia.
  destruct (sum_w_spec w l Hw) as [_ Hr]. set (s := sum_w w l) in *.
  assert (Hq : - 2 ^ (w - 1) <= Z.quot s n < 2 ^ (w - 1)).
  { pose proof (Z.quot_rem' s n) as E.
    destruct (Z_le_gt_dec 0 s) as [Hs | Hs].
    - pose proof (Z.rem_bound_pos s n Hs Hn). pose proof (Z.quot_pos s n Hs Hn).
      set (q := Z.quot s n) in *. assert (q <= q * n) by nia. lia.
    - assert (Hs' : 0 <= - s) by lia.
      pose proof (Z.rem_bound_pos (- s) n Hs' Hn) as Hrem.
      pose proof (Z.quot_pos (- s) n Hs' Hn) as Hq.
      rewrite Z.rem_opp_l' in Hrem. rewrite Z.quot_opp_l in Hq by lia.
      set (q := Z.quot s n) in *. assert (q * n <= q) by nia. lia. }
  rewrite wrap_small by lia. split; [reflexivity | exact Hq].
Qed.

(* the general statement: a panic exactly when the length is a multiple of 2^w *)
Lemma mean_w_panics_iff w l : 0 < w ->
  (mean_w w l = Panic <-> (Z.of_nat (length l)) mod 2 ^ w = 0).
Proof.
  intros Hw. unfold mean_w. set (n := Z.of_nat (length l)).
  assert (Hp : 0 < 2 ^ w) by (apply Z.pow_pos_nonneg; lia).
  pose proof (wrap_mod w n Hw) as Hm. pose proof (wrap_range w n Hw) as Hr.
  assert (Hp1 : 0 < 2 ^ (w - 1)) by (apply Z.pow_pos_nonneg; lia).
  assert (E : 2 ^ w = 2 * 2 ^ (w - 1)).
  { replace w with (1 + (w - 1)) at 1 by lia. rewrite Z.pow_add_r by lia. reflexivity. }
  destruct (Z.eqb_spec (wrap w n) 0) as [H0 | H0]; split; intros H; try reflexivity; try discriminate.
  - rewrite <- Hm, H0. apply Z.mod_0_l. lia.
  - exfalso. apply H0. rewrite <- Hm in H.
    destruct (Z_le_gt_dec 0 (wrap w n)).
    + rewrite Z.mod_small in H by lia. exact H.
    + apply Z.mod_divide in H; [|lia]. destruct H as [q Hq].
      rewrite E in Hq. set (P := 2 ^ (w - 1)) in *.
      destruct (Z_le_gt_dec q (-1)); [assert (q * (2 * P) <= -1 * (2 * P)) by (apply Z.mul_le_mono_nonneg_r; lia) | assert (0 <= q * (2 * P)) by (apply Z.mul_nonneg_nonneg; lia)]; lia.
Qed.

(* ---------- Range: closed forms ---------- *)
Lemma prog_in n s d x : In x (prog n s d) <-> exists k, (k < n)%nat /\ x = s + Z.of_nat k * d.
Proof.
  revert s; induction n as [|n IH]; intros s; cbn [prog].
  - split; [intros [] | intros (k & Hk & _); lia].
  - split.
    + intros [<- | H]; [exists 0%nat; split; lia|].
      apply IH in H as (k & Hk & ->). exists (S k). split; lia.
    + intros (k & Hk & ->). destruct k as [|k]; [left; lia|].
      right. apply IH. exists k. split; lia.
Qed.

(* the number of terms of the maximal progression from s by a >= 1 strictly
   before e is ceil((e - s) / a) *)
Lemma prog_count_unique n s a e : 1 <= a -> s < e ->
  (forall x, In x (prog n s a) -> x < e) -> s + Z.of_nat n * a >= e ->
  Z.of_nat n = (e - s + a - 1) / a.
Proof.
  intros Ha Hlt Hall Hmax.
  assert (Hn : (0 < n)%nat) by (destruct n; [cbn in Hmax; lia | lia]).
  assert (Hlast : s + (Z.of_nat n - 1) * a < e).
  { apply Hall. apply prog_in. exists (n - 1)%nat. split; [lia|]. f_equal. f_equal. lia. }
  apply Z.div_unique with (r := (e - s + a - 1) - a * Z.of_nat n); [left; nia | lia].
Qed.

Definition ceil_div (x a : Z) : Z := (x + a - 1) / a.

Lemma range_closed_form args s st e :
  range_args args = Some (s, st, e) -> ~ range_invalid args ->
  range_go args =
  Ok (if e >? 0
      then (if s <? e then prog (Z.to_nat (ceil_div (e - s) (Z.abs st))) s (Z.abs st) else [])
      else (if e <? s then prog (Z.to_nat (ceil_div (s - e) (Z.abs st))) s (- Z.abs st) else [])).
Proof.
  intros Hargs Hvalid.
  assert (Hst : (e >? 0 = true -> s < e -> 1 <= Z.abs st) /\ (e >? 0 = false -> e < s -> 1 <= Z.abs st)).
  { unfold range_args in Hargs.
    destruct args as [|a [|b [|c [|d args]]]]; try discriminate; injection Hargs as <- <- <-; try lia.
    assert (Hv : ~ ((a > c /\ c > 0) \/ b = 0 \/ (b < 0 /\ c > a))).
    { intros H. apply Hvalid. right. exists a, b, c. auto. }
    lia. }
  destruct Hst as [Hup Hdown].
  destruct (range_spec args s st e Hargs Hvalid) as (n & Hgo & Hshape & Hzero).
  rewrite Hgo. f_equal. unfold ceil_div.
  destruct (e >? 0) eqn:Epos.
  - destruct Hshape as [Hall Hmax]. destruct (Z.ltb_spec s e) as [Hlt | Hge].
    + specialize (Hup eq_refl Hlt).
      rewrite <- (prog_count_unique n s (Z.abs st) e Hup Hlt Hall (Hmax Hlt)). now rewrite Nat2Z.id.
    + assert (n = 0%nat) as -> by (apply Hzero; lia). reflexivity.
  - destruct Hshape as [Hall Hmax]. destruct (Z.ltb_spec e s) as [Hlt | Hge].
    + specialize (Hdown eq_refl Hlt).
      (* mirror: negate everything *)
      assert (Hall' : forall x, In x (prog n (- s) (Z.abs st)) -> x < - e).
      { intros x Hx. apply prog_in in Hx as (k & Hk & ->).
        assert (e < s + Z.of_nat k * - Z.abs st) by (apply Hall; apply prog_in; exists k; split; [lia|reflexivity]).
        lia. }
      assert (Hmax' : - s + Z.of_nat n * Z.abs st >= - e) by (specialize (Hmax Hlt); lia).
      pose proof (prog_count_unique n (- s) (Z.abs st) (- e) Hdown ltac:(lia) Hall' Hmax') as Hc.
      replace (- e - - s) with (s - e) in Hc by lia. rewrite <- Hc. now rewrite Nat2Z.id.
    + assert (n = 0%nat) as -> by (apply Hzero; lia). reflexivity.
Qed.

(* the 0-, 1- and 2-argument variants, spelled out (none of them can fail) *)
Lemma range_no_args : range_go [] = Ok [].
Proof. reflexivity. Qed.

Lemma range_one_arg e :
  range_go [e] = Ok (if e >? 0 then prog (Z.to_nat e) 0 1 else prog (Z.to_nat (- e)) 0 (-1)).
Proof.
  assert (Hv : ~ range_invalid [e]).
  { intros [H | (s & st & e' & H & _)]; [cbn in H; lia | discriminate]. }
  rewrite (range_closed_form [e] 0 1 e eq_refl Hv). f_equal. unfold ceil_div.
  change (Z.abs 1) with 1. change (- 1) with (-1).
  destruct (e >? 0) eqn:Epos.
  - replace (0 <? e) with true by lia. f_equal. rewrite Z.div_1_r. lia.
  - destruct (Z.ltb_spec e 0).
    + f_equal. rewrite Z.div_1_r. lia.
    + replace (Z.to_nat (- e)) with 0%nat by lia. reflexivity.
Qed.

Lemma range_two_args s e :
  range_go [s; e] = Ok (if e >? 0 then prog (Z.to_nat (e - s)) s 1 else prog (Z.to_nat (s - e)) s (-1)).
Proof.
  assert (Hv : ~ range_invalid [s; e]).
  { intros [H | (s' & st & e' & H & _)]; [cbn in H; lia | discriminate]. }
  rewrite (range_closed_form [s; e] s 1 e eq_refl Hv). f_equal. unfold ceil_div.
  change (Z.abs 1) with 1. change (- 1) with (-1).
  destruct (e >? 0) eqn:Epos.
  - destruct (Z.ltb_spec s e).
    + f_equal. rewrite Z.div_1_r. lia.
    + replace (Z.to_nat (e - s)) with 0%nat by lia. reflexivity.
  - destruct (Z.ltb_spec e s).
    + f_equal. rewrite Z.div_1_r. lia.
    + replace (Z.to_nat (s - e)) with 0%nat by lia. reflexivity.
Qed.

(* RangeRight lists the same progression from its last term backwards *)
Lemma prog_snoc m a b : prog m a b ++ [a + Z.of_nat m * b] = prog (S m) a b.
Proof.
  revert a; induction m as [|m IH]; intros a.
  - cbn [prog app]. f_equal. lia.
  - change (prog (S m) a b) with (a :: prog m (a + b) b).
    change (prog (S (S m)) a b) with (a :: prog (S m) (a + b) b).
    cbn [app]. f_equal. rewrite <- IH. do 2 f_equal. lia.
Qed.

Lemma rev_prog n s d : rev (prog n s d) = prog n (s + (Z.of_nat n - 1) * d) (- d).
Proof.
  revert s; induction n as [|n IH]; intros s; [reflexivity|].
  cbn [prog rev]. rewrite IH.
  set (a := s + d + (Z.of_nat n - 1) * d).
  replace [s] with [a + Z.of_nat n * - d] by (f_equal; unfold a; lia).
  rewrite prog_snoc. cbn [prog]. f_equal; [|f_equal]; unfold a; rewrite Nat2Z.inj_succ; ring.
Qed.

(* ================================================================== *)
(* Go's int is a w-bit type (w = 64): the wrapped versions              *)

Definition fits (w z : Z) : Prop := - 2 ^ (w - 1) <= z < 2 ^ (w - 1).

Lemma pow_half w : 0 < w -> 2 ^ w = 2 * 2 ^ (w - 1) /\ 0 < 2 ^ (w - 1).
Proof.
  intros Hw. split.
  - replace w with (1 + (w - 1)) at 1 by lia. rewrite Z.pow_add_r by lia. reflexivity.
  - apply Z.pow_pos_nonneg; lia.
Qed.

(* two values of the type that are congruent modulo 2^w are equal *)
Lemma fits_cong_eq w a b : 0 < w -> fits w a -> fits w b -> a mod 2 ^ w = b mod 2 ^ w -> a = b.
Proof.
  intros Hw Ha Hb H. unfold fits in *. destruct (pow_half w Hw) as [E Hp].
  assert (Hd : (a - b) mod 2 ^ w = 0).
  { rewrite Zminus_mod, H, Z.sub_diag. apply Z.mod_0_l. lia. }
  apply Z.mod_divide in Hd; [|lia]. destruct Hd as [q Hq].
  assert (q = 0) by nia. subst q. lia.
Qed.

(* Sum: intermediate overflows cancel — whenever the mathematical sum fits the
   type, the wrapped loop returns it *)
Lemma sum_w_exact w l : 0 < w -> fits w (sum l) -> sum_w w l = sum l.
Proof.
  intros Hw Hf. destruct (sum_w_spec w l Hw) as [Hm Hr].
  apply (fits_cong_eq w); auto.
Qed.

Lemma sum_by_w_map w f l : sum_by_w w f l = sum_w w (map f l).
Proof.
  unfold sum_by_w, sum_w. generalize 0. induction l as [|x l IH]; intros a; cbn [fold_left map]; auto.
Qed.

(* Abs *)
Lemma abs_w_fits w x : 0 < w -> fits w x -> fits w (abs_w w x).
Proof.
  intros Hw Hx. unfold abs_w. destruct (x <? 0); [apply wrap_range; lia | exact Hx].
Qed.

(* Nth: the wrap-around never shows — for EVERY index of the type, the most
   negative one included, the w-bit code answers what the unbounded reading
   answers *)
Lemma nth_w_eq w l n : 0 < w -> fits w n -> Z.of_nat (length l) < 2 ^ (w - 1) ->
  nth_w w l n = nth_go l n.
Proof.
  intros Hw Hn Hlen. unfold fits in Hn. destruct (pow_half w Hw) as [E Hp].
  unfold nth_w, nth_go, enclose_w, enclose. set (len := Z.of_nat (length l)) in *.
  assert (Hl0 : 0 <= len) by (unfold len; lia).
  destruct (Z.eq_dec n (- 2 ^ (w - 1))) as [Hmin | Hnmin].
  - (* the most negative index: Abs returns it unchanged; len - it wraps to a negative number *)
    destruct (abs_w_spec w n Hw Hn) as [_ Ha]. rewrite (Ha Hmin).
    assert (Hwr : wrap w (len - n) = len - 2 ^ (w - 1)).
    { unfold wrap. subst n. replace (len - - 2 ^ (w - 1) + 2 ^ (w - 1)) with (len + 1 * 2 ^ w) by lia.
      rewrite Z.mod_add by lia. rewrite Z.mod_small by lia. lia. }
    rewrite Hwr.
    replace (n <? 0) with true by lia. replace (len - 2 ^ (w - 1) <? 0) with true by lia.
    replace (len - Z.abs n <? 0) with true by lia.
    rewrite !andb_true_r, !orb_true_r. reflexivity.
  - destruct (abs_w_spec w n Hw Hn) as [Ha _]. rewrite (Ha Hnmin).
    rewrite (wrap_small w (len - Z.abs n)) by lia.
    destruct (((n >=? 0) && (n >? len - 1)) || ((n <? 0) && (len - Z.abs n <? 0))) eqn:Eerr; [reflexivity|].
    set (idx := if (Z.abs n >=? 0) && (Z.abs n <=? len) && (n >=? 0) then n else len - Z.abs n).
    assert (Hidx : idx < len).
    { unfold idx. destruct ((Z.abs n >=? 0) && (Z.abs n <=? len) && (n >=? 0)) eqn:Ee; lia. }
    destruct (idx <? 0) eqn:Eneg; cbn [orb]; [reflexivity|].
    replace (idx >=? len) with false by lia. reflexivity.
Qed.

Lemma nth_w_never_panics w l n : 0 < w -> fits w n -> Z.of_nat (length l) < 2 ^ (w - 1) ->
  nth_w w l n <> Panic.
Proof. intros Hw Hn Hl. rewrite nth_w_eq by assumption. apply nth_go_never_panics. Qed.

(* Range *)
Lemma wrapf_small w z : fits w z -> wrapf w z = z.
Proof. unfold fits, wrapf. intros H. cbn zeta. replace ((- 2 ^ (w - 1) <=? z) && (z <? 2 ^ (w - 1))) with true by lia. reflexivity. Qed.

Lemma wrapf_eq w z : 0 < w -> wrapf w z = wrap w z.
Proof.
  intros Hw. unfold wrapf. cbn zeta.
  destruct ((- 2 ^ (w - 1) <=? z) && (z <? 2 ^ (w - 1))) eqn:E; [|reflexivity].
  symmetry. apply wrap_small; lia.
Qed.

Lemma range_right_w_rev w cap args :
  range_right_w w cap args =
  match range_w w cap args with Ok l => Ok (rev l) | Err k => Err k | Panic => Panic end.
Proof. unfold range_right_w, rev_res. destruct (range_w w cap args); auto. now rewrite rev_alt. Qed.

Lemma range_right_u_rev w cap args :
  range_right_u w cap args =
  match range_u w cap args with Ok l => Ok (rev l) | Err k => Err k | Panic => Panic end.
Proof. unfold range_right_u, rev_res. destruct (range_u w cap args); auto. now rewrite rev_alt. Qed.

(* The repaired loops, for any wrap-around [wr] of a type with values lo..hi.
   What the loop needs of [wr] is stated as a hypothesis about one step: if the
   next term fits, [wr] returns it; if not, the wrapped value lies on the wrong
   side of the counter — which is exactly what the break test looks at. *)
Lemma range_up_g_prog wr lo hi cap n i st e :
  1 <= st -> e <= hi + 1 ->
  (forall j, lo <= j <= hi -> (j + st <= hi -> wr (j + st) = j + st) /\ (hi < j + st -> wr (j + st) < j)) ->
  lo <= i <= hi -> (n <= cap)%nat ->
  (forall x, In x (prog n i st) -> x < e) -> i + Z.of_nat n * st >= e ->
  range_up_g wr cap i st e = Some (prog n i st).
Proof.
  intros Hst He Hstep. revert cap i. induction n as [|n IH]; intros cap i Hi Hcap Hall Hmax.
  - cbn in Hmax. destruct cap; cbn [range_up_g prog]; replace (i <? e) with false by lia; reflexivity.
  - destruct cap as [|cap]; [lia|]. cbn [range_up_g prog].
    assert (Hie : i < e) by (apply Hall; now left).
    replace (i <? e) with true by lia.
    destruct (Hstep i Hi) as [Hfit Hover].
    destruct (Z_le_gt_dec (i + st) hi) as [Hle | Hgt].
    + rewrite (Hfit Hle). replace (i + st <? i) with false by lia.
      rewrite (IH cap (i + st)); [reflexivity | lia | lia | | lia].
      intros x Hx. apply Hall. now right.
    + specialize (Hover ltac:(lia)). replace (wr (i + st) <? i) with true by lia.
      (* the next term does not fit, so it is not below e: the progression ends here *)
      destruct n as [|n]; [reflexivity|].
      exfalso. assert (i + st < e) by (apply Hall; right; now left). lia.
Qed.

Lemma range_down_g_prog wr lo hi cap n i a A e :
  1 <= A -> lo - 1 <= e ->
  (forall j, lo <= j <= hi -> (lo <= j - A -> wr (j - a) = j - A) /\ (j - A < lo -> wr (j - a) > j)) ->
  lo <= i <= hi -> (n <= cap)%nat ->
  (forall x, In x (prog n i (- A)) -> e < x) -> i - Z.of_nat n * A <= e ->
  range_down_g wr cap i a e = Some (prog n i (- A)).
Proof.
  intros Hst He Hstep. revert cap i. induction n as [|n IH]; intros cap i Hi Hcap Hall Hmax.
  - cbn in Hmax. destruct cap; cbn [range_down_g prog]; replace (e <? i) with false by lia; reflexivity.
  - destruct cap as [|cap]; [lia|]. cbn [range_down_g prog].
    assert (Hie : e < i) by (apply Hall; now left).
    replace (e <? i) with true by lia.
    destruct (Hstep i Hi) as [Hfit Hunder].
    replace (i + - A) with (i - A) by lia.
    destruct (Z_le_gt_dec lo (i - A)) as [Hle | Hgt].
    + rewrite (Hfit Hle). replace (i - A >? i) with false by lia.
      rewrite (IH cap (i - A)); [reflexivity | lia | lia | | lia].
      intros x Hx. apply Hall. right. now replace (i + - A) with (i - A) by lia.
    + specialize (Hunder ltac:(lia)). replace (wr (i - a) >? i) with true by lia.
      destruct n as [|n]; [reflexivity|].
      exfalso. assert (e < i + - A) by (apply Hall; right; now left). lia.
Qed.

(* ---- signed w-bit ints ---- *)
Lemma wrapf_over w z : 0 < w -> 2 ^ (w - 1) <= z < 3 * 2 ^ (w - 1) -> wrapf w z = z - 2 ^ w.
Proof.
  intros Hw Hz. rewrite wrapf_eq by exact Hw. unfold wrap. destruct (pow_half w Hw) as [E Hp].
  replace (z + 2 ^ (w - 1)) with ((z - 2 ^ w + 2 ^ (w - 1)) + 1 * 2 ^ w) by lia.
  rewrite Z.mod_add by lia. rewrite Z.mod_small by lia. lia.
Qed.
Lemma wrapf_under w z : 0 < w -> - 3 * 2 ^ (w - 1) <= z < - 2 ^ (w - 1) -> wrapf w z = z + 2 ^ w.
Proof.
  intros Hw Hz. rewrite wrapf_eq by exact Hw. unfold wrap. destruct (pow_half w Hw) as [E Hp].
  replace (z + 2 ^ (w - 1)) with ((z + 2 ^ w + 2 ^ (w - 1)) + (-1) * 2 ^ w) by lia.
  rewrite Z.mod_add by lia. rewrite Z.mod_small by lia. lia.
Qed.

(* one ascending step in a signed type *)
Lemma signed_up_step w st : 0 < w -> 1 <= st -> fits w st ->
  forall j, - 2 ^ (w - 1) <= j <= 2 ^ (w - 1) - 1 ->
    (j + st <= 2 ^ (w - 1) - 1 -> wrapf w (j + st) = j + st) /\
    (2 ^ (w - 1) - 1 < j + st -> wrapf w (j + st) < j).
Proof.
  intros Hw H1 Hst j Hj. unfold fits in Hst. destruct (pow_half w Hw) as [E Hp]. split; intros H.
  - apply wrapf_small. unfold fits. lia.
  - rewrite wrapf_over by lia. lia.
Qed.

(* one descending step: [a] is what Abs(step) returns in the type, [A] the true
   |step|.  They differ for the most negative step only (a = step = -A): then
   i - a = i + A, which wraps to i - A — the true next term — when that fits,
   and is a value above i when it does not: the break test is right there too. *)
Lemma signed_down_step w st : 0 < w -> st <> 0 -> fits w st ->
  forall j, - 2 ^ (w - 1) <= j <= 2 ^ (w - 1) - 1 ->
    (- 2 ^ (w - 1) <= j - Z.abs st -> wrapf w (j - abs_w w st) = j - Z.abs st) /\
    (j - Z.abs st < - 2 ^ (w - 1) -> wrapf w (j - abs_w w st) > j).
Proof.
  intros Hw H0 Hst j Hj. pose proof Hst as Hst'. unfold fits in Hst'. destruct (pow_half w Hw) as [E Hp].
  destruct (abs_w_spec w st Hw Hst) as [Hnorm Hmin].
  destruct (Z.eq_dec st (- 2 ^ (w - 1))) as [Em | Em].
  - rewrite (Hmin Em). subst st. replace (Z.abs (- 2 ^ (w - 1))) with (2 ^ (w - 1)) by lia.
    replace (j - - 2 ^ (w - 1)) with (j + 2 ^ (w - 1)) by lia. split; intros H.
    + rewrite wrapf_over by lia. lia.
    + rewrite wrapf_small by (unfold fits; lia). lia.
  - rewrite (Hnorm Em). split; intros H.
    + apply wrapf_small. unfold fits. lia.
    + rewrite wrapf_under by lia. lia.
Qed.

(* After the repair: for EVERY start / step / end of the type — the limits and
   the most negative step included — the bounded loop returns the progression of
   the unbounded reading (when it has at most cap terms). *)
Lemma range_w_eq w cap args l :
  1 < w -> Forall (fits w) args ->
  range_go args = Ok l -> (length l <= cap)%nat ->
  range_w w cap args = Ok l.
Proof.
  intros Hw1 Hfits Hgo Hlen. assert (Hw : 0 < w) by lia.
  destruct (pow_half w Hw) as [E Hp].
  assert (Hp2 : 2 <= 2 ^ (w - 1)).
  { replace (w - 1) with (1 + (w - 2)) by lia. rewrite Z.pow_add_r by lia.
    assert (0 < 2 ^ (w - 2)) by (apply Z.pow_pos_nonneg; lia). lia. }
  assert (Hvalid : ~ range_invalid args).
  { intros Hi. apply range_errors in Hi as (k & Hk). congruence. }
  assert (Hargs : exists s st e, range_args args = Some (s, st, e) /\ fits w s /\ fits w st /\ fits w e).
  { unfold fits in *. destruct args as [|a [|b [|c [|d args]]]]; cbn [range_args].
    - exists 0, 0, 0. repeat split; lia.
    - inversion Hfits; subst. exists 0, 1, a. repeat split; lia.
    - inversion Hfits as [|? ? Ha Hr]; subst. inversion Hr; subst. exists a, 1, b. repeat split; lia.
    - inversion Hfits as [|? ? Ha Hr]; subst. inversion Hr as [|? ? Hb Hr2]; subst. inversion Hr2; subst.
      exists a, b, c. repeat split; lia.
    - exfalso. apply Hvalid. left. cbn. lia. }
  destruct Hargs as (s & st & e & Hargs & Hs & Hst & He).
  destruct (range_spec args s st e Hargs Hvalid) as (n & Hgo' & Hshape & Hzero).
  rewrite Hgo in Hgo'. injection Hgo' as ->. rewrite prog_length in Hlen.
  unfold fits in Hs, He.
  assert (Hgo_w : forall s0 st0 e0, s0 = s -> st0 = st -> e0 = e ->
            (e >? 0 = true -> s < e -> 1 <= st) -> (e >? 0 = false -> e < s -> st <> 0) ->
            match (if e0 >? 0 then range_up_g (wrapf w) cap s0 st0 e0
                   else range_down_g (wrapf w) cap s0 (abs_w w st0) e0) with
            | Some l => Ok l | None => @Panic (list Z) end
            = Ok (prog n s (if e >? 0 then Z.abs st else - Z.abs st))).
  { intros s0 st0 e0 -> -> -> Hup Hdown. destruct (e >? 0) eqn:Epos.
    - destruct Hshape as [Hall Hmax]. destruct (Z_lt_le_dec s e) as [Hlt | Hge].
      + specialize (Hup eq_refl Hlt). replace (Z.abs st) with st in * by lia.
        rewrite (range_up_g_prog (wrapf w) (- 2 ^ (w - 1)) (2 ^ (w - 1) - 1) cap n s st e); auto; try lia.
        apply signed_up_step; auto.
      + assert (n = 0%nat) as -> by (apply Hzero; lia).
        destruct cap; cbn [range_up_g prog]; replace (s <? e) with false by lia; reflexivity.
    - destruct Hshape as [Hall Hmax]. destruct (Z_lt_le_dec e s) as [Hlt | Hge].
      + specialize (Hdown eq_refl Hlt).
        rewrite (range_down_g_prog (wrapf w) (- 2 ^ (w - 1)) (2 ^ (w - 1) - 1) cap n s (abs_w w st) (Z.abs st) e);
          auto; try lia.
        apply signed_down_step; auto.
      + assert (n = 0%nat) as -> by (apply Hzero; lia).
        destruct cap; cbn [range_down_g prog]; replace (e <? s) with false by lia; reflexivity. }
  unfold range_args in Hargs. unfold range_w, range_g.
  destruct args as [|a [|b [|c [|d args]]]]; try discriminate; injection Hargs as <- <- <-.
  - apply Hgo_w; auto; intros; lia.
  - apply Hgo_w; auto; intros; lia.
  - apply Hgo_w; auto; intros; lia.
  - assert (Hv : ~ ((a > c /\ c > 0) \/ b = 0 \/ (b < 0 /\ c > a))).
    { intros H. apply Hvalid. right. exists a, b, c. auto. }
    replace ((a >? c) && (c >? 0)) with false by lia.
    replace (b =? 0) with false by lia.
    replace ((b <? 0) && (c >? a)) with false by lia.
    apply Hgo_w; auto; intros; lia.
Qed.

(* the validation does no arithmetic: the same argument shapes are rejected *)
Lemma range_g_err wr absf cap args k : range_go args = Err k -> range_g wr absf cap args = Err k.
Proof.
  unfold range_go, range_g.
  destruct args as [|a [|b [|c [|d args]]]]; try (intros H; exact H);
    repeat match goal with |- context [if ?b then _ else _] => destruct b end; try discriminate; auto.
Qed.
Lemma range_w_err w cap args k : range_go args = Err k -> range_w w cap args = Err k.
Proof. apply range_g_err. Qed.

(* ---- unsigned w-bit ints ---- *)
Definition ufits (w z : Z) : Prop := 0 <= z < 2 ^ w.

Lemma range_u_eq w cap args l :
  0 < w -> Forall (ufits w) args ->
  range_go args = Ok l -> (length l <= cap)%nat ->
  range_u w cap args = Ok l.
Proof.
  intros Hw Hfits Hgo Hlen.
  assert (HM : 2 <= 2 ^ w).
  { replace w with (1 + (w - 1)) by lia. rewrite Z.pow_add_r by lia.
    assert (0 < 2 ^ (w - 1)) by (apply Z.pow_pos_nonneg; lia). lia. }
  set (M := 2 ^ w) in *.
  assert (Hvalid : ~ range_invalid args).
  { intros Hi. apply range_errors in Hi as (k & Hk). congruence. }
  assert (Hargs : exists s st e, range_args args = Some (s, st, e) /\ ufits w s /\ ufits w st /\ ufits w e).
  { unfold ufits in *. fold M in Hfits |- *. destruct args as [|a [|b [|c [|d args]]]]; cbn [range_args].
    - exists 0, 0, 0. repeat split; lia.
    - inversion Hfits; subst. exists 0, 1, a. repeat split; lia.
    - inversion Hfits as [|? ? Ha Hr]; subst. inversion Hr; subst. exists a, 1, b. repeat split; lia.
    - inversion Hfits as [|? ? Ha Hr]; subst. inversion Hr as [|? ? Hb Hr2]; subst. inversion Hr2; subst.
      exists a, b, c. repeat split; lia.
    - exfalso. apply Hvalid. left. cbn. lia. }
  destruct Hargs as (s & st & e & Hargs & Hs & Hst & He). unfold ufits in Hs, Hst, He. fold M in Hs, Hst, He.
  destruct (range_spec args s st e Hargs Hvalid) as (n & Hgo' & Hshape & Hzero).
  rewrite Hgo in Hgo'. injection Hgo' as ->. rewrite prog_length in Hlen.
  assert (Hup_step : 1 <= st -> forall j, 0 <= j <= M - 1 ->
            (j + st <= M - 1 -> (j + st) mod M = j + st) /\ (M - 1 < j + st -> (j + st) mod M < j)).
  { intros H1 j Hj. split; intros H.
    - apply Z.mod_small. lia.
    - replace (j + st) with ((j + st - M) + 1 * M) by lia. rewrite Z.mod_add by lia. rewrite Z.mod_small by lia. lia. }
  assert (Hdown_step : 1 <= st -> forall j, 0 <= j <= M - 1 ->
            (0 <= j - st -> (j - st) mod M = j - st) /\ (j - st < 0 -> (j - st) mod M > j)).
  { intros H1 j Hj. split; intros H.
    - apply Z.mod_small. lia.
    - replace (j - st) with ((j - st + M) + (-1) * M) by lia. rewrite Z.mod_add by lia. rewrite Z.mod_small by lia. lia. }
  assert (Hgo_u : forall s0 st0 e0, s0 = s -> st0 = st -> e0 = e ->
            (e >? 0 = true -> s < e -> 1 <= st) -> (e >? 0 = false -> e < s -> 1 <= st) ->
            match (if e0 >? 0 then range_up_g (fun z => z mod M) cap s0 st0 e0
                   else range_down_g (fun z => z mod M) cap s0 (if st0 <? 0 then (- st0) mod M else st0) e0) with
            | Some l => Ok l | None => @Panic (list Z) end
            = Ok (prog n s (if e >? 0 then Z.abs st else - Z.abs st))).
  { intros s0 st0 e0 -> -> -> Hup Hdown. replace (st <? 0) with false by lia.
    replace (Z.abs st) with st in * by lia. destruct (e >? 0) eqn:Epos.
    - destruct Hshape as [Hall Hmax]. destruct (Z_lt_le_dec s e) as [Hlt | Hge].
      + specialize (Hup eq_refl Hlt).
        rewrite (range_up_g_prog (fun z => z mod M) 0 (M - 1) cap n s st e); auto; lia.
      + assert (n = 0%nat) as -> by (apply Hzero; lia).
        destruct cap; cbn [range_up_g prog]; replace (s <? e) with false by lia; reflexivity.
    - destruct Hshape as [Hall Hmax]. destruct (Z_lt_le_dec e s) as [Hlt | Hge].
      + specialize (Hdown eq_refl Hlt).
        rewrite (range_down_g_prog (fun z => z mod M) 0 (M - 1) cap n s st st e); auto; lia.
      + assert (n = 0%nat) as -> by (apply Hzero; lia).
        destruct cap; cbn [range_down_g prog]; replace (e <? s) with false by lia; reflexivity. }
  unfold range_args in Hargs. unfold range_u, range_g. fold M.
  destruct args as [|a [|b [|c [|d args]]]]; try discriminate; injection Hargs as <- <- <-.
  - apply Hgo_u; auto; intros; lia.
  - apply Hgo_u; auto; intros; lia.
  - apply Hgo_u; auto; intros; lia.
  - assert (Hv : ~ ((a > c /\ c > 0) \/ b = 0 \/ (b < 0 /\ c > a))).
    { intros H. apply Hvalid. right. exists a, b, c. auto. }
    replace ((a >? c) && (c >? 0)) with false by lia.
    replace (b =? 0) with false by lia.
    replace ((b <? 0) && (c >? a)) with false by lia.
    apply Hgo_u; auto; intros; lia.
Qed.

(* ---------- the break tests as written after a549427 ---------- *)
(* range.go after a549427 writes the two break tests as  !(i+step > i)  and  !(i-Abs(step) < i)  (so that a
   float counter that no longer moves also stops the loop).  For an integer type they are the tests
   i+step < i  and  i-Abs(step) > i  of the model ([range_up_g], [range_down_g]): a wrapped sum differs from i
   whenever step is a non-zero value of the type. *)
Lemma fits_mod_nz w d : 0 < w -> fits w d -> d <> 0 -> d mod 2 ^ w <> 0.
Proof.
  intros Hw Hd Hd0. destruct (pow_half w Hw) as (E2 & Hp). unfold fits in Hd.
  destruct (Z_lt_le_dec d 0) as [Hn|Hn].
  - assert (d mod 2 ^ w = d + 2 ^ w) by (symmetry; apply Z.mod_unique with (-1); lia). lia.
  - rewrite Z.mod_small by lia. lia.
Qed.
Lemma wrap_add_neq w i d : 0 < w -> d mod 2 ^ w <> 0 -> wrapf w (i + d) <> i.
Proof.
  intros Hw Hd E. destruct (pow_half w Hw) as (E2 & Hp).
  rewrite wrapf_eq in E by exact Hw.
  assert (Hm : (i + d) mod 2 ^ w = i mod 2 ^ w) by (rewrite <- (wrap_mod w (i + d) Hw); now rewrite E).
  apply Hd. replace d with ((i + d) - i) by lia. rewrite Zminus_mod, Hm, Z.sub_diag. apply Z.mod_0_l. lia.
Qed.
Lemma range_break_tests_int w i step : 0 < w -> fits w step -> step <> 0 ->
  (wrapf w (i + step) <? i) = negb (wrapf w (i + step) >? i) /\
  (wrapf w (i - abs_w w step) >? i) = negb (wrapf w (i - abs_w w step) <? i).
Proof.
  intros Hw Hs Hs0. destruct (pow_half w Hw) as (E2 & Hp). split.
  - generalize (wrap_add_neq w i step Hw (fits_mod_nz w step Hw Hs Hs0)). lia.
  - assert (Ha : (abs_w w step) mod 2 ^ w <> 0).
    { unfold abs_w. destruct (Z.ltb_spec step 0).
      - rewrite wrap_mod by exact Hw. unfold fits in Hs.
        destruct (Z.eq_dec step (- 2 ^ (w - 1))) as [->|Hne].
        + rewrite Z.opp_involutive, Z.mod_small by lia. lia.
        + apply fits_mod_nz; auto. unfold fits. lia. lia.
      - now apply fits_mod_nz. }
    assert (Ha' : (- abs_w w step) mod 2 ^ w <> 0).
    { intros H0. apply Ha. apply Z_mod_zero_opp_full in H0. now rewrite Z.opp_involutive in H0. }
    generalize (wrap_add_neq w i (- abs_w w step) Hw Ha').
    replace (i + - abs_w w step) with (i - abs_w w step) by lia. lia.
Qed.
Lemma range_break_tests_uint w i step : 0 < w -> 0 < step < 2 ^ w ->
  ((i + step) mod 2 ^ w <? i) = negb ((i + step) mod 2 ^ w >? i) /\
  ((i - step) mod 2 ^ w >? i) = negb ((i - step) mod 2 ^ w <? i).
Proof.
  intros Hw Hs. assert (Hp : 0 < 2 ^ w) by (apply Z.pow_pos_nonneg; lia).
  assert (Hs0 : step mod 2 ^ w <> 0) by (rewrite Z.mod_small by lia; lia).
  assert (H1 : (i + step) mod 2 ^ w <> i).
  { intros E. apply Hs0. assert (Hm : (i + step) mod 2 ^ w = i mod 2 ^ w) by (rewrite <- E at 2; now rewrite Z.mod_mod by lia).
    replace step with ((i + step) - i) by lia. rewrite Zminus_mod, Hm, Z.sub_diag. apply Z.mod_0_l. lia. }
  assert (H2 : (i - step) mod 2 ^ w <> i).
  { intros E. apply Hs0. assert (Hm : (i - step) mod 2 ^ w = i mod 2 ^ w) by (rewrite <- E at 2; now rewrite Z.mod_mod by lia).
    replace step with (i - (i - step)) by lia. rewrite Zminus_mod, Hm, Z.sub_diag. apply Z.mod_0_l. lia. }
  split; lia.
Qed.
