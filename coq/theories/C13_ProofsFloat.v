(* C13_ProofsFloat.v — lemmas about the float64 instantiations (C13_ModelFloat).

   Sections: (1) an order embedding of the non-NaN float64 values into the reals
   ([xval]: infinities placed beyond every finite value) under which Go's <, <=,
   == are the real comparisons; (2) the running extremum, generically;
   (3) FindMin/FindMax(+By) at float64; (4) Sum as a chain of correctly rounded
   additions; (5) Sum never returns -0, float64(len), Mean, Abs, Clamp, InRange,
   Compare/Less/Equal; (6) Range after a549427; (7) "%.2f" followed by
   ParseFloat; (8) the 64-bit wire codec; (9) ByKey;
   (10) an integer position of every float64 on the number line, strictly monotone under <, and with it the
   termination of the Range loops.

   Flocq's theorems about [Bplus], [Bdiv], [Bcompare] … are used, not re-proved;
   they depend on the standard library's axioms for the classical reals. *)

From Coq Require Import Reals Lra SpecFloat.
From Flocq Require Import Core BinarySingleNaN Bits Plus_error.
From Flocq Require Binary.
From Gogu Require Import Base C13_ModelFloat.


(* ================= (1) order embedding ================= *)
Local Open Scope R_scope.

(* extended value: infinities beyond every finite float64 *)
Definition xval (x : f64) : R :=
  match x with
  | B754_infinity s => if s then - bpow radix2 1024 else bpow radix2 1024
  | _ => B2R x
  end.

Lemma xval_finite x : is_finite x = true -> xval x = B2R x.
Proof. now destruct x. Qed.

Lemma xval_bound x : is_finite x = true -> - bpow radix2 1024 < xval x < bpow radix2 1024.
Proof.
  intros F. rewrite (xval_finite x F).
  generalize (abs_B2R_lt_emax 53 1024 x). intros H.
  apply Rabs_def2 in H. lra.
Qed.

Definition big : R := bpow radix2 1024.
Lemma big_pos : 0 < big. Proof. apply bpow_gt_0. Qed.

Lemma Bcompare_xval (x y : f64) :
  is_nan x = false -> is_nan y = false ->
  Bcompare x y = Some (Rcompare (xval x) (xval y)).
Proof.
  intros Nx Ny.
  generalize big_pos; intros P.
  destruct (is_finite x) eqn:Fx; destruct (is_finite y) eqn:Fy.
  - rewrite Bcompare_correct by assumption. now rewrite !xval_finite.
  - destruct y as [|sy| |]; try discriminate.
    generalize (xval_bound x Fx); intros B. fold big in B.
    rewrite (xval_finite x Fx) in *.
    unfold xval; fold big.
    destruct x as [sx|sx| |sx mx ex Hx]; try discriminate; destruct sy;
      unfold Bcompare; simpl B2SF; simpl SFcompare; try destruct sx;
      apply f_equal; symmetry;
      try (apply Rcompare_Gt; lra); try (apply Rcompare_Lt; lra).
  - destruct x as [|sx| |]; try discriminate.
    generalize (xval_bound y Fy); intros B. fold big in B.
    rewrite (xval_finite y Fy) in *.
    unfold xval at 1; fold big.
    destruct y as [sy|sy| |sy my ey Hy]; try discriminate; destruct sx;
      unfold Bcompare; simpl B2SF; simpl SFcompare; try destruct sy;
      apply f_equal; symmetry;
      try (apply Rcompare_Gt; lra); try (apply Rcompare_Lt; lra).
  - destruct x as [|sx| |]; try discriminate; destruct y as [|sy| |]; try discriminate.
    unfold xval; fold big.
    destruct sx, sy; unfold Bcompare; simpl B2SF; simpl SFcompare; apply f_equal; symmetry;
      try (apply Rcompare_Eq; lra); try (apply Rcompare_Gt; lra); try (apply Rcompare_Lt; lra).
Qed.

Lemma flt_spec x y : is_nan x = false -> is_nan y = false -> flt x y = Rlt_bool (xval x) (xval y).
Proof.
  intros Nx Ny. generalize (Bcompare_xval x y Nx Ny).
  unfold flt, Bltb, SFltb, Bcompare. intros ->.
  case Rcompare_spec; intro H; case Rlt_bool_spec; intro H'; try reflexivity; lra.
Qed.
Lemma fle_spec x y : is_nan x = false -> is_nan y = false -> fle x y = Rle_bool (xval x) (xval y).
Proof.
  intros Nx Ny. generalize (Bcompare_xval x y Nx Ny).
  unfold fle, Bleb, SFleb, Bcompare. intros ->.
  case Rcompare_spec; intro H; case Rle_bool_spec; intro H'; try reflexivity; lra.
Qed.
Lemma feq_spec x y : is_nan x = false -> is_nan y = false -> feq x y = Req_bool (xval x) (xval y).
Proof.
  intros Nx Ny. generalize (Bcompare_xval x y Nx Ny).
  unfold feq, Beqb, SFeqb, Bcompare. intros ->.
  case Rcompare_spec; intro H; case Req_bool_spec; intro H'; try reflexivity; lra.
Qed.

Lemma cmp_nan_l x y : is_nan x = true -> flt x y = false /\ flt y x = false /\ fle x y = false /\ fle y x = false /\ feq x y = false /\ feq y x = false.
Proof. destruct x; try discriminate. intros _. now destruct y as [|[|]| |[|] ? ? ?]. Qed.


(* ================= (2) running extremum, generic ================= *)
Local Open Scope R_scope.

Section Ext.
  Context {A : Type}.
  Variable better : A -> A -> bool.
  Definition ext_step (m x : A) : A := if better x m then x else m.
  Definition ext (d : A) (l : list A) : A := fold_left ext_step l (hd d l).

  Lemma ext_fold_in : forall l m, In (fold_left ext_step l m) (m :: l).
  Proof.
    induction l as [|x l IH]; intros m; simpl; [now left|].
    specialize (IH (ext_step m x)). unfold ext_step in *.
    destruct (better x m); simpl in IH; intuition.
  Qed.

  Lemma ext_in d l : l <> [] -> In (ext d l) l.
  Proof.
    destruct l as [|x l]; [congruence|]. intros _. unfold ext. simpl hd.
    generalize (ext_fold_in (x :: l) x). simpl. intuition.
  Qed.

  Lemma ext_nil d : ext d [] = d.
  Proof. reflexivity. Qed.

  (* elements that never win are skipped *)
  Lemma ext_fold_skip (dead : A -> bool) :
    (forall x m, dead x = true -> better x m = false) ->
    forall l m, fold_left ext_step l m = fold_left ext_step (filter (fun x => negb (dead x)) l) m.
  Proof.
    intros Hd. induction l as [|x l IH]; intros m; simpl; [reflexivity|].
    destruct (dead x) eqn:E; simpl.
    - assert (Hs : ext_step m x = m) by (unfold ext_step; now rewrite (Hd x m E)).
      rewrite Hs. apply IH.
    - apply IH.
  Qed.

  (* an accumulator nothing beats stays *)
  Lemma ext_fold_stuck m : (forall x, better x m = false) -> forall l, fold_left ext_step l m = m.
  Proof.
    intros Hm. induction l as [|x l IH]; simpl; [reflexivity|].
    assert (Hs : ext_step m x = m) by (unfold ext_step; now rewrite Hm).
    now rewrite Hs.
  Qed.

  Variable v : A -> R.
  Variable G : A -> Prop.
  Hypothesis better_lt : forall x y, G x -> G y -> better x y = Rlt_bool (v x) (v y).

  Lemma ext_fold_split : forall rest l1 m mid,
    G m -> Forall G rest ->
    (forall x, In x l1 -> v m < v x) -> (forall x, In x mid -> v m <= v x) ->
    exists k1 k2, l1 ++ m :: mid ++ rest = k1 ++ fold_left ext_step rest m :: k2 /\
      (forall x, In x k1 -> v (fold_left ext_step rest m) < v x) /\
      (forall x, In x k2 -> v (fold_left ext_step rest m) <= v x).
  Proof.
    induction rest as [|x rest IH]; intros l1 m mid Gm Gr H1 H2.
    - exists l1, mid. rewrite app_nil_r. simpl. auto.
    - inversion Gr as [|? ? Gx Gr']; subst. simpl fold_left.
      assert (Hs : ext_step m x = if Rlt_bool (v x) (v m) then x else m)
        by (unfold ext_step; now rewrite (better_lt x m Gx Gm)).
      rewrite Hs. clear Hs.
      case Rlt_bool_spec; intros Hc.
      + destruct (IH (l1 ++ m :: mid) x [] Gx Gr') as (k1 & k2 & E & K1 & K2).
        * intros y Hy. apply in_app_or in Hy. destruct Hy as [Hy|[->|Hy]].
          -- specialize (H1 y Hy). lra.
          -- exact Hc.
          -- specialize (H2 y Hy). lra.
        * intros y [].
        * exists k1, k2. split; [|auto]. rewrite <- E. rewrite <- app_assoc. simpl. reflexivity.
      + destruct (IH l1 m (mid ++ [x]) Gm Gr') as (k1 & k2 & E & K1 & K2).
        * exact H1.
        * intros y Hy. apply in_app_or in Hy. destruct Hy as [Hy|[->|[]]]; auto.
        * exists k1, k2. split; [|auto]. rewrite <- E. rewrite <- app_assoc. simpl. reflexivity.
  Qed.

  Lemma ext_split d l : l <> [] -> Forall G l ->
    exists l1 l2, l = l1 ++ ext d l :: l2 /\
      (forall x, In x l1 -> v (ext d l) < v x) /\
      (forall x, In x l2 -> v (ext d l) <= v x).
  Proof.
    destruct l as [|x l]; [congruence|]. intros _ Gl.
    inversion Gl as [|? ? Gx Gl']; subst.
    unfold ext. simpl hd. simpl fold_left.
    assert (Hs : ext_step x x = x)
      by (unfold ext_step; rewrite (better_lt x x Gx Gx); now rewrite Rlt_bool_false by lra).
    rewrite Hs. clear Hs.
    destruct (ext_fold_split l [] x [] Gx Gl') as (k1 & k2 & E & K1 & K2).
    - intros y [].
    - intros y [].
    - exists k1, k2. simpl in E. auto.
  Qed.
End Ext.

(* a decomposition "everything before strictly worse, everything after no better" names one element *)
Lemma first_min_unique_R {A} (v : A -> R) l1 r l2 k1 r' k2 :
  l1 ++ r :: l2 = k1 ++ r' :: k2 ->
  (forall x, In x l1 -> v r < v x) -> (forall x, In x l2 -> v r <= v x) ->
  (forall x, In x k1 -> v r' < v x) -> (forall x, In x k2 -> v r' <= v x) ->
  l1 = k1 /\ r = r' /\ l2 = k2.
Proof.
  revert k1. induction l1 as [|a l1 IH]; intros k1 E H1 H2 K1 K2.
  - destruct k1 as [|b k1]; simpl in E.
    + injection E as E1 E2. subst. auto.
    + injection E as E1 E2. subst b l2.
      assert (v r' < v r) by (apply K1; now left).
      assert (v r <= v r') by (apply H2; apply in_or_app; right; now left). lra.
  - destruct k1 as [|b k1]; simpl in E.
    + injection E as E1 E2. subst a k2.
      assert (v r < v r') by (apply H1; now left).
      assert (v r' <= v r) by (apply K2; apply in_or_app; right; now left). lra.
    + injection E as E1 E2. subst b.
      destruct (IH k1 E2) as (Ea & Eb & Ec); auto.
      * intros x Hx. apply H1. now right.
      * intros x Hx. apply K1. now right.
      * subst. auto.
Qed.


(* ================= (3) FindMin / FindMax (+By) ================= *)
Local Open Scope R_scope.

Definition nonan_key (k : f64 -> f64) (x : f64) : Prop := is_nan (k x) = false.

Lemma ffind_min_by_ext k l : ffind_min_by k l = ext (fun x m => flt (k x) (k m)) fpz l.
Proof. reflexivity. Qed.
Lemma ffind_max_by_ext k l : ffind_max_by k l = ext (fun x m => fgt (k x) (k m)) fpz l.
Proof. reflexivity. Qed.
Lemma ffind_min_ext l : ffind_min l = ffind_min_by (fun x => x) l.
Proof. reflexivity. Qed.
Lemma ffind_max_ext l : ffind_max l = ffind_max_by (fun x => x) l.
Proof. reflexivity. Qed.

Lemma ffind_min_by_in k l : l <> [] -> In (ffind_min_by k l) l.
Proof. rewrite ffind_min_by_ext. apply ext_in. Qed.
Lemma ffind_max_by_in k l : l <> [] -> In (ffind_max_by k l) l.
Proof. rewrite ffind_max_by_ext. apply ext_in. Qed.

Lemma ffind_min_by_split k l : l <> [] -> Forall (nonan_key k) l ->
  exists l1 l2, l = l1 ++ ffind_min_by k l :: l2 /\
    (forall x, In x l1 -> xval (k (ffind_min_by k l)) < xval (k x)) /\
    (forall x, In x l2 -> xval (k (ffind_min_by k l)) <= xval (k x)).
Proof.
  intros Hl Hn. rewrite ffind_min_by_ext.
  apply (ext_split (fun x m => flt (k x) (k m)) (fun x => xval (k x)) (nonan_key k)); auto.
  intros x y Hx Hy. now apply flt_spec.
Qed.

Lemma ffind_max_by_split k l : l <> [] -> Forall (nonan_key k) l ->
  exists l1 l2, l = l1 ++ ffind_max_by k l :: l2 /\
    (forall x, In x l1 -> xval (k x) < xval (k (ffind_max_by k l))) /\
    (forall x, In x l2 -> xval (k x) <= xval (k (ffind_max_by k l))).
Proof.
  intros Hl Hn. rewrite ffind_max_by_ext.
  destruct (ext_split (fun x m => fgt (k x) (k m)) (fun x => - xval (k x)) (nonan_key k)) with (d := fpz) (l := l)
    as (l1 & l2 & E & H1 & H2); auto.
  - intros x y Hx Hy. unfold fgt. rewrite flt_spec by assumption.
    case Rlt_bool_spec; intro; case Rlt_bool_spec; intro; try reflexivity; lra.
  - exists l1, l2. split; [exact E|]. split; intros x Hx.
    + specialize (H1 x Hx). lra.
    + specialize (H2 x Hx). lra.
Qed.

Lemma ffind_min_by_skips_nan k x l :
  ffind_min_by k (x :: l) = ffind_min_by k (x :: filter (fun y => negb (is_nan (k y))) l).
Proof.
  rewrite !ffind_min_by_ext. unfold ext. simpl hd. simpl fold_left.
  apply (ext_fold_skip (fun x m => flt (k x) (k m)) (fun y => is_nan (k y))).
  intros y m Hy. now destruct (cmp_nan_l (k y) (k m) Hy) as (? & _).
Qed.
Lemma ffind_max_by_skips_nan k x l :
  ffind_max_by k (x :: l) = ffind_max_by k (x :: filter (fun y => negb (is_nan (k y))) l).
Proof.
  rewrite !ffind_max_by_ext. unfold ext. simpl hd. simpl fold_left.
  apply (ext_fold_skip (fun x m => fgt (k x) (k m)) (fun y => is_nan (k y))).
  intros y m Hy. unfold fgt. now destruct (cmp_nan_l (k y) (k m) Hy) as (_ & ? & _).
Qed.

Lemma ffind_min_by_nan_head k x l : is_nan (k x) = true -> ffind_min_by k (x :: l) = x.
Proof.
  intros Hx. rewrite ffind_min_by_ext. unfold ext. simpl hd.
  apply (ext_fold_stuck (fun x m => flt (k x) (k m))).
  intros y. now destruct (cmp_nan_l (k x) (k y) Hx) as (_ & ? & _).
Qed.
Lemma ffind_max_by_nan_head k x l : is_nan (k x) = true -> ffind_max_by k (x :: l) = x.
Proof.
  intros Hx. rewrite ffind_max_by_ext. unfold ext. simpl hd.
  apply (ext_fold_stuck (fun x m => fgt (k x) (k m))).
  intros y. unfold fgt. now destruct (cmp_nan_l (k x) (k y) Hx) as (? & _).
Qed.

(* corollary in the code's own comparison: with no NaN the minimum is <= every element *)
Lemma ffind_min_le l : Forall (fun x => is_nan x = false) l ->
  forall y, In y l -> fle (ffind_min l) y = true.
Proof.
  intros Hn y Hy. assert (Hl : l <> []) by (intro; subst; inversion Hy).
  destruct (ffind_min_by_split (fun x => x) l Hl Hn) as (l1 & l2 & E & H1 & H2).
  cbv beta in H1, H2. rewrite ffind_min_ext.
  assert (Nr : is_nan (ffind_min_by (fun x => x) l) = false).
  { rewrite Forall_forall in Hn. apply Hn. now apply ffind_min_by_in. }
  rewrite Forall_forall in Hn. rewrite fle_spec by auto.
  apply Rle_bool_true.
  rewrite E in Hy. apply in_app_or in Hy. destruct Hy as [Hy|[<-|Hy]].
  - specialize (H1 y Hy). lra.
  - lra.
  - auto.
Qed.
Lemma ffind_max_ge l : Forall (fun x => is_nan x = false) l ->
  forall y, In y l -> fle y (ffind_max l) = true.
Proof.
  intros Hn y Hy. assert (Hl : l <> []) by (intro; subst; inversion Hy).
  destruct (ffind_max_by_split (fun x => x) l Hl Hn) as (l1 & l2 & E & H1 & H2).
  cbv beta in H1, H2. rewrite ffind_max_ext.
  assert (Nr : is_nan (ffind_max_by (fun x => x) l) = false).
  { rewrite Forall_forall in Hn. apply Hn. now apply ffind_max_by_in. }
  rewrite Forall_forall in Hn. rewrite fle_spec by auto.
  apply Rle_bool_true.
  rewrite E in Hy. apply in_app_or in Hy. destruct Hy as [Hy|[<-|Hy]].
  - specialize (H1 y Hy). lra.
  - lra.
  - auto.
Qed.


(* ================= (4) Sum ================= *)
Local Open Scope R_scope.

Notation fexp64 := (FLT_exp (3 - 1024 - 53) 53).
Definition fmt64 (r : R) : Prop := generic_format radix2 fexp64 r.
Definition rne (r : R) : R := round radix2 fexp64 ZnearestE r.
Definition rsum (l : list f64) : R := fold_left Rplus (map B2R l) 0.

Lemma fsum_nil : fsum [] = fpz.
Proof. reflexivity. Qed.
Lemma fsum_snoc l x : fsum (l ++ [x]) = fadd (fsum l) x.
Proof. unfold fsum. now rewrite fold_left_app. Qed.
Lemma rsum_snoc l x : rsum (l ++ [x]) = rsum l + B2R x.
Proof. unfold rsum. now rewrite map_app, fold_left_app. Qed.

Lemma fadd_nan_l y : fadd B754_nan y = B754_nan.
Proof. reflexivity. Qed.
Lemma fadd_nan_r x : fadd x B754_nan = B754_nan.
Proof. now destruct x. Qed.

Lemma fold_fadd_nan l : fold_left fadd l B754_nan = B754_nan.
Proof. induction l; simpl; auto. Qed.

Lemma fsum_nan l : (exists x, In x l /\ is_nan x = true) -> fsum l = B754_nan.
Proof.
  intros (x & Hx & Nx). destruct x; try discriminate. clear Nx.
  unfold fsum. generalize fpz. induction l as [|y l IH]; intros acc; [inversion Hx|].
  simpl. destruct Hx as [->|Hx].
  - rewrite fadd_nan_r. apply fold_fadd_nan.
  - now apply IH.
Qed.

(* every += is ONE correctly rounded addition *)
Lemma fadd_finite_spec a x : is_finite a = true -> is_finite x = true ->
  Rabs (rne (B2R a + B2R x)) < bpow radix2 1024 ->
  is_finite (fadd a x) = true /\ B2R (fadd a x) = rne (B2R a + B2R x).
Proof.
  intros Fa Fx Hb. generalize (Bplus_correct 53 1024 _ _ mode_NE a x Fa Fx).
  simpl round_mode. fold (rne (B2R a + B2R x)).
  rewrite Rlt_bool_true by exact Hb. intros (H1 & H2 & _). auto.
Qed.
Lemma fadd_overflow a x : is_finite a = true -> is_finite x = true ->
  bpow radix2 1024 <= Rabs (rne (B2R a + B2R x)) ->
  fadd a x = B754_infinity (Bsign a) /\ Bsign a = Bsign x.
Proof.
  intros Fa Fx Hb. generalize (Bplus_correct 53 1024 _ _ mode_NE a x Fa Fx).
  simpl round_mode. fold (rne (B2R a + B2R x)).
  rewrite Rlt_bool_false by exact Hb. intros (H1 & H2). split; [|exact H2].
  unfold binary_overflow in H1. simpl in H1. unfold fadd.
  destruct (Bplus mode_NE a x); try discriminate. simpl in H1. now injection H1 as ->.
Qed.

Lemma fsum_exact l : Forall (fun x => is_finite x = true) l ->
  (forall k, (k <= length l)%nat ->
     fmt64 (rsum (firstn k l)) /\ Rabs (rsum (firstn k l)) < bpow radix2 1024) ->
  is_finite (fsum l) = true /\ B2R (fsum l) = rsum l.
Proof.
  induction l as [|x l IH] using rev_ind; intros Fl Hp.
  - split; [reflexivity|]. unfold rsum. simpl. reflexivity.
  - apply Forall_app in Fl. destruct Fl as (Fl & Fx). inversion Fx as [|? ? Fx' _]; subst.
    destruct IH as (Fs & Es); auto.
    { intros k Hk. specialize (Hp k). rewrite app_length in Hp. simpl in Hp.
      rewrite firstn_app in Hp. replace (k - length l)%nat with O in Hp by lia.
      simpl in Hp. rewrite app_nil_r in Hp. apply Hp. lia. }
    specialize (Hp (length (l ++ [x])) (le_n _)). rewrite firstn_all in Hp.
    destruct Hp as (Hf & Hb). rewrite rsum_snoc in Hf, Hb.
    rewrite fsum_snoc, rsum_snoc.
    assert (Hr : rne (B2R (fsum l) + B2R x) = rsum l + B2R x).
    { rewrite Es. unfold rne. apply round_generic; auto with typeclass_instances. }
    destruct (fadd_finite_spec (fsum l) x Fs Fx') as (F' & E').
    { now rewrite Hr. }
    split; [exact F'|]. now rewrite E', Hr.
Qed.

(* integers of magnitude below 2^53 are float64 values *)
Lemma fmt64_int n : (Z.abs n < 2 ^ 53)%Z -> fmt64 (IZR n).
Proof.
  intros Hn. unfold fmt64. apply generic_format_FLT.
  exists (Float radix2 n 0); simpl.
  - unfold F2R. simpl. lra.
  - exact Hn.
  - lia.
Qed.


(* ================= (5) -0, Mean, Abs, Clamp, InRange, Compare ================= *)
Local Open Scope R_scope.

(* ---- Sum never returns -0 ---- *)
Lemma finite_neg_lt0 (m : positive) e H : B2R (B754_finite true m e H : f64) < 0.
Proof. simpl. now apply F2R_lt_0. Qed.
Lemma finite_pos_gt0 (m : positive) e H : 0 < B2R (B754_finite false m e H : f64).
Proof. simpl. now apply F2R_gt_0. Qed.

Lemma fadd_not_nz a x : a <> fnz -> fadd a x <> fnz.
Proof.
  intros Ha.
  destruct a as [sa|sa| |sa ma ea Ha'] eqn:Ea.
  - destruct sa; [now elim Ha|].
    destruct x as [[|]|[|]| |sx mx ex Hx]; unfold fadd, fnz; simpl; discriminate.
  - destruct x as [sx|sx| |sx mx ex Hx]; unfold fadd, fnz; simpl; try discriminate.
    destruct (Bool.eqb sa sx); discriminate.
  - unfold fadd, fnz; simpl; discriminate.
  - destruct x as [sx|sx| |sx mx ex Hx] eqn:Ex; try (unfold fadd, fnz; simpl; discriminate).
    rewrite <- Ea, <- Ex. intros Hz.
    assert (Fa : is_finite a = true) by now subst.
    assert (Fx : is_finite x = true) by now subst.
    generalize (Bplus_correct 53 1024 _ _ mode_NE a x Fa Fx).
    fold (fadd a x). rewrite Hz. simpl round_mode.
    case Rlt_bool_spec; intros Hb.
    + intros (H1 & _ & H3). simpl in H1, H3.
      symmetry in H1.
      change (SpecFloat.fexp 53 1024) with fexp64 in H1.
      assert (H0 := round_plus_eq_0 radix2 fexp64 ZnearestE (B2R a) (B2R x)
                      (generic_format_B2R 53 1024 a) (generic_format_B2R 53 1024 x) H1).
      rewrite H0 in H3. rewrite Rcompare_Eq in H3 by reflexivity.
      symmetry in H3. apply andb_prop in H3. destruct H3 as (Sa & Sx).
      subst a x. simpl in Sa, Sx. subst sa sx.
      generalize (finite_neg_lt0 ma ea Ha') (finite_neg_lt0 mx ex Hx). lra.
    + intros (H1 & _). discriminate.
Qed.

Lemma fsum_not_neg_zero l : fsum l <> fnz.
Proof.
  unfold fsum. assert (H : fpz <> fnz) by discriminate. revert H. generalize fpz.
  induction l as [|x l IH]; intros acc Hacc; simpl; [exact Hacc|].
  apply IH. now apply fadd_not_nz.
Qed.

(* ---- float64(len), Mean ---- *)
Lemma f_of_int_exact n : (Z.abs n < 2 ^ 53)%Z ->
  is_finite (f_of_int n) = true /\ B2R (f_of_int n) = IZR n.
Proof.
  intros Hn. generalize (binary_normalize_correct 53 1024 _ _ mode_NE n 0 false).
  cbv zeta. fold (f_of_int n). simpl round_mode.
  assert (E : F2R (Float radix2 n 0) = IZR n) by (unfold F2R; simpl; lra).
  rewrite E. change (SpecFloat.fexp 53 1024) with fexp64. rewrite round_generic; auto with typeclass_instances.
  2: now apply fmt64_int.
  rewrite Rlt_bool_true.
  - intros (H1 & H2 & _). auto.
  - rewrite <- abs_IZR. change (bpow radix2 1024) with (IZR (2 ^ 1024)).
    apply IZR_lt. apply Z.lt_trans with (1 := Hn). reflexivity.
Qed.

Lemma fmean_nil : fmean [] = B754_nan.
Proof. reflexivity. Qed.

Lemma fmean_spec l : l <> [] -> (Z.of_nat (length l) < 2 ^ 53)%Z ->
  is_finite (fsum l) = true ->
  Rabs (rne (B2R (fsum l) / INR (length l))) < bpow radix2 1024 ->
  is_finite (fmean l) = true /\ B2R (fmean l) = rne (B2R (fsum l) / INR (length l)).
Proof.
  intros Hl Hn Fs Hb.
  destruct (f_of_int_exact (Z.of_nat (length l))) as (Fd & Ed); [lia|].
  rewrite <- INR_IZR_INZ in Ed.
  assert (Hnz : B2R (f_of_int (Z.of_nat (length l))) <> 0).
  { rewrite Ed. apply not_0_INR. destruct l; [congruence|discriminate]. }
  generalize (Bdiv_correct 53 1024 _ _ mode_NE (fsum l) _ Hnz).
  simpl round_mode. rewrite Ed. change (SpecFloat.fexp 53 1024) with fexp64.
  fold (rne (B2R (fsum l) / INR (length l))).
  rewrite Rlt_bool_true by exact Hb. intros (H1 & H2 & _).
  unfold fmean, fdiv. rewrite H2. auto.
Qed.

(* ---- Abs ---- *)
Lemma fabs_go_spec x : x <> fnz -> fabs_go x = Babs x.
Proof.
  destruct x as [[|]|[|]| |[|] m e H]; intros Hx; try reflexivity. now elim Hx.
Qed.
Lemma fabs_go_neg_zero : fabs_go fnz = fnz.
Proof. reflexivity. Qed.
Lemma fabs_go_B2R x : B2R (fabs_go x) = Rabs (B2R x).
Proof.
  destruct x as [[|]|[|]| |[|] m e H]; try (simpl; now rewrite Rabs_R0).
  - rewrite fabs_go_spec by discriminate. apply B2R_Babs.
  - rewrite fabs_go_spec by discriminate. apply B2R_Babs.
Qed.
Lemma fabs_go_sign x : is_nan x = false -> x <> fnz -> Bsign (fabs_go x) = false.
Proof. intros Nx Hx. rewrite fabs_go_spec by exact Hx. now destruct x. Qed.

(* ---- Clamp, InRange ---- *)
Lemma fclamp_spec n lo hi :
  is_nan n = false -> is_nan lo = false -> is_nan hi = false -> fle lo hi = true ->
  xval (fclamp n lo hi) = Rmax (xval lo) (Rmin (xval n) (xval hi)) /\
  (fclamp n lo hi = n \/ fclamp n lo hi = lo \/ fclamp n lo hi = hi).
Proof.
  intros Nn Nl Nh Hlh. rewrite fle_spec in Hlh by assumption.
  apply Rle_bool_true_iff in Hlh || (revert Hlh; case Rle_bool_spec; [intros Hlh _|discriminate]).
  unfold fclamp. change (fge n hi) with (fle hi n). rewrite !fle_spec by assumption.
  case Rle_bool_spec; intros H1; [|case Rle_bool_spec; intros H2].
  - split; [|auto]. unfold Rmax, Rmin. repeat destruct Rle_dec; lra.
  - split; [|auto]. unfold Rmax, Rmin. repeat destruct Rle_dec; lra.
  - split; [|auto]. unfold Rmax, Rmin. repeat destruct Rle_dec; lra.
Qed.
Lemma fclamp_nan_num lo hi : fclamp B754_nan lo hi = B754_nan.
Proof. now destruct hi as [|[|]| |[|]]. Qed.
Lemma fclamp_nan_lo n hi : fclamp n B754_nan hi = if fge n hi then hi else n.
Proof. now destruct n as [|[|]| |[|]]. Qed.
Lemma fclamp_nan_hi n lo : fclamp n lo B754_nan = if fle n lo then lo else n.
Proof. reflexivity. Qed.

Lemma fin_range_spec n lo hi :
  is_nan n = false -> is_nan lo = false -> is_nan hi = false ->
  (fin_range n lo hi = true <-> xval lo <= xval n <= xval hi).
Proof.
  intros Nn Nl Nh. unfold fin_range. change (fge n lo) with (fle lo n). rewrite !fle_spec by assumption.
  do 2 case Rle_bool_spec; simpl; intros; split; intros; try discriminate; try lra; auto.
Qed.
Lemma fin_range_nan n lo hi :
  is_nan n = true \/ is_nan lo = true \/ is_nan hi = true -> fin_range n lo hi = false.
Proof.
  unfold fin_range. change (fge n lo) with (fle lo n). intros [H|[H|H]].
  - destruct (cmp_nan_l n lo H) as (_ & _ & _ & -> & _). reflexivity.
  - destruct (cmp_nan_l lo n H) as (_ & _ & -> & _). reflexivity.
  - destruct (cmp_nan_l hi n H) as (_ & _ & _ & -> & _). apply andb_false_r.
Qed.

(* ---- Compare, Less, Equal ---- *)
Lemma fcompare_lt_spec a b : is_nan a = false -> is_nan b = false ->
  fcompare_go flt a b = match Rcompare (xval a) (xval b) with Lt => 1 | Eq => 0 | Gt => -1 end%Z.
Proof.
  intros Na Nb. unfold fcompare_go. rewrite !flt_spec by assumption.
  destruct (Rcompare_spec (xval a) (xval b)) as [H|H|H];
    destruct (Rlt_bool_spec (xval a) (xval b)) as [H1|H1];
    destruct (Rlt_bool_spec (xval b) (xval a)) as [H2|H2]; try reflexivity; lra.
Qed.
Lemma fcompare_gt_spec a b : is_nan a = false -> is_nan b = false ->
  fcompare_go fgt a b = match Rcompare (xval a) (xval b) with Lt => -1 | Eq => 0 | Gt => 1 end%Z.
Proof.
  intros Na Nb. unfold fcompare_go. change (fgt a b) with (flt b a). change (fgt b a) with (flt a b).
  rewrite !flt_spec by assumption.
  destruct (Rcompare_spec (xval a) (xval b)) as [H|H|H];
    destruct (Rlt_bool_spec (xval a) (xval b)) as [H1|H1];
    destruct (Rlt_bool_spec (xval b) (xval a)) as [H2|H2]; try reflexivity; lra.
Qed.
Lemma fcompare_nan c a b : (c = flt \/ c = fgt) -> is_nan a = true \/ is_nan b = true -> fcompare_go c a b = 0%Z.
Proof.
  intros Hc [H|H]; unfold fcompare_go; destruct Hc as [-> | ->].
  - now destruct (cmp_nan_l a b H) as (-> & -> & _).
  - change (fgt a b) with (flt b a). change (fgt b a) with (flt a b).
    now destruct (cmp_nan_l a b H) as (-> & -> & _).
  - now destruct (cmp_nan_l b a H) as (-> & -> & _).
  - change (fgt a b) with (flt b a). change (fgt b a) with (flt a b).
    now destruct (cmp_nan_l b a H) as (-> & -> & _).
Qed.
Lemma fless_spec a b : is_nan a = false -> is_nan b = false -> (fless_go a b = true <-> xval a < xval b).
Proof.
  intros Na Nb. unfold fless_go. rewrite flt_spec by assumption.
  case Rlt_bool_spec; intros; split; intros; try discriminate; try lra; auto.
Qed.
Lemma fequal_spec a b : is_nan a = false -> is_nan b = false -> (fequal_go a b = true <-> xval a = xval b).
Proof.
  intros Na Nb. unfold fequal_go. rewrite feq_spec by assumption.
  case Req_bool_spec; intros; split; intros; try discriminate; try lra; auto.
Qed.
Lemma fless_equal_nan a b : is_nan a = true \/ is_nan b = true -> fless_go a b = false /\ fequal_go a b = false.
Proof.
  unfold fless_go, fequal_go. intros [H|H].
  - now destruct (cmp_nan_l a b H) as (-> & _ & _ & _ & -> & _).
  - now destruct (cmp_nan_l b a H) as (_ & -> & _ & _ & _ & ->).
Qed.
(* equal extended values: the same float, or the two zeros *)
Lemma xval_eq a b : is_nan a = false -> is_nan b = false -> xval a = xval b ->
  a = b \/ (exists s t, a = B754_zero s /\ b = B754_zero t).
Proof.
  intros Na Nb E.
  generalize big_pos; intros P.
  destruct (is_finite a) eqn:Fa; destruct (is_finite b) eqn:Fb.
  - rewrite !xval_finite in E by assumption.
    destruct a as [sa| | |sa ma ea Ha]; try discriminate; destruct b as [sb| | |sb mb eb Hb]; try discriminate.
    + right. eauto.
    + exfalso. change (B2R (B754_zero sa : f64)) with 0 in E. destruct sb.
      * generalize (finite_neg_lt0 mb eb Hb). lra.
      * generalize (finite_pos_gt0 mb eb Hb). lra.
    + exfalso. change (B2R (B754_zero sb : f64)) with 0 in E. destruct sa.
      * generalize (finite_neg_lt0 ma ea Ha). lra.
      * generalize (finite_pos_gt0 ma ea Ha). lra.
    + left. apply B2R_Bsign_inj; auto.
      destruct sa, sb; simpl Bsign; auto; exfalso.
      * generalize (finite_neg_lt0 ma ea Ha) (finite_pos_gt0 mb eb Hb). lra.
      * generalize (finite_pos_gt0 ma ea Ha) (finite_neg_lt0 mb eb Hb). lra.
  - exfalso. generalize (xval_bound a Fa). fold big. destruct b as [|[|]| |]; try discriminate; unfold xval in E at 2; fold big in E; lra.
  - exfalso. generalize (xval_bound b Fb). fold big. destruct a as [|[|]| |]; try discriminate; unfold xval in E at 1; fold big in E; lra.
  - destruct a as [|[|]| |]; try discriminate; destruct b as [|[|]| |]; try discriminate; auto;
      exfalso; unfold xval in E; fold big in E; lra.
Qed.


(* ================= (6) Range ================= *)
Local Open Scope R_scope.

Lemma frange_up_eq fuel i step e acc :
  frange_up fuel i step e acc =
  if flt i e then
    if negb (flt (round2 i) e) then FOk (rev_append acc [])
    else if negb (fgt (fadd i step) i) then FOk (rev_append (round2 i :: acc) [])
    else match fuel with
         | O => FFuel
         | S f => frange_up f (fadd i step) step e (round2 i :: acc)
         end
  else FOk (rev_append acc []).
Proof. destruct fuel; reflexivity. Qed.
Lemma frange_down_eq fuel i astep e acc :
  frange_down fuel i astep e acc =
  if flt e i then
    if negb (flt e (round2 i)) then FOk (rev_append acc [])
    else if negb (flt (fsub i astep) i) then FOk (rev_append (round2 i :: acc) [])
    else match fuel with
         | O => FFuel
         | S f => frange_down f (fsub i astep) astep e (round2 i :: acc)
         end
  else FOk (rev_append acc []).
Proof. destruct fuel; reflexivity. Qed.

Lemma in_rev_append {A} (t : A) acc b : In t (rev_append acc b) -> In t acc \/ In t b.
Proof. rewrite rev_append_rev. intros H. apply in_app_or in H. destruct H as [H|H]; auto. left. now apply in_rev. Qed.

Lemma frange_up_before fuel : forall i step e acc l,
  (forall t, In t acc -> flt t e = true) ->
  frange_up fuel i step e acc = FOk l -> forall t, In t l -> flt t e = true.
Proof.
  induction fuel as [|f IH]; intros i step e acc l Hacc; rewrite frange_up_eq.
  - destruct (flt i e).
    + destruct (flt (round2 i) e) eqn:Hn; simpl negb; cbv iota.
      * destruct (fgt (fadd i step) i); simpl negb; cbv iota; [discriminate|].
        intros [= <-] t Ht. apply in_rev_append in Ht. destruct Ht as [Ht|[<-|[]]]; auto.
      * intros [= <-] t Ht. apply in_rev_append in Ht. destruct Ht as [Ht|[]]. now apply Hacc.
    + intros [= <-] t Ht. apply in_rev_append in Ht. destruct Ht as [Ht|[]]. now apply Hacc.
  - destruct (flt i e).
    + destruct (flt (round2 i) e) eqn:Hn; simpl negb; cbv iota.
      * destruct (fgt (fadd i step) i); simpl negb; cbv iota.
        -- apply IH. intros t [<-|Ht]; auto.
        -- intros [= <-] t Ht. apply in_rev_append in Ht. destruct Ht as [Ht|[<-|[]]]; auto.
      * intros [= <-] t Ht. apply in_rev_append in Ht. destruct Ht as [Ht|[]]. now apply Hacc.
    + intros [= <-] t Ht. apply in_rev_append in Ht. destruct Ht as [Ht|[]]. now apply Hacc.
Qed.
Lemma frange_down_before fuel : forall i astep e acc l,
  (forall t, In t acc -> flt e t = true) ->
  frange_down fuel i astep e acc = FOk l -> forall t, In t l -> flt e t = true.
Proof.
  induction fuel as [|f IH]; intros i astep e acc l Hacc; rewrite frange_down_eq.
  - destruct (flt e i).
    + destruct (flt e (round2 i)) eqn:Hn; simpl negb; cbv iota.
      * destruct (flt (fsub i astep) i); simpl negb; cbv iota; [discriminate|].
        intros [= <-] t Ht. apply in_rev_append in Ht. destruct Ht as [Ht|[<-|[]]]; auto.
      * intros [= <-] t Ht. apply in_rev_append in Ht. destruct Ht as [Ht|[]]. now apply Hacc.
    + intros [= <-] t Ht. apply in_rev_append in Ht. destruct Ht as [Ht|[]]. now apply Hacc.
  - destruct (flt e i).
    + destruct (flt e (round2 i)) eqn:Hn; simpl negb; cbv iota.
      * destruct (flt (fsub i astep) i); simpl negb; cbv iota.
        -- apply IH. intros t [<-|Ht]; auto.
        -- intros [= <-] t Ht. apply in_rev_append in Ht. destruct Ht as [Ht|[<-|[]]]; auto.
      * intros [= <-] t Ht. apply in_rev_append in Ht. destruct Ht as [Ht|[]]. now apply Hacc.
    + intros [= <-] t Ht. apply in_rev_append in Ht. destruct Ht as [Ht|[]]. now apply Hacc.
Qed.

Definition fbefore (e t : f64) : bool := if fgt e fpz then flt t e else flt e t.

Lemma frange_go_before cap s st e l :
  (if fgt e fpz then frange_up cap s st e [] else frange_down cap s (fabs_go st) e []) = FOk l ->
  forall t, In t l -> fbefore e t = true.
Proof.
  unfold fbefore. destruct (fgt e fpz); intros H t Ht.
  - apply (frange_up_before cap s st e [] l); auto.
  - apply (frange_down_before cap s (fabs_go st) e [] l); auto.
Qed.

Lemma frange_before_end cap args l e :
  frange cap args = FOk l ->
  (args = [e] \/ (exists s, args = [s; e]) \/ (exists s st, args = [s; st; e])) ->
  forall t, In t l -> fbefore e t = true.
Proof.
  intros H Ha t Ht. destruct Ha as [->|[(s & ->)|(s & st & ->)]]; unfold frange in H.
  - exact (frange_go_before _ _ _ _ _ H t Ht).
  - exact (frange_go_before _ _ _ _ _ H t Ht).
  - destruct (fgt s e && fgt e fpz); [discriminate|].
    destruct (feq st fpz); [discriminate|].
    destruct (flt st fpz && fgt e s); [discriminate|].
    exact (frange_go_before _ _ _ _ _ H t Ht).
Qed.

Lemma fbefore_real e t : fbefore e t = true ->
  is_nan t = false /\ is_nan e = false /\
  (if fgt e fpz then xval t < xval e else xval e < xval t).
Proof.
  unfold fbefore. destruct (fgt e fpz); intros H.
  - destruct (is_nan t) eqn:Nt; [destruct (cmp_nan_l t e Nt) as (E & _); congruence|].
    destruct (is_nan e) eqn:Ne; [destruct (cmp_nan_l e t Ne) as (_ & E & _); congruence|].
    rewrite flt_spec in H by assumption. revert H. case Rlt_bool_spec; auto; discriminate.
  - destruct (is_nan t) eqn:Nt; [destruct (cmp_nan_l t e Nt) as (_ & E & _); congruence|].
    destruct (is_nan e) eqn:Ne; [destruct (cmp_nan_l e t Ne) as (E & _); congruence|].
    rewrite flt_spec in H by assumption. revert H. case Rlt_bool_spec; auto; discriminate.
Qed.

(* the loops return as soon as the counter no longer moves, whatever the budget *)
Lemma frange_up_stuck fuel i step e acc :
  fgt (fadd i step) i = false ->
  exists l, frange_up fuel i step e acc = FOk l.
Proof.
  intros H. rewrite frange_up_eq. rewrite H. simpl negb.
  destruct (flt i e); [|eauto]. destruct (negb (flt (round2 i) e)); eauto.
Qed.
Lemma frange_down_stuck fuel i astep e acc :
  flt (fsub i astep) i = false ->
  exists l, frange_down fuel i astep e acc = FOk l.
Proof.
  intros H. rewrite frange_down_eq. rewrite H. simpl negb.
  destruct (flt e i); [|eauto]. destruct (negb (flt e (round2 i))); eauto.
Qed.
(* and when it recurses, the counter has moved strictly toward end *)
Lemma frange_up_moves f i step e acc :
  flt i e = true -> flt (round2 i) e = true -> fgt (fadd i step) i = true ->
  frange_up (S f) i step e acc = frange_up f (fadd i step) step e (round2 i :: acc).
Proof. intros H1 H2 H3. rewrite frange_up_eq, H1, H2, H3. reflexivity. Qed.
Lemma frange_down_moves f i astep e acc :
  flt e i = true -> flt e (round2 i) = true -> flt (fsub i astep) i = true ->
  frange_down (S f) i astep e acc = frange_down f (fsub i astep) astep e (round2 i :: acc).
Proof. intros H1 H2 H3. rewrite frange_down_eq, H1, H2, H3. reflexivity. Qed.

Lemma frange_up_no_err fuel : forall i step e acc k, frange_up fuel i step e acc <> FErr k.
Proof.
  induction fuel as [|f IH]; intros i step e acc k; rewrite frange_up_eq;
    destruct (flt i e); try discriminate; destruct (negb (flt (round2 i) e)); try discriminate;
    destruct (negb (fgt (fadd i step) i)); try discriminate. apply IH.
Qed.
Lemma frange_down_no_err fuel : forall i step e acc k, frange_down fuel i step e acc <> FErr k.
Proof.
  induction fuel as [|f IH]; intros i step e acc k; rewrite frange_down_eq;
    destruct (flt e i); try discriminate; destruct (negb (flt e (round2 i))); try discriminate;
    destruct (negb (flt (fsub i step) i)); try discriminate. apply IH.
Qed.

Lemma frange_errors cap args :
  (exists k, frange cap args = FErr k) <->
  ((3 < length args)%nat \/
   exists s st e, args = [s; st; e] /\
     (fgt s e && fgt e fpz || feq st fpz || flt st fpz && fgt e s) = true).
Proof.
  assert (G : forall s st e k,
    (if fgt e fpz then frange_up cap s st e [] else frange_down cap s (fabs_go st) e []) <> FErr k).
  { intros s st e k. destruct (fgt e fpz); [apply frange_up_no_err|apply frange_down_no_err]. }
  destruct args as [|a [|b [|c [|d args]]]]; unfold frange.
  - split; [intros (k & H); now apply G in H|]. intros [H|(s & st & e & H & _)]; [simpl in H; lia|discriminate].
  - split; [intros (k & H); now apply G in H|]. intros [H|(s & st & e & H & _)]; [simpl in H; lia|discriminate].
  - split; [intros (k & H); now apply G in H|]. intros [H|(s & st & e & H & _)]; [simpl in H; lia|discriminate].
  - split.
    + intros (k & H). right. exists a, b, c. split; [reflexivity|].
      destruct (fgt a c && fgt c fpz); [reflexivity|]. destruct (feq b fpz); [reflexivity|].
      destruct (flt b fpz && fgt c a); [reflexivity|]. now apply G in H.
    + intros [H|(s & st & e & [= -> -> ->] & H)]; [simpl in H; lia|].
      destruct (fgt s e && fgt e fpz); [eauto|]. destruct (feq st fpz); [eauto|].
      destruct (flt st fpz && fgt e s); [eauto|]. discriminate.
  - split; [intros _; left; simpl; lia|]. intros _. eauto.
Qed.

Lemma frange_right_rev cap args : frange_right cap args =
  match frange cap args with FOk l => FOk (rev l) | r => r end.
Proof. unfold frange_right. destruct (frange cap args); auto. now rewrite rev_append_rev, app_nil_r. Qed.


(* ================= (7) two-decimal rounding ================= *)
Local Open Scope R_scope.

Lemma cents_spec m e : cents m e = ZnearestE (F2R (Float radix2 (Zpos m) e) * 100).
Proof.
  unfold cents, F2R; simpl Fnum; simpl Fexp.
  destruct e as [|p|p].
  - simpl bpow. replace (IZR (Z.pos m) * 1 * 100) with (IZR (Z.pos m * 100 * 2 ^ 0)).
    + now rewrite (@Zrnd_IZR ZnearestE _).
    + rewrite !mult_IZR. simpl. lra.
  - replace (IZR (Z.pos m) * bpow radix2 (Z.pos p) * 100) with (IZR (Z.pos m * 100 * 2 ^ Z.pos p)).
    + now rewrite (@Zrnd_IZR ZnearestE _).
    + rewrite !mult_IZR. rewrite <- (IZR_Zpower radix2) by lia.
      change (IZR (radix2 ^ Z.pos p)) with (IZR (2 ^ Z.pos p)). ring.
  - set (d := (2 ^ Z.pos p)%Z). set (N := (Z.pos m * 100)%Z).
    assert (Hd : (0 < d)%Z) by (unfold d; apply Z.pow_pos_nonneg; lia).
    assert (Hdr : 0 < IZR d) by now apply IZR_lt.
    assert (Ex : IZR (Z.pos m) * bpow radix2 (Z.neg p) * 100 = IZR N / IZR d).
    { assert (Hb : bpow radix2 (Z.pos p) = IZR d)
        by (unfold d; rewrite <- (IZR_Zpower radix2); [reflexivity | lia]).
      unfold N. rewrite mult_IZR. change (Z.neg p) with (- Z.pos p)%Z. rewrite bpow_opp, Hb.
      field. lra. }
    rewrite Ex.
    assert (Hf : Zfloor (IZR N / IZR d) = (N / d)%Z) by (apply Zfloor_div; lia).
    generalize (Z.div_mod N d ltac:(lia)) (Z.mod_pos_bound N d Hd).
    set (q := (N / d)%Z) in *. set (r := (N mod d)%Z) in *. intros HN Hr.
    assert (Efrac : IZR N / IZR d - IZR q = IZR r / IZR d).
    { rewrite HN. rewrite plus_IZR, mult_IZR. field. lra. }
    unfold ZnearestE, Znearest. rewrite Hf, Efrac.
    assert (Hceil : r <> 0%Z -> Zceil (IZR N / IZR d) = (q + 1)%Z).
    { intros Hr0. rewrite Zceil_floor_neq; [now rewrite Hf|].
      rewrite Hf. intros E. apply Hr0. apply eq_IZR.
      assert (IZR r / IZR d = 0) by (rewrite <- Efrac; lra).
      apply Rmult_eq_compat_r with (r := IZR d) in H. field_simplify in H; lra. }
    destruct (Z.ltb_spec (2 * r) d) as [H1|H1].
    + rewrite Rcompare_Lt; [reflexivity|].
      apply Rmult_lt_reg_r with (IZR d); [exact Hdr|]. field_simplify; [|lra].
      apply IZR_lt in H1. rewrite mult_IZR in H1. lra.
    + destruct (Z.eqb_spec (2 * r) d) as [H2|H2].
      * rewrite Rcompare_Eq.
        -- destruct (Z.even q); simpl negb; cbv iota; [reflexivity|]. symmetry. apply Hceil. lia.
        -- apply Rmult_eq_reg_r with (IZR d); [|lra]. field_simplify; [|lra].
           apply (f_equal IZR) in H2. rewrite mult_IZR in H2. lra.
      * rewrite Rcompare_Gt; [symmetry; apply Hceil; lia|].
        apply Rmult_lt_reg_r with (IZR d); [exact Hdr|]. field_simplify; [|lra].
        assert (d < 2 * r)%Z by lia. apply IZR_lt in H. rewrite mult_IZR in H. lra.
Qed.

Lemma fquot_spec s n d :
  let q := IZR (cond_Zopp s (Zpos n)) / IZR (Zpos d) in
  Rabs (rne q) < bpow radix2 1024 ->
  is_finite (fquot s n d) = true /\ B2R (fquot s n d) = rne q /\ Bsign (fquot s n d) = s.
Proof.
  intros q Hb. unfold fquot.
  destruct (Bdiv_correct_aux 53 1024 _ _ mode_NE s n 0 false d 0) as (V & H).
  rewrite B2R_SF2B, is_finite_SF2B, Bsign_SF2B.
  revert H. cbv zeta. simpl round_mode. change (SpecFloat.fexp 53 1024) with fexp64.
  replace (F2R (Float radix2 (cond_Zopp s (Z.pos n)) 0) / F2R (Float radix2 (cond_Zopp false (Z.pos d)) 0)) with q.
  2:{ unfold q, F2R. simpl. now rewrite !Rmult_1_r. }
  fold (rne q). rewrite Rlt_bool_true by exact Hb.
  rewrite !xorb_false_r. intros (H1 & H2 & H3). auto.
Qed.

Lemma round2_spec s m e H :
  let x : f64 := B754_finite s m e H in
  let c := ZnearestE (Rabs (B2R x) * 100) in
  is_finite (round2 x) = true /\ Bsign (round2 x) = s /\
  B2R (round2 x) = rne (IZR (cond_Zopp s c) / 100).
Proof.
  intros x c.
  assert (Habs : Rabs (B2R x) = F2R (Float radix2 (Zpos m) e)).
  { unfold x. simpl B2R. rewrite <- F2R_Zabs, abs_cond_Zopp. reflexivity. }
  assert (Hc : c = cents m e) by (unfold c; now rewrite Habs, cents_spec).
  assert (Hc0 : (0 <= c)%Z).
  { unfold c. rewrite <- (@Zrnd_IZR ZnearestE _ 0). apply Zrnd_le; auto with typeclass_instances.
    apply Rmult_le_pos; [apply Rabs_pos|lra]. }
  unfold round2, x. rewrite <- Hc.
  destruct c as [|n|n] eqn:Ec; [| |lia].
  - repeat split. simpl. destruct s; simpl; unfold rne; rewrite ?Ropp_0; unfold Rdiv; now rewrite Rmult_0_l, round_0 by auto with typeclass_instances.
  - cut (Rabs (rne (IZR (cond_Zopp s (Z.pos n)) / IZR 100)) < bpow radix2 1024).
    { intros Hb. destruct (fquot_spec s n 100 Hb) as (F1 & F2 & F3). auto. }
    (* no overflow: the two-decimal rounding of a float64 is at most max(|x|, 2^54) *)
    assert (Hq : Rabs (IZR (cond_Zopp s (Z.pos n)) / IZR 100) = IZR (Z.pos n) / 100).
    { unfold Rdiv. rewrite Rabs_mult, <- abs_IZR, abs_cond_Zopp. rewrite Rabs_pos_eq; [reflexivity|].
      apply Rlt_le, Rinv_0_lt_compat. lra. }
    destruct (Z_lt_le_dec e 0) as [He|He].
    + (* |x| < 2^53: cents <= 100 * 2^53 + 1 *)
      apply Rle_lt_trans with (bpow radix2 54); [|now apply bpow_lt].
      apply abs_round_le_generic; auto with typeclass_instances.
      { apply generic_format_bpow. unfold FLT_exp. lia. }
      rewrite Hq.
      assert (Hm : IZR (Z.pos m) < bpow radix2 53).
      { assert (Hbd := H). unfold bounded in Hbd. apply andb_prop in Hbd. destruct Hbd as (Hcm & _).
        unfold canonical_mantissa in Hcm. apply Zeq_bool_eq in Hcm.
        rewrite Digits.Zpos_digits2_pos in Hcm.
        assert (Hd : (Digits.Zdigits radix2 (Z.pos m) <= 53)%Z).
        { unfold SpecFloat.fexp, FLT_exp, emin in Hcm. lia. }
        rewrite <- (IZR_Zpower radix2) by lia. apply IZR_lt.
        apply Z.lt_le_trans with (radix2 ^ Digits.Zdigits radix2 (Z.pos m))%Z.
        - generalize (Digits.Zdigits_correct radix2 (Z.pos m)). rewrite Z.abs_eq by lia. intros (_ & Hlt). exact Hlt.
        - apply Zpower_le. exact Hd. }
      assert (Hx1 : Rabs (B2R x) <= IZR (Z.pos m)).
      { rewrite Habs. unfold F2R. simpl Fnum. simpl Fexp. rewrite <- (Rmult_1_r (IZR (Z.pos m))) at 2.
        apply Rmult_le_compat_l; [apply IZR_le; lia|].
        change 1 with (bpow radix2 0). apply bpow_le. lia. }
      assert (Hcu : IZR (Z.pos n) <= Rabs (B2R x) * 100 + 1).
      { rewrite <- Ec. unfold c.
        generalize (Znearest_le_ceil (fun t => negb (Z.even t)) (Rabs (B2R x) * 100)). fold ZnearestE. intros Hle.
        apply IZR_le in Hle. apply Rle_trans with (1 := Hle).
        generalize (Zceil_ub (Rabs (B2R x) * 100)). generalize (Zceil_lb (Rabs (B2R x) * 100)).
        intros; lra. }
      assert (H54 : bpow radix2 54 = bpow radix2 53 * 2).
      { change 54%Z with (53 + 1)%Z. rewrite bpow_plus. f_equal. }
      assert (1 <= bpow radix2 53) by (change 1 with (bpow radix2 0); apply bpow_le; lia).
      rewrite H54. lra.
    + (* e >= 0: x is an integer, its two-decimal rounding is x itself *)
      apply Rle_lt_trans with (Rabs (B2R x)); [|apply abs_B2R_lt_emax].
      apply abs_round_le_generic; auto with typeclass_instances.
      { apply generic_format_abs. apply generic_format_B2R. }
      rewrite Hq. rewrite <- Ec. unfold c.
      assert (Hint : Rabs (B2R x) * 100 = IZR (Z.pos m * radix2 ^ e * 100)).
      { rewrite Habs. unfold F2R. simpl Fnum. simpl Fexp. rewrite !mult_IZR, (IZR_Zpower radix2) by lia. reflexivity. }
      rewrite Hint, (@Zrnd_IZR ZnearestE _). rewrite <- Hint. lra.
Qed.


(* ================= (8) wire codec ================= *)
Local Open Scope Z_scope.

Lemma bounded_cases m e : bounded 53 1024 m e = true ->
  (Z.pos m < two52 /\ e = -1074) \/ (two52 <= Z.pos m < 2 * two52 /\ -1074 <= e <= 971).
Proof.
  unfold bounded, canonical_mantissa. intros H. apply andb_prop in H. destruct H as (H1 & H2).
  apply Zeq_bool_eq in H1. apply Zle_bool_imp_le in H2.
  rewrite Digits.Zpos_digits2_pos in H1.
  generalize (Digits.Zdigits_correct radix2 (Z.pos m)) (Digits.Zdigits_gt_0 radix2 (Z.pos m) ltac:(lia)).
  set (d := Digits.Zdigits radix2 (Z.pos m)) in *. rewrite Z.abs_eq by lia. intros (Hlo & Hhi) Hd.
  unfold SpecFloat.fexp, FLT_exp, SpecFloat.emin in H1.
  change (radix2 ^ (d - 1)) with (2 ^ (d - 1)) in Hlo. change (radix2 ^ d) with (2 ^ d) in Hhi.
  destruct (Z_lt_le_dec d 53) as [Hd53|Hd53].
  - left. split; [|lia].
    apply Z.lt_le_trans with (1 := Hhi). change two52 with (2 ^ 52). apply Z.pow_le_mono_r; lia.
  - right. assert (d = 53) by lia. subst d. rewrite H in *. split; [|lia].
    change (2 ^ (53 - 1)) with two52 in Hlo. change (2 ^ 53) with (2 * two52) in Hhi. lia.
Qed.

(* the fields of a 64-bit word *)
Lemma dec_fields (s : bool) E M : 0 <= E < 2048 -> 0 <= M < two52 ->
  let b := E * two52 + M in
  let z := if s then b - two63 else b in
  let u := Z.land z (Z.ones 64) in
  Z.testbit u 63 = s /\ Z.land (Z.shiftr u 52) (Z.ones 11) = E /\ Z.land u (Z.ones 52) = M.
Proof.
  intros HE HM b z u.
  assert (Hb : 0 <= b < two63) by (unfold b, two52, two63 in *; lia).
  assert (Hu : u = (if s then two63 else 0) + b).
  { unfold u. rewrite Z.land_ones by lia. change (2 ^ 64) with two64.
    unfold z. destruct s.
    - symmetry. apply Z.mod_unique with (-1); unfold two63, two64 in *; lia.
    - symmetry. apply Z.mod_unique with 0; unfold two63, two64 in *; lia. }
  repeat split.
  - rewrite Z.testbit_eqb by lia. change (2 ^ 63) with two63. rewrite Hu.
    destruct s.
    + replace ((two63 + b) / two63) with 1; [reflexivity|].
      apply Z.div_unique with b; unfold two63 in *; lia.
    + rewrite Z.add_0_l, Z.div_small by lia. reflexivity.
  - rewrite Z.shiftr_div_pow2, Z.land_ones by lia. change (2 ^ 52) with two52. change (2 ^ 11) with 2048.
    rewrite Hu. replace ((if s then two63 else 0) + b) with (((if s then 2048 else 0) + E) * two52 + M)
      by (unfold b, two63, two52; destruct s; lia).
    rewrite Z.div_add_l by (unfold two52; lia). rewrite (Z.div_small M) by lia. rewrite Z.add_0_r.
    destruct s.
    + rewrite <- (Z.mul_1_l 2048) at 1. rewrite Z.add_comm, Z.mod_add by lia. apply Z.mod_small; lia.
    + apply Z.mod_small; lia.
  - rewrite Z.land_ones by lia. change (2 ^ 52) with two52. rewrite Hu.
    replace ((if s then two63 else 0) + b) with (M + ((if s then 2048 else 0) + E) * two52)
      by (unfold b, two63, two52; destruct s; lia).
    rewrite Z.mod_add by (unfold two52; lia). apply Z.mod_small; lia.
Qed.

Local Open Scope R_scope.
(* binary_normalize on the mantissa and exponent of a float gives the float back *)
Lemma finite_neg_lt0' (m : positive) e H : (B2R (B754_finite true m e H : f64) < 0)%R.
Proof. simpl. now apply F2R_lt_0. Qed.
Lemma finite_pos_gt0' (m : positive) e H : (0 < B2R (B754_finite false m e H : f64))%R.
Proof. simpl. now apply F2R_gt_0. Qed.
Lemma normalize_canonical s m e H s' :
  binary_normalize 53 1024 _ _ mode_NE (cond_Zopp s (Z.pos m)) e s' = B754_finite s m e H.
Proof.
  generalize (binary_normalize_correct 53 1024 _ _ mode_NE (cond_Zopp s (Z.pos m)) e s').
  cbv zeta. simpl round_mode.
  set (x := B754_finite s m e H : f64).
  change (F2R (Float radix2 (cond_Zopp s (Z.pos m)) e)) with (B2R x).
  rewrite round_generic; auto with typeclass_instances; [|apply generic_format_B2R].
  rewrite Rlt_bool_true by apply abs_B2R_lt_emax.
  intros (H1 & H2 & H3).
  apply B2R_Bsign_inj; auto.
  rewrite H3. unfold x. destruct s.
  - rewrite Rcompare_Lt; [reflexivity|]. apply (finite_neg_lt0' m e H).
  - rewrite Rcompare_Gt; [reflexivity|]. apply (finite_pos_gt0' m e H).
Qed.

Local Open Scope Z_scope.
Lemma cond_Zopp_if s z : cond_Zopp s z = if s then - z else z.
Proof. now destruct s. Qed.

Lemma f64_bits_roundtrip x : f64_of_bits (bits_of_f64 x) = x.
Proof.
  destruct x as [s|s| |s m e H].
  - (* zeros *)
    generalize (dec_fields s 0 0 ltac:(lia) ltac:(unfold two52; lia)). cbv zeta.
    replace (if s then 0 * two52 + 0 - two63 else 0 * two52 + 0) with (bits_of_f64 (B754_zero s))
      by (destruct s; reflexivity).
    intros (H1 & H2 & H3). unfold f64_of_bits. rewrite H1, H2, H3. now destruct s.
  - generalize (dec_fields s 2047 0 ltac:(lia) ltac:(unfold two52; lia)). cbv zeta.
    replace (if s then 2047 * two52 + 0 - two63 else 2047 * two52 + 0) with (bits_of_f64 (B754_infinity s))
      by (destruct s; unfold bits_of_f64; lia).
    intros (H1 & H2 & H3). unfold f64_of_bits. rewrite H1, H2, H3. reflexivity.
  - reflexivity.
  - destruct (bounded_cases m e H) as [(Hm & He)|(Hm & He)].
    + generalize (dec_fields s 0 (Z.pos m) ltac:(lia) ltac:(lia)). cbv zeta.
      replace (if s then 0 * two52 + Z.pos m - two63 else 0 * two52 + Z.pos m) with (bits_of_f64 (B754_finite s m e H)).
      2:{ unfold bits_of_f64. destruct (Z.ltb_spec (Z.pos m) two52); [|lia]. destruct s; lia. }
      intros (H1 & H2 & H3). unfold f64_of_bits. rewrite H1, H2, H3. simpl Z.eqb. cbv iota.
      rewrite <- cond_Zopp_if. subst e. apply normalize_canonical.
    + generalize (dec_fields s (e + 1075) (Z.pos m - two52) ltac:(lia) ltac:(lia)). cbv zeta.
      replace (if s then (e + 1075) * two52 + (Z.pos m - two52) - two63 else (e + 1075) * two52 + (Z.pos m - two52))
        with (bits_of_f64 (B754_finite s m e H)).
      2:{ unfold bits_of_f64. destruct (Z.ltb_spec (Z.pos m) two52); [lia|]. destruct s; lia. }
      intros (H1 & H2 & H3). unfold f64_of_bits. rewrite H1, H2, H3.
      destruct (Z.eqb_spec (e + 1075) 2047); [lia|]. destruct (Z.eqb_spec (e + 1075) 0); [lia|].
      replace (Z.pos m - two52 + two52) with (Z.pos m) by lia. replace (e + 1075 - 1075) with e by lia.
      rewrite <- cond_Zopp_if. apply normalize_canonical.
Qed.

(* the encoder is Flocq's (Bits.bits_of_b64, NaN written with Flocq's default payload), read as a signed word *)
Definition signed64 (u : Z) : Z := if u <? two63 then u else u - two64.
Lemma bits_of_f64_is_flocq x :
  bits_of_f64 x = signed64 (bits_of_b64 (Binary.BSN2B 53 1024 default_nan_pl64 x)).
Proof.
  destruct x as [[|]|[|]| |s m e H]; try reflexivity.
  unfold bits_of_b64, Binary.BSN2B, bits_of_binary_float, join_bits.
  change (2 ^ 52) with two52. change (2 ^ 11) with 2048. change (3 - 1024 - 53) with (-1074).
  rewrite !Z.shiftl_mul_pow2 by lia. change (2 ^ 52) with two52.
  unfold bits_of_f64, signed64.
  change (emin (52 + 1) (2 ^ (11 - 1))) with (-1074).
  destruct (bounded_cases m e H) as [(Hm & He)|(Hm & He)].
  - destruct (Z.ltb_spec (Z.pos m) two52); [|lia].
    destruct (Z.leb_spec 0 (Z.pos m - two52)); [lia|].
    destruct s.
    + destruct (Z.ltb_spec ((2048 + 0) * two52 + Z.pos m) two63); unfold two52, two63, two64 in *; lia.
    + destruct (Z.ltb_spec ((0 + 0) * two52 + Z.pos m) two63); unfold two52, two63, two64 in *; lia.
  - destruct (Z.ltb_spec (Z.pos m) two52); [lia|].
    destruct (Z.leb_spec 0 (Z.pos m - two52)); [|lia].
    destruct s.
    + destruct (Z.ltb_spec ((2048 + (e - -1074 + 1)) * two52 + (Z.pos m - two52)) two63); unfold two52, two63, two64 in *; lia.
    + destruct (Z.ltb_spec ((0 + (e - -1074 + 1)) * two52 + (Z.pos m - two52)) two63); unfold two52, two63, two64 in *; lia.
Qed.


(* ================= (9) ByKey ================= *)
Local Open Scope Z_scope.
Definition fkeyvals (ms : list famap) (key : Z) : list f64 :=
  flat_map (fun m => match falookup m key with Some v => [v] | None => [] end) ms.

Lemma bykey_fold (better : f64 -> f64 -> bool) key : forall (ms : list famap) (acc : f64),
  fold_left (fun acc m => match falookup m key with
                          | Some v => if better v acc then v else acc
                          | None => acc end) ms acc
  = fold_left (ext_step better) (fkeyvals ms key) acc.
Proof.
  induction ms as [|m ms IH]; intros acc; [reflexivity|].
  simpl. unfold fkeyvals in *. simpl flat_map. rewrite fold_left_app.
  destruct (falookup m key); simpl; apply IH.
Qed.

Lemma ffind_min_by_key_spec ms key :
  ffind_min_by_key ms key =
  match ms with
  | [] => Ok fpz
  | m0 :: _ => match falookup m0 key with
               | None => Err 1
               | Some _ => Ok (ffind_min (fkeyvals ms key))
               end
  end.
Proof.
  unfold ffind_min_by_key, ffind_ext_by_key. destruct ms as [|m0 ms]; [reflexivity|].
  destruct (falookup m0 key) as [v0|] eqn:E; [|reflexivity].
  rewrite bykey_fold. f_equal. unfold ffind_min, fkeyvals. simpl flat_map. rewrite E. reflexivity.
Qed.
Lemma ffind_max_by_key_spec ms key :
  ffind_max_by_key ms key =
  match ms with
  | [] => Ok fpz
  | m0 :: _ => match falookup m0 key with
               | None => Err 1
               | Some _ => Ok (ffind_max (fkeyvals ms key))
               end
  end.
Proof.
  unfold ffind_max_by_key, ffind_ext_by_key. destruct ms as [|m0 ms]; [reflexivity|].
  destruct (falookup m0 key) as [v0|] eqn:E; [|reflexivity].
  rewrite bykey_fold. f_equal. unfold ffind_max, fkeyvals. simpl flat_map. rewrite E. reflexivity.
Qed.

(* ================= (10) Range terminates ================= *)
Local Open Scope Z_scope.

(* position of a float64 on the number line, as an integer: the 63 magnitude bits, negated for negative
   values (both zeros at 0) *)
Definition fmag (m : positive) (e : Z) : Z :=
  if Z.pos m <? two52 then Z.pos m else (e + 1075) * two52 + (Z.pos m - two52).
Definition ford (x : f64) : Z :=
  match x with
  | B754_zero _ => 0
  | B754_infinity s => if s then - (2047 * two52) else 2047 * two52
  | B754_nan => 0
  | B754_finite s m e _ => if s then - fmag m e else fmag m e
  end.

Lemma fmag_range m e : bounded 53 1024 m e = true -> 0 < fmag m e < 2047 * two52.
Proof.
  intros H. unfold fmag. destruct (bounded_cases m e H) as [(Hm & He)|(Hm & He)];
    destruct (Z.ltb_spec (Z.pos m) two52); unfold two52 in *; lia.
Qed.

Lemma fmag_lt m1 e1 m2 e2 : bounded 53 1024 m1 e1 = true -> bounded 53 1024 m2 e2 = true ->
  match Z.compare e1 e2 with Lt => Lt | Gt => Gt | Eq => Pos.compare_cont Eq m1 m2 end = Lt ->
  fmag m1 e1 < fmag m2 e2.
Proof.
  intros H1 H2 Hc. unfold fmag.
  assert (Hlt : e1 < e2 \/ (e1 = e2 /\ Z.pos m1 < Z.pos m2)).
  { destruct (Z.compare_spec e1 e2) as [E|E|E]; try discriminate; [right|left; exact E].
    split; [exact E|]. change (Pos.compare_cont Eq m1 m2) with (Pos.compare m1 m2) in Hc.
    now apply Pos.compare_lt_iff in Hc. }
  destruct (bounded_cases m1 e1 H1) as [(Hm1 & He1)|(Hm1 & He1)];
    destruct (bounded_cases m2 e2 H2) as [(Hm2 & He2)|(Hm2 & He2)];
    destruct (Z.ltb_spec (Z.pos m1) two52); destruct (Z.ltb_spec (Z.pos m2) two52);
    unfold two52 in *; lia.
Qed.

Lemma ford_lt x y : flt x y = true -> ford x < ford y.
Proof.
  unfold flt, Bltb, SFltb.
  destruct x as [sx|sx| |sx mx ex Hx]; destruct y as [sy|sy| |sy my ey Hy]; simpl B2SF; simpl SFcompare;
    try discriminate.
  - destruct sy; [discriminate|]. intros _. simpl. unfold two52. lia.
  - destruct sy; [discriminate|]. intros _. simpl. generalize (fmag_range my ey Hy). unfold two52. lia.
  - destruct sx; [|discriminate]. intros _. simpl. unfold two52. lia.
  - destruct sx, sy; try discriminate. intros _. simpl. unfold two52. lia.
  - destruct sx; [|discriminate]. intros _. simpl. generalize (fmag_range my ey Hy). unfold two52. destruct sy; lia.
  - destruct sx; [|discriminate]. intros _. simpl. generalize (fmag_range mx ex Hx). unfold two52. lia.
  - destruct sy; [discriminate|]. intros _. simpl. generalize (fmag_range mx ex Hx). unfold two52. destruct sx; lia.
  - generalize (fmag_range mx ex Hx) (fmag_range my ey Hy). intros Rx Ry.
    destruct sx, sy; simpl; try discriminate; try (intros _; lia).
    + intros Hc. cut (fmag my ey < fmag mx ex); [lia|]. apply fmag_lt; auto.
      destruct (Z.compare_spec ex ey) as [E|E|E]; subst.
      * rewrite Z.compare_refl. destruct (Pos.compare_cont Eq mx my) eqn:Ec; try discriminate.
        change (Pos.compare_cont Eq mx my) with (Pos.compare mx my) in Ec.
        change (Pos.compare_cont Eq my mx) with (Pos.compare my mx).
        rewrite Pos.compare_antisym, Ec. reflexivity.
      * discriminate.
      * apply Z.compare_lt_iff in E. rewrite E. reflexivity.
    + intros Hc. apply fmag_lt; auto.
      destruct (ex ?= ey); try discriminate; auto.
      destruct (Pos.compare_cont Eq mx my); try discriminate; auto.
Qed.

(* every Range[float64] call returns: a budget of (position of end) - (position of the counter) iterations,
   at most 2^64, is never used up *)
Lemma frange_up_terminates : forall fuel i step e acc,
  (Z.to_nat (ford e - ford i) <= fuel)%nat -> frange_up fuel i step e acc <> FFuel.
Proof.
  induction fuel as [|f IH]; intros i step e acc Hf; rewrite frange_up_eq.
  - destruct (flt i e) eqn:H1; [|discriminate].
    destruct (negb (flt (round2 i) e)); [discriminate|].
    destruct (fgt (fadd i step) i) eqn:H3; simpl negb; cbv iota; [|discriminate].
    exfalso. apply ford_lt in H1. unfold fgt in H3. apply ford_lt in H3.
    lia.
  - destruct (flt i e) eqn:H1; [|discriminate].
    destruct (negb (flt (round2 i) e)); [discriminate|].
    destruct (fgt (fadd i step) i) eqn:H3; simpl negb; cbv iota; [|discriminate].
    apply ford_lt in H1. unfold fgt in H3. apply ford_lt in H3.
    apply IH. lia.
Qed.
Lemma frange_down_terminates : forall fuel i astep e acc,
  (Z.to_nat (ford i - ford e) <= fuel)%nat -> frange_down fuel i astep e acc <> FFuel.
Proof.
  induction fuel as [|f IH]; intros i astep e acc Hf; rewrite frange_down_eq.
  - destruct (flt e i) eqn:H1; [|discriminate].
    destruct (negb (flt e (round2 i))); [discriminate|].
    destruct (flt (fsub i astep) i) eqn:H3; simpl negb; cbv iota; [|discriminate].
    exfalso. apply ford_lt in H1. lia.
  - destruct (flt e i) eqn:H1; [|discriminate].
    destruct (negb (flt e (round2 i))); [discriminate|].
    destruct (flt (fsub i astep) i) eqn:H3; simpl negb; cbv iota; [|discriminate].
    apply ford_lt in H1. apply ford_lt in H3.
    apply IH. lia.
Qed.

Lemma ford_bound x : - (2047 * two52) <= ford x <= 2047 * two52.
Proof.
  destruct x as [s|s| |s m e H]; simpl; unfold two52; try lia.
  - destruct s; lia.
  - generalize (fmag_range m e H). unfold two52. destruct s; lia.
Qed.

(* 2 * 2047 * 2^52 < 2^64 iterations always suffice: with such a budget the model answers FFuel on no
   arguments at all *)
Lemma frange_terminates cap args : 2 * (2047 * two52) <= Z.of_nat cap ->
  frange cap args <> FFuel /\ frange_right cap args <> FFuel.
Proof.
  intros Hc.
  assert (G : forall s st e,
    (if fgt e fpz then frange_up cap s st e [] else frange_down cap s (fabs_go st) e []) <> FFuel).
  { intros s st e. generalize (ford_bound s) (ford_bound e). intros Bs Be.
    set (B := 2047 * two52) in *. clearbody B.
    destruct (fgt e fpz); [apply frange_up_terminates|apply frange_down_terminates]; lia. }
  assert (F : frange cap args <> FFuel).
  { unfold frange. destruct args as [|a [|b [|c [|d args]]]]; try apply G; try discriminate.
    destruct (fgt a c && fgt c fpz); [discriminate|]. destruct (feq b fpz); [discriminate|].
    destruct (flt b fpz && fgt c a); [discriminate|]. apply G. }
  split; [exact F|]. unfold frange_right. destruct (frange cap args); try discriminate. now elim F.
Qed.

(* ================= (11) non-vacuity ================= *)
Local Open Scope R_scope.

(* non-vacuity of fsum_exact: [1; 2; 3] (as float64(1), float64(2), float64(3)) meets its hypotheses *)
Lemma fsum_exact_example :
  let l := [f_of_int 1; f_of_int 2; f_of_int 3] in
  Forall (fun x => is_finite x = true) l /\
  (forall k, (k <= length l)%nat ->
     fmt64 (rsum (firstn k l)) /\ Rabs (rsum (firstn k l)) < bpow radix2 1024) /\
  B2R (fsum l) = 6.
Proof.
  intros l.
  destruct (f_of_int_exact 1) as (F1 & E1); [reflexivity|].
  destruct (f_of_int_exact 2) as (F2 & E2); [reflexivity|].
  destruct (f_of_int_exact 3) as (F3 & E3); [reflexivity|].
  assert (Hl : Forall (fun x => is_finite x = true) l) by (repeat constructor; assumption).
  assert (Hb : forall n, (Z.abs n < 2 ^ 53)%Z -> Rabs (IZR n) < bpow radix2 1024).
  { intros n Hn. rewrite <- abs_IZR. change (bpow radix2 1024) with (IZR (2 ^ 1024)).
    apply IZR_lt. apply Z.lt_trans with (1 := Hn). reflexivity. }
  assert (Hp : forall k, (k <= length l)%nat ->
     fmt64 (rsum (firstn k l)) /\ Rabs (rsum (firstn k l)) < bpow radix2 1024).
  { intros k Hk. simpl in Hk.
    assert (Hr : exists n, (Z.abs n < 2 ^ 53)%Z /\ rsum (firstn k l) = IZR n).
    { destruct k as [|[|[|[|k]]]]; [| | | |lia]; unfold rsum, l; cbn [firstn map fold_left]; rewrite ?E1, ?E2, ?E3.
      - exists 0%Z. split; [reflexivity|lra].
      - exists 1%Z. split; [reflexivity|lra].
      - exists 3%Z. split; [reflexivity|lra].
      - exists 6%Z. split; [reflexivity|lra]. }
    destruct Hr as (n & Hn & ->). split; [now apply fmt64_int|now apply Hb]. }
  split; [exact Hl|]. split; [exact Hp|].
  destruct (fsum_exact l Hl Hp) as (_ & ->). unfold rsum, l. cbn [map fold_left]. rewrite E1, E2, E3. lra.
Qed.
