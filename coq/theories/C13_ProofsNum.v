(* C13_ProofsNum.v — proofs about the decimal codec (C13_ModelNum). *)

From Gogu Require Import Base C13_ModelNum.
From Coq Require Import ZArith Lia List.
Import ListNotations.
Local Open Scope Z_scope.

Lemma parse_from_app acc s t :
  parse_digits_from acc (s ++ t) =
  match parse_digits_from acc s with Some v => parse_digits_from v t | None => None end.
Proof.
  revert acc; induction s as [|c s IH]; intros acc; cbn [app parse_digits_from]; [reflexivity|].
  destruct (is_digit c); [apply IH | reflexivity].
Qed.

Lemma is_digit_d d : 0 <= d < 10 -> is_digit (ch_zero + d) = true.
Proof. unfold is_digit, ch_zero; intros H. apply andb_true_intro; split; apply Z.leb_le; lia. Qed.

(* the digits of n, read after any accumulator, give 10^k * acc + n in the sense that
   matters: starting from 0 they give n back *)
Lemma digits_from fuel : forall n acc, 0 <= n < 2 ^ Z.of_nat (S fuel) -> 0 <= acc ->
  exists k, 0 < k /\ parse_digits_from acc (digits fuel n) = Some (k * acc + n) /\ (acc = 0 -> True).
Proof.
  induction fuel as [|f IH]; intros n acc Hn Hacc.
  - cbn [digits]. exists 10. split; [lia|]. split; [|trivial].
    change (2 ^ Z.of_nat 1) with 2 in Hn.
    cbn [parse_digits_from]. rewrite is_digit_d by lia. f_equal. unfold ch_zero. lia.
  - cbn [digits]. destruct (n <? 10) eqn:E.
    + apply Z.ltb_lt in E. exists 10. split; [lia|]. split; [|trivial].
      cbn [parse_digits_from]. rewrite is_digit_d by lia. f_equal. unfold ch_zero. lia.
    + apply Z.ltb_ge in E.
      assert (Hq : 0 <= n / 10 < 2 ^ Z.of_nat (S f)).
      { split; [apply Z.div_pos; lia|].
        apply Z.div_lt_upper_bound; [lia|].
        replace (Z.of_nat (S (S f))) with (Z.of_nat (S f) + 1) in Hn by lia.
        rewrite Z.pow_add_r in Hn by lia. change (2 ^ 1) with 2 in Hn.
        assert (0 < 2 ^ Z.of_nat (S f)) by (apply Z.pow_pos_nonneg; lia). lia. }
      destruct (IH (n / 10) acc Hq Hacc) as (k & Hk & Hp & _).
      exists (10 * k). split; [lia|]. split; [|trivial].
      rewrite parse_from_app, Hp. cbn [parse_digits_from].
      pose proof (Z.mod_pos_bound n 10 ltac:(lia)) as Hm.
      rewrite is_digit_d by lia. f_equal.
      pose proof (Z.div_mod n 10 ltac:(lia)) as Hd. unfold ch_zero. lia.
Qed.

Lemma digits_nonempty fuel n : digits fuel n <> [].
Proof.
  destruct fuel as [|f]; cbn [digits]; [discriminate|].
  destruct (n <? 10); [discriminate|]. intros H. apply app_eq_nil in H. destruct H as [_ H]; discriminate.
Qed.

Lemma bits_fuel_ok n : 0 <= n -> 0 <= n < 2 ^ Z.of_nat (S (bits_fuel n)).
Proof.
  intros Hn. split; [exact Hn|]. unfold bits_fuel.
  destruct (Z.eq_dec n 0) as [->|Hz]; [vm_compute; reflexivity|].
  rewrite Nat2Z.inj_succ, Z2Nat.id by apply Z.log2_nonneg.
  apply Z.log2_spec. lia.
Qed.

(* parsing the printed digits of a non-negative number gives the number back *)
Lemma digits_parse n : 0 <= n -> parse_digits (digits (bits_fuel n) n) = Some n.
Proof.
  intros Hn. unfold parse_digits.
  destruct (digits (bits_fuel n) n) eqn:E; [exfalso; eapply digits_nonempty; exact E|].
  rewrite <- E. destruct (digits_from (bits_fuel n) n 0 (bits_fuel_ok n Hn) ltac:(lia)) as (k & _ & Hp & _).
  rewrite Hp. f_equal. lia.
Qed.

(* the first byte of a printed non-negative number is a digit, hence neither sign *)
Lemma digits_head fuel : forall n, 0 <= n < 2 ^ Z.of_nat (S fuel) ->
  exists c r, digits fuel n = c :: r /\ ch_zero <= c <= ch_zero + 9.
Proof.
  induction fuel as [|f IH]; intros n Hn.
  - change (2 ^ Z.of_nat 1) with 2 in Hn. cbn [digits]. exists (ch_zero + n), []. split; [reflexivity | lia].
  - cbn [digits]. destruct (n <? 10) eqn:E.
    + apply Z.ltb_lt in E. exists (ch_zero + n), []. split; [reflexivity | lia].
    + apply Z.ltb_ge in E.
      assert (Hq : 0 <= n / 10 < 2 ^ Z.of_nat (S f)).
      { split; [apply Z.div_pos; lia|].
        apply Z.div_lt_upper_bound; [lia|].
        replace (Z.of_nat (S (S f))) with (Z.of_nat (S f) + 1) in Hn by lia.
        rewrite Z.pow_add_r in Hn by lia. change (2 ^ 1) with 2 in Hn.
        assert (0 < 2 ^ Z.of_nat (S f)) by (apply Z.pow_pos_nonneg; lia). lia. }
      destruct (IH (n / 10) Hq) as (c & r & Hd & Hc).
      exists c, (r ++ [ch_zero + n mod 10]). rewrite Hd. split; [reflexivity | exact Hc].
Qed.

(* ---- the round trips ---- *)

Theorem parse_int_num_to_string w x : 0 < w ->
  - 2 ^ (w - 1) <= x < 2 ^ (w - 1) -> parse_int w (num_to_string x) = Some x.
Proof.
  intros Hw Hx. unfold num_to_string. destruct (x <? 0) eqn:E.
  - apply Z.ltb_lt in E. unfold parse_int. rewrite Z.eqb_refl.
    rewrite digits_parse by lia.
    destruct (- x <=? 2 ^ (w - 1)) eqn:F; [f_equal; lia | apply Z.leb_gt in F; lia].
  - apply Z.ltb_ge in E. unfold parse_int.
    destruct (digits_head (bits_fuel x) x (bits_fuel_ok x E)) as (c & r & Hd & Hc).
    rewrite Hd. unfold ch_zero, ch_minus, ch_plus in *.
    destruct (c =? 45) eqn:E1; [apply Z.eqb_eq in E1; lia|].
    destruct (c =? 43) eqn:E2; [apply Z.eqb_eq in E2; lia|].
    rewrite <- Hd, digits_parse by lia.
    destruct (x <? 2 ^ (w - 1)) eqn:F; [reflexivity | apply Z.ltb_ge in F; lia].
Qed.

Theorem parse_uint_num_to_string w x :
  0 <= x < 2 ^ w -> parse_uint w (num_to_string x) = Some x.
Proof.
  intros Hx. unfold num_to_string, parse_uint.
  destruct (x <? 0) eqn:E; [apply Z.ltb_lt in E; lia|].
  rewrite digits_parse by lia.
  destruct (x <? 2 ^ w) eqn:F; [reflexivity | apply Z.ltb_ge in F; lia].
Qed.

(* what N accepts is in range: a successful parse is a value of the type *)
Theorem parse_int_range w s v : 0 < w -> parse_int w s = Some v -> - 2 ^ (w - 1) <= v < 2 ^ (w - 1).
Proof.
  intros Hw. unfold parse_int. destruct s as [|c r]; [discriminate|].
  assert (Hp : 0 < 2 ^ (w - 1)) by (apply Z.pow_pos_nonneg; lia).
  assert (Hnn : forall acc t u, 0 <= acc -> parse_digits_from acc t = Some u -> 0 <= u).
  { intros acc t; revert acc; induction t as [|d t IH]; intros acc u Ha; cbn [parse_digits_from].
    - intros [= <-]; exact Ha.
    - destruct (is_digit d) eqn:Ed; [|discriminate]. apply IH.
      unfold is_digit in Ed. apply andb_prop in Ed. destruct Ed as [Ed _]. apply Z.leb_le in Ed. lia. }
  assert (Hnn' : forall t u, parse_digits t = Some u -> 0 <= u).
  { intros t u. unfold parse_digits. destruct t; [discriminate|]. apply Hnn. lia. }
  destruct (c =? ch_minus).
  - destruct (parse_digits r) as [u|] eqn:P; [|discriminate]. apply Hnn' in P.
    destruct (u <=? 2 ^ (w - 1)) eqn:F; [|discriminate]. apply Z.leb_le in F. intros [= <-]. lia.
  - destruct (c =? ch_plus).
    + destruct (parse_digits r) as [u|] eqn:P; [|discriminate]. apply Hnn' in P.
      destruct (u <? 2 ^ (w - 1)) eqn:F; [|discriminate]. apply Z.ltb_lt in F. intros [= <-]. lia.
    + destruct (parse_digits (c :: r)) as [u|] eqn:P; [|discriminate]. apply Hnn' in P.
      destruct (u <? 2 ^ (w - 1)) eqn:F; [|discriminate]. apply Z.ltb_lt in F. intros [= <-]. lia.
Qed.
