(* C13_Props.v — property C13, stated over the model of C13_Model.v.
   Only statements here; each is closed by [exact] of a lemma of C13_Proofs.v
   and followed by Print Assumptions. *)

From Gogu Require Import Base C13_Model C13_Proofs.
From Coq Require Import Sorted.
Local Open Scope Z_scope.

(* IndexOf/FindIndex: the smallest matching index, -1 iff none *)
Theorem C13_find_index_least : forall p l,
  (find_index p l = -1 /\ forall x, In x l -> p x = false) \/
  (exists i x, find_index p l = Z.of_nat i /\ nth_error l i = Some x /\ p x = true /\
               forall j y, (j < i)%nat -> nth_error l j = Some y -> p y = false).
Proof. exact find_index_least. Qed.
Print Assumptions C13_find_index_least.

Theorem C13_index_of_least : forall l v,
  (index_of l v = -1 /\ ~ In v l) \/
  (exists i, index_of l v = Z.of_nat i /\ nth_error l i = Some v /\
             forall j, (j < i)%nat -> nth_error l j <> Some v).
Proof.
  intros l v. unfold index_of.
  destruct (find_index_least (Z.eqb v) l) as [[H1 H2] | (i & x & H1 & H2 & H3 & H4)].
  - left. split; [exact H1|]. intros Hin. specialize (H2 v Hin). now rewrite Z.eqb_refl in H2.
  - right. exists i. apply Z.eqb_eq in H3. subst x. repeat split; auto.
    intros j Hj Hn. specialize (H4 j v Hj Hn). now rewrite Z.eqb_refl in H4.
Qed.
Print Assumptions C13_index_of_least.

(* LastIndexOf/FindLastIndex: the largest matching index, -1 iff none *)
Theorem C13_find_last_index_greatest : forall p l,
  (find_last_index p l = -1 /\ forall x, In x l -> p x = false) \/
  (exists i x, find_last_index p l = Z.of_nat i /\ nth_error l i = Some x /\ p x = true /\
               forall j y, (i < j)%nat -> nth_error l j = Some y -> p y = false).
Proof. exact find_last_index_greatest. Qed.
Print Assumptions C13_find_last_index_greatest.

Theorem C13_last_index_of_greatest : forall l v,
  (last_index_of l v = -1 /\ ~ In v l) \/
  (exists i, last_index_of l v = Z.of_nat i /\ nth_error l i = Some v /\
             forall j, (i < j)%nat -> nth_error l j <> Some v).
Proof. exact last_index_of_greatest. Qed.
Print Assumptions C13_last_index_of_greatest.

(* FindAll: exactly the matching (index, value) pairs *)
Theorem C13_find_all_exact : forall p l i v,
  In (i, v) (find_all p l) <-> exists n, i = Z.of_nat n /\ nth_error l n = Some v /\ p v = true.
Proof. exact find_all_exact. Qed.
Print Assumptions C13_find_all_exact.

(* ... and the result is a map: one entry per position, listed by increasing position *)
Theorem C13_find_all_is_map : forall p l,
  NoDup (map fst (find_all p l)) /\ StronglySorted (fun a b => fst a < fst b) (find_all p l).
Proof. intros p l. split; [apply find_all_keys_nodup | apply find_all_sorted]. Qed.
Print Assumptions C13_find_all_is_map.

(* Contains / Some / Every are the quantifiers *)
Theorem C13_contains_iff : forall l x, contains l x = true <-> In x l.
Proof. exact contains_iff. Qed.
Theorem C13_some_iff : forall p l, some p l = true <-> exists x, In x l /\ p x = true.
Proof. exact some_iff. Qed.
Theorem C13_every_iff : forall p l, every p l = true <-> forall x, In x l -> p x = true.
Proof. exact every_iff. Qed.
Print Assumptions C13_contains_iff.
Print Assumptions C13_some_iff.
Print Assumptions C13_every_iff.

(* FindMin/FindMax/Min/Max: a member of the input that is extremal; zero for
   the empty input *)
Theorem C13_find_min_extremal : forall l,
  match l with
  | [] => find_min l = 0
  | _ => In (find_min l) l /\ (forall x, In x l -> find_min l <= x)
  end.
Proof. exact find_min_spec. Qed.
Theorem C13_find_max_extremal : forall l,
  match l with
  | [] => find_max l = 0
  | _ => In (find_max l) l /\ (forall x, In x l -> x <= find_max l)
  end.
Proof. exact find_max_spec. Qed.
Theorem C13_min_extremal : forall l,
  match l with
  | [] => min_of l = 0
  | _ => In (min_of l) l /\ (forall x, In x l -> min_of l <= x)
  end.
Proof. exact find_min_spec. Qed.
Theorem C13_max_extremal : forall l,
  match l with
  | [] => max_of l = 0
  | _ => In (max_of l) l /\ (forall x, In x l -> x <= max_of l)
  end.
Proof. exact find_max_spec. Qed.
Print Assumptions C13_find_min_extremal.
Print Assumptions C13_find_max_extremal.
Print Assumptions C13_min_extremal.
Print Assumptions C13_max_extremal.

(* …By: extremal under the key function, and the FIRST such element *)
Theorem C13_find_min_by_extremal : forall f l,
  match l with
  | [] => find_min_by f l = 0
  | _ => In (find_min_by f l) l /\ (forall x, In x l -> f (find_min_by f l) <= f x)
  end.
Proof. exact find_min_by_spec. Qed.
Theorem C13_find_max_by_extremal : forall f l,
  match l with
  | [] => find_max_by f l = 0
  | _ => In (find_max_by f l) l /\ (forall x, In x l -> f x <= f (find_max_by f l))
  end.
Proof. exact find_max_by_spec. Qed.
Theorem C13_find_min_by_first : forall f l l1 l2,
  l = l1 ++ find_min_by f l :: l2 -> ~ In (find_min_by f l) l1 ->
  forall x, In x l1 -> f (find_min_by f l) < f x.
Proof. exact find_min_by_first. Qed.
Theorem C13_find_max_by_first : forall f l l1 l2,
  l = l1 ++ find_max_by f l :: l2 -> ~ In (find_max_by f l) l1 ->
  forall x, In x l1 -> f x < f (find_max_by f l).
Proof. exact find_max_by_first. Qed.
(* the same without hypotheses on the split: a non-empty slice decomposes around
   the answer with every EARLIER element strictly worse under the key and every
   later one no better — "extremal, and the first such one" in one statement;
   [C13_first_extremal_unique] shows the decomposition names one element only,
   so the statement determines the answer. *)
Theorem C13_find_min_by_first_extremal : forall f l, l <> [] ->
  exists l1 l2, l = l1 ++ find_min_by f l :: l2 /\
    (forall x, In x l1 -> f (find_min_by f l) < f x) /\
    (forall x, In x l2 -> f (find_min_by f l) <= f x).
Proof. exact find_min_by_split. Qed.
Theorem C13_find_max_by_first_extremal : forall f l, l <> [] ->
  exists l1 l2, l = l1 ++ find_max_by f l :: l2 /\
    (forall x, In x l1 -> f x < f (find_max_by f l)) /\
    (forall x, In x l2 -> f x <= f (find_max_by f l)).
Proof. exact find_max_by_split. Qed.
Theorem C13_first_extremal_unique : forall (f : Z -> Z) l1 r l2 k1 r' k2,
  l1 ++ r :: l2 = k1 ++ r' :: k2 ->
  (forall x, In x l1 -> f r < f x) -> (forall x, In x l2 -> f r <= f x) ->
  (forall x, In x k1 -> f r' < f x) -> (forall x, In x k2 -> f r' <= f x) ->
  l1 = k1 /\ r = r' /\ l2 = k2.
Proof. exact first_min_unique. Qed.
Print Assumptions C13_find_min_by_extremal.
Print Assumptions C13_find_max_by_extremal.
Print Assumptions C13_find_min_by_first.
Print Assumptions C13_find_max_by_first.
Print Assumptions C13_find_min_by_first_extremal.
Print Assumptions C13_find_max_by_first_extremal.
Print Assumptions C13_first_extremal_unique.

(* …ByKey: extremal among the maps that have the key; zero for no maps; an
   error when the first map lacks the key *)
Theorem C13_find_min_by_key : forall ms key,
  match ms with
  | [] => find_min_by_key ms key = Ok 0
  | m0 :: _ =>
      match alookup m0 key with
      | None => exists k, find_min_by_key ms key = Err k
      | Some _ =>
          exists r, find_min_by_key ms key = Ok r /\
                    (exists m, In m ms /\ alookup m key = Some r) /\
                    (forall m v, In m ms -> alookup m key = Some v -> r <= v)
      end
  end.
Proof. exact find_min_by_key_spec. Qed.
Theorem C13_find_max_by_key : forall ms key,
  match ms with
  | [] => find_max_by_key ms key = Ok 0
  | m0 :: _ =>
      match alookup m0 key with
      | None => exists k, find_max_by_key ms key = Err k
      | Some _ =>
          exists r, find_max_by_key ms key = Ok r /\
                    (exists m, In m ms /\ alookup m key = Some r) /\
                    (forall m v, In m ms -> alookup m key = Some v -> v <= r)
      end
  end.
Proof. exact find_max_by_key_spec. Qed.
(* a map that lacks the key takes no part in the answer (it is NOT read as the
   zero value): dropping every such map changes nothing; only the FIRST map is
   required to have the key (error kind 1 otherwise) *)
Theorem C13_by_key_ignores_maps_without_key : forall ms key,
  (find_min_by_key ms key =
   match ms with
   | [] => Ok 0
   | m0 :: _ => if has_key key m0 then find_min_by_key (filter (has_key key) ms) key else Err 1
   end) /\
  (find_max_by_key ms key =
   match ms with
   | [] => Ok 0
   | m0 :: _ => if has_key key m0 then find_max_by_key (filter (has_key key) ms) key else Err 1
   end).
Proof.
  intros ms key. split; apply find_ext_by_key_ignores_missing.
Qed.
Print Assumptions C13_find_min_by_key.
Print Assumptions C13_find_max_by_key.
Print Assumptions C13_by_key_ignores_maps_without_key.
(* non-vacuity: maps without the key in the middle and at the end; a reading of
   "missing = 0" would answer 0 in both *)
Example C13_by_key_examples :
  find_min_by_key [[(0, 2)]; [(1, -5)]; [(0, 3); (1, 1)]; []] 0 = Ok 2 /\
  find_max_by_key [[(0, -2)]; [(1, 5)]; [(0, -3)]] 0 = Ok (-2) /\
  find_min_by_key [[(1, 4)]; [(0, 1)]] 0 = Err 1 /\
  find_min_by_key [] 0 = Ok 0.
Proof. repeat split; reflexivity. Qed.

(* Nth: s[i], s[len+i], or an error — never a panic *)
Theorem C13_nth_spec : forall l n,
  let len := Z.of_nat (length l) in
  (0 <= n < len -> nth_go l n = Ok (nth (Z.to_nat n) l 0)) /\
  (- len <= n < 0 -> nth_go l n = Ok (nth (Z.to_nat (len + n)) l 0)) /\
  (n >= len \/ n < - len -> exists k, nth_go l n = Err k).
Proof. exact nth_go_spec. Qed.
Theorem C13_nth_never_panics : forall l n, nth_go l n <> Panic.
Proof. exact nth_go_never_panics. Qed.
(* the same as exact characterisations, without a default element: which (l, n)
   give which value, and which give the error *)
Theorem C13_nth_ok_iff : forall l n v,
  let len := Z.of_nat (length l) in
  nth_go l n = Ok v <->
  (0 <= n < len /\ nth_error l (Z.to_nat n) = Some v) \/
  (- len <= n < 0 /\ nth_error l (Z.to_nat (len + n)) = Some v).
Proof. exact nth_go_ok_iff. Qed.
Theorem C13_nth_err_iff : forall l n,
  let len := Z.of_nat (length l) in
  (exists k, nth_go l n = Err k) <-> (n >= len \/ n < - len).
Proof. exact nth_go_err_iff. Qed.
Print Assumptions C13_nth_spec.
Print Assumptions C13_nth_never_panics.
Print Assumptions C13_nth_ok_iff.
Print Assumptions C13_nth_err_iff.

(* Sum/SumBy/Mean: the arithmetic sum (mean) — in a w-bit element type, the
   sum modulo 2^w in the type's range *)
Theorem C13_sum : forall l, sum l = fold_right Z.add 0 l.
Proof. exact sum_is_list_sum. Qed.
Theorem C13_sum_by : forall f l, sum_by f l = sum (map f l).
Proof. exact sum_by_is_sum_map. Qed.
Theorem C13_sum_wrap : forall w l, 0 < w ->
  (sum_w w l) mod 2 ^ w = (sum l) mod 2 ^ w /\ - 2 ^ (w - 1) <= sum_w w l < 2 ^ (w - 1).
Proof. exact sum_w_spec. Qed.
Theorem C13_mean : forall l, l <> [] -> mean l = Ok (Z.quot (sum l) (Z.of_nat (length l))).
Proof. exact mean_spec. Qed.
(* the integer mean is the exact mean sum/len rounded toward zero: r*len is the
   multiple of len nearest to the sum on the side of zero *)
Theorem C13_mean_rounds_toward_zero : forall l, l <> [] ->
  exists r, mean l = Ok r /\
    let n := Z.of_nat (length l) in
    Z.abs (r * n) <= Z.abs (sum l) /\ Z.abs (sum l - r * n) < n /\
    (0 <= sum l -> 0 <= r) /\ (sum l <= 0 -> r <= 0).
Proof. exact mean_trunc. Qed.
(* Mean in a w-bit element type, slice shorter than 2^(w-1): the rounded mean of
   the WRAPPED sum (so Mean[int8]{100,100} = -28), in range, never a panic *)
Theorem C13_mean_wrap : forall w l, 0 < w -> l <> [] -> Z.of_nat (length l) < 2 ^ (w - 1) ->
  mean_w w l = Ok (Z.quot (sum_w w l) (Z.of_nat (length l))) /\
  - 2 ^ (w - 1) <= Z.quot (sum_w w l) (Z.of_nat (length l)) < 2 ^ (w - 1).
Proof. exact mean_w_spec. Qed.
(* ... and for every length: the division panics exactly when the length is a
   multiple of 2^w (the empty slice; 256 elements of an int8 slice) *)
Theorem C13_mean_wrap_panics_iff : forall w l, 0 < w ->
  (mean_w w l = Panic <-> (Z.of_nat (length l)) mod 2 ^ w = 0).
Proof. exact mean_w_panics_iff. Qed.
Print Assumptions C13_sum.
Print Assumptions C13_sum_by.
Print Assumptions C13_sum_wrap.
Print Assumptions C13_mean.
Print Assumptions C13_mean_rounds_toward_zero.
Print Assumptions C13_mean_wrap.
Print Assumptions C13_mean_wrap_panics_iff.

(* Abs, Clamp, InRange *)
Theorem C13_abs : forall x, abs_go x = Z.abs x.
Proof. exact abs_go_spec. Qed.
Theorem C13_abs_wrap : forall w x, 0 < w -> - 2 ^ (w - 1) <= x < 2 ^ (w - 1) ->
  (x <> - 2 ^ (w - 1) -> abs_w w x = Z.abs x) /\ (x = - 2 ^ (w - 1) -> abs_w w x = x).
Proof. exact abs_w_spec. Qed.
Theorem C13_clamp : forall num lo hi, lo <= hi ->
  lo <= clamp num lo hi <= hi /\
  (lo <= num <= hi -> clamp num lo hi = num) /\
  (num < lo -> clamp num lo hi = lo) /\ (num > hi -> clamp num lo hi = hi).
Proof. exact clamp_spec. Qed.
Theorem C13_in_range : forall num lo hi, in_range num lo hi = true <-> lo <= num <= hi.
Proof. exact in_range_spec. Qed.
Print Assumptions C13_abs.
Print Assumptions C13_abs_wrap.
Print Assumptions C13_clamp.
Print Assumptions C13_in_range.

(* Compare / Less / Equal *)
Theorem C13_compare : forall comp a b,
  (compare_go comp a b = 1 <-> comp a b = true) /\
  (compare_go comp a b = -1 <-> comp a b = false /\ comp b a = true) /\
  (compare_go comp a b = 0 <-> comp a b = false /\ comp b a = false).
Proof. exact compare_go_spec. Qed.
Theorem C13_less : forall a b, less_go a b = true <-> a < b.
Proof. exact less_go_spec. Qed.
Theorem C13_equal : forall a b, equal_go a b = true <-> a = b.
Proof. exact equal_go_spec. Qed.
Print Assumptions C13_compare.
Print Assumptions C13_less.
Print Assumptions C13_equal.

(* Range: exactly the invalid argument shapes are errors; otherwise the maximal
   progression from start by |step| toward end, stopping before it, ascending
   iff end > 0; RangeRight is its reverse; never a panic. *)
Theorem C13_range_errors : forall args, (exists k, range_go args = Err k) <-> range_invalid args.
Proof. exact range_errors. Qed.
Theorem C13_range_spec : forall args s st e,
  range_args args = Some (s, st, e) -> ~ range_invalid args ->
  exists n, range_go args = Ok (prog n s (if e >? 0 then Z.abs st else - Z.abs st)) /\
    (if e >? 0
     then (forall x, In x (prog n s (Z.abs st)) -> x < e) /\ (s < e -> s + Z.of_nat n * Z.abs st >= e)
     else (forall x, In x (prog n s (- Z.abs st)) -> e < x) /\ (e < s -> s - Z.of_nat n * Z.abs st <= e)) /\
    (n = 0%nat <-> (if e >? 0 then s >= e else s <= e)).
Proof. exact range_spec. Qed.
Theorem C13_range_right : forall args,
  match range_go args with
  | Ok l => range_right args = Ok (rev l)
  | Err k => range_right args = Err k
  | Panic => range_right args = Panic
  end.
Proof. exact range_right_spec. Qed.
Theorem C13_range_never_panics : forall args, range_go args <> Panic.
Proof. exact range_never_panics. Qed.
(* [C13_range_spec] determines the result: the number of terms is the rounded-up
   quotient of the distance by |step| — the closed form of "maximal ... stops
   before reaching it" *)
Theorem C13_range_closed_form : forall args s st e,
  range_args args = Some (s, st, e) -> ~ range_invalid args ->
  range_go args =
  Ok (if e >? 0
      then (if s <? e then prog (Z.to_nat (ceil_div (e - s) (Z.abs st))) s (Z.abs st) else [])
      else (if e <? s then prog (Z.to_nat (ceil_div (s - e) (Z.abs st))) s (- Z.abs st) else [])).
Proof. exact range_closed_form. Qed.
(* the argument-count variants spelled out: none / end / start, end — they
   cannot fail; three arguments fail exactly as [C13_range_errors] says; more
   than three always fail *)
Theorem C13_range_no_args : range_go [] = Ok [].
Proof. exact range_no_args. Qed.
Theorem C13_range_one_arg : forall e,
  range_go [e] = Ok (if e >? 0 then prog (Z.to_nat e) 0 1 else prog (Z.to_nat (- e)) 0 (-1)).
Proof. exact range_one_arg. Qed.
Theorem C13_range_two_args : forall s e,
  range_go [s; e] = Ok (if e >? 0 then prog (Z.to_nat (e - s)) s 1 else prog (Z.to_nat (s - e)) s (-1)).
Proof. exact range_two_args. Qed.
Theorem C13_range_too_many_args : forall a b c d args, exists k, range_go (a :: b :: c :: d :: args) = Err k.
Proof. intros. now exists 1. Qed.
(* the reverse of a progression is the progression from its last term by the opposite step *)
Theorem C13_rev_progression : forall n s d, rev (prog n s d) = prog n (s + (Z.of_nat n - 1) * d) (- d).
Proof. exact rev_prog. Qed.
Print Assumptions C13_range_errors.
Print Assumptions C13_range_spec.
Print Assumptions C13_range_right.
Print Assumptions C13_range_never_panics.
Print Assumptions C13_range_closed_form.
Print Assumptions C13_range_no_args.
Print Assumptions C13_range_one_arg.
Print Assumptions C13_range_two_args.
Print Assumptions C13_range_too_many_args.
Print Assumptions C13_rev_progression.

(* ------------------------------------------------------------------ *)
(* Go's int is a 64-bit type.  The theorems above read it as an unbounded
   integer; the functions that do ARITHMETIC on an int argument (Nth: Abs and a
   subtraction; Range: the loop counter and Abs(step); Sum/SumBy/Mean: the
   accumulator; Abs) are modelled a second time with every operation wrapped at
   w bits (w = 64 on the wire), and related to the unbounded reading here:
   equal outright (Nth), equal whenever the true result fits (Sum), equal
   for every argument of the type after the repair of the loops (Range) — and
   what happens otherwise is stated separately.  The functions that only COMPARE
   (IndexOf ... Every, FindMin ... Max, Clamp, InRange, Compare/Less/Equal) are
   the same function on Z and on int64. *)

(* Nth: for every index of the type — math.MinInt included, where Abs returns
   its argument and len - Abs(nth) wraps — the 64-bit code answers exactly what
   the unbounded reading answers; in particular it never panics *)
Theorem C13_nth_int_eq : forall w l n, 0 < w -> fits w n -> Z.of_nat (length l) < 2 ^ (w - 1) ->
  nth_w w l n = nth_go l n.
Proof. exact nth_w_eq. Qed.
Theorem C13_nth_int_never_panics : forall w l n, 0 < w -> fits w n -> Z.of_nat (length l) < 2 ^ (w - 1) ->
  nth_w w l n <> Panic.
Proof. exact nth_w_never_panics. Qed.
Print Assumptions C13_nth_int_eq.
Print Assumptions C13_nth_int_never_panics.

(* Sum: whenever the mathematical sum fits the type the wrapped loop returns it
   (overflows of partial sums cancel); otherwise [C13_sum_wrap] says what is
   returned.  SumBy is Sum of the images. *)
Theorem C13_sum_int_exact : forall w l, 0 < w -> fits w (sum l) -> sum_w w l = sum l.
Proof. exact sum_w_exact. Qed.
Theorem C13_sum_by_int : forall w f l, sum_by_w w f l = sum_w w (map f l).
Proof. exact sum_by_w_map. Qed.
Print Assumptions C13_sum_int_exact.
Print Assumptions C13_sum_by_int.

(* Range in a bounded element type, after the repair 07bbafa (both loops stop
   when the next term would not fit): for EVERY start / step / end of a signed
   w-bit type — MaxInt, MinInt and the most negative step included, where
   Abs(step) returns step itself — the loop returns exactly the progression of
   the unbounded reading ([C13_range_spec], [C13_range_closed_form]), provided it
   has at most [cap] terms (the model's iteration budget; 20000 on the wire).
   There is no no-overflow hypothesis any more.  The same for unsigned types.
   The rejected argument shapes are the same. *)
Theorem C13_range_int_eq : forall w cap args l,
  1 < w -> Forall (fits w) args ->
  range_go args = Ok l -> (length l <= cap)%nat ->
  range_w w cap args = Ok l.
Proof. exact range_w_eq. Qed.
Theorem C13_range_uint_eq : forall w cap args l,
  0 < w -> Forall (ufits w) args ->
  range_go args = Ok l -> (length l <= cap)%nat ->
  range_u w cap args = Ok l.
Proof. exact range_u_eq. Qed.
Theorem C13_range_int_errors : forall w cap args k, range_go args = Err k -> range_w w cap args = Err k.
Proof. exact range_w_err. Qed.
Theorem C13_range_right_int : forall w cap args,
  range_right_w w cap args =
  match range_w w cap args with Ok l => Ok (rev l) | Err k => Err k | Panic => Panic end.
Proof. exact range_right_w_rev. Qed.
Theorem C13_range_right_uint : forall w cap args,
  range_right_u w cap args =
  match range_u w cap args with Ok l => Ok (rev l) | Err k => Err k | Panic => Panic end.
Proof. exact range_right_u_rev. Qed.
(* the loops use [wrapf], which is [wrap] with a shortcut *)
Theorem C13_wrapf_eq : forall w z, 0 < w -> wrapf w z = wrap w z.
Proof. exact wrapf_eq. Qed.
(* range.go after a549427 writes the break tests as !(i+step > i) and !(i-Abs(step) < i) (a float counter that
   no longer moves must stop the loop too); on a signed or unsigned w-bit integer type these ARE the model's
   tests i+step < i and i-Abs(step) > i, because a wrapped sum differs from i whenever step is a non-zero
   value of the type (step = MinInt, where Abs(step) = step, included) *)
Theorem C13_range_break_tests_int : forall w i step, 0 < w ->
  - 2 ^ (w - 1) <= step < 2 ^ (w - 1) -> step <> 0 ->
  (wrapf w (i + step) <? i) = negb (wrapf w (i + step) >? i) /\
  (wrapf w (i - abs_w w step) >? i) = negb (wrapf w (i - abs_w w step) <? i).
Proof. exact range_break_tests_int. Qed.
Theorem C13_range_break_tests_uint : forall w i step, 0 < w -> 0 < step < 2 ^ w ->
  ((i + step) mod 2 ^ w <? i) = negb ((i + step) mod 2 ^ w >? i) /\
  ((i - step) mod 2 ^ w >? i) = negb ((i - step) mod 2 ^ w <? i).
Proof. exact range_break_tests_uint. Qed.
Print Assumptions C13_range_break_tests_int.
Print Assumptions C13_range_break_tests_uint.
Print Assumptions C13_range_int_eq.
Print Assumptions C13_range_uint_eq.
Print Assumptions C13_range_int_errors.
Print Assumptions C13_range_right_int.
Print Assumptions C13_range_right_uint.
Print Assumptions C13_wrapf_eq.

(* THE CODE AS FOUND (before 07bbafa), only: without the break tests a counter
   that passes the top of the type wraps and the loop runs on.  Witness in an
   8-bit type: the ascending loop from 120 by 5 toward 127 yields 155 values
   (120, 125, -126, -121, ...) instead of [120; 125] — measured on the unrepaired
   code: Range[int8](120, 5, 127) had 155 elements; with 64-bit ints
   Range(MaxInt-5, 2, MaxInt) ran until memory was exhausted. *)
Theorem C13_range_overflow_unrepaired_refuted :
  range_go [120; 5; 127] = Ok [120; 125] /\ Forall (fits 8) [120; 5; 127] /\
  (exists l, range_up_asfound 8 1000 120 5 127 = Some l /\ length l = 155%nat) /\
  range_w 8 1000 [120; 5; 127] = Ok [120; 125].
Proof.
  split; [reflexivity|]. split; [repeat constructor; unfold fits; cbn; lia|]. split.
  - eexists. split; [vm_compute; reflexivity | reflexivity].
  - vm_compute. reflexivity.
Qed.
Print Assumptions C13_range_overflow_unrepaired_refuted.
(* the repaired code at the limits: the cases the lead measured, the most
   negative step, both ends of int64; Nth at math.MinInt; Sum with cancelling
   overflow *)
Example C13_int64_examples :
  range_w 64 100 [2 ^ 63 - 6; 2; 2 ^ 63 - 1] = Ok [2 ^ 63 - 6; 2 ^ 63 - 4; 2 ^ 63 - 2] /\
  range_w 64 100 [2 ^ 63 - 4; 2; 2 ^ 63 - 2] = Ok [2 ^ 63 - 4] /\
  range_w 64 100 [- 2 ^ 63 + 3; -1; - 2 ^ 63 + 1] = Ok [- 2 ^ 63 + 3; - 2 ^ 63 + 2] /\
  range_w 64 100 [- 2 ^ 63 + 3; 5; - 2 ^ 63] = Ok [- 2 ^ 63 + 3] /\
  range_w 64 100 [5; - 2 ^ 63; - 2 ^ 63] = Ok [5; 5 - 2 ^ 63] /\
  range_w 64 100 [-5; - 2 ^ 63; - 2 ^ 63] = Ok [-5] /\
  range_w 8 1000 [-120; 5; -128] = Ok [-120; -125] /\
  range_u 8 1000 [5; 2; 0] = Ok [5; 3; 1] /\ range_u 8 1000 [250; 4; 255] = Ok [250; 254] /\
  nth_w 64 [7] (- 2 ^ 63) = Err 1 /\ nth_w 64 [] (- 2 ^ 63) = Err 1 /\ nth_w 64 [7] (2 ^ 63 - 1) = Err 1 /\
  sum_w 64 [2 ^ 63 - 1; 1; -1] = 2 ^ 63 - 1 /\ sum_w 64 [2 ^ 63 - 1; 1] = - 2 ^ 63 /\
  abs_w 64 (- 2 ^ 63) = - 2 ^ 63.
Proof. repeat split; vm_compute; reflexivity. Qed.

(* non-vacuity: the hypotheses of the conditional statements are met by
   concrete inputs, and the model computes the expected answers there *)
Example C13_examples :
  range_go [1; 2; 8] = Ok [1; 3; 5; 7] /\ range_go [0; -2; -7] = Ok [0; -2; -4; -6] /\
  range_go [5] = Ok [0; 1; 2; 3; 4] /\ range_go [-3] = Ok [0; -1; -2] /\
  ~ range_invalid [1; 2; 8] /\ range_invalid [3; 1; 2] /\
  nth_go [10; 20; 30] (-1) = Ok 30 /\ nth_go [] 0 = Err 1 /\
  clamp 5 1 3 = 3 /\ find_min_by (fun x => Z.rem x 2) [3; 4; 6; 1] = 4 /\
  sum_w 8 [100; 100] = -56 /\
  (* further shapes of Range: step larger than the distance, step not dividing
     it, start beyond a non-positive end (descending), start = end, a negative
     step with a positive end and start = end, the three error kinds *)
  range_go [2; 5; 4] = Ok [2] /\ range_go [0; 3; 7] = Ok [0; 3; 6] /\ range_go [3; 2; -2] = Ok [3; 1; -1] /\
  range_go [3; -2; -2] = Ok [3; 1; -1] /\ range_go [4; 1; 4] = Ok [] /\ range_go [4; -1; 4] = Ok [] /\
  range_go [-5; -2] = Ok [] /\ range_go [2; -3] = Ok [2; 1; 0; -1; -2] /\ range_go [5; 2] = Ok [] /\
  range_go [5; 1; 3] = Err 2 /\ range_go [1; 0; 3] = Err 3 /\ range_go [1; -1; 3] = Err 4 /\
  range_go [1; 2; 3; 4] = Err 1 /\ range_right [1; 2; 8] = Ok [7; 5; 3; 1] /\
  (* Nth at the four boundaries and just outside *)
  nth_go [10; 20; 30] 0 = Ok 10 /\ nth_go [10; 20; 30] 2 = Ok 30 /\ nth_go [10; 20; 30] 3 = Err 1 /\
  nth_go [10; 20; 30] (-3) = Ok 10 /\ nth_go [10; 20; 30] (-4) = Err 1 /\
  (* Mean: rounding toward zero on both sides, wrap-around at int8, the int8 length quirks *)
  mean [1; 2] = Ok 1 /\ mean [-1; -2] = Ok (-1) /\ mean [] = Panic /\
  mean_w 8 [100; 100] = Ok (-28) /\ mean_w 8 (repeat 1 128) = Ok 1 /\ mean_w 8 (repeat 1 256) = Panic /\
  (* first among equals, both directions *)
  find_max_by (fun x => Z.rem x 2) [4; 3; 6; 1] = 3 /\ find_min_by (fun _ => 0) [5; 4; 3] = 5.
Proof.
  repeat split; try (vm_compute; reflexivity).
  - intros [H | (s & st & e & H & Hc)]; [cbn in H; lia|]. injection H as <- <- <-. lia.
  - right. exists 3, 1, 2. split; [reflexivity | lia].
Qed.
