(* C13_Props.v — property C13, stated over the model of C13_Model.v.
   Only statements here; each is closed by [exact] of a lemma of C13_Proofs.v
   and followed by Print Assumptions. *)

From Gogu Require Import Base C13_Model C13_Proofs.
From Coq Require Import Sorted.
Local Open Scope Z_scope.

(* IndexOf/FindIndex: the smallest matching index, -1 iff none *)
Theorem C13_find_index_least : forall p l,
  (find_index p l = -1 /\ forall x, In x l -> p x = false) \/
  (exists i x, find_index p l = Z.of_nat i /\ nth_error l i = Some x /\ p x = true /\
               forall j y, (j < i)%nat -> nth_error l j = Some y -> p y = false).
Proof. exact find_index_least. Qed.
Print Assumptions C13_find_index_least.

Theorem C13_index_of_least : forall l v,
  (index_of l v = -1 /\ ~ In v l) \/
  (exists i, index_of l v = Z.of_nat i /\ nth_error l i = Some v /\
             forall j, (j < i)%nat -> nth_error l j <> Some v).
Proof.
  intros l v. unfold index_of.
  destruct (find_index_least (Z.eqb v) l) as [[H1 H2] | (i & x & H1 & H2 & H3 & H4)].
  - left. split; [exact H1|]. intros Hin. specialize (H2 v Hin). now rewrite Z.eqb_refl in H2.
  - right. exists i. apply Z.eqb_eq in H3. subst x. repeat split; auto.
    intros j Hj Hn. specialize (H4 j v Hj Hn). now rewrite Z.eqb_refl in H4.
Qed.
Print Assumptions C13_index_of_least.

(* LastIndexOf/FindLastIndex: the largest matching index, -1 iff none *)
Theorem C13_find_last_index_greatest : forall p l,
  (find_last_index p l = -1 /\ forall x, In x l -> p x = false) \/
  (exists i x, find_last_index p l = Z.of_nat i /\ nth_error l i = Some x /\ p x = true /\
               forall j y, (i < j)%nat -> nth_error l j = Some y -> p y = false).
Proof. exact find_last_index_greatest. Qed.
Print Assumptions C13_find_last_index_greatest.

(* FindAll: exactly the matching (index, value) pairs *)
Theorem C13_find_all_exact : forall p l i v,
  In (i, v) (find_all p l) <-> exists n, i = Z.of_nat n /\ nth_error l n = Some v /\ p v = true.
Proof. exact find_all_exact. Qed.
Print Assumptions C13_find_all_exact.

(* Contains / Some / Every are the quantifiers *)
Theorem C13_contains_iff : forall l x, contains l x = true <-> In x l.
Proof. exact contains_iff. Qed.
Theorem C13_some_iff : forall p l, some p l = true <-> exists x, In x l /\ p x = true.
Proof. exact some_iff. Qed.
Theorem C13_every_iff : forall p l, every p l = true <-> forall x, In x l -> p x = true.
Proof. exact every_iff. Qed.
Print Assumptions C13_contains_iff.
Print Assumptions C13_some_iff.
Print Assumptions C13_every_iff.

(* FindMin/FindMax/Min/Max: a member of the input that is extremal; zero for
   the empty input *)
Theorem C13_find_min_extremal : forall l,
  match l with
  | [] => find_min l = 0
  | _ => In (find_min l) l /\ (forall x, In x l -> find_min l <= x)
  end.
Proof. exact find_min_spec. Qed.
Theorem C13_find_max_extremal : forall l,
  match l with
  | [] => find_max l = 0
  | _ => In (find_max l) l /\ (forall x, In x l -> x <= find_max l)
  end.
Proof. exact find_max_spec. Qed.
Theorem C13_min_extremal : forall l,
  match l with
  | [] => min_of l = 0
  | _ => In (min_of l) l /\ (forall x, In x l -> min_of l <= x)
  end.
Proof. exact find_min_spec. Qed.
Theorem C13_max_extremal : forall l,
  match l with
  | [] => max_of l = 0
  | _ => In (max_of l) l /\ (forall x, In x l -> x <= max_of l)
  end.
Proof. exact find_max_spec. Qed.
Print Assumptions C13_find_min_extremal.
Print Assumptions C13_find_max_extremal.
Print Assumptions C13_min_extremal.
Print Assumptions C13_max_extremal.

(* …By: extremal under the key function, and the FIRST such element *)
Theorem C13_find_min_by_extremal : forall f l,
  match l with
  | [] => find_min_by f l = 0
  | _ => In (find_min_by f l) l /\ (forall x, In x l -> f (find_min_by f l) <= f x)
  end.
Proof. exact find_min_by_spec. Qed.
Theorem C13_find_max_by_extremal : forall f l,
  match l with
  | [] => find_max_by f l = 0
  | _ => In (find_max_by f l) l /\ (forall x, In x l -> f x <= f (find_max_by f l))
  end.
Proof. exact find_max_by_spec. Qed.
Theorem C13_find_min_by_first : forall f l l1 l2,
  l = l1 ++ find_min_by f l :: l2 -> ~ In (find_min_by f l) l1 ->
  forall x, In x l1 -> f (find_min_by f l) < f x.
Proof. exact find_min_by_first. Qed.
Print Assumptions C13_find_min_by_extremal.
Print Assumptions C13_find_max_by_extremal.
Print Assumptions C13_find_min_by_first.

(* …ByKey: extremal among the maps that have the key; zero for no maps; an
   error when the first map lacks the key *)
Theorem C13_find_min_by_key : forall ms key,
  match ms with
  | [] => find_min_by_key ms key = Ok 0
  | m0 :: _ =>
      match alookup m0 key with
      | None => exists k, find_min_by_key ms key = Err k
      | Some _ =>
          exists r, find_min_by_key ms key = Ok r /\
                    (exists m, In m ms /\ alookup m key = Some r) /\
                    (forall m v, In m ms -> alookup m key = Some v -> r <= v)
      end
  end.
Proof. exact find_min_by_key_spec. Qed.
Theorem C13_find_max_by_key : forall ms key,
  match ms with
  | [] => find_max_by_key ms key = Ok 0
  | m0 :: _ =>
      match alookup m0 key with
      | None => exists k, find_max_by_key ms key = Err k
      | Some _ =>
          exists r, find_max_by_key ms key = Ok r /\
                    (exists m, In m ms /\ alookup m key = Some r) /\
                    (forall m v, In m ms -> alookup m key = Some v -> v <= r)
      end
  end.
Proof. exact find_max_by_key_spec. Qed.
Print Assumptions C13_find_min_by_key.
Print Assumptions C13_find_max_by_key.

(* Nth: s[i], s[len+i], or an error — never a panic *)
Theorem C13_nth_spec : forall l n,
  let len := Z.of_nat (length l) in
  (0 <= n < len -> nth_go l n = Ok (nth (Z.to_nat n) l 0)) /\
  (- len <= n < 0 -> nth_go l n = Ok (nth (Z.to_nat (len + n)) l 0)) /\
  (n >= len \/ n < - len -> exists k, nth_go l n = Err k).
Proof. exact nth_go_spec. Qed.
Theorem C13_nth_never_panics : forall l n, nth_go l n <> Panic.
Proof. exact nth_go_never_panics. Qed.
Print Assumptions C13_nth_spec.
Print Assumptions C13_nth_never_panics.

(* Sum/SumBy/Mean: the arithmetic sum (mean) — in a w-bit element type, the
   sum modulo 2^w in the type's range *)
Theorem C13_sum : forall l, sum l = fold_right Z.add 0 l.
Proof. exact sum_is_list_sum. Qed.
Theorem C13_sum_by : forall f l, sum_by f l = sum (map f l).
Proof. exact sum_by_is_sum_map. Qed.
Theorem C13_sum_wrap : forall w l, 0 < w ->
  (sum_w w l) mod 2 ^ w = (sum l) mod 2 ^ w /\ - 2 ^ (w - 1) <= sum_w w l < 2 ^ (w - 1).
Proof. exact sum_w_spec. Qed.
Theorem C13_mean : forall l, l <> [] -> mean l = Ok (Z.quot (sum l) (Z.of_nat (length l))).
Proof. exact mean_spec. Qed.
Print Assumptions C13_sum.
Print Assumptions C13_sum_by.
Print Assumptions C13_sum_wrap.
Print Assumptions C13_mean.

(* Abs, Clamp, InRange *)
Theorem C13_abs : forall x, abs_go x = Z.abs x.
Proof. exact abs_go_spec. Qed.
Theorem C13_abs_wrap : forall w x, 0 < w -> - 2 ^ (w - 1) <= x < 2 ^ (w - 1) ->
  (x <> - 2 ^ (w - 1) -> abs_w w x = Z.abs x) /\ (x = - 2 ^ (w - 1) -> abs_w w x = x).
Proof. exact abs_w_spec. Qed.
Theorem C13_clamp : forall num lo hi, lo <= hi ->
  lo <= clamp num lo hi <= hi /\
  (lo <= num <= hi -> clamp num lo hi = num) /\
  (num < lo -> clamp num lo hi = lo) /\ (num > hi -> clamp num lo hi = hi).
Proof. exact clamp_spec. Qed.
Theorem C13_in_range : forall num lo hi, in_range num lo hi = true <-> lo <= num <= hi.
Proof. exact in_range_spec. Qed.
Print Assumptions C13_abs.
Print Assumptions C13_abs_wrap.
Print Assumptions C13_clamp.
Print Assumptions C13_in_range.

(* Compare / Less / Equal *)
Theorem C13_compare : forall comp a b,
  (compare_go comp a b = 1 <-> comp a b = true) /\
  (compare_go comp a b = -1 <-> comp a b = false /\ comp b a = true) /\
  (compare_go comp a b = 0 <-> comp a b = false /\ comp b a = false).
Proof. exact compare_go_spec. Qed.
Theorem C13_less : forall a b, less_go a b = true <-> a < b.
Proof. exact less_go_spec. Qed.
Theorem C13_equal : forall a b, equal_go a b = true <-> a = b.
Proof. exact equal_go_spec. Qed.
Print Assumptions C13_compare.
Print Assumptions C13_less.
Print Assumptions C13_equal.

(* Range: exactly the invalid argument shapes are errors; otherwise the maximal
   progression from start by |step| toward end, stopping before it, ascending
   iff end > 0; RangeRight is its reverse; never a panic. *)
Theorem C13_range_errors : forall args, (exists k, range_go args = Err k) <-> range_invalid args.
Proof. exact range_errors. Qed.
Theorem C13_range_spec : forall args s st e,
  range_args args = Some (s, st, e) -> ~ range_invalid args ->
  exists n, range_go args = Ok (prog n s (if e >? 0 then Z.abs st else - Z.abs st)) /\
    (if e >? 0
     then (forall x, In x (prog n s (Z.abs st)) -> x < e) /\ (s < e -> s + Z.of_nat n * Z.abs st >= e)
     else (forall x, In x (prog n s (- Z.abs st)) -> e < x) /\ (e < s -> s - Z.of_nat n * Z.abs st <= e)) /\
    (n = 0%nat <-> (if e >? 0 then s >= e else s <= e)).
Proof. exact range_spec. Qed.
Theorem C13_range_right : forall args,
  match range_go args with
  | Ok l => range_right args = Ok (rev l)
  | Err k => range_right args = Err k
  | Panic => range_right args = Panic
  end.
Proof. exact range_right_spec. Qed.
Theorem C13_range_never_panics : forall args, range_go args <> Panic.
Proof. exact range_never_panics. Qed.
Print Assumptions C13_range_errors.
Print Assumptions C13_range_spec.
Print Assumptions C13_range_right.
Print Assumptions C13_range_never_panics.

(* non-vacuity: the hypotheses of the conditional statements are met by
   concrete inputs, and the model computes the expected answers there *)
Example C13_examples :
  range_go [1; 2; 8] = Ok [1; 3; 5; 7] /\ range_go [0; -2; -7] = Ok [0; -2; -4; -6] /\
  range_go [5] = Ok [0; 1; 2; 3; 4] /\ range_go [-3] = Ok [0; -1; -2] /\
  ~ range_invalid [1; 2; 8] /\ range_invalid [3; 1; 2] /\
  nth_go [10; 20; 30] (-1) = Ok 30 /\ nth_go [] 0 = Err 1 /\
  clamp 5 1 3 = 3 /\ find_min_by (fun x => Z.rem x 2) [3; 4; 6; 1] = 4 /\
  sum_w 8 [100; 100] = -56.
Proof.
  repeat split; try reflexivity.
  - intros [H | (s & st & e & H & Hc)]; [cbn in H; lia|]. injection H as <- <- <-. lia.
  - right. exists 3, 1, 2. split; [reflexivity | lia].
Qed.
