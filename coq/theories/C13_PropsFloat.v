(* C13_PropsFloat.v — the float64 instantiations of the C13 helpers: statements
   only.  Model: C13_ModelFloat (Flocq binary64, round to nearest even); proofs:
   C13_ProofsFloat.

   Reading aid.  [B2R x] is the real value of a finite float64 (0 for both
   zeros; Flocq also gives 0 to infinities and NaN, which is why the order
   statements use [xval]: B2R on finite values, -2^1024 / +2^1024 for -Inf /
   +Inf).  [rne r] is r rounded to the nearest float64, ties to even
   (unbounded exponent range; the theorems say separately when the result fits
   below 2^1024).  [fmt64 r]: r is a float64 value.  [flt fle feq fgt fge] are
   Go's < <= == > >= at float64; every one of them is false when an operand is
   NaN.

   Every theorem here depends on the axioms the Coq standard library declares for
   its classical real numbers (Print Assumptions lists them: sig_forall_dec,
   sig_not_dec, functional_extensionality_dep, classic) — through Flocq's
   correctness theorems and through the validity proofs stored in Flocq values.
   Nothing else is assumed. *)

From Coq Require Import Reals.
From Flocq Require Import Core BinarySingleNaN Bits.
From Flocq Require Binary.
From Gogu Require Import Base C13_ModelFloat C13_ProofsFloat.

(* one axiom per line in the Print Assumptions output *)
Set Printing Width 4000.

(* readable literals for the examples: the float64 with the given bit pattern *)
Definition F (bits : Z) : f64 := f64_of_bits bits.
Definition f0_1 := F 4591870180066957722.   (* 0.1 *)
Definition f0_2 := F 4596373779694328218.   (* 0.2 *)
Definition f0_3 := F 4599075939470750515.   (* 0.3 *)
Definition f0_5 := F 4602678819172646912.   (* 0.5 *)
Definition f0_25 := F 4598175219545276416.  (* 0.25 *)
Definition f1 := F 4607182418800017408.     (* 1 *)
Definition f2 := F 4611686018427387904.     (* 2 *)
Definition f3 := F 4613937818241073152.     (* 3 *)
Definition fm1 := F (-4616189618054758400). (* -1 *)
Definition f1e308 := F 9214871658872686752. (* 1e308 *)
Definition f2p53 := F 4845873199050653696.  (* 2^53 *)
Definition f2p53_2 := F 4845873199050653697. (* 2^53 + 2 *)
Definition fpinf := finf false.
Definition fminf := finf true.

(* ================= the wire codec ================= *)

(* decoding what was encoded gives the value back: the 64-bit pattern determines the float64 *)
Theorem C13_f64_bits_roundtrip : forall x, f64_of_bits (bits_of_f64 x) = x.
Proof. exact f64_bits_roundtrip. Qed.
(* the encoder is Flocq's IEEE-754 encoder (Bits.bits_of_b64), read as a signed 64-bit word *)
Theorem C13_bits_of_f64_is_flocq : forall x,
  bits_of_f64 x = signed64 (bits_of_b64 (Binary.BSN2B 53 1024 default_nan_pl64 x)).
Proof. exact bits_of_f64_is_flocq. Qed.

(* the theorems of this section as one tuple: Print Assumptions of the tuple lists the union of their
   assumptions (one command per section: each one walks the whole Reals/Flocq dependency closure) *)
Definition C13_float_codec_theorems :=
  (C13_f64_bits_roundtrip,
   C13_bits_of_f64_is_flocq).
Print Assumptions C13_float_codec_theorems.

(* ================= Go's comparisons at float64 ================= *)

(* without NaN, <, <= and == are the comparisons of the (extended) real values; -0 and +0 have the same value *)
Theorem C13_float_order : forall x y, is_nan x = false -> is_nan y = false ->
  flt x y = Rlt_bool (xval x) (xval y) /\
  fle x y = Rle_bool (xval x) (xval y) /\
  feq x y = Req_bool (xval x) (xval y).
Proof. intros x y Nx Ny. repeat split; [now apply flt_spec | now apply fle_spec | now apply feq_spec]. Qed.
(* every comparison with a NaN operand is false *)
Theorem C13_float_order_nan : forall x y, is_nan x = true ->
  flt x y = false /\ flt y x = false /\ fle x y = false /\ fle y x = false /\
  feq x y = false /\ feq y x = false.
Proof. exact cmp_nan_l. Qed.
(* equal values: the same float64, or the two zeros *)
Theorem C13_float_equal_values : forall a b, is_nan a = false -> is_nan b = false ->
  xval a = xval b -> a = b \/ (exists s t, a = B754_zero s /\ b = B754_zero t).
Proof. exact xval_eq. Qed.

(* the theorems of this section as one tuple: Print Assumptions of the tuple lists the union of their
   assumptions (one command per section: each one walks the whole Reals/Flocq dependency closure) *)
Definition C13_float_order_theorems :=
  (C13_float_order,
   C13_float_order_nan,
   C13_float_equal_values).
Print Assumptions C13_float_order_theorems.

(* ================= Sum, SumBy, Mean ================= *)

(* Sum is the left fold of IEEE addition from +0 *)
Theorem C13_fsum_fold : fsum [] = fpz /\ forall l x, fsum (l ++ [x]) = fadd (fsum l) x.
Proof. split; [exact fsum_nil | exact fsum_snoc]. Qed.
Theorem C13_fsum_by_is_sum_of_map : forall k l, fsum_by k l = fsum (map k l).
Proof.
  intros k l. unfold fsum_by, fsum. generalize fpz.
  induction l as [|x l IH]; intros acc; simpl; [reflexivity | apply IH].
Qed.
(* each += is ONE correctly rounded addition (round to nearest even) … *)
Theorem C13_fadd_rounds_once : forall a x, is_finite a = true -> is_finite x = true ->
  (Rabs (rne (B2R a + B2R x)) < bpow radix2 1024)%R ->
  is_finite (fadd a x) = true /\ B2R (fadd a x) = rne (B2R a + B2R x).
Proof. exact fadd_finite_spec. Qed.
(* … and overflows to the infinity of the operands' common sign otherwise *)
Theorem C13_fadd_overflow : forall a x, is_finite a = true -> is_finite x = true ->
  (bpow radix2 1024 <= Rabs (rne (B2R a + B2R x)))%R ->
  fadd a x = B754_infinity (Bsign a) /\ Bsign a = Bsign x.
Proof. exact fadd_overflow. Qed.
(* exact: when every partial sum of the real values is a float64 below 2^1024, Sum returns the real sum *)
Theorem C13_fsum_exact : forall l, Forall (fun x => is_finite x = true) l ->
  (forall k, (k <= length l)%nat ->
     fmt64 (rsum (firstn k l)) /\ (Rabs (rsum (firstn k l)) < bpow radix2 1024)%R) ->
  is_finite (fsum l) = true /\ B2R (fsum l) = rsum l.
Proof. exact fsum_exact. Qed.
(* integers of magnitude below 2^53 are float64 values: integer-valued slices whose partial sums stay there add exactly *)
Theorem C13_fmt64_int : forall n, (Z.abs n < 2 ^ 53)%Z -> fmt64 (IZR n).
Proof. exact fmt64_int. Qed.
(* a NaN element makes the sum NaN *)
Theorem C13_fsum_nan : forall l, (exists x, In x l /\ is_nan x = true) -> fsum l = B754_nan.
Proof. exact fsum_nan. Qed.
(* Sum never returns -0 (it starts from +0, and +0 + -0 = +0): Sum[-0] = +0 *)
Theorem C13_fsum_never_neg_zero : forall l, fsum l <> fnz.
Proof. exact fsum_not_neg_zero. Qed.
(* Mean = Sum / float64(len); float64(len) is exact; one more rounding; Mean [] = 0/0 = NaN (no panic) *)
Theorem C13_fmean : forall l, fmean l = fdiv (fsum l) (f_of_int (Z.of_nat (length l))).
Proof. reflexivity. Qed.
Theorem C13_f_of_int_exact : forall n, (Z.abs n < 2 ^ 53)%Z ->
  is_finite (f_of_int n) = true /\ B2R (f_of_int n) = IZR n.
Proof. exact f_of_int_exact. Qed.
Theorem C13_fmean_rounds_once : forall l, l <> [] -> (Z.of_nat (length l) < 2 ^ 53)%Z ->
  is_finite (fsum l) = true ->
  (Rabs (rne (B2R (fsum l) / INR (length l))) < bpow radix2 1024)%R ->
  is_finite (fmean l) = true /\ B2R (fmean l) = rne (B2R (fsum l) / INR (length l)).
Proof. exact fmean_spec. Qed.
Theorem C13_fmean_empty : fmean [] = B754_nan.
Proof. exact fmean_nil. Qed.

(* non-vacuity of C13_fsum_exact: [float64(1); float64(2); float64(3)] meets its hypotheses; the sum is 6 *)
Example C13_fsum_exact_nonvacuous :
  let l := [f_of_int 1; f_of_int 2; f_of_int 3] in
  Forall (fun x => is_finite x = true) l /\
  (forall k, (k <= length l)%nat ->
     fmt64 (rsum (firstn k l)) /\ (Rabs (rsum (firstn k l)) < bpow radix2 1024)%R) /\
  B2R (fsum l) = 6%R.
Proof. exact fsum_exact_example. Qed.
(* [0.5; 0.25; 1; 2] adds exactly (3.75); 0.1 + 0.2 + 0.3 does NOT and depends on the order; a partial sum
   may overflow although the total would fit; Mean inherits it *)
Example C13_fsum_examples :
  map bits_of_f64 [fsum [f0_5; f0_25; f1; f2]; fsum [f0_1; f0_2; f0_3]; fsum [f0_3; f0_2; f0_1];
                   fsum [f1e308; f1e308; fneg f1e308]; fsum [fpinf; fminf]; fsum [fnz]; fsum [fnz; fnz];
                   fsum [f2p53; f1; f1]; fsum [f1; f1; f2p53];
                   fmean [f1e308; f1e308]; fmean [f0_1; f0_2; f0_3]; fmean [F 1; fpz]]
  = [4615626668101337088 (* 3.75 *); 4603579539098121012 (* 0.6000000000000001 *); 4603579539098121011 (* 0.6 *);
     9218868437227405312 (* +Inf *); 9221120237041090560 (* NaN *); 0 (* +0 *); 0;
     4845873199050653696 (* 2^53: both ones are absorbed *); 4845873199050653697 (* 2^53 + 2 *);
     9218868437227405312 (* +Inf: the sum overflowed *); 4596373779694328219 (* 0.20000000000000004 *);
     0 (* 5e-324 / 2 rounds to +0 *)].
Proof. vm_compute. reflexivity. Qed.

(* the theorems of this section as one tuple: Print Assumptions of the tuple lists the union of their
   assumptions (one command per section: each one walks the whole Reals/Flocq dependency closure) *)
Definition C13_float_sum_mean_theorems :=
  (C13_fsum_fold,
   C13_fsum_by_is_sum_of_map,
   C13_fadd_rounds_once,
   C13_fadd_overflow,
   C13_fsum_exact,
   C13_fmt64_int,
   C13_fsum_nan,
   C13_fsum_never_neg_zero,
   C13_fmean,
   C13_f_of_int_exact,
   C13_fmean_rounds_once,
   C13_fmean_empty).
Print Assumptions C13_float_sum_mean_theorems.

(* ================= Min / Max / FindMin / FindMax (+By, +ByKey) ================= *)

(* the result is an element of a non-empty input; +0 (the zero value) for an empty one *)
Theorem C13_ffind_in : forall k l, l <> [] ->
  In (ffind_min_by k l) l /\ In (ffind_max_by k l) l.
Proof. intros k l Hl. split; [now apply ffind_min_by_in | now apply ffind_max_by_in]. Qed.
Theorem C13_ffind_empty : forall k,
  ffind_min_by k [] = fpz /\ ffind_max_by k [] = fpz /\ ffind_min [] = fpz /\ ffind_max [] = fpz.
Proof. intros k. repeat split. Qed.
(* Min, Max, FindMin, FindMax are the By variants under the identity key *)
Theorem C13_ffind_plain_is_by_id : forall l,
  fmin_of l = ffind_min_by (fun x => x) l /\ fmax_of l = ffind_max_by (fun x => x) l /\
  ffind_min l = ffind_min_by (fun x => x) l /\ ffind_max l = ffind_max_by (fun x => x) l.
Proof. intros l. repeat split. Qed.
(* no NaN among the keys: the slice splits around the answer with every EARLIER element strictly worse under
   the key and every later one no better — extremal, and the first such one under the code's comparison
   (-0 and +0 are equal: the first of them wins) *)
Theorem C13_ffind_min_by_first_extremal : forall k l, l <> [] ->
  Forall (fun x => is_nan (k x) = false) l ->
  exists l1 l2, l = l1 ++ ffind_min_by k l :: l2 /\
    (forall x, In x l1 -> (xval (k (ffind_min_by k l)) < xval (k x))%R) /\
    (forall x, In x l2 -> (xval (k (ffind_min_by k l)) <= xval (k x))%R).
Proof. exact ffind_min_by_split. Qed.
Theorem C13_ffind_max_by_first_extremal : forall k l, l <> [] ->
  Forall (fun x => is_nan (k x) = false) l ->
  exists l1 l2, l = l1 ++ ffind_max_by k l :: l2 /\
    (forall x, In x l1 -> (xval (k x) < xval (k (ffind_max_by k l)))%R) /\
    (forall x, In x l2 -> (xval (k x) <= xval (k (ffind_max_by k l)))%R).
Proof. exact ffind_max_by_split. Qed.
(* such a decomposition names one element only *)
Theorem C13_ffirst_extremal_unique : forall (v : f64 -> R) l1 r l2 k1 r' k2,
  l1 ++ r :: l2 = k1 ++ r' :: k2 ->
  (forall x, In x l1 -> (v r < v x)%R) -> (forall x, In x l2 -> (v r <= v x)%R) ->
  (forall x, In x k1 -> (v r' < v x)%R) -> (forall x, In x k2 -> (v r' <= v x)%R) ->
  l1 = k1 /\ r = r' /\ l2 = k2.
Proof. exact (@first_min_unique_R f64). Qed.
(* in the code's own comparison: with no NaN element the minimum is <= and the maximum >= every element *)
Theorem C13_ffind_min_le_all : forall l, Forall (fun x => is_nan x = false) l ->
  forall y, In y l -> fle (ffind_min l) y = true.
Proof. exact ffind_min_le. Qed.
Theorem C13_ffind_max_ge_all : forall l, Forall (fun x => is_nan x = false) l ->
  forall y, In y l -> fle y (ffind_max l) = true.
Proof. exact ffind_max_ge. Qed.
(* NaN, exactly: an element whose key is NaN is never selected by the loop — the answer is the same as on the
   slice with such elements removed from the tail — and if the FIRST element's key is NaN nothing ever
   replaces it: the first element is returned (for the plain variants: the result is NaN) *)
Theorem C13_ffind_skips_nan : forall k x l,
  ffind_min_by k (x :: l) = ffind_min_by k (x :: filter (fun y => negb (is_nan (k y))) l) /\
  ffind_max_by k (x :: l) = ffind_max_by k (x :: filter (fun y => negb (is_nan (k y))) l).
Proof. intros k x l. split; [apply ffind_min_by_skips_nan | apply ffind_max_by_skips_nan]. Qed.
Theorem C13_ffind_nan_head : forall k x l, is_nan (k x) = true ->
  ffind_min_by k (x :: l) = x /\ ffind_max_by k (x :: l) = x.
Proof. intros k x l H. split; [now apply ffind_min_by_nan_head | now apply ffind_max_by_nan_head]. Qed.
(* ByKey at map[K]float64: the FindMin / FindMax of the values stored under the key, in slice order (maps
   lacking the key contribute nothing); no maps: +0; first map lacks the key: an error *)
Theorem C13_ffind_by_key : forall ms key,
  ffind_min_by_key ms key =
    match ms with
    | [] => Ok fpz
    | m0 :: _ => match falookup m0 key with
                 | None => Err 1
                 | Some _ => Ok (ffind_min (fkeyvals ms key))
                 end
    end /\
  ffind_max_by_key ms key =
    match ms with
    | [] => Ok fpz
    | m0 :: _ => match falookup m0 key with
                 | None => Err 1
                 | Some _ => Ok (ffind_max (fkeyvals ms key))
                 end
    end.
Proof. intros ms key. split; [apply ffind_min_by_key_spec | apply ffind_max_by_key_spec]. Qed.

(* Min(+0,-0) = +0 and Min(-0,+0) = -0 (the first of two equal values; math.Min would say -0 both times);
   NaN first: NaN; NaN later: skipped; By with key -x *)
Example C13_ffind_examples :
  map bits_of_f64 [fmin_of [fpz; fnz]; fmin_of [fnz; fpz]; fmax_of [fnz; fpz]; fmax_of [fpz; fnz];
                   fmin_of [fnan; f1; f2]; fmin_of [f1; fnan; fpz]; fmax_of [f1; fnan; f3]; ffind_max [f1; fnan; fpinf];
                   ffind_min_by fneg [f1; fnan; f3]; ffind_max_by fneg [fnan; f1]; ffind_min []]
  = [0; -9223372036854775808; -9223372036854775808; 0;
     9221120237041090560; 0; 4613937818241073152; 9218868437227405312;
     4613937818241073152; 9221120237041090560; 0].
Proof. vm_compute. reflexivity. Qed.

(* the theorems of this section as one tuple: Print Assumptions of the tuple lists the union of their
   assumptions (one command per section: each one walks the whole Reals/Flocq dependency closure) *)
Definition C13_float_extrema_theorems :=
  (C13_ffind_in,
   C13_ffind_empty,
   C13_ffind_plain_is_by_id,
   C13_ffind_min_by_first_extremal,
   C13_ffind_max_by_first_extremal,
   C13_ffirst_extremal_unique,
   C13_ffind_min_le_all,
   C13_ffind_max_ge_all,
   C13_ffind_skips_nan,
   C13_ffind_nan_head,
   C13_ffind_by_key).
Print Assumptions C13_float_extrema_theorems.

(* ================= Abs, Clamp, InRange ================= *)

(* Abs clears the sign of everything except -0 (which is not < 0): Abs(-0) = -0; the value is |x| in all cases *)
Theorem C13_fabs : forall x,
  (x <> fnz -> fabs_go x = Babs x) /\ fabs_go fnz = fnz /\ B2R (fabs_go x) = Rabs (B2R x).
Proof. intros x. repeat split; [apply fabs_go_spec | apply fabs_go_B2R]. Qed.
Theorem C13_fabs_sign : forall x, is_nan x = false -> x <> fnz -> Bsign (fabs_go x) = false.
Proof. exact fabs_go_sign. Qed.
(* Clamp with lo <= hi and no NaN: max(lo, min(n, hi)) on the values, and one of the three arguments *)
Theorem C13_fclamp : forall n lo hi,
  is_nan n = false -> is_nan lo = false -> is_nan hi = false -> fle lo hi = true ->
  xval (fclamp n lo hi) = Rmax (xval lo) (Rmin (xval n) (xval hi)) /\
  (fclamp n lo hi = n \/ fclamp n lo hi = lo \/ fclamp n lo hi = hi).
Proof. exact fclamp_spec. Qed.
(* NaN, exactly: a NaN number comes back; a NaN bound is ignored *)
Theorem C13_fclamp_nan : forall n lo hi,
  fclamp B754_nan lo hi = B754_nan /\
  fclamp n B754_nan hi = (if fge n hi then hi else n) /\
  fclamp n lo B754_nan = (if fle n lo then lo else n).
Proof. intros n lo hi. repeat split; [apply fclamp_nan_num | apply fclamp_nan_lo]. Qed.
(* InRange: lo <= n <= hi on the values; false as soon as one argument is NaN *)
Theorem C13_fin_range : forall n lo hi,
  is_nan n = false -> is_nan lo = false -> is_nan hi = false ->
  (fin_range n lo hi = true <-> (xval lo <= xval n <= xval hi)%R).
Proof. exact fin_range_spec. Qed.
Theorem C13_fin_range_nan : forall n lo hi,
  is_nan n = true \/ is_nan lo = true \/ is_nan hi = true -> fin_range n lo hi = false.
Proof. exact fin_range_nan. Qed.

Example C13_fabs_clamp_examples :
  map bits_of_f64 [fabs_go fnz; fabs_go fminf; fabs_go (F (-9223372036854775807)) (* -5e-324 *); fabs_go fnan;
                   fclamp fnz fpz f1; fclamp fpz fnz f1; fclamp fpinf fpz f1; fclamp f1 fminf fpinf;
                   fclamp fnan fpz f1; fclamp f2 fnan f1; fclamp fm1 fpz fnan]
  = [-9223372036854775808; 9218868437227405312; 1; 9221120237041090560;
     0; -9223372036854775808; 4607182418800017408; 4607182418800017408;
     9221120237041090560; 4607182418800017408; 0] /\
  fin_range fnz fpz f1 = true /\ fin_range fpinf fpz fpinf = true /\ fle fpz f1 = true.
Proof. vm_compute. repeat split. Qed.

(* the theorems of this section as one tuple: Print Assumptions of the tuple lists the union of their
   assumptions (one command per section: each one walks the whole Reals/Flocq dependency closure) *)
Definition C13_float_abs_clamp_in_range_theorems :=
  (C13_fabs,
   C13_fabs_sign,
   C13_fclamp,
   C13_fclamp_nan,
   C13_fin_range,
   C13_fin_range_nan).
Print Assumptions C13_float_abs_clamp_in_range_theorems.

(* ================= Compare, Less, Equal ================= *)

Theorem C13_fcompare : forall a b, is_nan a = false -> is_nan b = false ->
  fcompare_go flt a b = match Rcompare (xval a) (xval b) with Lt => 1 | Eq => 0 | Gt => -1 end /\
  fcompare_go fgt a b = match Rcompare (xval a) (xval b) with Lt => -1 | Eq => 0 | Gt => 1 end.
Proof. intros a b Na Nb. split; [now apply fcompare_lt_spec | now apply fcompare_gt_spec]. Qed.
(* NaN compares "equal" to everything under both comparators *)
Theorem C13_fcompare_nan : forall c a b, (c = flt \/ c = fgt) ->
  is_nan a = true \/ is_nan b = true -> fcompare_go c a b = 0.
Proof. exact fcompare_nan. Qed.
Theorem C13_fless_fequal : forall a b, is_nan a = false -> is_nan b = false ->
  (fless_go a b = true <-> (xval a < xval b)%R) /\ (fequal_go a b = true <-> xval a = xval b).
Proof. intros a b Na Nb. split; [now apply fless_spec | now apply fequal_spec]. Qed.
(* Less and Equal are false on NaN: Equal(NaN, NaN) = false; Equal(-0, +0) = true *)
Theorem C13_fless_fequal_nan : forall a b, is_nan a = true \/ is_nan b = true ->
  fless_go a b = false /\ fequal_go a b = false.
Proof. exact fless_equal_nan. Qed.

Example C13_fcompare_examples :
  fcompare_go flt fnan f1 = 0 /\ fcompare_go flt fnz fpz = 0 /\ fcompare_go flt f1 f2 = 1 /\
  fcompare_go fgt f1 f2 = -1 /\ fequal_go fnan fnan = false /\ fequal_go fnz fpz = true /\
  fless_go fminf (fneg f1e308) = true.
Proof. vm_compute. repeat split. Qed.

(* the theorems of this section as one tuple: Print Assumptions of the tuple lists the union of their
   assumptions (one command per section: each one walks the whole Reals/Flocq dependency closure) *)
Definition C13_float_compare_theorems :=
  (C13_fcompare,
   C13_fcompare_nan,
   C13_fless_fequal,
   C13_fless_fequal_nan).
Print Assumptions C13_float_compare_theorems.

(* ================= Range / RangeRight at float64 (after a549427) ================= *)

(* every term of a result lies STRICTLY before end (the last argument), ascending when end > 0 and descending
   otherwise — whatever the rounding of the counter and of the two-decimal terms did on the way *)
Theorem C13_frange_before_end : forall cap args l e,
  frange cap args = FOk l ->
  (args = [e] \/ (exists s, args = [s; e]) \/ (exists s st, args = [s; st; e])) ->
  forall t, In t l -> fbefore e t = true.
Proof. exact frange_before_end. Qed.
(* read on the values: the terms and end are not NaN, and t < end resp. end < t *)
Theorem C13_fbefore_real : forall e t, fbefore e t = true ->
  is_nan t = false /\ is_nan e = false /\
  (if fgt e fpz then (xval t < xval e)%R else (xval e < xval t)%R).
Proof. exact fbefore_real. Qed.
(* the loops return as soon as the counter no longer moves toward end (i + step > i fails: step too small for
   the magnitude of i, an infinite or NaN step or counter) — with ANY iteration budget, even 0 *)
Theorem C13_frange_stops_when_stuck : forall fuel i step e acc,
  (fgt (fadd i step) i = false -> exists l, frange_up fuel i step e acc = FOk l) /\
  (flt (fsub i step) i = false -> exists l, frange_down fuel i step e acc = FOk l).
Proof. intros. split; [apply frange_up_stuck | apply frange_down_stuck]. Qed.
(* and they go round again only with a counter that has strictly moved *)
Theorem C13_frange_counter_moves : forall f i step e acc,
  (flt i e = true -> flt (round2 i) e = true -> fgt (fadd i step) i = true ->
   frange_up (S f) i step e acc = frange_up f (fadd i step) step e (round2 i :: acc)) /\
  (flt e i = true -> flt e (round2 i) = true -> flt (fsub i step) i = true ->
   frange_down (S f) i step e acc = frange_down f (fsub i step) step e (round2 i :: acc)).
Proof. intros. split; [apply frange_up_moves | apply frange_down_moves]. Qed.
(* termination: [ford] places every float64 on the number line as an integer (its 63 magnitude bits, negated
   for negative values; both zeros at 0), strictly monotone under <.  Every turn of a loop moves the counter
   strictly toward end, so at most ford(end) - ford(start) turns are made: with an iteration budget of
   2 * 2047 * 2^52 (< 2^64) the model answers FFuel on NO arguments — every Range / RangeRight call at
   float64 returns (before a549427 the loop did not, see C13_frange_asfound_examples) *)
Theorem C13_ford_monotone : forall x y, flt x y = true -> (ford x < ford y)%Z.
Proof. exact ford_lt. Qed.
Theorem C13_frange_terminates : forall cap args, (2 * (2047 * two52) <= Z.of_nat cap)%Z ->
  frange cap args <> FFuel /\ frange_right cap args <> FFuel.
Proof. exact frange_terminates. Qed.
(* the budget a single loop needs: the distance between the positions of counter and end *)
Theorem C13_frange_loop_budget : forall fuel i step e acc,
  ((Z.to_nat (ford e - ford i) <= fuel)%nat -> frange_up fuel i step e acc <> FFuel) /\
  ((Z.to_nat (ford i - ford e) <= fuel)%nat -> frange_down fuel i step e acc <> FFuel).
Proof. intros. split; [apply frange_up_terminates | apply frange_down_terminates]. Qed.
(* exactly the rejected argument shapes (every test is false on NaN, so NaN arguments are never rejected) *)
Theorem C13_frange_errors : forall cap args,
  (exists k, frange cap args = FErr k) <->
  ((3 < length args)%nat \/
   exists s st e, args = [s; st; e] /\
     (fgt s e && fgt e fpz || feq st fpz || flt st fpz && fgt e s) = true).
Proof. exact frange_errors. Qed.
Theorem C13_frange_right : forall cap args,
  frange_right cap args = match frange cap args with FOk l => FOk (rev l) | r => r end.
Proof. exact frange_right_rev. Qed.
(* each term is the counter printed with "%.2f" and parsed back: the float64 nearest to the two-decimal
   rounding (ties to even, on the exact binary value) of the counter, with the counter's sign (so a small
   negative counter gives -0); NaN and infinities pass through *)
Theorem C13_round2 : forall s m e H,
  let x : f64 := B754_finite s m e H in
  let c := ZnearestE (Rabs (B2R x) * 100) in
  is_finite (round2 x) = true /\ Bsign (round2 x) = s /\
  B2R (round2 x) = rne (IZR (cond_Zopp s c) / 100).
Proof. exact round2_spec. Qed.
Theorem C13_round2_special : forall s,
  round2 (B754_zero s) = B754_zero s /\ round2 (B754_infinity s) = B754_infinity s /\
  round2 B754_nan = B754_nan.
Proof. intros s. repeat split. Qed.

Definition fres_bits (r : fres) : list Z :=
  match r with FOk l => 0 :: map bits_of_f64 l | FErr k => [1; k] | FFuel => [2] end.
Definition cap100 : nat := 100.

(* Range(0, 0.1, 1) = [0, 0.1, …, 0.9] (10 terms; the counter reaches 0.9999999999999999, whose two-decimal
   rounding 1.00 is not before end); Range(2^53, 1, 2^53+2) = [2^53] (2^53 + 1 = 2^53: the counter is stuck);
   Range(-0.001, 1, 1) = [-0]; Range(2.675, 1, 4) = [2.67, 3.67] (2.675 is below 2.675 in binary);
   Range(0, NaN, 1) = [0]; Range(NaN, 1, 3) = []; Range(1, 0, 2) is rejected; RangeRight(0, 0.5, 1.5) *)
Example C13_frange_examples :
  map fres_bits [frange cap100 [fpz; f0_1; f1];
                 frange cap100 [f2p53; f1; f2p53_2];
                 frange cap100 [F (-4661117527937406468); f1; f1];
                 frange cap100 [F 4613205983301625446; f1; F 4616189618054758400];
                 frange cap100 [fpz; fnan; f1]; frange cap100 [fnan; f1; f3];
                 frange cap100 [f1; fpz; f2]; frange_right cap100 [fpz; f0_5; F 4609434218613702656]]
  = [[0; 0; 4591870180066957722; 4596373779694328218; 4599075939470750515; 4600877379321698714;
      4602678819172646912; 4603579539098121011; 4604480259023595110; 4605380978949069210; 4606281698874543309];
     [0; 4845873199050653696];
     [0; -9223372036854775808];
     [0; 4613194724302557020; 4615446524116242268];
     [0; 0]; [0]; [1; 3];
     [0; 4607182418800017408; 4602678819172646912; 0]].
Proof. vm_compute. reflexivity. Qed.

(* what the repair a549427 changed — the ascending loop AS FOUND ([frange_up_asfound]: the raw counter tested
   against end, the only break test i+step < i) returned 11 terms for Range(0, 0.1, 1), the last one equal
   to end, and never returned ([None]) on Range(2^53, 1, 2^53+2) *)
Example C13_frange_asfound_examples :
  option_map fres_bits (frange_up_asfound cap100 fpz f0_1 f1 [])
  = Some [0; 0; 4591870180066957722; 4596373779694328218; 4599075939470750515; 4600877379321698714;
          4602678819172646912; 4603579539098121011; 4604480259023595110; 4605380978949069210;
          4606281698874543309; 4607182418800017408 (* 1 = end *)] /\
  frange_up_asfound cap100 f2p53 f1 f2p53_2 [] = None.
Proof. vm_compute. split; reflexivity. Qed.

(* the theorems of this section as one tuple: Print Assumptions of the tuple lists the union of their
   assumptions (one command per section: each one walks the whole Reals/Flocq dependency closure) *)
Definition C13_float_range_theorems :=
  (C13_frange_before_end,
   C13_fbefore_real,
   C13_frange_stops_when_stuck,
   C13_frange_counter_moves,
   C13_ford_monotone,
   C13_frange_terminates,
   C13_frange_loop_budget,
   C13_frange_errors,
   C13_frange_right,
   C13_round2,
   C13_round2_special).
Print Assumptions C13_float_range_theorems.

