(* C13_PropsNum.v — property C13, the decimal codec under Range: every term of an
   integer Range is N(NumToString(counter)) (range.go), and the integer Range model
   (C13_Model.range_g) writes the counter itself.  These theorems justify that step
   for every value of every signed / unsigned integer type, over the model of
   C13_ModelNum.v, which the correspondence check runs against gogu.NumToString and
   gogu.N themselves (wire functions 70..75).
   Only statements here; each is closed by [exact] of a lemma of C13_ProofsNum.v and
   followed by Print Assumptions. *)

From Gogu Require Import Base C13_Model C13_Proofs C13_ModelNum C13_ProofsNum.
From Coq Require Import Lia.
Local Open Scope Z_scope.

(* N[T](NumToString(x)) = x for every x of a signed w-bit type T (math.MinInt included) *)
Theorem C13_n_num_to_string_signed : forall w x, 0 < w ->
  - 2 ^ (w - 1) <= x < 2 ^ (w - 1) -> n_signed w (num_to_string x) = Ok x.
Proof. intros w x Hw Hx. unfold n_signed. rewrite (parse_int_num_to_string w x Hw Hx). reflexivity. Qed.
Print Assumptions C13_n_num_to_string_signed.

(* ... and of an unsigned w-bit type *)
Theorem C13_n_num_to_string_unsigned : forall w x,
  0 <= x < 2 ^ w -> n_unsigned w (num_to_string x) = Ok x.
Proof. intros w x Hx. unfold n_unsigned. rewrite (parse_uint_num_to_string w x Hx). reflexivity. Qed.
Print Assumptions C13_n_num_to_string_unsigned.

(* whatever N accepts at a signed w-bit type is a value of that type: no text makes it
   return a wrapped number *)
Theorem C13_n_signed_in_range : forall w s v, 0 < w ->
  n_signed w s = Ok v -> - 2 ^ (w - 1) <= v < 2 ^ (w - 1).
Proof.
  intros w s v Hw. unfold n_signed. destruct (parse_int w s) as [u|] eqn:P; [|discriminate].
  intros [= <-]. exact (parse_int_range w s u Hw P).
Qed.
Print Assumptions C13_n_signed_in_range.

(* the printed text of a non-negative number has no sign and parses to the number;
   of a negative one it is '-' followed by the text of its magnitude *)
Theorem C13_num_to_string_shape : forall x,
  (0 <= x -> parse_digits (num_to_string x) = Some x) /\
  (x < 0 -> num_to_string x = ch_minus :: num_to_string (- x)).
Proof.
  intros x. unfold num_to_string. split; intros H.
  - destruct (x <? 0) eqn:E; [apply Z.ltb_lt in E; lia|]. apply digits_parse; exact H.
  - destruct (x <? 0) eqn:E; [|apply Z.ltb_ge in E; lia].
    destruct (- x <? 0) eqn:F; [apply Z.ltb_lt in F; lia | reflexivity].
Qed.
Print Assumptions C13_num_to_string_shape.

(* the step Range takes with every counter value - text and back - changes no term: on any
   list of values of the type (the terms of a Range are such: they are values of T) the
   codec is the identity, which is why C13_Model.range_g writes the counter itself *)
Theorem C13_codec_identity_on_terms : forall w l, 0 < w ->
  (Forall (fits w) l -> map (fun i => n_signed w (num_to_string i)) l = map Ok l) /\
  (Forall (ufits w) l -> map (fun i => n_unsigned w (num_to_string i)) l = map Ok l).
Proof.
  intros w l Hw. split; intros H; induction H as [|x l Hx _ IH]; cbn [map]; try reflexivity; f_equal; try exact IH.
  - exact (C13_n_num_to_string_signed w x Hw Hx).
  - exact (C13_n_num_to_string_unsigned w x Hx).
Qed.
Print Assumptions C13_codec_identity_on_terms.

(* ---- Bound.Enclose (find.go), the bounds test under Nth, called directly (wire 78, 79) ---- *)

(* Bound{lo,hi}.Enclose(n) says lo <= |n| <= hi ... *)
Theorem C13_enclose_spec : forall lo hi n,
  enclose lo hi n = true <-> lo <= Z.abs n <= hi.
Proof.
  intros lo hi n. unfold enclose. rewrite Bool.andb_true_iff, Z.geb_le, Z.leb_le. lia.
Qed.
Print Assumptions C13_enclose_spec.

(* ... and so does the code at a signed w-bit type for every n but the most negative
   value of the type, whose Abs is itself (negative): there it says lo <= n <= hi *)
Theorem C13_enclose_w_spec : forall w lo hi n, 0 < w -> - 2 ^ (w - 1) <= n < 2 ^ (w - 1) ->
  (n <> - 2 ^ (w - 1) -> enclose_w w lo hi n = enclose lo hi n) /\
  (n = - 2 ^ (w - 1) -> (enclose_w w lo hi n = true <-> lo <= n <= hi)).
Proof.
  intros w lo hi n Hw Hn. destruct (abs_w_spec w n Hw Hn) as [H1 H2]. unfold enclose_w, enclose. split; intros H.
  - rewrite (H1 H). reflexivity.
  - rewrite (H2 H). rewrite Bool.andb_true_iff, Z.geb_le, Z.leb_le. lia.
Qed.
Print Assumptions C13_enclose_w_spec.

(* non-vacuity: the codec on concrete texts, the limits of int8 / int64, the rejected shapes *)
Example C13_num_examples :
  num_to_string 0 = [48] /\ num_to_string (-128) = [45; 49; 50; 56] /\
  num_to_string 9223372036854775807 =
    [57; 50; 50; 51; 51; 55; 50; 48; 51; 54; 56; 53; 52; 55; 55; 53; 56; 48; 55] /\
  n_signed 8 [45; 49; 50; 56] = Ok (-128) /\ n_signed 8 [49; 50; 56] = Err 1 /\
  n_signed 8 [43; 49; 50; 55] = Ok 127 /\ n_signed 8 [45; 48] = Ok 0 /\ n_signed 8 [48; 48; 55] = Ok 7 /\
  n_signed 8 [] = Err 1 /\ n_signed 8 [45] = Err 1 /\ n_signed 8 [43] = Err 1 /\
  n_signed 8 [49; 95; 48] = Err 1 /\ n_signed 8 [43; 45; 49] = Err 1 /\
  n_unsigned 8 [50; 53; 53] = Ok 255 /\ n_unsigned 8 [50; 53; 54] = Err 1 /\
  n_unsigned 8 [43; 49] = Err 1 /\ n_unsigned 8 [45; 48] = Err 1 /\
  n_signed 64 (num_to_string (- 2 ^ 63)) = Ok (- 2 ^ 63) /\ n_signed 64 (num_to_string (2 ^ 63)) = Err 1 /\
  enclose 0 3 (-3) = true /\ enclose 1 3 0 = false /\ enclose_w 8 0 127 (-128) = false /\ enclose_w 8 (-128) 0 (-128) = true.
Proof. repeat split; vm_compute; reflexivity. Qed.
