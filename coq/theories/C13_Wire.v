(* C13_Wire.v — wire glue for C13 (no proofs; exercised by the correspondence).
   input  = fn :: args      (see the table in harness/c13.go, kept in step)
   output = the function's result, errors collapsed to kind 1

   Go's int is 64 bits wide: the functions that do arithmetic on their int
   arguments run here in their wrapped versions at w = 64 (nth_w, range_w,
   sum_w, sum_by_w, mean_w, abs_w), and so do the arithmetic callbacks of the
   harness (-x, |x|).  C13_Props relates them to the unbounded reading. *)

From Gogu Require Import Base C13_Model C13_ModelFloat C13_ModelNum.

(* predicate family: (code, arg) *)
Definition pred_of (c a : Z) : Z -> bool :=
  match c with
  | 0 => fun _ => true
  | 1 => fun _ => false
  | 2 => fun x => Z.rem x 2 =? 0
  | 3 => fun x => x <? a
  | _ => fun x => x =? a
  end.

(* key-function family *)
Definition key_of (c : Z) : Z -> Z :=
  match c with
  | 0 => fun x => x
  | 1 => fun x => Z.rem x 2        (* Go % truncates toward zero *)
  | 2 => fun _ => 0
  | 3 => fun x => wrap 64 (- x)    (* Go -x wraps at math.MinInt *)
  | _ => fun x => abs_w 64 x
  end.

Definition cmp_of (c : Z) : Z -> Z -> bool :=
  match c with 0 => Z.ltb | _ => Z.gtb end.

Definition enc_r1 {A} (f : A -> list Z) (r : res A) : list Z :=
  match r with Ok a => 0 :: f a | Err _ => [1; 1] | Panic => [2] end.

Fixpoint pairs_of (l : list Z) : list (Z * Z) :=
  match l with
  | k :: v :: l' => (k, v) :: pairs_of l'
  | _ => []
  end.

Definition enc_pairs (l : list (Z * Z)) : list Z :=
  Z.of_nat (length l) :: flat_map (fun kv => [fst kv; snd kv]) l.

Definition one (z : Z) : list Z := [z].

(* iteration budget of the bounded Range loops (see C13_Model.range_g); the
   harness never sends a Range whose result has more than 5000 terms *)
Definition range_cap : nat := Z.to_nat 20000.

(* all int8 values, ascending *)
Definition int8s : list Z := map (fun k => Z.of_nat k - 128) (seq 0 256).
(* run-length encoding of a row of results: (value, count) pairs, flattened.
   Lossless; a Clamp row (first value, then successive differences) has at most
   four runs. *)
Fixpoint rle_from (cur : Z) (cnt : Z) (l : list Z) : list Z :=
  match l with
  | [] => [cur; cnt]
  | x :: l' => if x =? cur then rle_from cur (cnt + 1) l' else cur :: cnt :: rle_from x 1 l'
  end.
Definition rle (l : list Z) : list Z :=
  match l with [] => [] | x :: l' => rle_from x 1 l' end.
Fixpoint diffs (prev : Z) (l : list Z) : list Z :=
  match l with [] => [] | x :: l' => (x - prev) :: diffs x l' end.

(* ---------- the float64 instantiations (C13_ModelFloat): fn 50..68 ----------
   A float64 travels as its 64-bit pattern read as an int64; every NaN is the one
   pattern 0x7FF8000000000000 (the harness canonicalises what the code returns).
     50 Sum zs        51 SumBy k zs     52 Mean zs        53 Min zs...      54 Max zs...
     55 FindMin zs    56 FindMax zs     57 FindMinBy k zs 58 FindMaxBy k zs 59 Abs x
     60 Clamp n lo hi 61 InRange n lo hi 62 Compare cmp a b 63 Less a b     64 Equal a b
     65 Range args    66 RangeRight args 67 FindMinByKey key maps  68 FindMaxByKey key maps
   key functions k: 0 id, 1 -x, 2 const +0, 3 math.Abs;  comparators: 0 (<), 1 (>) *)
Definition fkey_of (c : Z) : f64 -> f64 :=
  match c with
  | 0 => fun x => x
  | 1 => fneg
  | 2 => fun _ => fpz
  | _ => fabs_bit
  end.
Definition fcmp_of (c : Z) : f64 -> f64 -> bool :=
  match c with 0 => flt | _ => fgt end.
Definition fbits1 (x : f64) : list Z := [bits_of_f64 x].
Definition enc_fres (r : fres) : list Z :=
  match r with
  | FOk l => 0 :: enc_zs (map bits_of_f64 l)
  | FErr _ => [1; 1]
  | FFuel => [2]
  end.
Fixpoint fpairs_of (l : list Z) : famap :=
  match l with
  | k :: v :: l' => (k, f64_of_bits v) :: fpairs_of l'
  | _ => []
  end.
(* iteration budget of the float Range loops; the harness sends only calls that
   end within 3000 iterations *)
Definition frange_cap : nat := Z.to_nat 20000.

Definition c13f_run (fn : Z) (a : list Z) : list Z :=
  let fzs (f : list f64 -> list Z) :=
      match rd_zs a with Some (l, []) => f (map f64_of_bits l) | _ => wire_error end in
  let k_fzs (f : (f64 -> f64) -> list f64 -> list Z) :=
      match a with
      | c :: a' => match rd_zs a' with Some (l, []) => f (fkey_of c) (map f64_of_bits l) | _ => wire_error end
      | _ => wire_error
      end in
  let fbykey (g : list famap -> Z -> res f64) :=
      match a with
      | key :: a' => match rd_zss a' with
                     | Some (ms, []) => enc_r1 fbits1 (g (map fpairs_of ms) key)
                     | _ => wire_error end
      | _ => wire_error
      end in
  match fn with
  | 50 => fzs (fun l => fbits1 (fsum l))
  | 51 => k_fzs (fun k l => fbits1 (fsum_by k l))
  | 52 => fzs (fun l => fbits1 (fmean l))
  | 53 => fzs (fun l => fbits1 (fmin_of l))
  | 54 => fzs (fun l => fbits1 (fmax_of l))
  | 55 => fzs (fun l => fbits1 (ffind_min l))
  | 56 => fzs (fun l => fbits1 (ffind_max l))
  | 57 => k_fzs (fun k l => fbits1 (ffind_min_by k l))
  | 58 => k_fzs (fun k l => fbits1 (ffind_max_by k l))
  | 59 => match a with [x] => fbits1 (fabs_go (f64_of_bits x)) | _ => wire_error end
  | 60 => match a with
          | [n; lo; hi] => fbits1 (fclamp (f64_of_bits n) (f64_of_bits lo) (f64_of_bits hi))
          | _ => wire_error end
  | 61 => match a with
          | [n; lo; hi] => enc_bool (fin_range (f64_of_bits n) (f64_of_bits lo) (f64_of_bits hi))
          | _ => wire_error end
  | 62 => match a with
          | [c; x; y] => [fcompare_go (fcmp_of c) (f64_of_bits x) (f64_of_bits y)]
          | _ => wire_error end
  | 63 => match a with [x; y] => enc_bool (fless_go (f64_of_bits x) (f64_of_bits y)) | _ => wire_error end
  | 64 => match a with [x; y] => enc_bool (fequal_go (f64_of_bits x) (f64_of_bits y)) | _ => wire_error end
  | 65 => fzs (fun l => enc_fres (frange frange_cap l))
  | 66 => fzs (fun l => enc_fres (frange_right frange_cap l))
  | 67 => fbykey ffind_min_by_key
  | 68 => fbykey ffind_max_by_key
  | _ => wire_error
  end.

(* "stops before reaching it", read on the returned terms: every term of a float
   Range / RangeRight result lies strictly before end (the last argument) *)
Definition frange_before_end (args l : list f64) : bool :=
  match rev args with
  | e :: _ => if fgt e fpz then forallb (fun t => flt t e) l else forallb (fun t => flt e t) l
  | [] => true
  end.

Definition c13_run (w : list Z) : list Z :=
  match w with
  | fn :: a =>
      let zs_x (f : list Z -> Z -> list Z) :=
          match rd_zs a with Some (l, [x]) => f l x | _ => wire_error end in
      let p_zs (f : (Z -> bool) -> list Z -> list Z) :=
          match a with
          | c :: pa :: a' => match rd_zs a' with Some (l, []) => f (pred_of c pa) l | _ => wire_error end
          | _ => wire_error
          end in
      let zs (f : list Z -> list Z) :=
          match rd_zs a with Some (l, []) => f l | _ => wire_error end in
      let k_zs (f : (Z -> Z) -> list Z -> list Z) :=
          match a with
          | c :: a' => match rd_zs a' with Some (l, []) => f (key_of c) l | _ => wire_error end
          | _ => wire_error
          end in
      let bykey (g : list amap -> Z -> res Z) :=
          match a with
          | key :: a' => match rd_zss a' with
                         | Some (ms, []) => enc_r1 one (g (map pairs_of ms) key)
                         | _ => wire_error end
          | _ => wire_error
          end in
      match fn with
      | 1 => zs_x (fun l x => [index_of l x])
      | 2 => zs_x (fun l x => [last_index_of l x])
      | 3 => p_zs (fun p l => [find_index p l])
      | 4 => p_zs (fun p l => [find_last_index p l])
      | 5 => p_zs (fun p l => enc_pairs (find_all p l))
      | 6 => zs_x (fun l x => enc_bool (contains l x))
      | 7 => p_zs (fun p l => enc_bool (some p l))
      | 8 => p_zs (fun p l => enc_bool (every p l))
      | 9 => zs (fun l => [find_min l])
      | 10 => zs (fun l => [find_max l])
      | 11 => zs (fun l => [min_of l])
      | 12 => zs (fun l => [max_of l])
      | 13 => k_zs (fun f l => [find_min_by f l])
      | 14 => k_zs (fun f l => [find_max_by f l])
      | 15 => bykey find_min_by_key
      | 16 => bykey find_max_by_key
      | 17 => zs_x (fun l n => enc_r1 one (nth_w 64 l n))
      | 18 => zs (fun l => [sum_w 64 l])
      | 19 => k_zs (fun f l => [sum_by_w 64 f l])
      | 20 => zs (fun l => enc_r1 one (mean_w 64 l))
      | 21 => zs (fun l => [sum_w 8 l])
      | 22 => match a with [x] => [abs_w 64 x] | _ => wire_error end
      | 23 => match a with [n; lo; hi] => [clamp n lo hi] | _ => wire_error end
      | 24 => match a with [n; lo; hi] => enc_bool (in_range n lo hi) | _ => wire_error end
      | 25 => match a with [x] => [abs_w 8 x] | _ => wire_error end
      | 26 => match a with [c; x; y] => [compare_go (cmp_of c) x y] | _ => wire_error end
      | 27 => match a with [x; y] => enc_bool (less_go x y) | _ => wire_error end
      | 28 => match a with [x; y] => enc_bool (equal_go x y) | _ => wire_error end
      | 29 => zs (fun l => enc_r1 enc_zs (range_w 64 range_cap l))
      | 30 => zs (fun l => enc_r1 enc_zs (range_right_w 64 range_cap l))
      | 31 => zs (fun l => enc_r1 one (mean_w 8 l))
      (* whole int8 rows: Clamp(n, lo, hi) / InRange(n, lo, hi) for every int8 n *)
      | 32 => match a with
              | [lo; hi] => rle (diffs 0 (map (fun n => clamp n lo hi) int8s))
              | _ => wire_error end
      | 33 => match a with
              | [lo; hi] => rle (map (fun n => if in_range n lo hi then 1 else 0) int8s)
              | _ => wire_error end
      (* other instantiations of the generic functions, driven with values on which
         they are order-/sum-isomorphic to the int instance (harness/c13.go):
         float64 on quarters k/4 (IEEE arithmetic is exact there; the wire carries
         4x the value), strings as fixed-width decimal numerals *)
      | 34 => match a with [_; _; _; _] => zs (fun l => enc_r1 enc_zs (range_w 64 range_cap l)) | _ => wire_error end
      | 35 => match a with [_; _; _; _] => zs (fun l => enc_r1 enc_zs (range_right_w 64 range_cap l)) | _ => wire_error end
      | 36 => zs (fun l => [sum_w 64 l])
      | 37 => zs (fun l => [find_min l])
      | 38 => zs (fun l => [find_max l])
      | 39 => zs (fun l => [min_of l])
      | 40 => zs (fun l => [max_of l])
      | 41 => zs_x (fun l x => [index_of l x])
      (* Range / RangeRight at narrow element types: int8, uint8 *)
      | 42 => zs (fun l => enc_r1 enc_zs (range_w 8 range_cap l))
      | 43 => zs (fun l => enc_r1 enc_zs (range_right_w 8 range_cap l))
      | 44 => zs (fun l => enc_r1 enc_zs (range_u 8 range_cap l))
      | 45 => zs (fun l => enc_r1 enc_zs (range_right_u 8 range_cap l))
      (* the decimal codec under Range (C13_ModelNum): NumToString at int64 / int8 / uint8 /
         uint64 (70, 71, 72, 76; a uint64 travels as the int64 with the same bits) and
         N at the same types on a text given as its bytes (73, 74, 75, 77) *)
      | 70 | 71 | 72 => match a with [x] => enc_zs (num_to_string x) | _ => wire_error end
      | 76 => match a with [x] => enc_zs (num_to_string (x mod 2 ^ 64)) | _ => wire_error end
      | 73 => zs (fun s => enc_r1 one (n_signed 64 s))
      | 74 => zs (fun s => enc_r1 one (n_signed 8 s))
      | 75 => zs (fun s => enc_r1 one (n_unsigned 8 s))
      (* Bound{lo,hi}.Enclose(n) at int and at int8 *)
      | 78 => match a with [lo; hi; n] => enc_bool (enclose_w 64 lo hi n) | _ => wire_error end
      | 79 => match a with [lo; hi; n] => enc_bool (enclose_w 8 lo hi n) | _ => wire_error end
      | 77 => zs (fun s => enc_r1 one (match n_unsigned 64 s with Ok v => Ok (wrap 64 v) | r => r end))
      (* Range / RangeRight at uint64: a uint64 travels as the int64 with the same bits *)
      | 46 => zs (fun l => enc_r1 (fun r => enc_zs (map (wrap 64) r))
                               (range_u 64 range_cap (map (fun x => x mod 2 ^ 64) l)))
      | 47 => zs (fun l => enc_r1 (fun r => enc_zs (map (wrap 64) r))
                               (range_right_u 64 range_cap (map (fun x => x mod 2 ^ 64) l)))
      | _ => c13f_run fn a
      end
  | [] => wire_error
  end.

(* Every clause of C13 determines its observable uniquely on the clause's
   domain (C13_Props: each model function is proved equal to / characterised by
   its definition, the 64-bit versions equal to the unbounded ones where the
   harness sends them), so on one observation the property holds iff the
   observation is the model's.  Outside the domain the property says nothing and
   every well-formed observation is accepted — by [c13_holds] AND by
   [c13_agree], so that a rewrite that behaves differently only there is not
   reported: Clamp with lo > hi (the shipped code returns lo for num <= lo and
   hi otherwise), and the mean of an empty slice (the shipped code panics:
   integer division by zero). *)
(* N on a text that is NOT the decimal text NumToString writes for a value of the type
   (a malformed or out-of-range text, a '+' sign, leading zeros, "-0") is outside the
   property: C13 speaks about Range, which only ever hands N what NumToString wrote.  There
   every well-formed observation is accepted, so that an N that reads more texts (or fewer)
   than strconv does is not reported. *)
Definition canonical_text (signed : bool) (w : Z) (s : list Z) : bool :=
  match (if signed then parse_int w s else parse_uint w s) with
  | Some v => zlist_eqb (num_to_string v) s
  | None => false
  end.
Definition n_in_domain (fn : Z) (a : list Z) : bool :=
  match rd_zs a with
  | Some (s, []) =>
      if fn =? 73 then canonical_text true 64 s
      else if fn =? 74 then canonical_text true 8 s
      else if fn =? 75 then canonical_text false 8 s
      else canonical_text false 64 s
  | _ => true
  end.

Definition c13_agree (w obs : list Z) : bool :=
  match w, obs with
  | 73 :: a, _ :: _ | 74 :: a, _ :: _ | 75 :: a, _ :: _ | 77 :: a, _ :: _ =>
      if n_in_domain (hd 0 w) a then zlist_eqb obs (c13_run w) else true
  | [23; n; lo; hi], [_] => if hi <? lo then true else zlist_eqb obs (c13_run w)
  | [32; lo; hi], _ :: _ => if hi <? lo then true else zlist_eqb obs (c13_run w)
  | [20; 0], _ :: _ | [31; 0], _ :: _ => true
  | [60; n; lo; hi], [_] => if flt (f64_of_bits hi) (f64_of_bits lo) then true else zlist_eqb obs (c13_run w)
  | _, _ => zlist_eqb obs (c13_run w)
  end.

(* The float64 instantiations (fn 50..68): IEEE arithmetic determines every
   result bit for bit (C13_PropsFloat), so the observation must be the model's —
   NaN, infinities and -0 included; only Clamp with hi < lo is outside the domain
   as for the integers.  For Range / RangeRight at float64 the clause "stops
   before reaching end" is in addition judged on the observed terms themselves
   ([frange_before_end]; for the model it is the theorem
   C13_PropsFloat.C13_frange_before_end), and an observation [3] (the call did
   not return) never satisfies the property. *)
Definition c13_holds (w obs : list Z) : bool :=
  c13_agree w obs &&
  match w, obs with
  | fn :: a, 0 :: o =>
      if (fn =? 65) || (fn =? 66) then
        match rd_zs a, rd_zs o with
        | Some (args, []), Some (l, []) => frange_before_end (map f64_of_bits args) (map f64_of_bits l)
        | _, _ => false
        end
      else true
  | fn :: _, [3] => negb ((fn =? 65) || (fn =? 66))
  | _, _ => true
  end.
