(* C13_Wire.v — wire glue for C13 (no proofs; exercised by the correspondence).
   input  = fn :: args      (see the table in harness/c13.go, kept in step)
   output = the function's result, errors collapsed to kind 1 *)

From Gogu Require Import Base C13_Model.

(* predicate family: (code, arg) *)
Definition pred_of (c a : Z) : Z -> bool :=
  match c with
  | 0 => fun _ => true
  | 1 => fun _ => false
  | 2 => fun x => Z.rem x 2 =? 0
  | 3 => fun x => x <? a
  | _ => fun x => x =? a
  end.

(* key-function family *)
Definition key_of (c : Z) : Z -> Z :=
  match c with
  | 0 => fun x => x
  | 1 => fun x => Z.rem x 2        (* Go % truncates toward zero *)
  | 2 => fun _ => 0
  | 3 => fun x => - x
  | _ => fun x => Z.abs x
  end.

Definition cmp_of (c : Z) : Z -> Z -> bool :=
  match c with 0 => Z.ltb | _ => Z.gtb end.

Definition enc_r1 {A} (f : A -> list Z) (r : res A) : list Z :=
  match r with Ok a => 0 :: f a | Err _ => [1; 1] | Panic => [2] end.

Fixpoint pairs_of (l : list Z) : list (Z * Z) :=
  match l with
  | k :: v :: l' => (k, v) :: pairs_of l'
  | _ => []
  end.

Definition enc_pairs (l : list (Z * Z)) : list Z :=
  Z.of_nat (length l) :: flat_map (fun kv => [fst kv; snd kv]) l.

Definition one (z : Z) : list Z := [z].

Definition c13_run (w : list Z) : list Z :=
  match w with
  | fn :: a =>
      let zs_x (f : list Z -> Z -> list Z) :=
          match rd_zs a with Some (l, [x]) => f l x | _ => wire_error end in
      let p_zs (f : (Z -> bool) -> list Z -> list Z) :=
          match a with
          | c :: pa :: a' => match rd_zs a' with Some (l, []) => f (pred_of c pa) l | _ => wire_error end
          | _ => wire_error
          end in
      let zs (f : list Z -> list Z) :=
          match rd_zs a with Some (l, []) => f l | _ => wire_error end in
      let k_zs (f : (Z -> Z) -> list Z -> list Z) :=
          match a with
          | c :: a' => match rd_zs a' with Some (l, []) => f (key_of c) l | _ => wire_error end
          | _ => wire_error
          end in
      let bykey (g : list amap -> Z -> res Z) :=
          match a with
          | key :: a' => match rd_zss a' with
                         | Some (ms, []) => enc_r1 one (g (map pairs_of ms) key)
                         | _ => wire_error end
          | _ => wire_error
          end in
      match fn with
      | 1 => zs_x (fun l x => [index_of l x])
      | 2 => zs_x (fun l x => [last_index_of l x])
      | 3 => p_zs (fun p l => [find_index p l])
      | 4 => p_zs (fun p l => [find_last_index p l])
      | 5 => p_zs (fun p l => enc_pairs (find_all p l))
      | 6 => zs_x (fun l x => enc_bool (contains l x))
      | 7 => p_zs (fun p l => enc_bool (some p l))
      | 8 => p_zs (fun p l => enc_bool (every p l))
      | 9 => zs (fun l => [find_min l])
      | 10 => zs (fun l => [find_max l])
      | 11 => zs (fun l => [min_of l])
      | 12 => zs (fun l => [max_of l])
      | 13 => k_zs (fun f l => [find_min_by f l])
      | 14 => k_zs (fun f l => [find_max_by f l])
      | 15 => bykey find_min_by_key
      | 16 => bykey find_max_by_key
      | 17 => zs_x (fun l n => enc_r1 one (nth_go l n))
      | 18 => zs (fun l => [sum l])
      | 19 => k_zs (fun f l => [sum_by f l])
      | 20 => zs (fun l => enc_r1 one (mean l))
      | 21 => zs (fun l => [sum_w 8 l])
      | 22 => match a with [x] => [abs_go x] | _ => wire_error end
      | 23 => match a with [n; lo; hi] => [clamp n lo hi] | _ => wire_error end
      | 24 => match a with [n; lo; hi] => enc_bool (in_range n lo hi) | _ => wire_error end
      | 25 => match a with [x] => [abs_w 8 x] | _ => wire_error end
      | 26 => match a with [c; x; y] => [compare_go (cmp_of c) x y] | _ => wire_error end
      | 27 => match a with [x; y] => enc_bool (less_go x y) | _ => wire_error end
      | 28 => match a with [x; y] => enc_bool (equal_go x y) | _ => wire_error end
      | 29 => zs (fun l => enc_r1 enc_zs (range_go l))
      | 30 => zs (fun l => enc_r1 enc_zs (range_right l))
      | _ => wire_error
      end
  | [] => wire_error
  end.

Definition c13_agree (w obs : list Z) : bool := zlist_eqb obs (c13_run w).

(* Every clause of C13 determines its observable uniquely (C13_Props: each
   model function is proved equal to / characterised by its definition), so on
   one observation the property holds iff the observation is the model's. *)
Definition c13_holds (w obs : list Z) : bool := zlist_eqb obs (c13_run w).
