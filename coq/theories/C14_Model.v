(* C14_Model.v — executable model of the map helpers of map.go / filter.go.

   A Go map is an association list with distinct keys, *in the order in which
   the runtime happens to iterate it*.  Every helper below is the Go loop,
   statement by statement, run over that list; maps that a helper builds are
   association lists too ([map_set] = `m[k] = v`, [map_delete] = `delete(m,k)`),
   whose list order carries no meaning (a fresh Go map has its own, unrelated
   iteration order) — the theorems speak about them through [lookup] /
   [Permutation] only.

   Keys and (first-order) values are Z in the executable instance; the basic
   map operations are polymorphic in the value type because
   Filter2DMapCollection works on maps of maps.

   Part 2 of the file is the *specification*: the reference functions the
   theorems of C14_Props relate the loops to and that the property checker
   [c14_holds] uses.  No proofs in this file.

   Key and value types whose == is not reflexive (float NaN) are the subject of
   C14_ModelNaN.v, which is generic in the equality; this file is its instance
   at K = V = Z (C14_nan_conservative).  Four loops were repaired in /repo for
   NaN keys after this file was written (Invert d979ad3, PickBy d5dd95e, Find
   aa675fa, PartitionMap 8c13ccc): [invert], [pick_by], [find_with] and
   [partition_map] below are the loops BEFORE those commits; the loops as they
   are now are [ginvert], [gpick_by], [gfind_with], [gpartition_map] of
   C14_ModelNaN.v, and C14_nan_conservative_repaired proves them equal to the
   ones here on every well-formed map with reflexive keys — so the theorems of
   C14_Props part 1 are theorems about the code as it is now. *)

From Gogu Require Import Base.
Local Open Scope Z_scope.

(* ------------------------------------------------------------------ *)
(* Part 1a.  Go maps as association lists                               *)

Definition amapV (V : Type) := list (Z * V).
Definition amap := amapV Z.

Section MapOps.
  Context {V : Type}.

  (* v, ok := m[k] *)
  Fixpoint lookup (m : amapV V) (k : Z) : option V :=
    match m with
    | [] => None
    | (k', v) :: m' => if k' =? k then Some v else lookup m' k
    end.

  (* m[k] = v  (an existing key keeps its slot, a new key takes a new one) *)
  Fixpoint map_set (m : amapV V) (k : Z) (v : V) : amapV V :=
    match m with
    | [] => [(k, v)]
    | (k', v') :: m' => if k' =? k then (k, v) :: m' else (k', v') :: map_set m' k v
    end.

  (* delete(m, k) *)
  Fixpoint map_delete (m : amapV V) (k : Z) : amapV V :=
    match m with
    | [] => []
    | (k', v') :: m' => if k' =? k then m' else (k', v') :: map_delete m' k
    end.
End MapOps.

(* m[k] with Go's zero value for a missing key *)
Definition get (m : amap) (k : Z) : Z :=
  match lookup m k with Some v => v | None => 0 end.

(* gogu.Contains (slice.go:172) *)
Fixpoint contains (l : list Z) (x : Z) : bool :=
  match l with
  | [] => false
  | v :: l' => if v =? x then true else contains l' x
  end.

(* s[i] = x on a slice of fixed length (out of range: unreachable below) *)
Fixpoint upd {A} (l : list A) (i : nat) (x : A) : list A :=
  match l, i with
  | [], _ => []
  | _ :: t, O => x :: t
  | h :: t, S i' => h :: upd t i' x
  end.

(* ------------------------------------------------------------------ *)
(* Part 1b.  The helpers, loop by loop                                  *)

(* Keys (map.go:17): keys := make([]K, len(m)); idx := 0;
   for k := range m { keys[idx] = k; idx++ } *)
Definition keys_go {V} (m : amapV V) : list Z :=
  fst (fold_left (fun (st : list Z * nat) (kv : Z * V) =>
                    let (arr, idx) := st in (upd arr idx (fst kv), S idx))
                 m (repeat 0 (length m), O)).

(* Values (map.go:30) *)
Definition values_go (m : amap) : list Z :=
  fst (fold_left (fun (st : list Z * nat) (kv : Z * Z) =>
                    let (arr, idx) := st in (upd arr idx (snd kv), S idx))
                 m (repeat 0 (length m), O)).

(* MapValues (map.go:44): for k, v := range m { newMap[k] = fn(v) } *)
Definition map_values (fn : Z -> Z) (m : amap) : amap :=
  fold_left (fun acc kv => map_set acc (fst kv) (fn (snd kv))) m [].

(* MapKeys (map.go:56): for k, v := range m { newMap[fn(k, v)] = v } *)
Definition map_keys (fn : Z -> Z -> Z) (m : amap) : amap :=
  fold_left (fun acc kv => map_set acc (fn (fst kv) (snd kv)) (snd kv)) m [].

(* MapEvery (map.go:67) *)
Fixpoint map_every (fn : Z -> bool) (m : amap) : bool :=
  match m with
  | [] => true
  | (_, v) :: m' => if negb (fn v) then false else map_every fn m'
  end.

(* MapSome (map.go:78) *)
Fixpoint map_some (fn : Z -> bool) (m : amap) : bool :=
  match m with
  | [] => false
  | (_, v) :: m' => if fn v then true else map_some fn m'
  end.

(* MapContains (map.go:89) *)
Fixpoint map_contains (m : amap) (value : Z) : bool :=
  match m with
  | [] => false
  | (_, v) :: m' => if v =? value then true else map_contains m' value
  end.

(* MapUnique (map.go:99): result, ref := {}, {};
   for k, v := range m { if _, ok := ref[v]; !ok { ref[v] = true; result[k] = v } } *)
Definition map_unique (m : amap) : amap :=
  fst (fold_left (fun (st : amap * amap) kv =>
                    let (result, ref) := st in
                    match lookup ref (snd kv) with
                    | None => (map_set result (fst kv) (snd kv), map_set ref (snd kv) 1)
                    | Some _ => (result, ref)
                    end) m ([], [])).

(* MapCollection (map.go:116) *)
Definition map_collection (fn : Z -> Z) (m : amap) : list Z :=
  fst (fold_left (fun (st : list Z * nat) (kv : Z * Z) =>
                    let (arr, idx) := st in (upd arr idx (fn (snd kv)), S idx))
                 m (repeat 0 (length m), O)).

(* sort.Slice(keys, <) — the standard library's sort is modelled, not verified:
   [find_with] takes the sorting function as a parameter and the theorem about
   it assumes only that the sorter returns a sorted permutation.  The
   executable instance is insertion sort. *)
Fixpoint insert_z (x : Z) (l : list Z) : list Z :=
  match l with
  | [] => [x]
  | y :: l' => if x <=? y then x :: l else y :: insert_z x l'
  end.
Definition sort_z (l : list Z) : list Z := fold_right insert_z [] l.

(* Find (map.go:128): collect the keys, sort them, take the first key whose
   value qualifies *)
Fixpoint find_loop (fn : Z -> bool) (m : amap) (ks : list Z) : amap :=
  match ks with
  | [] => []
  | k :: ks' => if fn (get m k) then map_set [] k (get m k) else find_loop fn m ks'
  end.
Definition find_with (sorter : list Z -> list Z) (fn : Z -> bool) (m : amap) : amap :=
  find_loop fn m (sorter (keys_go m)).
Definition find_go := find_with sort_z.

(* FindKey (map.go:155): var result K; for k, v := range m { if fn(v) { result = k; break } } *)
Fixpoint find_key (fn : Z -> bool) (m : amap) : Z :=
  match m with
  | [] => 0
  | (k, v) :: m' => if fn v then k else find_key fn m'
  end.

(* FindByKey (map.go:167) *)
Fixpoint find_by_key (fn : Z -> bool) (m : amap) : amap :=
  match m with
  | [] => []
  | (k, v) :: m' => if fn k then map_set [] k v else find_by_key fn m'
  end.

(* Invert (map.go:180): keys := Keys(m); for i { inverted[m[keys[i]]] = keys[i] } *)
Definition invert (m : amap) : amap :=
  fold_left (fun acc k => map_set acc (get m k) k) (keys_go m) [].

(* Pluck (map.go:192) *)
Definition pluck (ms : list amap) (key : Z) : list Z :=
  fold_left (fun result m =>
               let mapped := find_by_key (fun k => k =? key) m in
               match lookup mapped key with
               | Some _ => result ++ [get mapped key]
               | None => result
               end) ms [].

(* Pick (map.go:208): error when no key is given *)
Definition pick (m : amap) (ks : list Z) : res amap :=
  match ks with
  | [] => Err 1
  | _ => Ok (fold_left (fun result kv =>
                          if contains ks (fst kv) then map_set result (fst kv) (get m (fst kv))
                          else result) m [])
  end.

(* PickBy (map.go:224) *)
Definition pick_by (fn : Z -> Z -> bool) (m : amap) : amap :=
  fold_left (fun result kv =>
               if fn (fst kv) (snd kv) then map_set result (fst kv) (get m (fst kv)) else result) m [].

(* Omit (map.go:237): deletes from the argument while ranging over it.  Only
   the entry just produced is ever deleted, so (Go spec, "For statements with
   range clause") every entry is still produced exactly once: the loop runs
   over the original entries. *)
Definition omit (m : amap) (ks : list Z) : amap :=
  fold_left (fun coll kv => if contains ks (fst kv) then map_delete coll (fst kv) else coll) m m.

(* OmitBy (map.go:248) *)
Definition omit_by (fn : Z -> Z -> bool) (m : amap) : amap :=
  fold_left (fun coll kv => if fn (fst kv) (snd kv) then map_delete coll (fst kv) else coll) m m.

(* PartitionMap (map.go:260): for each map, look at its first entry only:
   m[k] = v (a write of what is already there), then route the map by fn(m).
   Empty maps are dropped (the inner loop body never runs). *)
Definition partition_map (fn : amap -> bool) (ms : list amap) : list amap * list amap :=
  fold_left (fun (result : list amap * list amap) m =>
               match m with
               | [] => result
               | (k, v) :: _ =>
                   let m1 := map_set m k v in
                   if fn m1 then (fst result ++ [m1], snd result)
                   else (fst result, snd result ++ [m1])
               end) ms ([], []).

(* SliceToMap (map.go:281): panics on unequal lengths; later positions overwrite *)
Fixpoint slice_to_map_loop (result : amap) (s1 s2 : list Z) : amap :=
  match s1, s2 with
  | k :: s1', v :: s2' => slice_to_map_loop (map_set result k v) s1' s2'
  | _, _ => result
  end.
Definition slice_to_map (s1 s2 : list Z) : res amap :=
  if Nat.eqb (length s1) (length s2) then Ok (slice_to_map_loop [] s1 s2) else Panic.

(* FilterMap (filter.go:33) *)
Definition filter_map (fn : Z -> bool) (m : amap) : amap :=
  fold_left (fun filtered kv => if fn (snd kv) then map_set filtered (fst kv) (snd kv) else filtered) m [].

(* FilterMapCollection (filter.go:47), AFTER the repair (fixes/builder-c14c16):
   for _, item := range collection { for _, v := range item {
       if fn(v) { filtered = append(filtered, item); break } } } *)
Section Collections.
  Context {V : Type}.
  (* the inner loop: does it append (and break)? *)
  Fixpoint inner_hit (fn : V -> bool) (item : amapV V) : bool :=
    match item with
    | [] => false
    | (_, v) :: item' => if fn v then true else inner_hit fn item'
    end.
  Definition filter_collection (fn : V -> bool) (coll : list (amapV V)) : list (amapV V) :=
    fold_left (fun filtered item => if inner_hit fn item then filtered ++ [item] else filtered) coll [].

  (* the code as found (no `break`): one append per qualifying value *)
  Fixpoint inner_asfound (fn : V -> bool) (item0 item : amapV V) (filtered : list (amapV V)) : list (amapV V) :=
    match item with
    | [] => filtered
    | (_, v) :: item' =>
        inner_asfound fn item0 item' (if fn v then filtered ++ [item0] else filtered)
    end.
  Definition filter_collection_asfound (fn : V -> bool) (coll : list (amapV V)) : list (amapV V) :=
    fold_left (fun filtered item => inner_asfound fn item item filtered) coll [].
End Collections.

Definition filter_map_collection (fn : Z -> bool) (ms : list amap) : list amap :=
  filter_collection fn ms.
(* Filter2DMapCollection (filter.go:63): the same loop one level up *)
Definition filter_2d_map_collection (fn : amap -> bool) (coll : list (amapV amap)) : list (amapV amap) :=
  filter_collection fn coll.

(* ------------------------------------------------------------------ *)
(* Part 2.  Specification: what C14 promises, in reference form          *)

Definition wf {V} (m : amapV V) : Prop := NoDup (map fst m).

Definition key_in (ks : list Z) (kv : Z * Z) : bool := contains ks (fst kv).
Definition val_ok (p : Z -> bool) (kv : Z * Z) : bool := p (snd kv).
Definition kv_ok (p : Z -> Z -> bool) (kv : Z * Z) : bool := p (fst kv) (snd kv).
Definition is_empty {V} (m : amapV V) : bool := match m with [] => true | _ => false end.

(* the entries a value predicate selects, the map-collection filter, Pluck and
   PartitionMap as one-liners *)
Definition spec_filter_collection {V} (p : V -> bool) (coll : list (amapV V)) : list (amapV V) :=
  filter (fun item => existsb p (map snd item)) coll.
Definition spec_pluck (ms : list amap) (key : Z) : list Z :=
  flat_map (fun m => match lookup m key with Some v => [v] | None => [] end) ms.
Definition spec_partition_map (fn : amap -> bool) (ms : list amap) : list amap * list amap :=
  let ne := filter (fun m => negb (is_empty m)) ms in
  (filter fn ne, filter (fun m => negb (fn m)) ne).
(* SliceToMap: the last position holding k decides *)
Definition spec_slice_to_map_lookup (s1 s2 : list Z) (k : Z) : option Z :=
  lookup (rev (combine s1 s2)) k.
