(* C14_ModelNaN.v — the map helpers of map.go / filter.go over key and value types
   whose `==` is NOT reflexive (float64: NaN != NaN).

   Go's `==` on such a type is an equality test [eq : A -> A -> bool] that is
   sound but partial:

        eq a b = true -> a = b                       ([eq_sub] in C14_ProofsNaN.v)

   and nothing else is assumed — symmetry and transitivity follow, reflexivity
   holds exactly on the decidable subset { a | eq a a = true } (the ordinary
   values) and fails on the rest (the NaNs).  Consequences for a Go map, all
   proved in C14_ProofsNaN.v and not assumed:  an entry stored under a key k with
   eq k k = false is reached by no look-up, delete or overwrite ([glookup],
   [gdelete], [gset] walk past it), every `m[k] = v` under such a key appends a
   fresh entry, and `range` still produces every entry.

   A map is, as in C14_Model.v, the list of its entries IN THE ORDER THE RUNTIME
   ITERATES IT; the well-formedness condition is [wfk]: the keys are pairwise
   unequal under [eq] (so an ordinary key occurs once, an unreachable key as
   often as it was inserted).  Every helper is generic in the key, value and
   result types and takes the `==` of each comparable type as a parameter; at
   K = V = Z with Z.eqb the definitions are those of C14_Model.v (C14_nan_conservative
   in C14_Props.v).

   The helpers are the Go loops of the REPAIRED code (fixes/nan-c14/0001-0005);
   the five loops as found, which misbehave under unreachable keys, are kept
   under the names [..._asfound] for the refutation witnesses.

   The executable instance is [fl] = an integer-valued float or NaN.
   No proofs in this file. *)

From Gogu Require Import Base C14_Model.
Local Open Scope Z_scope.

(* ------------------------------------------------------------------ *)
(* Part 1a.  Go maps over a key type with a partial `==`                *)

Section MapOps.
  Context {K V : Type} (eq : K -> K -> bool).

  (* v, ok := m[k] *)
  Fixpoint glookup (m : list (K * V)) (k : K) : option V :=
    match m with
    | [] => None
    | (k', v) :: m' => if eq k' k then Some v else glookup m' k
    end.

  (* m[k] = v : an existing (equal) key keeps its slot, any other key takes a new one *)
  Fixpoint gset (m : list (K * V)) (k : K) (v : V) : list (K * V) :=
    match m with
    | [] => [(k, v)]
    | (k', v') :: m' => if eq k' k then (k, v) :: m' else (k', v') :: gset m' k v
    end.

  (* delete(m, k) *)
  Fixpoint gdelete (m : list (K * V)) (k : K) : list (K * V) :=
    match m with
    | [] => []
    | (k', v') :: m' => if eq k' k then m' else (k', v') :: gdelete m' k
    end.

  (* m[k] with the zero value for a key that is not found *)
  Definition gget (vz : V) (m : list (K * V)) (k : K) : V :=
    match glookup m k with Some v => v | None => vz end.
End MapOps.

(* gogu.Contains (slice.go): `if v == x { return true }` *)
Fixpoint gcontains {A} (eq : A -> A -> bool) (l : list A) (x : A) : bool :=
  match l with
  | [] => false
  | v :: l' => if eq v x then true else gcontains eq l' x
  end.

(* ------------------------------------------------------------------ *)
(* Part 1b.  The helpers, loop by loop                                  *)

(* Keys / Values / MapCollection: make([]T, len(m)) + index counter *)
Definition gfill {K V A} (az : A) (f : K * V -> A) (m : list (K * V)) : list A :=
  fst (fold_left (fun (st : list A * nat) (kv : K * V) =>
                    let (arr, idx) := st in (upd arr idx (f kv), S idx))
                 m (repeat az (length m), O)).
Definition gkeys {K V} (kz : K) (m : list (K * V)) : list K := gfill kz fst m.
Definition gvalues {K V} (vz : V) (m : list (K * V)) : list V := gfill vz snd m.
Definition gmap_collection {K V} (vz : V) (fn : V -> V) (m : list (K * V)) : list V :=
  gfill vz (fun kv => fn (snd kv)) m.

(* MapValues: for k, v := range m { newMap[k] = fn(v) } *)
Definition gmap_values {K V R} (keq : K -> K -> bool) (fn : V -> R) (m : list (K * V)) : list (K * R) :=
  fold_left (fun acc kv => gset keq acc (fst kv) (fn (snd kv))) m [].

(* MapKeys: for k, v := range m { newMap[fn(k, v)] = v } *)
Definition gmap_keys {K V R} (req : R -> R -> bool) (fn : K -> V -> R) (m : list (K * V)) : list (R * V) :=
  fold_left (fun acc kv => gset req acc (fn (fst kv) (snd kv)) (snd kv)) m [].

(* MapEvery / MapSome / MapContains *)
Fixpoint gmap_every {K V} (fn : V -> bool) (m : list (K * V)) : bool :=
  match m with
  | [] => true
  | (_, v) :: m' => if negb (fn v) then false else gmap_every fn m'
  end.
Fixpoint gmap_some {K V} (fn : V -> bool) (m : list (K * V)) : bool :=
  match m with
  | [] => false
  | (_, v) :: m' => if fn v then true else gmap_some fn m'
  end.
Fixpoint gmap_contains {K V} (veq : V -> V -> bool) (m : list (K * V)) (value : V) : bool :=
  match m with
  | [] => false
  | (_, v) :: m' => if veq v value then true else gmap_contains veq m' value
  end.

(* MapUnique: result, ref := {}, {};
   for k, v := range m { if _, ok := ref[v]; !ok { ref[v] = true; result[k] = v } } *)
Definition gmap_unique {K V} (keq : K -> K -> bool) (veq : V -> V -> bool) (m : list (K * V)) : list (K * V) :=
  fst (fold_left (fun (st : list (K * V) * list (V * bool)) kv =>
                    let (result, ref) := st in
                    match glookup veq ref (snd kv) with
                    | None => (gset keq result (fst kv) (snd kv), gset veq ref (snd kv) true)
                    | Some _ => (result, ref)
                    end) m ([], [])).

(* FindKey: var result K; for k, v := range m { if fn(v) { result = k; break } } *)
Fixpoint gfind_key {K V} (kz : K) (fn : V -> bool) (m : list (K * V)) : K :=
  match m with
  | [] => kz
  | (k, v) :: m' => if fn v then k else gfind_key kz fn m'
  end.

(* FindByKey *)
Fixpoint gfind_by_key {K V} (keq : K -> K -> bool) (fn : K -> bool) (m : list (K * V)) : list (K * V) :=
  match m with
  | [] => []
  | (k, v) :: m' => if fn k then gset keq [] k v else gfind_by_key keq fn m'
  end.

(* Invert (repaired, 0001): for k, v := range m { inverted[v] = k } *)
Definition ginvert {K V} (veq : V -> V -> bool) (m : list (K * V)) : list (V * K) :=
  fold_left (fun acc kv => gset veq acc (snd kv) (fst kv)) m [].
(* as found: keys := Keys(m); for i { inverted[m[keys[i]]] = keys[i] } *)
Definition ginvert_asfound {K V} (keq : K -> K -> bool) (veq : V -> V -> bool) (kz : K) (vz : V)
    (m : list (K * V)) : list (V * K) :=
  fold_left (fun acc k => gset veq acc (gget keq vz m k) k) (gkeys kz m) [].

(* Pluck: through FindByKey(k == key), then mapped[key] *)
Definition gpluck {K V} (keq : K -> K -> bool) (vz : V) (ms : list (list (K * V))) (key : K) : list V :=
  fold_left (fun result m =>
               let mapped := gfind_by_key keq (fun k => keq k key) m in
               match glookup keq mapped key with
               | Some _ => result ++ [gget keq vz mapped key]
               | None => result
               end) ms [].

(* Pick: error when no key is given; result[k] = collection[k] (reached only for
   keys that Contains found, which are keys that a look-up finds) *)
Definition gpick {K V} (keq : K -> K -> bool) (vz : V) (m : list (K * V)) (ks : list K) : res (list (K * V)) :=
  match ks with
  | [] => Err 1
  | _ => Ok (fold_left (fun result kv =>
                          if gcontains keq ks (fst kv) then gset keq result (fst kv) (gget keq vz m (fst kv))
                          else result) m [])
  end.

(* PickBy (repaired, 0002): result[k] = v *)
Definition gpick_by {K V} (keq : K -> K -> bool) (fn : K -> V -> bool) (m : list (K * V)) : list (K * V) :=
  fold_left (fun result kv => if fn (fst kv) (snd kv) then gset keq result (fst kv) (snd kv) else result) m [].
(* as found: result[k] = collection[k] *)
Definition gpick_by_asfound {K V} (keq : K -> K -> bool) (vz : V) (fn : K -> V -> bool) (m : list (K * V)) : list (K * V) :=
  fold_left (fun result kv =>
               if fn (fst kv) (snd kv) then gset keq result (fst kv) (gget keq vz m (fst kv)) else result) m [].

(* Omit: deletes from the argument while ranging over it *)
Definition gomit {K V} (keq : K -> K -> bool) (m : list (K * V)) (ks : list K) : list (K * V) :=
  fold_left (fun coll kv => if gcontains keq ks (fst kv) then gdelete keq coll (fst kv) else coll) m m.

(* OmitBy as found: delete(collection, k) for every qualifying entry *)
Definition gomit_by_asfound {K V} (keq : K -> K -> bool) (fn : K -> V -> bool) (m : list (K * V)) : list (K * V) :=
  fold_left (fun coll kv => if fn (fst kv) (snd kv) then gdelete keq coll (fst kv) else coll) m m.
(* OmitBy (repaired, 0004): delete in place where the key can be deleted; when an
   entry under a key with k != k has to go, the result is a new map: the
   remaining entries with k == k, then the entries with k != k that stay *)
Definition gomit_by {K V} (keq : K -> K -> bool) (fn : K -> V -> bool) (m : list (K * V)) : list (K * V) :=
  let st := fold_left (fun (st : list (K * V) * bool * list (K * V)) kv =>
                         let '(coll, stuck, keep) := st in
                         if fn (fst kv) (snd kv)
                         then if keq (fst kv) (fst kv) then (gdelete keq coll (fst kv), stuck, keep)
                              else (coll, true, keep)
                         else if negb (keq (fst kv) (fst kv)) then (coll, stuck, keep ++ [kv])
                              else (coll, stuck, keep)) m (m, false, []) in
  let '(coll, stuck, keep) := st in
  if stuck
  then fold_left (fun rest kv => gset keq rest (fst kv) (snd kv)) keep
         (fold_left (fun rest kv => if keq (fst kv) (fst kv) then gset keq rest (fst kv) (snd kv) else rest) coll [])
  else coll.

(* Find (repaired, 0003): the keys with k == k are collected (append) and sorted,
   the first of them whose value qualifies decides; if none does, a range over
   the entries returns the first qualifying entry under a key with k != k.
   sort.Slice is a parameter, as in C14_Model.v. *)
Definition gfind_keys {K V} (keq : K -> K -> bool) (m : list (K * V)) : list K :=
  fold_left (fun keys kv => if keq (fst kv) (fst kv) then keys ++ [fst kv] else keys) m [].
Fixpoint gfind_loop {K V} (keq : K -> K -> bool) (vz : V) (fn : V -> bool) (m : list (K * V)) (ks : list K)
    : option (K * V) :=
  match ks with
  | [] => None
  | k :: ks' => if fn (gget keq vz m k) then Some (k, gget keq vz m k) else gfind_loop keq vz fn m ks'
  end.
Fixpoint gfind_unordered {K V} (keq : K -> K -> bool) (fn : V -> bool) (m : list (K * V)) : list (K * V) :=
  match m with
  | [] => []
  | (k, v) :: m' => if negb (keq k k) && fn v then gset keq [] k v else gfind_unordered keq fn m'
  end.
Definition gfind_with {K V} (keq : K -> K -> bool) (vz : V) (sorter : list K -> list K) (fn : V -> bool)
    (m : list (K * V)) : list (K * V) :=
  match gfind_loop keq vz fn m (sorter (gfind_keys keq m)) with
  | Some (k, v) => gset keq [] k v
  | None => gfind_unordered keq fn m
  end.
(* as found: all keys are sorted and looked up again *)
Fixpoint gfind_loop_asfound {K V} (keq : K -> K -> bool) (vz : V) (fn : V -> bool) (m : list (K * V)) (ks : list K)
    : list (K * V) :=
  match ks with
  | [] => []
  | k :: ks' => if fn (gget keq vz m k) then gset keq [] k (gget keq vz m k) else gfind_loop_asfound keq vz fn m ks'
  end.
Definition gfind_asfound {K V} (keq : K -> K -> bool) (kz : K) (vz : V) (sorter : list K -> list K) (fn : V -> bool)
    (m : list (K * V)) : list (K * V) :=
  gfind_loop_asfound keq vz fn m (sorter (gkeys kz m)).

(* PartitionMap (repaired, 0005): a non-empty map is routed by fn(m) *)
Definition gpartition_map {K V} (fn : list (K * V) -> bool) (ms : list (list (K * V)))
    : list (list (K * V)) * list (list (K * V)) :=
  fold_left (fun (result : list (list (K * V)) * list (list (K * V))) m =>
               match m with
               | [] => result
               | _ :: _ => if fn m then (fst result ++ [m], snd result) else (fst result, snd result ++ [m])
               end) ms ([], []).
(* as found: m[k] = v for the first entry, before fn(m) *)
Definition gpartition_map_asfound {K V} (keq : K -> K -> bool) (fn : list (K * V) -> bool) (ms : list (list (K * V)))
    : list (list (K * V)) * list (list (K * V)) :=
  fold_left (fun (result : list (list (K * V)) * list (list (K * V))) m =>
               match m with
               | [] => result
               | (k, v) :: _ =>
                   let m1 := gset keq m k v in
                   if fn m1 then (fst result ++ [m1], snd result) else (fst result, snd result ++ [m1])
               end) ms ([], []).

(* SliceToMap *)
Fixpoint gslice_to_map_loop {K V} (keq : K -> K -> bool) (result : list (K * V)) (s1 : list K) (s2 : list V)
    : list (K * V) :=
  match s1, s2 with
  | k :: s1', v :: s2' => gslice_to_map_loop keq (gset keq result k v) s1' s2'
  | _, _ => result
  end.
Definition gslice_to_map {K V} (keq : K -> K -> bool) (s1 : list K) (s2 : list V) : res (list (K * V)) :=
  if Nat.eqb (length s1) (length s2) then Ok (gslice_to_map_loop keq [] s1 s2) else Panic.

(* FilterMap *)
Definition gfilter_map {K V} (keq : K -> K -> bool) (fn : V -> bool) (m : list (K * V)) : list (K * V) :=
  fold_left (fun filtered kv => if fn (snd kv) then gset keq filtered (fst kv) (snd kv) else filtered) m [].

(* FilterMapCollection / Filter2DMapCollection (with the `break`) *)
Fixpoint ginner_hit {K V} (fn : V -> bool) (item : list (K * V)) : bool :=
  match item with
  | [] => false
  | (_, v) :: item' => if fn v then true else ginner_hit fn item'
  end.
Definition gfilter_collection {K V} (fn : V -> bool) (coll : list (list (K * V))) : list (list (K * V)) :=
  fold_left (fun filtered item => if ginner_hit fn item then filtered ++ [item] else filtered) coll [].

(* ------------------------------------------------------------------ *)
(* Part 2.  Specification                                                *)

(* the keys of a map are pairwise unequal under `==` *)
Fixpoint wfk {K V} (keq : K -> K -> bool) (m : list (K * V)) : Prop :=
  match m with
  | [] => True
  | e :: m' => (forall e', In e' m' -> keq (fst e) (fst e') = false) /\ wfk keq m'
  end.

(* a key / value that equals itself: an ordinary one; the others are the NaNs *)
Definition ordinary {A} (eq : A -> A -> bool) (a : A) : bool := eq a a.

Definition gkey_in {K V} (keq : K -> K -> bool) (ks : list K) (kv : K * V) : bool := gcontains keq ks (fst kv).
Definition gval_ok {K V} (p : V -> bool) (kv : K * V) : bool := p (snd kv).
Definition gkv_ok {K V} (p : K -> V -> bool) (kv : K * V) : bool := p (fst kv) (snd kv).

(* "the last assignment to a key wins": what a sequence of m[k] = v leaves behind,
   as a multiset of entries.  An entry is dropped when a later one has an EQUAL
   key; entries under a key with k != k are never dropped. *)
Definition overwritten {A B} (eq : A -> A -> bool) (l : list (A * B)) (e : A * B) : bool :=
  existsb (fun e' => eq (fst e') (fst e)) l.
Fixpoint keep_last {A B} (eq : A -> A -> bool) (l : list (A * B)) : list (A * B) :=
  match l with
  | [] => []
  | e :: l' => if overwritten eq l' e then keep_last eq l' else e :: keep_last eq l'
  end.

(* MapUnique: an entry is kept unless an EARLIER kept one has an equal value *)
Fixpoint guniq_ref {K V} (veq : V -> V -> bool) (seen : list V) (m : list (K * V)) : list (K * V) :=
  match m with
  | [] => []
  | (k, v) :: m' => if gcontains veq seen v then guniq_ref veq seen m' else (k, v) :: guniq_ref veq (seen ++ [v]) m'
  end.

Definition gspec_pluck {K V} (keq : K -> K -> bool) (ms : list (list (K * V))) (key : K) : list V :=
  flat_map (fun m => match glookup keq m key with Some v => [v] | None => [] end) ms.
Definition gis_empty {A} (m : list A) : bool := match m with [] => true | _ => false end.
Definition gspec_partition_map {K V} (fn : list (K * V) -> bool) (ms : list (list (K * V)))
    : list (list (K * V)) * list (list (K * V)) :=
  let ne := filter (fun m => negb (gis_empty m)) ms in
  (filter fn ne, filter (fun m => negb (fn m)) ne).
Definition gspec_filter_collection {K V} (p : V -> bool) (coll : list (list (K * V))) : list (list (K * V)) :=
  filter (fun item => existsb p (map snd item)) coll.

(* ------------------------------------------------------------------ *)
(* Part 3.  The executable instance: an integer-valued float or NaN      *)

Inductive fl : Type := Num (z : Z) | NaN.

(* Go's ==, < on float64 (restricted to integer-valued floats and NaN) *)
Definition fl_eqb (a b : fl) : bool :=
  match a, b with Num x, Num y => x =? y | _, _ => false end.
Definition fl_ltb (a b : fl) : bool :=
  match a, b with Num x, Num y => x <? y | _, _ => false end.
Definition fl_zero : fl := Num 0.

(* insertion sort by <, for keys with k == k (the instance of sort.Slice) *)
Fixpoint fl_insert (x : fl) (l : list fl) : list fl :=
  match l with
  | [] => [x]
  | y :: l' => if fl_ltb y x then y :: fl_insert x l' else x :: l
  end.
Definition fl_sort (l : list fl) : list fl := fold_right fl_insert [] l.

Definition fmap := list (fl * fl).
Definition ffind (fn : fl -> bool) (m : fmap) : fmap := gfind_with fl_eqb fl_zero fl_sort fn m.
