(* C14_Proofs.v — lemmas for C14 (the statements of the property are in C14_Props.v). *)
From Gogu Require Import Base C14_Model.
From Coq Require Import Permutation Sorted.
Local Open Scope Z_scope.

(* ------------------------------------------------------------------ *)
(* association lists                                                    *)

Lemma contains_iff l x : contains l x = true <-> In x l.
Proof.
  induction l as [|v l IH]; cbn; [split; [discriminate|tauto]|].
  destruct (Z.eqb_spec v x); [subst; tauto|].
  rewrite IH. split; [tauto|]. intros [H|H]; [congruence|exact H].
Qed.

Lemma filter_all_true {A} (p : A -> bool) l : (forall x, In x l -> p x = true) -> filter p l = l.
Proof.
  induction l as [|a l IH]; cbn; intros H; [reflexivity|].
  rewrite (H a) by now left. f_equal. apply IH. intros x Hx. apply H. now right.
Qed.

Section AList.
  Context {V : Type}.
  Implicit Types (m : amapV V) (k : Z) (v : V).

  Lemma lookup_app m1 m2 k :
    lookup (m1 ++ m2) k = match lookup m1 k with Some v => Some v | None => lookup m2 k end.
  Proof.
    induction m1 as [|[k' v'] m1 IH]; cbn; [reflexivity|].
    destruct (k' =? k); [reflexivity|exact IH].
  Qed.

  Lemma lookup_some_in m k v : lookup m k = Some v -> In (k, v) m.
  Proof.
    induction m as [|[k' v'] m IH]; cbn; [discriminate|].
    destruct (Z.eqb_spec k' k) as [->|Hne]; intros H.
    - injection H as ->. now left.
    - right. now apply IH.
  Qed.

  Lemma lookup_none_iff m k : lookup m k = None <-> ~ In k (map fst m).
  Proof.
    induction m as [|[k' v'] m IH]; cbn; [tauto|].
    destruct (Z.eqb_spec k' k) as [->|Hne].
    - split; [discriminate|]. intros H; exfalso; apply H; now left.
    - rewrite IH. split; [intros H [H'|H']; [congruence|tauto]|tauto].
  Qed.

  Lemma in_lookup m k v : wf m -> In (k, v) m -> lookup m k = Some v.
  Proof.
    unfold wf. induction m as [|[k' v'] m IH]; cbn; [tauto|].
    intros Hnd [H|H].
    - injection H as -> ->. now rewrite Z.eqb_refl.
    - inversion Hnd as [|? ? Hnot Hnd']; subst.
      destruct (Z.eqb_spec k' k) as [->|Hne].
      + exfalso. apply Hnot. change k with (fst (k, v)). now apply in_map.
      + now apply IH.
  Qed.

  Lemma lookup_iff_in m k v : wf m -> (lookup m k = Some v <-> In (k, v) m).
  Proof. intros Hwf; split; [apply lookup_some_in|now apply in_lookup]. Qed.

  Lemma in_same_key m k v v' : wf m -> In (k, v) m -> In (k, v') m -> v = v'.
  Proof.
    intros Hwf H1 H2. apply (in_lookup _ _ _ Hwf) in H1. apply (in_lookup _ _ _ Hwf) in H2. congruence.
  Qed.

  Lemma lookup_map_set m k v k' :
    lookup (map_set m k v) k' = if k =? k' then Some v else lookup m k'.
  Proof.
    induction m as [|[k0 v0] m IH]; cbn.
    - reflexivity.
    - destruct (Z.eqb_spec k0 k) as [->|Hne]; cbn.
      + destruct (k =? k'); reflexivity.
      + destruct (Z.eqb_spec k0 k') as [->|Hne'].
        * destruct (Z.eqb_spec k k'); [congruence|reflexivity].
        * exact IH.
  Qed.

  Lemma map_set_fresh m k v : ~ In k (map fst m) -> map_set m k v = m ++ [(k, v)].
  Proof.
    induction m as [|[k0 v0] m IH]; cbn; [reflexivity|].
    intros Hnot. destruct (Z.eqb_spec k0 k) as [->|Hne]; [exfalso; apply Hnot; now left|].
    f_equal. apply IH. tauto.
  Qed.

  Lemma keys_map_set m k v x : In x (map fst (map_set m k v)) <-> x = k \/ In x (map fst m).
  Proof.
    induction m as [|[k0 v0] m IH]; cbn; [intuition|].
    destruct (Z.eqb_spec k0 k) as [->|Hne]; cbn; [intuition|].
    rewrite IH. intuition.
  Qed.

  Lemma wf_map_set m k v : wf m -> wf (map_set m k v).
  Proof.
    unfold wf. induction m as [|[k0 v0] m IH]; cbn; intros Hnd.
    - constructor; [tauto|constructor].
    - inversion Hnd as [|? ? Hnot Hnd']; subst.
      destruct (Z.eqb_spec k0 k) as [->|Hne]; cbn.
      + now constructor.
      + constructor; [|now apply IH].
        rewrite keys_map_set. intros [H|H]; [congruence|tauto].
  Qed.

  Lemma map_delete_filter m k : wf m -> map_delete m k = filter (fun kv => negb (fst kv =? k)) m.
  Proof.
    unfold wf. induction m as [|[k0 v0] m IH]; cbn; [reflexivity|].
    intros Hnd. inversion Hnd as [|? ? Hnot Hnd']; subst.
    destruct (Z.eqb_spec k0 k) as [->|Hne]; cbn.
    - symmetry. apply filter_all_true. intros [k1 v1] Hin. cbn.
      destruct (Z.eqb_spec k1 k) as [->|]; [|reflexivity].
      exfalso. apply Hnot. change k with (fst (k, v1)). now apply in_map.
    - f_equal. now apply IH.
  Qed.

  Lemma wf_filter (p : Z * V -> bool) m : wf m -> wf (filter p m).
  Proof.
    unfold wf. induction m as [|[k0 v0] m IH]; cbn; intros Hnd; [constructor|].
    inversion Hnd as [|? ? Hnot Hnd']; subst.
    destruct (p (k0, v0)); cbn; [|now apply IH].
    constructor; [|now apply IH].
    intros Hin. apply Hnot. apply in_map_iff in Hin as ([k1 v1] & Hk & Hin). cbn in Hk. subst k1.
    apply filter_In in Hin as [Hin _]. change k0 with (fst (k0, v1)). now apply in_map.
  Qed.

  Lemma wf_app_inv m1 m2 : wf (m1 ++ m2) -> wf m2.
  Proof.
    unfold wf. rewrite map_app. induction m1 as [|a m1 IH]; cbn; [tauto|].
    intros H. inversion H; subst. now apply IH.
  Qed.

  (* the order of the list does not matter for what a wf map contains *)
  Lemma wf_perm m m' : Permutation m m' -> wf m -> wf m'.
  Proof. unfold wf. intros Hp. apply Permutation_NoDup. now apply Permutation_map. Qed.

  Lemma lookup_perm m m' k : wf m -> Permutation m m' -> lookup m k = lookup m' k.
  Proof.
    intros Hwf Hp. pose proof (wf_perm _ _ Hp Hwf) as Hwf'.
    destruct (lookup m k) as [v|] eqn:E.
    - symmetry. apply in_lookup; [exact Hwf'|]. eapply Permutation_in; [exact Hp|]. now apply lookup_some_in.
    - symmetry. apply lookup_none_iff. apply lookup_none_iff in E. intros Hin. apply E.
      eapply Permutation_in; [apply Permutation_sym, Permutation_map; exact Hp|exact Hin].
  Qed.

  (* ---------- "last assignment wins": a map built by successive m[k] = v ---------- *)

  Definition build_from (acc : amapV V) (l : list (Z * V)) : amapV V :=
    fold_left (fun acc e => map_set acc (fst e) (snd e)) l acc.

  Lemma lookup_build_from l : forall acc k,
    lookup (build_from acc l) k =
    match lookup (rev l) k with Some v => Some v | None => lookup acc k end.
  Proof.
    induction l as [|[k0 v0] l IH]; intros acc k; cbn; [reflexivity|].
    unfold build_from in *. cbn. rewrite IH, lookup_app, lookup_map_set. cbn.
    destruct (lookup (rev l) k); [reflexivity|].
    destruct (k0 =? k); reflexivity.
  Qed.

  Lemma wf_build_from l : forall acc, wf acc -> wf (build_from acc l).
  Proof.
    induction l as [|e l IH]; intros acc Hwf; cbn; [exact Hwf|].
    apply IH. now apply wf_map_set.
  Qed.

End AList.

  (* ---------- loops that copy the selected entries of a map into a fresh map ---------- *)

  Lemma build_filter {V W} (sel : Z * V -> bool) (val : Z * V -> W) (m : amapV V) : forall (acc : amapV W),
    wf m -> (forall k, In k (map fst acc) -> ~ In k (map fst m)) ->
    fold_left (fun acc kv => if sel kv then map_set acc (fst kv) (val kv) else acc) m acc
    = acc ++ map (fun kv => (fst kv, val kv)) (filter sel m).
  Proof.
    induction m as [|[k0 v0] m IH]; intros acc Hwf Hdis; cbn.
    - now rewrite app_nil_r.
    - unfold wf in Hwf. cbn in Hwf. inversion Hwf as [|? ? Hnot Hnd]; subst.
      destruct (sel (k0, v0)) eqn:Es; cbn.
      + rewrite map_set_fresh.
        * rewrite IH; [now rewrite <- app_assoc|exact Hnd|].
          intros k Hin. rewrite map_app in Hin. apply in_app_or in Hin as [Hin|Hin].
          -- intros Hm. apply (Hdis k Hin). now right.
          -- cbn in Hin. destruct Hin as [<-|[]]. exact Hnot.
        * intros Hin. apply (Hdis k0 Hin). now left.
      + apply IH; [exact Hnd|]. intros k Hin Hm. apply (Hdis k Hin). now right.
  Qed.

Lemma get_in (m : amap) k v : wf m -> In (k, v) m -> get m k = v.
Proof. intros Hwf Hin. unfold get. now rewrite (in_lookup _ _ _ Hwf Hin). Qed.

Lemma fold_left_ext_in {A B} (f g : A -> B -> A) (l : list B) : forall a,
  (forall a b, In b l -> f a b = g a b) -> fold_left f l a = fold_left g l a.
Proof.
  induction l as [|b l IH]; intros a H; cbn; [reflexivity|].
  rewrite H by now left. apply IH. intros a' b' Hin. apply H. now right.
Qed.

Lemma fold_left_map' {A B C} (f : A -> B -> A) (g : C -> B) (l : list C) : forall a,
  fold_left f (map g l) a = fold_left (fun a x => f a (g x)) l a.
Proof. induction l as [|c l IH]; intros a; cbn; [reflexivity|apply IH]. Qed.

(* ------------------------------------------------------------------ *)
(* Keys / Values / MapCollection: make + fill                           *)

Lemma upd_app_here {A} (pre : list A) x y rest : upd (pre ++ x :: rest) (length pre) y = pre ++ y :: rest.
Proof. induction pre as [|a pre IH]; cbn; [reflexivity|now rewrite IH]. Qed.

Lemma fill_spec {V} (f : Z * V -> Z) (m : amapV V) : forall pre,
  fold_left (fun (st : list Z * nat) kv => let (arr, idx) := st in (upd arr idx (f kv), S idx))
            m (pre ++ repeat 0 (length m), length pre)
  = (pre ++ map f m, (length pre + length m)%nat).
Proof.
  induction m as [|kv m IH]; intros pre; cbn.
  - now rewrite Nat.add_0_r.
  - rewrite upd_app_here.
    replace (pre ++ f kv :: repeat 0 (length m)) with ((pre ++ [f kv]) ++ repeat 0 (length m))
      by now rewrite <- app_assoc.
    replace (S (length pre)) with (length (pre ++ [f kv])) by (rewrite app_length; cbn; lia).
    rewrite IH. rewrite <- app_assoc. cbn. f_equal. rewrite app_length. cbn. lia.
Qed.

Lemma keys_go_spec {V} (m : amapV V) : keys_go m = map fst m.
Proof.
  unfold keys_go. change (repeat 0 (length m), O) with (@nil Z ++ repeat 0 (length m), length (@nil Z)).
  now rewrite (fill_spec fst m []).
Qed.

Lemma values_go_spec m : values_go m = map snd m.
Proof.
  unfold values_go. change (repeat 0 (length m), O) with (@nil Z ++ repeat 0 (length m), length (@nil Z)).
  now rewrite (fill_spec snd m []).
Qed.

Lemma map_collection_spec fn m : map_collection fn m = map (fun kv => fn (snd kv)) m.
Proof.
  unfold map_collection. change (repeat 0 (length m), O) with (@nil Z ++ repeat 0 (length m), length (@nil Z)).
  now rewrite (fill_spec (fun kv => fn (snd kv)) m []).
Qed.

(* ------------------------------------------------------------------ *)
(* Pick / PickBy / FilterMap / MapValues                                *)

Lemma filter_val_id (sel : Z * Z -> bool) (m : amap) :
  map (fun kv => (fst kv, snd kv)) (filter sel m) = filter sel m.
Proof. rewrite <- (map_id (filter sel m)) at 2. apply map_ext. now intros []. Qed.

Lemma pick_loop_spec (sel : Z * Z -> bool) (m : amap) : wf m ->
  fold_left (fun result kv => if sel kv then map_set result (fst kv) (get m (fst kv)) else result) m []
  = filter sel m.
Proof.
  intros Hwf.
  rewrite (fold_left_ext_in _ (fun result kv => if sel kv then map_set result (fst kv) (snd kv) else result)).
  - etransitivity; [exact (build_filter sel snd m [] Hwf ltac:(cbn; tauto))|]. cbn. apply filter_val_id.
  - intros a [k v] Hin. cbn. now rewrite (get_in m k v Hwf Hin).
Qed.

Lemma pick_spec m ks : wf m ->
  pick m ks = match ks with [] => Err 1 | _ => Ok (filter (key_in ks) m) end.
Proof.
  intros Hwf. unfold pick. destruct ks as [|k ks]; [reflexivity|].
  f_equal. apply (pick_loop_spec (key_in (k :: ks)) m Hwf).
Qed.

Lemma pick_by_spec fn m : wf m -> pick_by fn m = filter (kv_ok fn) m.
Proof. intros Hwf. apply (pick_loop_spec (kv_ok fn) m Hwf). Qed.

Lemma filter_map_spec fn m : wf m -> filter_map fn m = filter (val_ok fn) m.
Proof.
  intros Hwf. unfold filter_map.
  etransitivity; [exact (build_filter (val_ok fn) snd m [] Hwf ltac:(cbn; tauto))|].
  cbn. apply filter_val_id.
Qed.

Lemma map_values_spec fn m : wf m -> map_values fn m = map (fun kv => (fst kv, fn (snd kv))) m.
Proof.
  intros Hwf. unfold map_values.
  etransitivity; [exact (build_filter (fun _ => true) (fun kv => fn (snd kv)) m [] Hwf ltac:(cbn; tauto))|].
  cbn. f_equal. clear. induction m; cbn; congruence.
Qed.

(* ------------------------------------------------------------------ *)
(* Omit / OmitBy: delete while ranging                                  *)

Lemma filter_filter {A} (p q : A -> bool) l : filter p (filter q l) = filter (fun x => q x && p x) l.
Proof.
  induction l as [|a l IH]; cbn; [reflexivity|].
  destruct (q a); cbn; [destruct (p a); cbn; now rewrite IH|exact IH].
Qed.

Lemma omit_loop_spec (sel : Z * Z -> bool) (l : amap) : forall coll, wf coll ->
  fold_left (fun coll kv => if sel kv then map_delete coll (fst kv) else coll) l coll
  = filter (fun kv : Z * Z => negb (existsb (fun e : Z * Z => sel e && (fst e =? fst kv)) l)) coll.
Proof.
  induction l as [|e l IH]; intros coll Hwf; cbn.
  - symmetry. now apply filter_all_true.
  - destruct (sel e) eqn:Es; cbn.
    + rewrite IH by (rewrite map_delete_filter by exact Hwf; now apply wf_filter).
      rewrite map_delete_filter by exact Hwf. rewrite filter_filter.
      apply filter_ext. intros [k v]. cbn. rewrite Z.eqb_sym.
      destruct (fst e =? k); cbn; reflexivity.
    + now apply IH.
Qed.

Lemma omit_self_spec (sel : Z * Z -> bool) (m : amap) : wf m ->
  fold_left (fun coll kv => if sel kv then map_delete coll (fst kv) else coll) m m
  = filter (fun kv => negb (sel kv)) m.
Proof.
  intros Hwf. rewrite omit_loop_spec by exact Hwf.
  apply filter_ext_in. intros [k v] Hin. f_equal.
  destruct (sel (k, v)) eqn:Es.
  - apply existsb_exists. exists (k, v). cbn. now rewrite Es, Z.eqb_refl.
  - apply Bool.not_true_is_false. intros Hex. apply existsb_exists in Hex as ([k' v'] & Hin' & Hc).
    cbn in Hc. apply andb_prop in Hc as [Hs Hk]. apply Z.eqb_eq in Hk. subst k'.
    rewrite (in_same_key m k v v' Hwf Hin Hin') in Es. congruence.
Qed.

Lemma omit_spec m ks : wf m -> omit m ks = filter (fun kv => negb (key_in ks kv)) m.
Proof. intros Hwf. apply (omit_self_spec (key_in ks) m Hwf). Qed.

Lemma omit_by_spec fn m : wf m -> omit_by fn m = filter (fun kv => negb (kv_ok fn kv)) m.
Proof. intros Hwf. apply (omit_self_spec (kv_ok fn) m Hwf). Qed.

Lemma filter_partition_perm {A} (p : A -> bool) l :
  Permutation (filter p l ++ filter (fun x => negb (p x)) l) l.
Proof.
  induction l as [|a l IH]; cbn; [constructor|].
  destruct (p a); cbn.
  - now constructor.
  - apply Permutation_sym. apply Permutation_cons_app. now apply Permutation_sym.
Qed.

Lemma filter_disjoint_keys (p : Z * Z -> bool) (m : amap) k :
  wf m -> In k (map fst (filter p m)) -> ~ In k (map fst (filter (fun x => negb (p x)) m)).
Proof.
  intros Hwf H1 H2.
  apply in_map_iff in H1 as ([k1 v1] & Hk1 & Hin1). apply in_map_iff in H2 as ([k2 v2] & Hk2 & Hin2).
  cbn in *. subst k1 k2. apply filter_In in Hin1 as [Hin1 Hp1]. apply filter_In in Hin2 as [Hin2 Hp2].
  rewrite (in_same_key m k v1 v2 Hwf Hin1 Hin2) in Hp1. rewrite Hp1 in Hp2. discriminate.
Qed.

(* ------------------------------------------------------------------ *)
(* MapKeys / Invert / SliceToMap: last assignment wins                  *)

Lemma map_keys_build fn m :
  map_keys fn m = build_from [] (map (fun kv => (fn (fst kv) (snd kv), snd kv)) m).
Proof. unfold map_keys, build_from. now rewrite fold_left_map'. Qed.

Lemma invert_build m : wf m -> invert m = build_from [] (map (fun kv => (snd kv, fst kv)) m).
Proof.
  intros Hwf. unfold invert, build_from. rewrite keys_go_spec, !fold_left_map'. cbn.
  apply fold_left_ext_in. intros a [k v] Hin. cbn. now rewrite (get_in m k v Hwf Hin).
Qed.

Lemma slice_to_map_loop_build s1 : forall s2 acc,
  slice_to_map_loop acc s1 s2 = build_from acc (combine s1 s2).
Proof.
  induction s1 as [|k s1 IH]; intros [|v s2] acc; cbn; try reflexivity.
  now rewrite IH.
Qed.

Lemma lookup_rev_some_in {V} (l : amapV V) k v : lookup (rev l) k = Some v -> In (k, v) l.
Proof. intros H. apply in_rev. now apply lookup_some_in. Qed.

Lemma lookup_rev_covers {V} (l : amapV V) k v : In (k, v) l -> exists v', lookup (rev l) k = Some v'.
Proof.
  intros Hin. destruct (lookup (rev l) k) eqn:E; [eauto|].
  exfalso. apply lookup_none_iff in E. apply E. rewrite map_rev, <- in_rev.
  change k with (fst (k, v)). now apply in_map.
Qed.

(* ------------------------------------------------------------------ *)
(* MapEvery / MapSome / MapContains                                     *)

Lemma map_every_spec fn m : map_every fn m = forallb fn (map snd m).
Proof. induction m as [|[k v] m IH]; cbn; [reflexivity|]. destruct (fn v); cbn; [exact IH|reflexivity]. Qed.
Lemma map_some_spec fn m : map_some fn m = existsb fn (map snd m).
Proof. induction m as [|[k v] m IH]; cbn; [reflexivity|]. destruct (fn v); cbn; [reflexivity|exact IH]. Qed.
Lemma map_contains_iff m x : map_contains m x = true <-> In x (map snd m).
Proof.
  induction m as [|[k v] m IH]; cbn; [split; [discriminate|tauto]|].
  destruct (Z.eqb_spec v x); [subst; tauto|]. rewrite IH. split; [tauto|]. intros [H|H]; [congruence|exact H].
Qed.

(* ------------------------------------------------------------------ *)
(* FindKey / FindByKey / Find / Pluck                                   *)

Lemma find_key_spec fn m :
  (find_key fn m = 0 /\ forall k v, In (k, v) m -> fn v = false) \/
  (exists v, In (find_key fn m, v) m /\ fn v = true).
Proof.
  induction m as [|[k v] m IH]; cbn.
  - left. split; [reflexivity|tauto].
  - destruct (fn v) eqn:E.
    + right. exists v. split; [now left|exact E].
    + destruct IH as [[H0 Hall]|(v' & Hin & Hv')].
      * left. split; [exact H0|]. intros k' v'' [H|H]; [congruence|eauto].
      * right. exists v'. split; [now right|exact Hv'].
Qed.

Lemma find_by_key_spec fn m :
  (find_by_key fn m = [] /\ forall k v, In (k, v) m -> fn k = false) \/
  (exists k v, find_by_key fn m = [(k, v)] /\ In (k, v) m /\ fn k = true).
Proof.
  induction m as [|[k v] m IH]; cbn.
  - left. split; [reflexivity|tauto].
  - destruct (fn k) eqn:E.
    + right. exists k, v. split; [reflexivity|]. split; [now left|exact E].
    + destruct IH as [[H0 Hall]|(k' & v' & Hr & Hin & Hv')].
      * left. split; [exact H0|]. intros k' v'' [H|H]; [congruence|eauto].
      * right. exists k', v'. split; [exact Hr|]. split; [now right|exact Hv'].
Qed.

(* every qualifying entry is the one returned under some iteration order *)
Lemma find_key_any_order fn (m : amap) k v :
  In (k, v) m -> fn v = true -> exists m', Permutation m m' /\ find_key fn m' = k.
Proof.
  intros Hin Hv. apply in_split in Hin as (a & b & ->).
  exists ((k, v) :: a ++ b). split; [apply Permutation_sym, Permutation_middle|].
  cbn. now rewrite Hv.
Qed.
Lemma find_by_key_any_order fn (m : amap) k v :
  In (k, v) m -> fn k = true -> exists m', Permutation m m' /\ find_by_key fn m' = [(k, v)].
Proof.
  intros Hin Hv. apply in_split in Hin as (a & b & ->).
  exists ((k, v) :: a ++ b). split; [apply Permutation_sym, Permutation_middle|].
  cbn. now rewrite Hv.
Qed.

Lemma find_by_key_eq_lookup m key :
  lookup (find_by_key (fun k => k =? key) m) key = lookup m key.
Proof.
  induction m as [|[k v] m IH]; cbn; [reflexivity|].
  destruct (Z.eqb_spec k key) as [->|Hne]; cbn; [now rewrite Z.eqb_refl|exact IH].
Qed.

Lemma fold_append_flat_map {A B} (f : A -> list B) l : forall acc,
  fold_left (fun acc a => acc ++ f a) l acc = acc ++ flat_map f l.
Proof.
  induction l as [|a l IH]; intros acc; cbn; [now rewrite app_nil_r|].
  now rewrite IH, app_assoc.
Qed.

Lemma pluck_spec ms key : pluck ms key = spec_pluck ms key.
Proof.
  unfold pluck, spec_pluck.
  rewrite (fold_left_ext_in _ (fun (acc : list Z) (m : amap) => acc ++ match lookup m key with Some v => [v] | None => [] end)).
  - now rewrite fold_append_flat_map.
  - intros acc m _. unfold get. rewrite find_by_key_eq_lookup.
    destruct (lookup m key); [reflexivity|now rewrite app_nil_r].
Qed.

(* --- Find: sorted keys --- *)

Lemma insert_z_perm x l : Permutation (insert_z x l) (x :: l).
Proof.
  induction l as [|y l IH]; cbn; [constructor; constructor|].
  destruct (x <=? y); [apply Permutation_refl|].
  eapply Permutation_trans; [apply perm_skip; exact IH|apply perm_swap].
Qed.
Lemma sort_z_perm l : Permutation (sort_z l) l.
Proof.
  induction l as [|x l IH]; cbn; [constructor|].
  eapply Permutation_trans; [apply insert_z_perm|now constructor].
Qed.
Lemma insert_z_sorted x l : Sorted Z.le l -> Sorted Z.le (insert_z x l).
Proof.
  induction l as [|y l IH]; cbn; intros Hs; [repeat constructor|].
  destruct (Z.leb_spec x y).
  - constructor; [exact Hs|constructor; exact H].
  - inversion Hs as [|? ? Hs' Hhd]; subst. constructor; [now apply IH|].
    destruct l as [|z l]; cbn; [constructor; lia|].
    destruct (Z.leb_spec x z); constructor; [lia|]. inversion Hhd; subst. assumption.
Qed.
Lemma sort_z_sorted l : Sorted Z.le (sort_z l).
Proof. induction l as [|x l IH]; cbn; [constructor|now apply insert_z_sorted]. Qed.

Lemma find_loop_spec fn m ks :
  (find_loop fn m ks = [] /\ forall k, In k ks -> fn (get m k) = false) \/
  (exists a k b, ks = a ++ k :: b /\ find_loop fn m ks = [(k, get m k)] /\ fn (get m k) = true /\
                 forall k', In k' a -> fn (get m k') = false).
Proof.
  induction ks as [|k ks IH]; cbn.
  - left. split; [reflexivity|tauto].
  - destruct (fn (get m k)) eqn:E.
    + right. exists [], k, ks. cbn. repeat split; auto. tauto.
    + destruct IH as [[H0 Hall]|(a & k' & b & -> & Hr & Hk' & Ha)].
      * left. split; [exact H0|]. intros k' [<-|H]; auto.
      * right. exists (k :: a), k', b. cbn. repeat split; auto. intros k'' [<-|H]; auto.
Qed.

Lemma find_with_spec (sorter : list Z -> list Z) fn m :
  (forall l, Permutation (sorter l) l /\ Sorted Z.le (sorter l)) ->
  wf m ->
  (find_with sorter fn m = [] /\ forall k v, In (k, v) m -> fn v = false) \/
  (exists k v, find_with sorter fn m = [(k, v)] /\ In (k, v) m /\ fn v = true /\
               forall k' v', In (k', v') m -> fn v' = true -> k <= k').
Proof.
  intros Hsort Hwf. unfold find_with. rewrite keys_go_spec.
  destruct (Hsort (map fst m)) as [Hperm Hsorted].
  assert (Hkey : forall k, In k (sorter (map fst m)) <-> In k (map fst m)).
  { intros k. split; intros H.
    - eapply Permutation_in; [exact Hperm|exact H].
    - eapply Permutation_in; [apply Permutation_sym; exact Hperm|exact H]. }
  destruct (find_loop_spec fn m (sorter (map fst m))) as [[H0 Hall]|(a & k & b & Heq & Hr & Hk & Ha)].
  - left. split; [exact H0|]. intros k v Hin.
    rewrite <- (get_in m k v Hwf Hin). apply Hall. apply Hkey.
    change k with (fst (k, v)). now apply in_map.
  - right. exists k, (get m k).
    assert (Hkin : In k (map fst m)) by (apply Hkey; rewrite Heq; apply in_elt).
    apply in_map_iff in Hkin as ([k0 v0] & Hk0 & Hin0). cbn in Hk0. subst k0.
    rewrite (get_in m k v0 Hwf Hin0) in *.
    split; [exact Hr|]. split; [exact Hin0|]. split; [exact Hk|].
    intros k' v' Hin' Hv'.
    assert (Hk'in : In k' (a ++ k :: b)).
    { rewrite <- Heq. apply Hkey. change k' with (fst (k', v')). now apply in_map. }
    apply in_app_or in Hk'in as [Hk'a|[<-|Hk'b]].
    + specialize (Ha k' Hk'a). rewrite (get_in m k' v' Hwf Hin') in Ha. congruence.
    + lia.
    + rewrite Heq in Hsorted. apply Sorted_StronglySorted in Hsorted; [|intros x y z; lia].
      clear - Hsorted Hk'b. induction a as [|x a IH]; cbn in Hsorted.
      * inversion Hsorted as [|? ? _ Hall]; subst. rewrite Forall_forall in Hall. now apply Hall.
      * inversion Hsorted; subst. now apply IH.
Qed.

(* ------------------------------------------------------------------ *)
(* MapUnique                                                            *)

Fixpoint uniq_ref (seen : list Z) (m : amap) : amap :=
  match m with
  | [] => []
  | (k, v) :: m' => if contains seen v then uniq_ref seen m' else (k, v) :: uniq_ref (seen ++ [v]) m'
  end.

Lemma lookup_none_contains (ref : amap) v : lookup ref v = None <-> contains (map fst ref) v = false.
Proof.
  rewrite lookup_none_iff. split; intros H.
  - apply Bool.not_true_is_false. intros Hc. apply H. now apply contains_iff.
  - intros Hin. apply contains_iff in Hin. congruence.
Qed.

Lemma map_unique_loop m : forall result ref,
  wf m -> (forall k, In k (map fst result) -> ~ In k (map fst m)) ->
  fst (fold_left (fun (st : amap * amap) kv =>
                    let (result, ref) := st in
                    match lookup ref (snd kv) with
                    | None => (map_set result (fst kv) (snd kv), map_set ref (snd kv) 1)
                    | Some _ => (result, ref)
                    end) m (result, ref))
  = result ++ uniq_ref (map fst ref) m.
Proof.
  induction m as [|[k v] m IH]; intros result ref Hwf Hdis; cbn.
  - now rewrite app_nil_r.
  - unfold wf in Hwf. cbn in Hwf. inversion Hwf as [|? ? Hnot Hnd]; subst.
    destruct (lookup ref v) eqn:El.
    + assert (Hc : contains (map fst ref) v = true).
      { destruct (contains (map fst ref) v) eqn:Ec; [reflexivity|].
        apply lookup_none_contains in Ec. congruence. }
      rewrite Hc. apply IH; [exact Hnd|]. intros k' Hin Hm. apply (Hdis k' Hin). now right.
    + pose proof El as Ec. apply lookup_none_contains in Ec. rewrite Ec.
      rewrite (map_set_fresh result k v) by (intros Hin; apply (Hdis k Hin); now left).
      rewrite (map_set_fresh ref v 1) by now apply lookup_none_iff.
      rewrite IH.
      * rewrite map_app. cbn. now rewrite <- app_assoc.
      * exact Hnd.
      * intros k' Hin. rewrite map_app in Hin. apply in_app_or in Hin as [Hin|Hin].
        -- intros Hm. apply (Hdis k' Hin). now right.
        -- cbn in Hin. destruct Hin as [<-|[]]. exact Hnot.
Qed.

Lemma map_unique_ref m : wf m -> map_unique m = uniq_ref [] m.
Proof. intros Hwf. unfold map_unique. rewrite map_unique_loop; [reflexivity|exact Hwf|cbn; tauto]. Qed.

Lemma uniq_ref_sub m : forall seen k v, In (k, v) (uniq_ref seen m) -> In (k, v) m /\ ~ In v seen.
Proof.
  induction m as [|[k0 v0] m IH]; intros seen k v; cbn; [tauto|].
  destruct (contains seen v0) eqn:Ec.
  - intros H. apply IH in H as [H1 H2]. split; [now right|exact H2].
  - intros [H|H].
    + injection H as -> ->. split; [now left|]. intros Hin. apply contains_iff in Hin. congruence.
    + apply IH in H as [H1 H2]. split; [now right|]. intros Hin. apply H2. apply in_or_app. now left.
Qed.

Lemma uniq_ref_values_nodup m : forall seen, NoDup (map snd (uniq_ref seen m)).
Proof.
  induction m as [|[k0 v0] m IH]; intros seen; cbn; [constructor|].
  destruct (contains seen v0); [apply IH|]. cbn. constructor; [|apply IH].
  intros Hin. apply in_map_iff in Hin as ([k v] & Hv & Hin). cbn in Hv. subst v.
  apply uniq_ref_sub in Hin as [_ Hnot]. apply Hnot. apply in_or_app. right. now left.
Qed.

Lemma uniq_ref_covers m : forall seen k v, In (k, v) m -> In v seen \/ In v (map snd (uniq_ref seen m)).
Proof.
  induction m as [|[k0 v0] m IH]; intros seen k v; cbn; [tauto|].
  intros [H|H].
  - injection H as -> ->. destruct (contains seen v) eqn:Ec.
    + left. now apply contains_iff.
    + right. cbn. now left.
  - destruct (contains seen v0) eqn:Ec.
    + now apply (IH seen k v).
    + destruct (IH (seen ++ [v0]) k v H) as [Hs|Hs].
      * apply in_app_or in Hs as [Hs|[<-|[]]]; [now left|]. right. cbn. now left.
      * right. cbn. now right.
Qed.

Lemma uniq_ref_wf m : forall seen, wf m -> wf (uniq_ref seen m).
Proof.
  unfold wf. induction m as [|[k0 v0] m IH]; intros seen Hnd; cbn; [constructor|].
  cbn in Hnd. inversion Hnd as [|? ? Hnot Hnd']; subst.
  destruct (contains seen v0); [now apply IH|]. cbn. constructor; [|now apply IH].
  intros Hin. apply Hnot. apply in_map_iff in Hin as ([k v] & Hk & Hin). cbn in Hk. subst k.
  apply uniq_ref_sub in Hin as [Hin _]. change k0 with (fst (k0, v)). now apply in_map.
Qed.

(* ------------------------------------------------------------------ *)
(* PartitionMap, the collection filters                                 *)

Lemma inner_hit_spec {V} (fn : V -> bool) (item : amapV V) : inner_hit fn item = existsb fn (map snd item).
Proof. induction item as [|[k v] item IH]; cbn; [reflexivity|]. destruct (fn v); cbn; [reflexivity|exact IH]. Qed.

Lemma filter_collection_loop {V} (fn : V -> bool) (coll : list (amapV V)) : forall acc,
  fold_left (fun filtered item => if inner_hit fn item then filtered ++ [item] else filtered) coll acc
  = acc ++ spec_filter_collection fn coll.
Proof.
  unfold spec_filter_collection.
  induction coll as [|item coll IH]; intros acc; cbn; [now rewrite app_nil_r|].
  rewrite <- inner_hit_spec. destruct (inner_hit fn item); cbn; rewrite IH; [now rewrite <- app_assoc|reflexivity].
Qed.

Lemma filter_collection_spec {V} (fn : V -> bool) (coll : list (amapV V)) :
  filter_collection fn coll = spec_filter_collection fn coll.
Proof. unfold filter_collection. now rewrite filter_collection_loop. Qed.

Lemma partition_map_loop (fn : amap -> bool) (ms : list amap) : forall a b,
  fold_left (fun (result : list amap * list amap) (m : amap) =>
               match m with
               | [] => result
               | (k, v) :: _ =>
                   let m1 := map_set m k v in
                   if fn m1 then (fst result ++ [m1], snd result) else (fst result, snd result ++ [m1])
               end) ms (a, b)
  = (a ++ fst (spec_partition_map fn ms), b ++ snd (spec_partition_map fn ms)).
Proof.
  unfold spec_partition_map.
  induction ms as [|m ms IH]; intros a b; cbn; [now rewrite !app_nil_r|].
  destruct m as [|[k v] m']; cbn; [apply IH|].
  rewrite Z.eqb_refl. destruct (fn ((k, v) :: m')) eqn:E; cbn; rewrite IH; cbn; now rewrite <- app_assoc.
Qed.

Lemma partition_map_spec fn ms : partition_map fn ms = spec_partition_map fn ms.
Proof. unfold partition_map. now rewrite partition_map_loop. Qed.
